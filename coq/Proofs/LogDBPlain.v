(* C09: the plain-format log db model (Model/LogDBPlain.v) refines the log store spec
   (Model/LogStoreSpec.v). *)
From Coq Require Import List NArith Bool Lia.
From DB Require Import Base.Bytes Gen.GenC09 Model.LogStoreSpec Model.KV Model.LogDBPlain
  Proofs.LogStoreSpec Proofs.LogDBKV.
Import ListNotations.
Open Scope N_scope.

Ltac ktags := unfold KEntry, KState, KMaxIndex, KSnapshot, KBootstrap, KBatch, c09_tag_entry,
  c09_tag_state, c09_tag_max_index, c09_tag_snapshot, c09_tag_bootstrap, c09_tag_entry_batch in *.

(* ---------- keys ---------- *)

Lemma nid_eqb_eq : forall a b, nid_eqb a b = true <-> a = b.
Proof.
  intros [a1 a2] [b1 b2]. unfold nid_eqb; cbn. rewrite andb_true_iff, !N.eqb_eq.
  split; [intros [-> ->]; auto | intros H; inversion H; auto].
Qed.
Lemma nid_eqb_refl : forall a, nid_eqb a a = true.
Proof. intros. now apply nid_eqb_eq. Qed.
Lemma nid_eqb_neq : forall a b, a <> b -> nid_eqb a b = false.
Proof. intros a b H. destruct (nid_eqb a b) eqn:E; auto. apply nid_eqb_eq in E. contradiction. Qed.

(* keys sharing (tag, shard, replica): the order is the order of the index *)
Lemma pre_klt : forall t s r i j, klt (mkKey t s r i) (mkKey t s r j) <-> i < j.
Proof. intros. unfold klt; cbn. lia. Qed.
Lemma pre_kle : forall t s r i j, kle (mkKey t s r i) (mkKey t s r j) <-> i <= j.
Proof.
  intros. unfold kle. rewrite pre_klt. split.
  - intros [H|H]; [lia | inversion H; lia].
  - intros H. destruct (N.eq_dec i j); [right; now subst | left; lia].
Qed.
Lemma pre_between : forall t s r i j k, kle (mkKey t s r i) k -> klt k (mkKey t s r j) ->
  exists x, k = mkKey t s r x /\ i <= x < j.
Proof.
  intros t s r i j [t' s' r' x] H1 H2. unfold kle, klt in *; cbn in *.
  assert (t' = t /\ s' = s /\ r' = r /\ i <= x < j) as (-> & -> & -> & H).
  { destruct H1 as [H1|H1]; [|inversion H1; subst; lia]. lia. }
  exists x. auto.
Qed.

Lemma range_empty : forall m a, kv_range m a a false = [].
Proof.
  intros. unfold kv_range. apply filter_nil. intros [k v] _. cbn. unfold in_rangeb.
  destruct (key_leb a k) eqn:E1; auto. destruct (key_ltb k a) eqn:E2; auto.
  apply key_leb_spec in E1. apply key_ltb_spec in E2. exfalso.
  destruct E1 as [E1|E1]; [eapply klt_irrefl, klt_trans; eauto | subst; eapply klt_irrefl; eauto].
Qed.

Lemma range_inc : forall m a t s r i,
  kv_range m a (mkKey t s r i) true = kv_range m a (mkKey t s r (i + 1)) false.
Proof.
  intros. unfold kv_range. apply filter_ext. intros [k v]. cbn. unfold in_rangeb. f_equal.
  destruct (key_leb k (mkKey t s r i)) eqn:E1; destruct (key_ltb k (mkKey t s r (i + 1))) eqn:E2; auto; exfalso.
  - apply key_leb_spec in E1. apply not_true_iff_false in E2. apply E2. apply key_ltb_spec.
    destruct k as [t' s' r' x]. unfold kle, klt in *; cbn in *.
    destruct E1 as [E1|E1]; [lia | inversion E1; subst; lia].
  - apply key_ltb_spec in E2. apply not_true_iff_false in E1. apply E1. apply key_leb_spec.
    destruct k as [t' s' r' x]. unfold kle, klt in *; cbn in *.
    assert ((t' < t \/ (t' = t /\ (s' < s \/ (s' = s /\ (r' < r \/ (r' = r /\ x < i))))))
            \/ (t' = t /\ s' = s /\ r' = r /\ x = i)) as [H|(-> & -> & -> & ->)] by lia;
      [left; exact H | now right].
Qed.

Lemma nlen_cons : forall {A} (a : A) l, nlen (a :: l) = nlen l + 1.
Proof. intros. unfold nlen. cbn [length]. lia. Qed.
Lemma nlen_app : forall {A} (a b : list A), nlen (a ++ b) = nlen a + nlen b.
Proof. intros. unfold nlen. rewrite app_length. lia. Qed.

(* a scan over a fully populated index range *)
Lemma range_contig : forall es m t s r lo, sorted m -> contig lo es ->
  (forall e, In e es -> kv_get m (mkKey t s r (e_index e)) = Some (VEntry e)) ->
  kv_range m (mkKey t s r lo) (mkKey t s r (lo + nlen es)) false
  = map (fun e => (mkKey t s r (e_index e), VEntry e)) es.
Proof.
  induction es as [|e es IH]; intros m t s r lo HS HC HG.
  - replace (lo + nlen []) with lo by (unfold nlen; cbn; lia). apply range_empty.
  - destruct HC as [HC1 HC2]. rewrite nlen_cons.
    rewrite (range_split m _ (mkKey t s r (lo + 1))) by (auto; apply pre_kle; lia).
    rewrite (range_single m _ _ (mkKey t s r lo)); auto.
    + rewrite <- HC1 at 1. rewrite HG by (left; auto). cbn [map app]. rewrite HC1. f_equal.
      replace (lo + (nlen es + 1)) with (lo + 1 + nlen es) by lia.
      apply IH; auto. intros e' HI. apply HG. now right.
    + intros k' H1 H2. destruct (pre_between _ _ _ _ _ _ H1 H2) as (x & -> & Hx). f_equal. lia.
    + apply pre_kle. lia.
    + apply pre_klt. lia.
Qed.

(* a scan over a range in which nothing is stored *)
Lemma range_none : forall m t s r i j, sorted m ->
  (forall x, i <= x < j -> kv_get m (mkKey t s r x) = None) ->
  kv_range m (mkKey t s r i) (mkKey t s r j) false = [].
Proof.
  intros m t s r i j HS HN. unfold kv_range. apply filter_nil. intros [k v] HI. cbn.
  destruct (in_rangeb (mkKey t s r i) (mkKey t s r j) false k) eqn:E; auto. exfalso.
  unfold in_rangeb in E. apply andb_true_iff in E. destruct E as [E1 E2].
  apply key_leb_spec in E1. apply key_ltb_spec in E2.
  destruct (pre_between _ _ _ _ _ _ E1 E2) as (x & -> & Hx).
  apply get_in in HI; auto. rewrite HN in HI by auto. discriminate.
Qed.

(* ---------- spec side ---------- *)

Lemma contig_app : forall a b i, contig i a -> contig (i + nlen a) b -> contig i (a ++ b).
Proof.
  induction a as [|e a IH]; cbn [app]; intros b i H1 H2.
  - replace (i + nlen []) with i in H2 by (unfold nlen; cbn; lia). exact H2.
  - destruct H1 as [H1 H3]. split; auto. apply IH; auto.
    rewrite nlen_cons in H2. now replace (i + 1 + nlen a) with (i + (nlen a + 1)) by lia.
Qed.

Lemma contig_bounds : forall es i e, contig i es -> In e es -> i <= e_index e < i + nlen es.
Proof.
  induction es as [|e0 es IH]; intros i e HC HI; [contradiction|].
  destruct HC as [HC1 HC2]. rewrite nlen_cons. destruct HI as [HI|HI].
  - subst. lia.
  - specialize (IH _ _ HC2 HI). lia.
Qed.

Lemma contig_below : forall es i j, contig i es -> i <= j -> j <= i + nlen es ->
  contig i (below j es) /\ nlen (below j es) = j - i.
Proof.
  induction es as [|e es IH]; intros i j HC H1 H2.
  - unfold nlen in *; cbn in *. split; auto. lia.
  - destruct HC as [HC1 HC2]. rewrite nlen_cons in H2. unfold below in *. cbn [filter].
    destruct (e_index e <? j) eqn:E.
    + apply N.ltb_lt in E. destruct (IH (i + 1) j HC2) as [IH1 IH2]; try lia.
      split; [split; auto|]. rewrite nlen_cons, IH2. lia.
    + apply N.ltb_ge in E. assert (j = i) by lia. subst j.
      rewrite filter_nil; [split; [exact I | unfold nlen; cbn; lia]|].
      intros e' HI. apply N.ltb_ge. pose proof (contig_bounds _ _ _ HC2 HI). lia.
Qed.

Lemma filter_all : forall {A} (f : A -> bool) l, (forall x, In x l -> f x = true) -> filter f l = l.
Proof. induction l as [|a l IH]; cbn; intros H; auto. rewrite (H a) by auto. f_equal. apply IH. auto. Qed.

Lemma contig_above : forall es i j, contig i es -> i <= j + 1 ->
  contig (j + 1) (above j es) /\ nlen (above j es) = i + nlen es - (j + 1).
Proof.
  induction es as [|e es IH]; intros i j HC H1.
  - unfold nlen; cbn. split; auto. lia.
  - pose proof HC as HC0. destruct HC as [HC1 HC2]. rewrite nlen_cons. unfold above in *.
    assert (HC2' : contig (i + 1) es) by exact HC2.
    destruct (j <? e_index e) eqn:E.
    + apply N.ltb_lt in E. assert (Hi : i = j + 1) by lia.
      rewrite filter_all.
      * split; [rewrite <- Hi; exact HC0 | rewrite nlen_cons; lia].
      * intros e' HI. apply N.ltb_lt. pose proof (contig_bounds _ _ _ HC0 HI). lia.
    + cbn [filter]. rewrite E. apply N.ltb_ge in E.
      destruct (IH (i + 1) j HC2) as [IH1 IH2]; try lia.
      split; auto. rewrite IH2. lia.
Qed.

Lemma contig_nth : forall es i x, contig i es -> i <= x < i + nlen es -> exists e, In e es /\ e_index e = x.
Proof.
  induction es as [|e es IH]; intros i x HC Hx.
  - unfold nlen in Hx; cbn in Hx. lia.
  - destruct HC as [HC1 HC2]. rewrite nlen_cons in Hx. destruct (N.eq_dec x i).
    + exists e. split; [now left | lia].
    + destruct (IH (i + 1) x HC2) as (e' & H1 & H2); [lia|]. exists e'. split; [now right | auto].
Qed.

Lemma contig_inj : forall es i e1 e2, contig i es -> In e1 es -> In e2 es -> e_index e1 = e_index e2 -> e1 = e2.
Proof.
  induction es as [|e es IH]; intros i e1 e2 HC H1 H2 HE; [contradiction|].
  destruct HC as [HC1 HC2].
  destruct H1 as [H1|H1]; destruct H2 as [H2|H2]; subst; auto.
  - pose proof (contig_bounds _ _ _ HC2 H2). lia.
  - pose proof (contig_bounds _ _ _ HC2 H1). lia.
  - eapply IH; eauto.
Qed.

(* the in-range part of a contiguous list *)
Lemma filter_range_contig : forall es a low high, contig a es -> a <= low ->
  contig low (filter (in_range low high) es) /\
  low + nlen (filter (in_range low high) es) = N.max low (N.min high (a + nlen es)).
Proof.
  induction es as [|e es IH]; intros a low high HC HL.
  - unfold nlen; cbn. split; auto. lia.
  - pose proof HC as HC0. destruct HC as [HC1 HC2]. rewrite nlen_cons. cbn [filter].
    assert (in_range low high e = (low <=? a) && (a <? high)) as Hin
      by (unfold in_range; now rewrite HC1).
    rewrite !Hin. clear Hin.
    destruct (low <=? a) eqn:E1; cbn [andb].
    + apply N.leb_le in E1. assert (low = a) by lia. subst low.
      destruct (a <? high) eqn:E2; cbv iota.
      * apply N.ltb_lt in E2.
        assert (filter (in_range a high) es = filter (in_range (a + 1) high) es) as ->.
        { apply filter_ext_in. intros e' HI. pose proof (contig_bounds _ _ _ HC2 HI).
          unfold in_range. f_equal. destruct (a <=? e_index e') eqn:X; destruct (a + 1 <=? e_index e') eqn:Y; auto.
          - apply N.leb_le in X. apply N.leb_gt in Y. lia.
          - apply N.leb_gt in X. apply N.leb_le in Y. lia. }
        destruct (IH (a + 1) (a + 1) high HC2) as [IH1 IH2]; [lia|].
        split; [split; auto|]. rewrite nlen_cons. lia.
      * apply N.ltb_ge in E2. rewrite filter_nil.
        -- split; [exact I | unfold nlen; cbn; lia].
        -- intros e' HI. pose proof (contig_bounds _ _ _ HC2 HI). unfold in_range.
           apply andb_false_iff. right. apply N.ltb_ge. lia.
    + cbv iota. apply N.leb_gt in E1. destruct (IH (a + 1) low high HC2) as [IH1 IH2]; [lia|].
      split; auto. rewrite IH2. lia.
Qed.

Lemma plain_scan_contig : forall (kf : entry -> key) F expected size maxsz, contig expected F ->
  plain_scan (map (fun e => (kf e, VEntry e)) F) expected size maxsz = Some (take_size maxsz size F).
Proof.
  induction F as [|e F IH]; intros expected size maxsz HC; [reflexivity|].
  destruct HC as [HC1 HC2]. cbn [map plain_scan take_size]. rewrite HC1, N.eqb_refl.
  destruct (maxsz <? size + esize e); auto.
  rewrite (IH (expected + 1) (size + esize e) maxsz HC2).
  now destruct (take_size maxsz (size + esize e) F).
Qed.

(* ---------- the refinement relation ---------- *)

Definition wt (k : key) (v : value) : Prop :=
  (k_tag k = c09_tag_entry -> exists e, v = VEntry e /\ e_index e = k_index k /\ 0 < k_index k) /\
  (k_tag k = c09_tag_snapshot -> exists ss, v = VSnap ss /\ ss_index ss = k_index k) /\
  (k_tag k = c09_tag_state -> exists st, v = VState st) /\
  (k_tag k = c09_tag_max_index -> exists i, v = VMax i).
Definition WT (m : kv) : Prop := forall k v, kv_get m k = Some v -> wt k v.

Record Rn (m : kv) (cn : cnode) (nd : rnode) (n : nid) : Prop := mkRn {
  r_contig : contig (n_marker nd + 1) (n_ents nd);
  r_ents : forall e, In e (n_ents nd) -> kv_get m (KEntry n (e_index e)) = Some (VEntry e);
  r_max : kv_get m (KMaxIndex n) = Some (VMax (n_last nd)) \/
          (kv_get m (KMaxIndex n) = None /\ n_last nd = 0);
  r_cmax : forall v, c_max cn = Some v -> v = n_last nd;
  r_state : kv_get m (KState n) = option_map VState (n_st nd);
  r_cstate : forall st, c_state cn = Some st -> n_st nd = Some st;
  r_snap_hi : forall i, n_ssidx nd < i -> kv_get m (KSnapshot n i) = None;
  r_snap : match n_ss nd with
           | Some ss => kv_get m (KSnapshot n (ss_index ss)) = Some (VSnap ss) /\ 0 < ss_index ss
           | None => forall i, kv_get m (KSnapshot n i) = None
           end;
  r_csnap : forall v, c_snap cn = Some v -> v <= n_ssidx nd;
  r_ssb : n_ssidx nd < max_index;
  r_lastb : n_last nd < max_index
}.

Definition R (d : pdb) (s : sstate) : Prop :=
  sorted (p_kv d) /\ WT (p_kv d) /\ forall n, Rn (p_kv d) (p_cache d n) (s n) n.

Lemma nlen_zero : forall {A} (l : list A), nlen l = 0 -> l = [].
Proof. intros A [|a l]; auto. rewrite nlen_cons. lia. Qed.

(* ---------- IterateEntries ---------- *)

Lemma get_max_index_R : forall d s n, R d s ->
  get_max_index d n = Some (Some (n_last (s n))) \/
  (get_max_index d n = Some None /\ n_last (s n) = 0).
Proof.
  intros d s n (HS & HW & HR). specialize (HR n). unfold get_max_index.
  destruct (c_max (p_cache d n)) eqn:E.
  - left. now rewrite (r_cmax _ _ _ _ HR _ E).
  - destruct (r_max _ _ _ _ HR) as [H|[H H']]; rewrite H; auto.
Qed.

Lemma iterate_refines : forall d s n low high maxsz, R d s ->
  spec_wf_query s (QIter n low high maxsz) = true ->
  canon (QIter n low high maxsz) (p_iterate d n low high maxsz) = spec_answer s (QIter n low high maxsz).
Proof.
  intros d s n low high maxsz HR Hwf. pose proof HR as (HS & HW & HRn). specialize (HRn n).
  cbn [spec_wf_query] in Hwf. rewrite !andb_true_iff in Hwf. destruct Hwf as (((W1 & W2) & W3) & W4).
  apply N.ltb_lt in W1. apply N.leb_le in W2.
  cbn [spec_answer]. unfold p_iterate, p_iterate_with.
  pose proof (r_contig _ _ _ _ HRn) as HC.
  destruct (filter_range_contig _ _ low high HC ltac:(lia)) as [FC FL].
  set (F := filter (in_range low high) (n_ents (s n))) in *.
  destruct (get_max_index_R d s n HR) as [HM|[HM HL]]; rewrite HM.
  2:{ unfold n_last in HL. assert (n_ents (s n) = []) as HE by (apply nlen_zero; lia).
      subst F. rewrite HE. reflexivity. }
  fold (n_last (s n)) in FL. unfold plain_iterate.
  destruct ((low + 1 =? high) && (low <=? n_last (s n))) eqn:E.
  - apply andb_true_iff in E. destruct E as [E1 E2]. apply N.eqb_eq in E1. apply N.leb_le in E2.
    destruct (contig_nth _ _ low HC) as (e & He1 & He2); [unfold n_last in *; lia|].
    rewrite <- He2. rewrite (r_ents _ _ _ _ HRn e He1).
    assert (F = [e]) as ->.
    { assert (nlen F = 1) by (unfold n_last in *; lia). destruct F as [|e' [|e'' F']] eqn:EF;
        try (rewrite ?nlen_cons in H; unfold nlen in H; cbn in H; lia).
      destruct FC as [FC _]. f_equal.
      assert (In e' (filter (in_range low high) (n_ents (s n)))) as HI by (fold F; rewrite EF; now left).
      apply filter_In in HI. destruct HI as [HI _]. eapply contig_inj; eauto. lia. }
    cbn [take_size canon]. replace (0 + esize e) with (esize e) by lia.
    now destruct (maxsz <? esize e).
  - set (high' := if n_last (s n) + 1 <? high then n_last (s n) + 1 else high).
    assert (high' = N.min high (n_last (s n) + 1)) as Hh.
    { unfold high'. destruct (n_last (s n) + 1 <? high) eqn:X;
        [apply N.ltb_lt in X | apply N.ltb_ge in X]; lia. }
    assert (kv_range (p_kv d) (KEntry n low) (KEntry n high') false
            = map (fun e => (KEntry n (e_index e), VEntry e)) F) as ->.
    { destruct (N.le_gt_cases high' low) as [X|X].
      - assert (F = []) as -> by (apply nlen_zero; unfold n_last in *; lia).
        cbn [map]. unfold KEntry. apply range_none; auto. intros x Hx. lia.
      - replace high' with (low + nlen F) by (unfold n_last in *; lia).
        unfold KEntry. apply range_contig; auto.
        intros e HI. apply filter_In in HI. destruct HI as [HI _].
        apply (r_ents _ _ _ _ HRn e HI). }
    rewrite (plain_scan_contig _ F low 0 maxsz FC).
    destruct (take_size maxsz 0 F). reflexivity.
Qed.

(* ---------- ReadRaftState ---------- *)

Lemma get_state_R : forall d s n, R d s -> get_state (p_kv d) n = Some (n_st (s n)).
Proof.
  intros d s n (HS & HW & HR). unfold get_state. rewrite (r_state _ _ _ _ (HR n)).
  now destruct (n_st (s n)).
Qed.

Lemma plain_get_range_R : forall d s n arg, R d s ->
  n_marker (s n) <= arg -> arg < n_last (s n) ->
  exists first, plain_get_range (p_kv d) n arg (n_last (s n)) = Some (first, n_last (s n) - first + 1)
                /\ arg <= first <= arg + 1 /\ 0 < first.
Proof.
  intros d s n arg (HS & HW & HR) H1 H2. specialize (HR n).
  pose proof (r_contig _ _ _ _ HR) as HC. unfold n_last in *.
  unfold plain_get_range. unfold KEntry at 2. rewrite range_inc.
  unfold KEntry. rewrite (range_split _ _ (mkKey c09_tag_entry (fst n) (snd n) (arg + 1)))
    by (auto; apply pre_kle; lia).
  rewrite (range_single _ _ _ (mkKey c09_tag_entry (fst n) (snd n) arg)); auto.
  2:{ intros k' K1 K2. destruct (pre_between _ _ _ _ _ _ K1 K2) as (x & -> & Hx). f_equal. lia. }
  2:{ apply pre_kle. lia. }
  2:{ apply pre_klt. lia. }
  destruct (kv_get (p_kv d) (mkKey c09_tag_entry (fst n) (snd n) arg)) eqn:G.
  - destruct (HW _ _ G) as (W1 & _). destruct (W1 eq_refl) as (e & -> & We & Wp). cbn in We, Wp.
    cbn [app]. rewrite We. assert (arg =? 0 = false) as -> by (apply N.eqb_neq; lia).
    exists arg. repeat split; auto; lia.
  - cbn [app].
    destruct (filter_range_contig _ _ (arg + 1) (n_marker (s n) + nlen (n_ents (s n)) + 1) HC ltac:(lia)) as [FC FL].
    set (F := filter (in_range (arg + 1) (n_marker (s n) + nlen (n_ents (s n)) + 1)) (n_ents (s n))) in *.
    assert (mkKey c09_tag_entry (fst n) (snd n) (n_marker (s n) + nlen (n_ents (s n)) + 1)
            = mkKey c09_tag_entry (fst n) (snd n) (arg + 1 + nlen F)) as -> by (f_equal; lia).
    rewrite (range_contig F); auto.
    2:{ intros e HI. apply filter_In in HI. destruct HI as [HI _]. apply (r_ents _ _ _ _ HR e HI). }
    destruct F as [|e F'] eqn:EF; [change (nlen (@nil entry)) with 0 in FL; lia|].
    destruct FC as [FC1 FC2]. cbn [map]. rewrite FC1.
    assert (arg + 1 =? 0 = false) as -> by (apply N.eqb_neq; lia).
    exists (arg + 1). repeat split; auto; lia.
Qed.

Lemma read_state_refines : forall d s n arg, R d s ->
  spec_wf_query s (QState n arg) = true ->
  canon (QState n arg) (p_read_raft_state d n arg) = spec_answer s (QState n arg).
Proof.
  intros d s n arg HR Hwf. cbn [spec_wf_query] in Hwf. apply andb_true_iff in Hwf.
  destruct Hwf as [W1 W2]. apply N.leb_le in W1, W2.
  cbn [spec_answer]. unfold p_read_raft_state, p_read_raft_state_with.
  rewrite (get_state_R d s n HR).
  destruct (get_max_index_R d s n HR) as [HM|[HM HL]]; rewrite HM.
  - destruct (arg =? n_last (s n)) eqn:E.
    + apply N.eqb_eq in E. destruct (n_st (s n)); cbn [canon]; auto.
      assert (arg <? n_last (s n) = false) as -> by (apply N.ltb_ge; lia). reflexivity.
    + apply N.eqb_neq in E.
      destruct (plain_get_range_R d s n arg HR W1 ltac:(lia)) as (first & -> & Hf & Hp).
      destruct (n_st (s n)); cbn [canon]; auto.
      assert (arg <? n_last (s n) = true) as -> by (apply N.ltb_lt; lia).
      assert (0 <? n_last (s n) - first + 1 = true) as -> by (apply N.ltb_lt; lia).
      cbn [andb]. destruct (first <? arg + 1) eqn:X.
      * apply N.ltb_lt in X. assert (first = arg) by lia. subst first.
        replace (arg + 1 - arg) with 1 by lia.
        assert (n_last (s n) - arg + 1 <=? 1 = false) as -> by (apply N.leb_gt; lia).
        f_equal. lia.
      * apply N.ltb_ge in X. assert (first = arg + 1) by lia. subst first.
        assert (n_last (s n) - (arg + 1) + 1 =? 0 = false) as -> by (apply N.eqb_neq; lia).
        f_equal. lia.
  - destruct (n_st (s n)); cbn [canon]; auto.
    assert (arg <? n_last (s n) = false) as -> by (apply N.ltb_ge; lia). reflexivity.
Qed.

(* ---------- snapshot records ---------- *)

Definition snaps_of (l : kv) : option (list snapshot) :=
  fold_right (fun kv acc =>
      match acc, snd kv with
      | Some l, VSnap ss => Some (ss :: l)
      | _, _ => None
      end) (Some []) l.

Lemma list_snapshots_eq : forall m n,
  list_snapshots m n = snaps_of (kv_range m (KSnapshot n 0) (KSnapshot n (u64max + 1)) false).
Proof. intros. unfold list_snapshots, snaps_of. unfold KSnapshot at 2. now rewrite range_inc. Qed.

Lemma snaps_of_app : forall a b x y, snaps_of a = Some x -> snaps_of b = Some y ->
  snaps_of (a ++ b) = Some (x ++ y).
Proof.
  induction a as [|[k v] a IH]; cbn [app]; intros b x y H1 H2.
  - cbn in H1. inversion H1. auto.
  - cbn [snaps_of fold_right snd] in *. fold (snaps_of a) in H1. fold (snaps_of (a ++ b)).
    destruct (snaps_of a) as [xa|] eqn:EA; [|discriminate].
    destruct v; try discriminate. inversion H1; subst.
    rewrite (IH b xa y eq_refl H2). reflexivity.
Qed.

Lemma snaps_of_all : forall l, (forall k v, In (k, v) l -> exists ss, v = VSnap ss) ->
  exists x, snaps_of l = Some x /\ forall ss, In ss x <-> exists k, In (k, VSnap ss) l.
Proof.
  induction l as [|[k v] l IH]; intros H.
  - exists []. split; auto. intros ss. split; [contradiction | intros [k []]].
  - destruct IH as (x & Hx & Hin); [intros; eapply H; right; eauto|].
    destruct (H k v (or_introl eq_refl)) as (ss0 & ->).
    exists (ss0 :: x). split.
    + cbn [snaps_of fold_right snd]. fold (snaps_of l). now rewrite Hx.
    + intros ss. cbn [In]. rewrite Hin. split.
      * intros [->|[k' H']]; [exists k; now left | exists k'; now right].
      * intros [k' [H'|H']]; [inversion H'; now left | right; now exists k'].
Qed.

Lemma snap_range_elems : forall m n i j k v, sorted m -> WT m ->
  In (k, v) (kv_range m (KSnapshot n i) (KSnapshot n j) false) ->
  exists ss, v = VSnap ss /\ k = KSnapshot n (ss_index ss) /\ i <= ss_index ss < j /\
             kv_get m (KSnapshot n (ss_index ss)) = Some (VSnap ss).
Proof.
  intros m n i j k v HS HW HI. unfold kv_range in HI. apply filter_In in HI. destruct HI as [HI HR].
  cbn [fst] in HR. unfold in_rangeb in HR. apply andb_true_iff in HR. destruct HR as [R1 R2].
  apply key_leb_spec in R1. apply key_ltb_spec in R2. unfold KSnapshot in *.
  destruct (pre_between _ _ _ _ _ _ R1 R2) as (x & -> & Hx).
  apply get_in in HI; auto. destruct (HW _ _ HI) as (_ & W & _).
  destruct (W eq_refl) as (ss & -> & Wi). cbn in Wi. subst x. exists ss. auto.
Qed.

Lemma list_snapshots_spec : forall m n, sorted m -> WT m ->
  exists l, list_snapshots m n = Some l /\
    forall ss, In ss l <-> (kv_get m (KSnapshot n (ss_index ss)) = Some (VSnap ss) /\ ss_index ss <= u64max).
Proof.
  intros m n HS HW. rewrite list_snapshots_eq.
  destruct (snaps_of_all (kv_range m (KSnapshot n 0) (KSnapshot n (u64max + 1)) false)) as (x & Hx & Hin).
  { intros k v HI. destruct (snap_range_elems _ _ _ _ _ _ HS HW HI) as (ss & -> & _). eauto. }
  exists x. split; auto. intros ss. rewrite Hin. split.
  - intros [k HI]. destruct (snap_range_elems _ _ _ _ _ _ HS HW HI) as (ss' & E & _ & Hb & HG).
    inversion E; subst ss'. split; auto. lia.
  - intros [HG Hb]. exists (KSnapshot n (ss_index ss)). unfold kv_range. apply filter_In. split.
    + now apply get_in.
    + cbn [fst]. unfold in_rangeb. apply andb_true_iff. split.
      * apply key_leb_spec. unfold KSnapshot. apply pre_kle. lia.
      * apply key_ltb_spec. unfold KSnapshot. apply pre_klt. lia.
Qed.

Lemma last_opt_snoc : forall {A} (l : list A) a, last_opt (l ++ [a]) = Some a.
Proof.
  induction l as [|b l IH]; intros a; [reflexivity|].
  cbn [app last_opt]. rewrite IH. destruct (l ++ [a]) eqn:E; auto. destruct l; discriminate.
Qed.

Lemma list_snapshots_last : forall m n ss, sorted m -> WT m ->
  kv_get m (KSnapshot n (ss_index ss)) = Some (VSnap ss) -> ss_index ss <= u64max ->
  (forall i, ss_index ss < i -> kv_get m (KSnapshot n i) = None) ->
  exists l1, list_snapshots m n = Some (l1 ++ [ss]).
Proof.
  intros m n ss HS HW HG Hb HN. rewrite list_snapshots_eq. unfold KSnapshot in *.
  rewrite (range_split _ _ (mkKey c09_tag_snapshot (fst n) (snd n) (ss_index ss))) by (auto; apply pre_kle; lia).
  rewrite (range_split _ (mkKey c09_tag_snapshot (fst n) (snd n) (ss_index ss))
             (mkKey c09_tag_snapshot (fst n) (snd n) (ss_index ss + 1))) by (auto; apply pre_kle; lia).
  rewrite (range_single m (mkKey c09_tag_snapshot (fst n) (snd n) (ss_index ss))
             (mkKey c09_tag_snapshot (fst n) (snd n) (ss_index ss + 1))
             (mkKey c09_tag_snapshot (fst n) (snd n) (ss_index ss))); auto.
  2:{ intros k' K1 K2. destruct (pre_between _ _ _ _ _ _ K1 K2) as (x & -> & Hx). f_equal. lia. }
  2:{ apply pre_kle. lia. }
  2:{ apply pre_klt. lia. }
  rewrite HG. rewrite (range_none _ _ _ _ (ss_index ss + 1)); auto.
  2:{ intros x Hx. apply HN. lia. }
  destruct (snaps_of_all (kv_range m (mkKey c09_tag_snapshot (fst n) (snd n) 0)
                                     (mkKey c09_tag_snapshot (fst n) (snd n) (ss_index ss)) false)) as (x & Hx & _).
  { intros k v HI. destruct (snap_range_elems m n 0 (ss_index ss) k v HS HW HI) as (ss' & -> & _). eauto. }
  exists x. apply snaps_of_app; auto.
Qed.

Lemma list_snapshots_none : forall m n, sorted m ->
  (forall i, kv_get m (KSnapshot n i) = None) -> list_snapshots m n = Some [].
Proof.
  intros m n HS HN. rewrite list_snapshots_eq. unfold KSnapshot.
  rewrite range_none; [reflexivity | auto | intros; apply HN].
Qed.

Lemma Rn_cache_snap : forall m cn nd n v, Rn m cn nd n -> v <= n_ssidx nd ->
  Rn m (mkC (c_state cn) (c_max cn) (Some v) (c_batch cn)) nd n.
Proof.
  intros m cn nd n v H Hv. destruct H. constructor; auto. cbn. intros v' E. inversion E; subst; auto.
Qed.

Lemma max_index_u64 : max_index <= u64max.
Proof. unfold max_index, u64max. lia. Qed.

Lemma get_snapshot_refines : forall d s n, R d s ->
  canon (QSnap n) (fst (p_get_snapshot d n)) = spec_answer s (QSnap n) /\ R (snd (p_get_snapshot d n)) s.
Proof.
  intros d s n HR. pose proof HR as (HS & HW & HRn). pose proof (HRn n) as Hn.
  cbn [spec_answer]. unfold p_get_snapshot. pose proof (r_snap _ _ _ _ Hn) as Hs.
  pose proof max_index_u64 as HU. pose proof (r_ssb _ _ _ _ Hn) as Hb.
  destruct (n_ss (s n)) as [ss|] eqn:E.
  - destruct Hs as [Hs Hp].
    assert (n_ssidx (s n) = ss_index ss) as Hidx by (unfold n_ssidx; now rewrite E).
    destruct (list_snapshots_last _ n ss HS HW Hs) as (l1 & ->); [lia | |].
    { intros i Hi. apply (r_snap_hi _ _ _ _ Hn). lia. }
    rewrite last_opt_snoc. cbn [fst snd canon]. split; auto.
    split; [exact HS | split; [exact HW|]]. cbn [p_kv p_cache]. intros n'. unfold cs_set_snapshot_index, cupd.
    destruct (nid_eqb n' n) eqn:EN; auto. apply nid_eqb_eq in EN. subst n'.
    apply Rn_cache_snap; auto. lia.
  - rewrite (list_snapshots_none _ n HS Hs). cbn. auto.
Qed.

(* ---------- frames ---------- *)

Definition key_node (k : key) : nid := (k_shard k, k_replica k).

Lemma Rn_frame : forall m m' cn nd n, Rn m cn nd n ->
  (forall k, key_node k = n -> kv_get m' k = kv_get m k) -> Rn m' cn nd n.
Proof.
  intros m m' cn nd n H HF. destruct n as [sh re].
  assert (forall k, key_node k = (sh, re) -> kv_get m' k = kv_get m k) as HF' by auto.
  destruct H. constructor; auto.
  - intros e HI. rewrite HF' by reflexivity. auto.
  - rewrite !HF' by reflexivity. auto.
  - rewrite HF' by reflexivity. auto.
  - intros i Hi. rewrite HF' by reflexivity. auto.
  - destruct (n_ss nd).
    + rewrite HF' by reflexivity. auto.
    + intros i. rewrite HF' by reflexivity. auto.
Qed.

Lemma Rn_cache_empty : forall m cn nd n, Rn m cn nd n -> Rn m cnode_empty nd n.
Proof. intros m cn nd n H. destruct H. constructor; auto; cbn; intros; discriminate. Qed.

Lemma WT_commit : forall w m, sorted m -> WT m ->
  (forall k v, In (WPut k v) w -> wt k v) -> WT (kv_commit m w).
Proof.
  induction w as [|o w IH]; intros m HS HW HP; [exact HW|].
  change (kv_commit m (o :: w)) with (kv_commit (kv_apply m o) w). apply IH.
  - destruct o; cbn; [now apply sorted_put | now apply sorted_del].
  - intros k v. destruct o as [k0 v0|k0]; cbn [kv_apply].
    + rewrite get_put by auto. destruct (key_eqb k k0) eqn:E.
      * apply key_eqb_eq in E. subst. intros H; inversion H; subst. apply HP. now left.
      * apply HW.
    + rewrite get_del by auto. destruct (key_eqb k k0); [discriminate | apply HW].
  - intros k v HI. apply HP. now right.
Qed.

Lemma WT_del_range : forall m fk lk, sorted m -> WT m -> WT (kv_del_range m fk lk).
Proof.
  intros m fk lk HS HW k v. rewrite get_del_range by auto.
  destruct (in_rangeb fk lk false k); [discriminate | apply HW].
Qed.

Lemma nid_eta : forall n : nid, (fst n, snd n) = n.
Proof. now intros [a b]. Qed.

(* the keys removed by RemoveEntriesTo *)
Lemma entry_range_spec : forall n idx k,
  in_rangeb (KEntry n 0) (KEntry n idx) false k = true <->
  exists x, k = KEntry n x /\ x < idx.
Proof.
  intros n idx k. unfold in_rangeb. rewrite andb_true_iff, key_leb_spec, key_ltb_spec. unfold KEntry. split.
  - intros [H1 H2]. destruct (pre_between _ _ _ _ _ _ H1 H2) as (x & -> & Hx). exists x. split; auto. lia.
  - intros (x & -> & Hx). split; [apply pre_kle; lia | apply pre_klt; lia].
Qed.

Lemma del_range_other : forall m n idx k, sorted m ->
  (forall x, x < idx -> k <> KEntry n x) ->
  kv_get (kv_del_range m (KEntry n 0) (KEntry n idx)) k = kv_get m k.
Proof.
  intros m n idx k HS H. rewrite get_del_range by auto.
  destruct (in_rangeb (KEntry n 0) (KEntry n idx) false k) eqn:E; auto.
  apply entry_range_spec in E. destruct E as (x & -> & Hx). exfalso. eapply H; eauto.
Qed.

(* ---------- close / reopen ---------- *)

Lemma reopen_R : forall d s, R d s -> R (p_reopen d) s.
Proof.
  intros d s (HS & HW & HR). split; [exact HS | split; [exact HW|]]. intros n. cbn.
  eapply Rn_cache_empty. apply HR.
Qed.

(* ---------- RemoveEntriesTo ---------- *)

Lemma supd_same : forall s n v, supd s n v n = v.
Proof. intros. unfold supd. now rewrite nid_eqb_refl. Qed.
Lemma supd_other : forall s n v m, m <> n -> supd s n v m = s m.
Proof. intros. unfold supd. now rewrite nid_eqb_neq. Qed.

Lemma key_node_neq : forall (k k' : key), key_node k <> key_node k' -> k <> k'.
Proof. intros k k' H E. apply H. now subst. Qed.

Lemma remove_entries_to_R : forall d s n idx, R d s -> spec_wf_op s (ORemTo n idx) = true ->
  R (p_remove_entries_to d n idx) (spec_step s (ORemTo n idx)).
Proof.
  intros d s n idx (HS & HW & HR) Hwf. cbn [spec_wf_op] in Hwf. apply andb_true_iff in Hwf.
  destruct Hwf as [W1 W2]. apply N.leb_le in W1, W2.
  split; [now apply sorted_del_range | split; [now apply WT_del_range|]].
  intros n'. cbn [p_remove_entries_to p_kv p_cache spec_step].
  destruct (nid_eqb n' n) eqn:EN.
  - apply nid_eqb_eq in EN. subst n'. pose proof (HR n) as Hn.
    assert (HO : forall k, (forall x, k <> KEntry n x) ->
              kv_get (kv_del_range (p_kv d) (KEntry n 0) (KEntry n idx)) k = kv_get (p_kv d) k).
    { intros k Hk. apply del_range_other; auto. }
    assert (HE : forall x, idx <= x ->
              kv_get (kv_del_range (p_kv d) (KEntry n 0) (KEntry n idx)) (KEntry n x) = kv_get (p_kv d) (KEntry n x)).
    { intros x Hx. apply del_range_other; auto. intros y Hy E. ktags. inversion E. lia. }
    pose proof (r_contig _ _ _ _ Hn) as HC.
    destruct (n_marker (s n) <? idx) eqn:EM.
    + apply N.ltb_lt in EM. rewrite supd_same.
      destruct (contig_above _ _ idx HC ltac:(lia)) as [CA CL]. unfold n_last in *.
      destruct Hn. constructor; cbn [n_marker n_ents n_st n_ss n_mterm]; auto.
      * intros e HI. unfold above in HI. apply filter_In in HI. destruct HI as [HI HX].
        apply N.ltb_lt in HX. rewrite HE by lia. auto.
      * rewrite HO by (intros x E; ktags; inversion E). unfold n_last in *. cbn [n_marker n_ents].
        rewrite CL. replace (idx + (n_marker (s n) + 1 + nlen (n_ents (s n)) - (idx + 1)))
          with (n_marker (s n) + nlen (n_ents (s n))) by lia. auto.
      * intros v Hv. unfold n_last. cbn [n_marker n_ents]. rewrite CL. rewrite (r_cmax0 v Hv). unfold n_last. lia.
      * rewrite HO by (intros x E; ktags; inversion E). auto.
      * intros i Hi. rewrite HO by (intros x E; ktags; inversion E). auto.
      * destruct (n_ss (s n)).
        -- rewrite HO by (intros x E; ktags; inversion E). auto.
        -- intros i. rewrite HO by (intros x E; ktags; inversion E). auto.
      * unfold n_last in *. cbn [n_marker n_ents]. rewrite CL. lia.
    + apply N.ltb_ge in EM. destruct Hn. constructor; auto.
      * intros e HI. pose proof (contig_bounds _ _ _ HC HI). rewrite HE by lia. auto.
      * rewrite HO by (intros x E; ktags; inversion E). auto.
      * rewrite HO by (intros x E; ktags; inversion E). auto.
      * intros i Hi. rewrite HO by (intros x E; ktags; inversion E). auto.
      * destruct (n_ss (s n)).
        -- rewrite HO by (intros x E; ktags; inversion E). auto.
        -- intros i. rewrite HO by (intros x E; ktags; inversion E). auto.
  - assert (n' <> n) as HN by (intros ->; rewrite nid_eqb_refl in EN; discriminate).
    assert (Rn (kv_del_range (p_kv d) (KEntry n 0) (KEntry n idx)) (p_cache d n') (s n') n') as HF.
    { eapply Rn_frame; [apply HR|]. intros k Hk. apply del_range_other; auto.
      intros x _ E. subst k. apply HN. rewrite <- Hk. unfold key_node, KEntry. cbn. apply nid_eta. }
    destruct (n_marker (s n) <? idx); [rewrite supd_other by auto|]; exact HF.
Qed.

(* ---------- snapshot records: saving ---------- *)

Lemma wb_last_dels : forall ks k,
  wb_last (map WDel ks) k = if existsb (key_eqb k) ks then Some None else None.
Proof.
  induction ks as [|k0 ks IH]; intros k; cbn [map wb_last existsb]; auto.
  rewrite IH. cbn [wkey]. destruct (existsb (key_eqb k) ks); [now rewrite orb_true_r|].
  rewrite orb_false_r. now destruct (key_eqb k k0).
Qed.

Lemma save_snapshot_wb_some : forall m n ss l, list_snapshots m n = Some l -> ss_emptyb ss = false ->
  save_snapshot_wb m n ss =
  Some (map WDel (map (fun old => KSnapshot n (ss_index old)) (filter (fun old => ss_index old <? ss_index ss) l))
        ++ [WPut (KSnapshot n (ss_index ss)) (VSnap ss)]).
Proof. intros m n ss l H E. unfold save_snapshot_wb. rewrite E, H. now rewrite map_map. Qed.

Lemma KSnapshot_inj : forall n i j, KSnapshot n i = KSnapshot n j -> i = j.
Proof. intros n i j H. unfold KSnapshot in H. now inversion H. Qed.

Lemma existsb_snap_keys : forall n (l : list snapshot) k,
  existsb (key_eqb k) (map (fun old => KSnapshot n (ss_index old)) l) = true <->
  exists old, In old l /\ k = KSnapshot n (ss_index old).
Proof.
  intros n l k. rewrite existsb_exists. split.
  - intros (x & HI & HE). apply in_map_iff in HI. destruct HI as (old & <- & HI).
    apply key_eqb_eq in HE. eauto.
  - intros (old & HI & ->). exists (KSnapshot n (ss_index old)). split; [|apply key_eqb_refl].
    apply in_map_iff. eauto.
Qed.

(* the effect of the snapshot part of a batch on the snapshot keys of the node *)
Lemma snap_wb_effect : forall m n ss l, sorted m -> WT m ->
  list_snapshots m n = Some l ->
  (forall old, In old l <-> (kv_get m (KSnapshot n (ss_index old)) = Some (VSnap old) /\ ss_index old <= u64max)) ->
  ss_index ss <= u64max ->
  let w := map WDel (map (fun old => KSnapshot n (ss_index old)) (filter (fun old => ss_index old <? ss_index ss) l))
           ++ [WPut (KSnapshot n (ss_index ss)) (VSnap ss)] in
  wb_last w (KSnapshot n (ss_index ss)) = Some (Some (VSnap ss)) /\
  (forall i, i < ss_index ss -> wb_last w (KSnapshot n i) = Some None \/
                               (wb_last w (KSnapshot n i) = None /\ kv_get m (KSnapshot n i) = None)) /\
  (forall k, (forall i, i <= ss_index ss -> k <> KSnapshot n i) -> wb_last w k = None).
Proof.
  intros m n ss l HS HW HL Hl Hb w. subst w. repeat split.
  - rewrite wb_last_app. cbn [wb_last wkey]. now rewrite key_eqb_refl.
  - intros i Hi. rewrite wb_last_app. cbn [wb_last wkey].
    rewrite key_eqb_neq by (intros E; apply KSnapshot_inj in E; lia).
    rewrite wb_last_dels.
    destruct (existsb _ _) eqn:E; [now left | right; split; auto].
    destruct (kv_get m (KSnapshot n i)) eqn:G; auto. exfalso.
    destruct (HW _ _ G) as (_ & W & _). destruct (W eq_refl) as (old & -> & Wi). cbn in Wi.
    assert (In old l) as HI by (apply Hl; rewrite Wi; split; [auto | lia]).
    apply not_true_iff_false in E. apply E. apply existsb_snap_keys. exists old. split; [|now rewrite Wi].
    apply filter_In. split; auto. apply N.ltb_lt. lia.
  - intros k Hk. rewrite wb_last_app. cbn [wb_last wkey].
    rewrite key_eqb_neq by (apply Hk; lia). rewrite wb_last_dels.
    destruct (existsb _ _) eqn:E; auto. exfalso. apply existsb_snap_keys in E.
    destruct E as (old & HI & ->). apply filter_In in HI. destruct HI as [_ HI]. apply N.ltb_lt in HI.
    eapply (Hk (ss_index old)); [lia | reflexivity].
Qed.

Definition oidx (o : option snapshot) : N := match o with Some ss => ss_index ss | None => 0 end.

Lemma snap_clauses : forall (m m' : kv) n (cur : option snapshot) ss,
  (forall i, oidx cur < i -> kv_get m (KSnapshot n i) = None) ->
  (match cur with
   | Some c => kv_get m (KSnapshot n (ss_index c)) = Some (VSnap c) /\ 0 < ss_index c
   | None => forall i, kv_get m (KSnapshot n i) = None end) ->
  oidx cur < max_index ->
  kv_get m' (KSnapshot n (ss_index ss)) = Some (VSnap ss) ->
  (forall i, ss_index ss < i -> kv_get m' (KSnapshot n i) = kv_get m (KSnapshot n i)) ->
  0 < ss_index ss < max_index ->
  (ss_index ss = oidx cur -> cur = Some ss) ->
  let cur' := if oidx cur <? ss_index ss then Some ss else cur in
  (forall i, oidx cur' < i -> kv_get m' (KSnapshot n i) = None) /\
  (match cur' with
   | Some c => kv_get m' (KSnapshot n (ss_index c)) = Some (VSnap c) /\ 0 < ss_index c
   | None => forall i, kv_get m' (KSnapshot n i) = None end) /\
  oidx cur' < max_index.
Proof.
  intros m m' n cur ss Hhi Hs Hb G1 G3 HS Heq cur'. subst cur'.
  destruct (oidx cur <? ss_index ss) eqn:E.
  - apply N.ltb_lt in E. cbn [oidx]. repeat split; auto; try lia.
    intros i Hi. rewrite G3 by lia. apply Hhi. lia.
  - apply N.ltb_ge in E. destruct cur as [c|]; [|cbn in E; lia]. cbn [oidx] in *.
    destruct Hs as [Hs Hp]. repeat split; auto.
    + intros i Hi. rewrite G3 by lia. apply Hhi. lia.
    + destruct (N.eq_dec (ss_index ss) (ss_index c)) as [X|X].
      * specialize (Heq X). inversion Heq; subst. auto.
      * rewrite G3 by lia. auto.
Qed.

Lemma ss_eqb_eq : forall a b, ss_eqb a b = true -> a = b.
Proof.
  intros [a1 a2 a3] [b1 b2 b3]. unfold ss_eqb; cbn. rewrite !andb_true_iff, !N.eqb_eq.
  intros [[-> ->] ->]. reflexivity.
Qed.

Lemma n_ssidx_oidx : forall nd, n_ssidx nd = oidx (n_ss nd).
Proof. reflexivity. Qed.

(* ---------- SaveSnapshots ---------- *)

Lemma save_snapshots_R : forall d s n ss, R d s -> spec_wf_op s (OSnap n ss) = true ->
  exists d', plain_step d (OSnap n ss) = Some d' /\ R d' (spec_step s (OSnap n ss)).
Proof.
  intros d s n ss (HS & HW & HR) Hwf. cbn [spec_wf_op] in Hwf.
  rewrite !andb_true_iff in Hwf. destruct Hwf as ((W1 & W2) & W3).
  apply negb_true_iff in W1. apply N.leb_le in W2.
  pose proof (HR n) as Hn. pose proof (r_ssb _ _ _ _ Hn) as Hb. pose proof max_index_u64 as HU.
  assert (0 < ss_index ss) as Hpos by (unfold ss_emptyb in W1; apply N.eqb_neq in W1; lia).
  assert (Heq : ss_index ss = n_ssidx (s n) -> n_ss (s n) = Some ss).
  { intros X. rewrite X, N.eqb_refl in W3. cbn in W3. destruct (n_ss (s n)); [|discriminate].
    apply ss_eqb_eq in W3. now subst. }
  destruct (list_snapshots_spec (p_kv d) n HS HW) as (l & HL & Hl).
  cbn [plain_step]. unfold p_save_snapshots. cbn [save_snapshots_wb mk_snap_update u_ss u_node].
  rewrite W1.
  (* the answer of trySaveSnapshot *)
  assert (HT : (exists c1, cs_try_save_snapshot (p_cache d) n (ss_index ss) = (c1, true) /\
                  (forall n', n' <> n -> c1 n' = p_cache d n') /\
                  (exists v, c1 n = mkC (c_state (p_cache d n)) (c_max (p_cache d n)) (Some v) (c_batch (p_cache d n))
                             /\ (v <= n_ssidx (s n) \/ v = ss_index ss)))
               \/ (cs_try_save_snapshot (p_cache d) n (ss_index ss) = (p_cache d, false) /\ ss_index ss <= n_ssidx (s n))).
  { unfold cs_try_save_snapshot. destruct (c_snap (p_cache d n)) as [v|] eqn:EC.
    - destruct (v <? ss_index ss) eqn:EV.
      + left. exists (p_cache d). repeat split; auto. exists v. split.
        * destruct (p_cache d n); cbn in *; now subst.
        * left. apply (r_csnap _ _ _ _ Hn v EC).
      + right. split; auto. apply N.ltb_ge in EV. pose proof (r_csnap _ _ _ _ Hn v EC). lia.
    - left. eexists. split; [reflexivity|]. split.
      + intros n' Hn'. unfold cupd. now rewrite nid_eqb_neq.
      + exists (ss_index ss). split; [unfold cupd; now rewrite nid_eqb_refl | now right]. }
  destruct HT as [(c1 & -> & HC1 & (v & HC2 & Hv))|(-> & Hle)].
  - rewrite (save_snapshot_wb_some _ _ _ l HL W1). eexists. split; [reflexivity|].
    set (w := _ ++ [WPut _ _]). rewrite app_nil_r.
    pose proof (r_lastb _ _ _ _ Hn) as Hlb.
    destruct (snap_wb_effect (p_kv d) n ss l HS HW HL Hl ltac:(lia)) as (E1 & E2 & E3).
    fold w in E1, E2, E3.
    assert (HG : forall k, kv_get (kv_commit (p_kv d) w) k = match wb_last w k with Some r => r | None => kv_get (p_kv d) k end)
      by (intros; now apply get_commit).
    split; [now apply sorted_commit | split].
    { apply WT_commit; auto. intros k v0 HI. subst w. apply in_app_or in HI. destruct HI as [HI|HI].
      - apply in_map_iff in HI. destruct HI as (x & X & _). discriminate.
      - destruct HI as [HI|[]]. inversion HI; subst. unfold wt, KSnapshot; cbn. ktags.
        repeat split; intros X; try discriminate. eauto. }
    intros n'. cbn [p_kv p_cache spec_step].
    destruct (nid_eqb n' n) eqn:EN.
    + apply nid_eqb_eq in EN. subst n'.
      assert (HO : forall k, (forall i, k <> KSnapshot n i) -> kv_get (kv_commit (p_kv d) w) k = kv_get (p_kv d) k).
      { intros k Hk. rewrite HG, E3; auto. }
      destruct (snap_clauses (p_kv d) (kv_commit (p_kv d) w) n (n_ss (s n)) ss) as (C1 & C2 & C3);
        try (apply Hn); auto.
      { rewrite HG, E1. reflexivity. }
      { intros i Hi. rewrite HG, E3; auto. intros j Hj X. apply KSnapshot_inj in X. lia. }
      { lia. }
      rewrite <- n_ssidx_oidx in *.
      assert (Rn (kv_commit (p_kv d) w) (c1 n)
                 (mkNode (n_marker (s n)) (n_mterm (s n)) (n_ents (s n)) (n_st (s n))
                         (if n_ssidx (s n) <? ss_index ss then Some ss else n_ss (s n))) n) as HRes.
      { destruct Hn. constructor; cbn [n_marker n_mterm n_ents n_st n_ss]; auto.
        - intros e HI. rewrite HO by (intros i X; ktags; inversion X). auto.
        - rewrite HO by (intros i X; ktags; inversion X). auto.
        - rewrite HC2. cbn. auto.
        - rewrite HO by (intros i X; ktags; inversion X). auto.
        - rewrite HC2. cbn. auto.
        - rewrite HC2. cbn. intros v' X. inversion X; subst v'. unfold n_ssidx at 1. cbn [n_ss].
          fold (oidx (if n_ssidx (s n) <? ss_index ss then Some ss else n_ss (s n))).
          destruct (n_ssidx (s n) <? ss_index ss) eqn:Y; cbn [oidx].
          + apply N.ltb_lt in Y. destruct Hv; lia.
          + apply N.ltb_ge in Y. rewrite <- n_ssidx_oidx. destruct Hv; lia. }
      destruct (n_ssidx (s n) <? ss_index ss) eqn:Y.
      * rewrite supd_same. exact HRes.
      * destruct (s n) eqn:ES. cbn in *. exact HRes.
    + assert (n' <> n) as HN by (intros ->; rewrite nid_eqb_refl in EN; discriminate).
      assert (Rn (kv_commit (p_kv d) w) (c1 n') (s n') n') as HF.
      { rewrite HC1 by auto. eapply Rn_frame; [apply HR|]. intros k Hk. rewrite HG, E3; auto.
        intros i _ X. subst k. apply HN. rewrite <- Hk. unfold key_node, KSnapshot. cbn. apply nid_eta. }
      destruct (n_ssidx (s n) <? ss_index ss); [rewrite supd_other by auto|]; exact HF.
  - eexists. split; [reflexivity|]. cbn [kv_commit fold_left spec_step].
    assert (n_ssidx (s n) <? ss_index ss = false) as -> by (apply N.ltb_ge; lia).
    split; [exact HS | split; [exact HW | exact HR]].
Qed.

(* ---------- RemoveNodeData ---------- *)

Lemma remove_node_wb_last : forall n l k,
  wb_last (remove_node_wb n l) k =
  if existsb (key_eqb k) (map (fun old => KSnapshot n (ss_index old)) l) then Some None
  else if key_eqb k (KMaxIndex n) then Some None
  else if key_eqb k (KBootstrap n) then Some None
  else if key_eqb k (KState n) then Some None else None.
Proof.
  intros n l k. unfold remove_node_wb. rewrite wb_last_app. rewrite <- map_map with (g := WDel).
  rewrite wb_last_dels. destruct (existsb _ _); auto.
  cbn [wb_last wkey]. destruct (key_eqb k (KMaxIndex n)); auto. destruct (key_eqb k (KBootstrap n)); auto.
Qed.

Lemma remove_node_wb_other : forall n l k, key_node k <> n -> wb_last (remove_node_wb n l) k = None.
Proof.
  intros n l k H. rewrite remove_node_wb_last.
  assert (forall k', key_node k' = n -> key_eqb k k' = false) as HK.
  { intros k' E. apply key_eqb_neq. intros ->. contradiction. }
  rewrite !HK by (unfold key_node; cbn; apply nid_eta).
  destruct (existsb _ _) eqn:E; auto. apply existsb_snap_keys in E. destruct E as (old & _ & ->).
  exfalso. apply H. unfold key_node; cbn. apply nid_eta.
Qed.

Lemma remove_node_data_R : forall d s n, R d s ->
  exists d', plain_step d (ORemNode n) = Some d' /\ R d' (spec_step s (ORemNode n)).
Proof.
  intros d s n (HS & HW & HR). pose proof (HR n) as Hn. pose proof max_index_u64 as HU.
  destruct (list_snapshots_spec (p_kv d) n HS HW) as (l & HL & Hl).
  cbn [plain_step]. unfold p_remove_node_data. rewrite HL. eexists. split; [reflexivity|].
  unfold p_remove_entries_to. cbn [p_kv p_cache spec_step].
  set (m1 := kv_commit (p_kv d) (remove_node_wb n l)).
  assert (HS1 : sorted m1) by now apply sorted_commit.
  assert (HW1 : WT m1).
  { apply WT_commit; auto. intros k v HI. unfold remove_node_wb in HI. apply in_app_or in HI.
    destruct HI as [HI|HI]; [cbn in HI; intuition discriminate|].
    apply in_map_iff in HI. destruct HI as (x & X & _). discriminate. }
  assert (HG : forall k, kv_get m1 k = match wb_last (remove_node_wb n l) k with Some r => r | None => kv_get (p_kv d) k end)
    by (intros; now apply get_commit).
  split; [now apply sorted_del_range | split; [now apply WT_del_range|]].
  intros n'. cbn [p_kv p_cache]. destruct (nid_eqb n' n) eqn:EN.
  - apply nid_eqb_eq in EN. subst n'. rewrite supd_same.
    assert (HO : forall k, (forall x, k <> KEntry n x) ->
              kv_get (kv_del_range m1 (KEntry n 0) (KEntry n u64max)) k = kv_get m1 k).
    { intros k Hk. apply del_range_other; auto. }
    assert (HSN : forall i, kv_get m1 (KSnapshot n i) = None).
    { intros i. rewrite HG, remove_node_wb_last.
      destruct (existsb _ _) eqn:E; auto.
      rewrite !key_eqb_neq by (intros X; ktags; inversion X).
      destruct (kv_get (p_kv d) (KSnapshot n i)) eqn:G; auto. exfalso.
      destruct (HW _ _ G) as (_ & W & _). destruct (W eq_refl) as (old & -> & Wi). cbn in Wi.
      destruct (N.le_gt_cases i u64max) as [X|X].
      - assert (In old l) as HI by (apply Hl; rewrite Wi; auto).
        apply not_true_iff_false in E. apply E. apply existsb_snap_keys. exists old. now rewrite Wi.
      - rewrite (r_snap_hi _ _ _ _ Hn i) in G; [discriminate|]. pose proof (r_ssb _ _ _ _ Hn). lia. }
    assert (cs_remove_node_data (cs_set_max_index (p_cache d) n 0) n n = mkC None (Some 0) None None) as ->.
    { unfold cs_remove_node_data, cs_set_max_index, cupd. cbv beta. now rewrite !nid_eqb_refl. }
    constructor; cbn [empty_node n_marker n_ents n_st n_ss n_mterm c_state c_max c_snap].
    + exact I.
    + intros e [].
    + right. split; [|reflexivity]. rewrite HO by (intros x X; ktags; inversion X).
      rewrite HG, remove_node_wb_last. destruct (existsb _ _); auto. now rewrite key_eqb_refl.
    + intros v X. inversion X. reflexivity.
    + rewrite HO by (intros x X; ktags; inversion X). rewrite HG, remove_node_wb_last.
      destruct (existsb _ _); auto.
      rewrite !(key_eqb_neq (KState n)) by (intros X; ktags; inversion X). now rewrite key_eqb_refl.
    + intros st X. discriminate.
    + intros i _. rewrite HO by (intros x X; ktags; inversion X). apply HSN.
    + intros i. rewrite HO by (intros x X; ktags; inversion X). apply HSN.
    + intros v X. discriminate.
    + unfold n_ssidx, max_index. cbn. lia.
    + unfold n_last, max_index, nlen. cbn. lia.
  - assert (n' <> n) as HN by (intros ->; rewrite nid_eqb_refl in EN; discriminate).
    rewrite supd_other by auto.
    assert (cs_remove_node_data (cs_set_max_index (p_cache d) n 0) n n' = p_cache d n') as ->.
    { unfold cs_remove_node_data, cs_set_max_index, cupd. cbv beta. now rewrite !EN. }
    eapply Rn_frame; [apply HR|]. intros k Hk.
    rewrite del_range_other; auto.
    + rewrite HG, remove_node_wb_other; auto. rewrite Hk. auto.
    + intros x _ X. subst k. apply HN. rewrite <- Hk. unfold key_node, KEntry. cbn. apply nid_eta.
Qed.

Lemma remove_node_wb_nodes : forall n l o, In o (remove_node_wb n l) -> key_node (wkey o) = n.
Proof.
  intros n l o HI. unfold remove_node_wb in HI. apply in_app_or in HI. destruct HI as [HI|HI].
  - destruct HI as [<-|[<-|[<-|[]]]]; unfold key_node; cbn; apply nid_eta.
  - apply in_map_iff in HI. destruct HI as (x & <- & _). unfold key_node; cbn; apply nid_eta.
Qed.

(* ---------- ImportSnapshot (between two reopens) ---------- *)

Lemma import_snapshot_R : forall d s n ss, R d s -> spec_wf_op s (OImport n ss) = true ->
  exists d', plain_step d (OImport n ss) = Some d' /\ R d' (spec_step s (OImport n ss)).
Proof.
  intros d s n ss (HS & HW & HR) Hwf. cbn [spec_wf_op] in Hwf. rewrite !andb_true_iff in Hwf.
  destruct Hwf as ((W1 & W2) & W3). apply negb_true_iff in W1. apply N.ltb_lt in W2.
  assert (0 < ss_index ss) as Hpos by (unfold ss_emptyb in W1; apply N.eqb_neq in W1; lia).
  pose proof (HR n) as Hn. pose proof max_index_u64 as HU.
  destruct (list_snapshots_spec (p_kv d) n HS HW) as (l & HL & Hl).
  cbn [plain_step]. unfold p_import_snapshot. cbn [p_reopen p_kv p_cache]. rewrite HL.
  rewrite (save_snapshot_wb_some _ _ _ l HL W1).
  eexists. split; [reflexivity|].
  set (sel := filter (fun cur => ss_index ss <=? ss_index cur) l).
  set (w2 := _ ++ [WPut (KSnapshot n (ss_index ss)) _]).
  set (st' := mkSt (ss_term ss) 0 (ss_index ss)).
  set (w := (remove_node_wb n sel ++ [WPut (KBootstrap n) VBoot; WPut (KState n) (VState st')])
            ++ w2 ++ [WPut (KMaxIndex n) (VMax (ss_index ss))]).
  destruct (snap_wb_effect (p_kv d) n ss l HS HW HL Hl ltac:(lia)) as (E1 & E2 & E3).
  fold w2 in E1, E2, E3.
  assert (HG : forall k, kv_get (kv_commit (p_kv d) w) k = match wb_last w k with Some r => r | None => kv_get (p_kv d) k end)
    by (intros; now apply get_commit).
  cbn [p_reopen p_kv p_cache spec_step].
  split; [now apply sorted_commit | split].
  { apply WT_commit; auto. intros k v HI. subst w w2. unfold remove_node_wb in HI.
    repeat (apply in_app_or in HI; destruct HI as [HI|HI]);
      try (apply in_map_iff in HI; destruct HI as (x & X & _); discriminate);
      cbn in HI; repeat (destruct HI as [HI|HI]); try contradiction; try discriminate;
      inversion HI; subst; unfold wt; ktags; cbn; repeat split; intros X; try discriminate; eauto. }
  intros n'. destruct (nid_eqb n' n) eqn:EN.
  - apply nid_eqb_eq in EN. subst n'. rewrite supd_same.
    (* the batch on the keys of the node *)
    assert (LM : wb_last w (KMaxIndex n) = Some (Some (VMax (ss_index ss)))).
    { subst w. rewrite !wb_last_app. cbn [wb_last wkey]. now rewrite key_eqb_refl. }
    assert (LS : wb_last w (KState n) = Some (Some (VState st'))).
    { subst w. rewrite !wb_last_app. cbn [wb_last wkey].
      rewrite (key_eqb_neq (KState n) (KMaxIndex n)) by (intros X; ktags; inversion X).
      rewrite E3 by (intros i _ X; ktags; inversion X). now rewrite key_eqb_refl. }
    assert (LK : forall i, wb_last w (KSnapshot n i) =
              match wb_last w2 (KSnapshot n i) with Some r => Some r
              | None => wb_last (remove_node_wb n sel) (KSnapshot n i) end).
    { intros i. subst w. rewrite !wb_last_app. cbn [wb_last wkey].
      rewrite !(key_eqb_neq (KSnapshot n i)) by (intros X; ktags; inversion X).
      destruct (wb_last w2 (KSnapshot n i)); auto. }
    assert (SN : forall i, i <> ss_index ss -> kv_get (kv_commit (p_kv d) w) (KSnapshot n i) = None).
    { intros i Hi. rewrite HG, LK. destruct (N.lt_ge_cases i (ss_index ss)) as [X|X].
      - destruct (E2 i X) as [->|[-> G]]; auto.
        rewrite remove_node_wb_last. destruct (existsb _ _); auto.
      - rewrite E3 by (intros j Hj Y; apply KSnapshot_inj in Y; lia).
        rewrite remove_node_wb_last. destruct (existsb _ _) eqn:E; auto.
        rewrite !key_eqb_neq by (intros Y; ktags; inversion Y).
        destruct (kv_get (p_kv d) (KSnapshot n i)) eqn:G; auto. exfalso.
        destruct (HW _ _ G) as (_ & W & _). destruct (W eq_refl) as (old & -> & Wi). cbn in Wi.
        destruct (N.le_gt_cases i u64max) as [Y|Y].
        + assert (In old l) as HI by (apply Hl; rewrite Wi; auto).
          apply not_true_iff_false in E. apply E. apply existsb_snap_keys. exists old. split; [|now rewrite Wi].
          apply filter_In. split; auto. apply N.leb_le. lia.
        + rewrite (r_snap_hi _ _ _ _ Hn i) in G; [discriminate|]. pose proof (r_ssb _ _ _ _ Hn). lia. }
    constructor; cbn [cnode_empty n_marker n_ents n_st n_ss n_mterm c_state c_max c_snap].
    + exact I.
    + intros e [].
    + left. rewrite HG, LM. unfold n_last, nlen. cbn [n_marker n_ents length]. f_equal. f_equal. lia.
    + intros v X. discriminate.
    + rewrite HG, LS. reflexivity.
    + intros v X. discriminate.
    + intros i Hi. apply SN. unfold n_ssidx in Hi. cbn [n_ss] in Hi. lia.
    + split; auto. rewrite HG, LK, E1. reflexivity.
    + intros v X. discriminate.
    + unfold n_ssidx; cbn [n_ss]; lia.
    + unfold n_last, nlen; cbn [n_marker n_ents length]; lia.
  - assert (n' <> n) as HN by (intros ->; rewrite nid_eqb_refl in EN; discriminate).
    rewrite supd_other by auto. eapply Rn_cache_empty. eapply Rn_frame; [apply HR|]. intros k Hk.
    rewrite HG. rewrite wb_last_none; auto.
    intros o HI X. subst k. apply HN. rewrite <- Hk. clear - HI.
    assert (KN : forall k', key_node k' = n -> (fst n, snd n) = n -> True) by auto.
    subst w w2. apply in_app_or in HI. destruct HI as [HI|HI].
    + apply in_app_or in HI. destruct HI as [HI|HI].
      * now apply remove_node_wb_nodes in HI.
      * destruct HI as [<-|[<-|[]]]; unfold key_node; cbn; apply nid_eta.
    + apply in_app_or in HI. destruct HI as [HI|HI].
      * apply in_app_or in HI. destruct HI as [HI|HI].
        -- apply in_map_iff in HI. destruct HI as (x & <- & HI).
           apply in_map_iff in HI. destruct HI as (y & <- & _). unfold key_node; cbn; apply nid_eta.
        -- destruct HI as [<-|[]]. unfold key_node; cbn; apply nid_eta.
      * destruct HI as [<-|[]]. unfold key_node; cbn; apply nid_eta.
Qed.

(* ---------- SaveRaftState: the relation over an abstract read function ---------- *)

Definition gfun := key -> option value.
Definition gapply (w : wb) (g : gfun) : gfun :=
  fun k => match wb_last w k with Some r => r | None => g k end.

Lemma gapply_app : forall a b g k, gapply (a ++ b) g k = gapply b (gapply a g) k.
Proof. intros. unfold gapply. rewrite wb_last_app. now destruct (wb_last b k). Qed.

Lemma get_commit_g : forall w m k, sorted m -> kv_get (kv_commit m w) k = gapply w (kv_get m) k.
Proof. intros. unfold gapply. now apply get_commit. Qed.

Record RnG (g : gfun) (cn : cnode) (nd : rnode) (n : nid) : Prop := mkRnG {
  g_contig : contig (n_marker nd + 1) (n_ents nd);
  g_ents : forall e, In e (n_ents nd) -> g (KEntry n (e_index e)) = Some (VEntry e);
  g_max : g (KMaxIndex n) = Some (VMax (n_last nd)) \/ (g (KMaxIndex n) = None /\ n_last nd = 0);
  g_cmax : forall v, c_max cn = Some v -> v = n_last nd;
  g_state : g (KState n) = option_map VState (n_st nd);
  g_cstate : forall st, c_state cn = Some st -> n_st nd = Some st;
  g_snap_hi : forall i, n_ssidx nd < i -> g (KSnapshot n i) = None;
  g_snap : match n_ss nd with
           | Some ss => g (KSnapshot n (ss_index ss)) = Some (VSnap ss) /\ 0 < ss_index ss
           | None => forall i, g (KSnapshot n i) = None
           end;
  g_csnap : forall v, c_snap cn = Some v -> v <= n_ssidx nd;
  g_ssb : n_ssidx nd < max_index;
  g_lastb : n_last nd < max_index
}.

Lemma Rn_G : forall m cn nd n, Rn m cn nd n <-> RnG (kv_get m) cn nd n.
Proof. intros. split; intros H; destruct H; constructor; auto. Qed.

Lemma RnG_ext : forall g g' cn nd n, RnG g cn nd n ->
  (forall k, key_node k = n -> g' k = g k) -> RnG g' cn nd n.
Proof.
  intros g g' cn nd n H HF. destruct n as [sh re].
  assert (forall k, key_node k = (sh, re) -> g' k = g k) as HF' by auto.
  destruct H. constructor; auto.
  - intros e HI. rewrite HF' by reflexivity. auto.
  - rewrite !HF' by reflexivity. auto.
  - rewrite HF' by reflexivity. auto.
  - intros i Hi. rewrite HF' by reflexivity. auto.
  - destruct (n_ss nd).
    + rewrite HF' by reflexivity. auto.
    + intros i. rewrite HF' by reflexivity. auto.
Qed.

Lemma st_eqb_eq : forall a b, st_eqb a b = true -> a = b.
Proof.
  intros [a1 a2 a3] [b1 b2 b3]. unfold st_eqb; cbn. rewrite !andb_true_iff, !N.eqb_eq.
  intros [[-> ->] ->]. reflexivity.
Qed.

Lemma cupd_same : forall c n v, cupd c n v n = v.
Proof. intros. unfold cupd. now rewrite nid_eqb_refl. Qed.
Lemma cupd_other : forall c n v m, m <> n -> cupd c n v m = c m.
Proof. intros. unfold cupd. now rewrite nid_eqb_neq. Qed.

(* stage 1: the hard state *)
Definition state_part (c : cache) (n : nid) (st : hstate) : cache * wb :=
  if st_emptyb st then (c, [])
  else let (c', changed) := cs_set_state c n st in
       (c', if changed then [WPut (KState n) (VState st)] else []).

Lemma stage_state : forall g c nd n st, RnG g (c n) nd n ->
  let (c1, w1) := state_part c n st in
  RnG (gapply w1 g) (c1 n) (upd_st_step nd st) n /\
  (forall n', n' <> n -> c1 n' = c n') /\
  (forall o, In o w1 -> o = WPut (KState n) (VState st)).
Proof.
  intros g c nd n st H. unfold state_part, upd_st_step.
  destruct (st_emptyb st) eqn:E.
  - split; [|split]; auto; try contradiction.
  - unfold cs_set_state.
    assert (HP : RnG (gapply [WPut (KState n) (VState st)] g)
                   (mkC (Some st) (c_max (c n)) (c_snap (c n)) (c_batch (c n)))
                   (mkNode (n_marker nd) (n_mterm nd) (n_ents nd) (Some st) (n_ss nd)) n).
    { assert (HO : forall k, k <> KState n -> gapply [WPut (KState n) (VState st)] g k = g k).
      { intros k Hk. unfold gapply. cbn [wb_last wkey]. now rewrite key_eqb_neq. }
      destruct H. constructor; cbn [n_marker n_mterm n_ents n_st n_ss c_state c_max c_snap]; auto.
      unfold gapply. cbn [wb_last wkey]. now rewrite key_eqb_refl. }
    destruct (c_state (c n)) as [v|] eqn:EC.
    + destruct (st_eqb v st) eqn:EV.
      * apply st_eqb_eq in EV. subst v. split; [|split]; auto; try contradiction.
        pose proof (g_cstate _ _ _ _ H st EC) as HS.
        assert (mkNode (n_marker nd) (n_mterm nd) (n_ents nd) (Some st) (n_ss nd) = nd) as ->
          by (destruct nd; cbn in *; now subst).
        exact H.
      * rewrite cupd_same. split; [|split]; auto.
        -- intros n' Hn'. now apply cupd_other.
        -- intros o [<-|[]]. reflexivity.
    + rewrite cupd_same. split; [|split]; auto.
      * intros n' Hn'. now apply cupd_other.
      * intros o [<-|[]]. reflexivity.
Qed.

Lemma snap_clauses_g : forall (g g' : gfun) n (cur : option snapshot) ss,
  (forall i, oidx cur < i -> g (KSnapshot n i) = None) ->
  (match cur with
   | Some c => g (KSnapshot n (ss_index c)) = Some (VSnap c) /\ 0 < ss_index c
   | None => forall i, g (KSnapshot n i) = None end) ->
  oidx cur < max_index ->
  g' (KSnapshot n (ss_index ss)) = Some (VSnap ss) ->
  (forall i, ss_index ss < i -> g' (KSnapshot n i) = g (KSnapshot n i)) ->
  0 < ss_index ss < max_index ->
  (ss_index ss = oidx cur -> cur = Some ss) ->
  let cur' := if oidx cur <? ss_index ss then Some ss else cur in
  (forall i, oidx cur' < i -> g' (KSnapshot n i) = None) /\
  (match cur' with
   | Some c => g' (KSnapshot n (ss_index c)) = Some (VSnap c) /\ 0 < ss_index c
   | None => forall i, g' (KSnapshot n i) = None end) /\
  oidx cur' < max_index.
Proof.
  intros g g' n cur ss Hhi Hs Hb G1 G3 HS Heq cur'. subst cur'.
  destruct (oidx cur <? ss_index ss) eqn:E.
  - apply N.ltb_lt in E. cbn [oidx]. repeat split; auto; try lia.
    intros i Hi. rewrite G3 by lia. apply Hhi. lia.
  - apply N.ltb_ge in E. destruct cur as [c|]; [|cbn in E; lia]. cbn [oidx] in *.
    destruct Hs as [Hs Hp]. repeat split; auto.
    + intros i Hi. rewrite G3 by lia. apply Hhi. lia.
    + destruct (N.eq_dec (ss_index ss) (ss_index c)) as [X|X].
      * specialize (Heq X). inversion Heq; subst. auto.
      * rewrite G3 by lia. auto.
Qed.

(* stage 2: the snapshot carried by the update *)
Definition snap_part (m : kv) (c : cache) (n : nid) (ss : snapshot) (es : list entry) : option (cache * wb) :=
  if ss_emptyb ss then Some (c, [])
  else
    let (c2, ok) := cs_try_save_snapshot c n (ss_index ss) in
    if ok then
      if negb (match es with [] => true | _ => false end) && (last_index es <? ss_index ss)
      then None
      else match save_snapshot_wb m n ss with
           | None => None
           | Some w2 => Some (cs_set_max_index c2 n (ss_index ss),
                              w2 ++ [WPut (KMaxIndex n) (VMax (ss_index ss))])
           end
    else Some (c2, []).

Lemma save_head_parts : forall m c u,
  save_head m c u =
  let (c1, w1) := state_part c (u_node u) (u_st u) in
  match snap_part m c1 (u_node u) (u_ss u) (u_ents u) with
  | None => None
  | Some (c', w) => Some (c', w1 ++ w)
  end.
Proof.
  intros m c u. unfold save_head, state_part, snap_part.
  destruct (st_emptyb (u_st u)).
  - destruct (ss_emptyb (u_ss u)); [reflexivity|].
    destruct (cs_try_save_snapshot c (u_node u) (ss_index (u_ss u))) as [c2 ok]. destruct ok; [|reflexivity].
    destruct (negb _ && _); [reflexivity|]. now destruct (save_snapshot_wb m (u_node u) (u_ss u)).
  - destruct (cs_set_state c (u_node u) (u_st u)) as [c' ch].
    destruct (ss_emptyb (u_ss u)); [now rewrite app_nil_r|].
    destruct (cs_try_save_snapshot c' (u_node u) (ss_index (u_ss u))) as [c2 ok]. destruct ok; [|now rewrite app_nil_r].
    destruct (negb _ && _); [reflexivity|]. now destruct (save_snapshot_wb m (u_node u) (u_ss u)).
Qed.

Lemma nlen_nil_last : forall nd, n_ents nd = [] -> n_last nd = n_marker nd.
Proof. intros nd H. unfold n_last. rewrite H. unfold nlen. cbn. lia. Qed.

Lemma stage_snap : forall m g c nd n ss es, sorted m -> WT m ->
  RnG g (c n) nd n ->
  (forall i, g (KSnapshot n i) = kv_get m (KSnapshot n i)) ->
  upd_ss_wf nd ss = true ->
  (ss_emptyb ss = false -> es <> [] -> ss_index ss <= last_index es) ->
  exists c' w, snap_part m c n ss es = Some (c', w) /\
    RnG (gapply w g) (c' n) (upd_ss_step nd ss) n /\
    (forall n', n' <> n -> c' n' = c n') /\
    (forall o, In o w -> key_node (wkey o) = n) /\
    (forall k v, In (WPut k v) w -> wt k v).
Proof.
  intros m g c nd n ss es HS HW H Hg Hwf Hes. unfold snap_part, upd_ss_step. unfold upd_ss_wf in Hwf.
  destruct (ss_emptyb ss) eqn:E.
  { exists c, []. split; [reflexivity|]. split; [exact H|]. split; [auto|]. split; intros; contradiction. }
  cbn [orb] in Hwf. rewrite !andb_true_iff in Hwf. destruct Hwf as ((W1 & W2) & W3).
  apply N.ltb_lt in W1. apply N.leb_le in W2.
  assert (0 < ss_index ss) as Hpos by (unfold ss_emptyb in E; apply N.eqb_neq in E; lia).
  pose proof max_index_u64 as HU.
  assert (Hcase : (n_ssidx nd < ss_index ss /\ n_last nd <= ss_index ss) \/
                  (n_ss nd = Some ss /\ ss_index ss = n_last nd)).
  { apply orb_true_iff in W3. destruct W3 as [W3|W3].
    - apply andb_true_iff in W3. destruct W3 as [A B]. apply N.ltb_lt in A. apply N.leb_le in B. now left.
    - apply andb_true_iff in W3. destruct W3 as [A B]. apply N.eqb_eq in B.
      destruct (n_ss nd); [|discriminate]. apply ss_eqb_eq in A. subst. now right. }
  assert (Heq : ss_index ss = n_ssidx nd -> n_ss nd = Some ss).
  { intros X. destruct Hcase as [[A _]|[A _]]; [lia | exact A]. }
  assert (Hlast : n_last nd <= ss_index ss) by (destruct Hcase as [[_ A]|[_ A]]; lia).
  unfold cs_try_save_snapshot.
  (* the node after the step *)
  set (nd' := mkNode (ss_index ss) (ss_term ss) [] (n_st nd)
                (if n_ssidx nd <? ss_index ss then Some ss else n_ss nd)).
  assert (Hssidx' : n_ssidx nd' = if n_ssidx nd <? ss_index ss then ss_index ss else n_ssidx nd).
  { unfold n_ssidx at 1. subst nd'. cbn [n_ss]. now destruct (n_ssidx nd <? ss_index ss). }
  assert (Hlast' : n_last nd' = ss_index ss) by (unfold n_last, nlen; subst nd'; cbn [n_marker n_ents length]; lia).
  (* the case in which the record is written *)
  assert (HOK : forall c2, c2 n = mkC (c_state (c n)) (c_max (c n)) (c_snap (c2 n)) (c_batch (c n)) ->
              (forall v, c_snap (c2 n) = Some v -> v <= n_ssidx nd') ->
              (forall n', n' <> n -> c2 n' = c n') ->
    exists c' w,
      (if negb (match es with [] => true | _ => false end) && (last_index es <? ss_index ss) then None
       else match save_snapshot_wb m n ss with
            | None => None
            | Some w2 => Some (cs_set_max_index c2 n (ss_index ss), w2 ++ [WPut (KMaxIndex n) (VMax (ss_index ss))])
            end) = Some (c', w) /\
      RnG (gapply w g) (c' n) nd' n /\ (forall n', n' <> n -> c' n' = c n') /\
      (forall o, In o w -> key_node (wkey o) = n) /\ (forall k v, In (WPut k v) w -> wt k v)).
  { intros c2 HC2 HV HO2.
    assert ((negb (match es with [] => true | _ => false end) && (last_index es <? ss_index ss)) = false) as ->.
    { destruct es as [|e0 es']; [reflexivity|]. cbn [negb andb]. apply N.ltb_ge. apply Hes; auto. discriminate. }
    destruct (list_snapshots_spec m n HS HW) as (l & HL & Hl).
    rewrite (save_snapshot_wb_some _ _ _ l HL E).
    set (w2 := _ ++ [WPut (KSnapshot n (ss_index ss)) _]).
    destruct (snap_wb_effect m n ss l HS HW HL Hl ltac:(lia)) as (E1 & E2 & E3). fold w2 in E1, E2, E3.
    eexists. eexists. split; [reflexivity|].
    set (w := w2 ++ [WPut (KMaxIndex n) (VMax (ss_index ss))]).
    assert (LW : forall k, k <> KMaxIndex n -> wb_last w k = wb_last w2 k).
    { intros k Hk. subst w. rewrite wb_last_app. cbn [wb_last wkey]. now rewrite key_eqb_neq. }
    assert (HOth : forall k, k <> KMaxIndex n -> (forall i, k <> KSnapshot n i) -> gapply w g k = g k).
    { intros k K1 K2. unfold gapply. rewrite LW by auto. rewrite E3; auto. }
    destruct (snap_clauses_g g (gapply w g) n (n_ss nd) ss) as (C1 & C2 & C3); try (apply H); auto.
    { unfold gapply. rewrite LW by (intros X; ktags; inversion X). now rewrite E1. }
    { intros i Hi. unfold gapply. rewrite LW by (intros X; ktags; inversion X).
      rewrite E3; auto. intros j Hj X. apply KSnapshot_inj in X. lia. }
    split; [|split; [|split]].
    - unfold cs_set_max_index. rewrite cupd_same.
      destruct H. constructor; subst nd'; cbn [n_marker n_mterm n_ents n_st n_ss c_state c_max c_snap]; auto.
      + exact I.
      + intros e [].
      + left. unfold gapply. subst w. rewrite wb_last_app. cbn [wb_last wkey]. rewrite key_eqb_refl.
        f_equal. f_equal. unfold n_last, nlen. cbn [n_marker n_ents length]. lia.
      + intros v X. inversion X. unfold n_last, nlen. cbn [n_marker n_ents length]. lia.
      + rewrite HOth by (intros; intro X; ktags; inversion X). auto.
      + rewrite HC2. cbn [c_state]. auto.
      + unfold n_last, nlen. cbn [n_marker n_ents length]. lia.
    - intros n' Hn'. unfold cs_set_max_index. rewrite cupd_other by auto. auto.
    - intros o HI. subst w w2. apply in_app_or in HI. destruct HI as [HI|HI].
      + apply in_app_or in HI. destruct HI as [HI|HI].
        * apply in_map_iff in HI. destruct HI as (x & <- & HI).
          apply in_map_iff in HI. destruct HI as (y & <- & _). unfold key_node; cbn; apply nid_eta.
        * destruct HI as [<-|[]]. unfold key_node; cbn; apply nid_eta.
      + destruct HI as [<-|[]]. unfold key_node; cbn; apply nid_eta.
    - intros k v HI. subst w w2. apply in_app_or in HI. destruct HI as [HI|HI].
      + apply in_app_or in HI. destruct HI as [HI|HI].
        * apply in_map_iff in HI. destruct HI as (x & X & _). discriminate.
        * destruct HI as [HI|[]]. inversion HI; subst. unfold wt; ktags; cbn.
          repeat split; intros X; try discriminate. eauto.
      + destruct HI as [HI|[]]. inversion HI; subst. unfold wt; ktags; cbn.
        repeat split; intros X; try discriminate. eauto. }
  destruct (c_snap (c n)) as [v|] eqn:EC.
  - destruct (v <? ss_index ss) eqn:EV.
    + apply N.ltb_lt in EV. apply (HOK c); auto.
      * rewrite EC. destruct (c n); cbn in *; now subst.
      * intros v' X. rewrite EC in X. inversion X; subst v'. rewrite Hssidx'.
        pose proof (g_csnap _ _ _ _ H v EC). destruct (n_ssidx nd <? ss_index ss) eqn:Y; [lia | auto].
    + apply N.ltb_ge in EV. pose proof (g_csnap _ _ _ _ H v EC) as Hv.
      destruct Hcase as [[A _]|[A B]]; [lia|].
      exists c, []. split; [reflexivity|].
      assert (n_ssidx nd <? ss_index ss = false) as Y by (apply N.ltb_ge; lia).
      split; [|split; [auto | split; intros; contradiction]].
      destruct H. constructor; subst nd'; rewrite ?Y in *; cbn [n_marker n_mterm n_ents n_st n_ss]; auto.
      * exact I.
      * intros e [].
      * destruct g_max0 as [X|[_ X]]; [|lia]. left. unfold gapply. cbn [wb_last]. rewrite X. f_equal. f_equal.
        unfold n_last at 2. unfold nlen. cbn [n_marker n_ents length]. lia.
      * intros v' X. rewrite (g_cmax0 v' X). unfold n_last at 2. unfold nlen. cbn [n_marker n_ents length]. lia.
      * unfold n_last, nlen. cbn [n_marker n_ents length]. lia.
  - apply (HOK (cupd c n (mkC (c_state (c n)) (c_max (c n)) (Some (ss_index ss)) (c_batch (c n))))).
    + now rewrite cupd_same.
    + rewrite cupd_same. cbn [c_snap]. intros v' X. inversion X; subst v'. rewrite Hssidx'.
      destruct (n_ssidx nd <? ss_index ss) eqn:Y; [lia | apply N.ltb_ge in Y; lia].
    + intros n' Hn'. now apply cupd_other.
Qed.

(* stage 3: the entries *)

Lemma ents_okb_contig : forall es i prev, ents_okb i prev es = true -> contig i es.
Proof.
  induction es as [|e es IH]; intros i prev H; [exact I|].
  cbn [ents_okb] in H. rewrite !andb_true_iff in H. destruct H as ((((H1 & H2) & H3) & H4) & H5).
  apply N.eqb_eq in H1. split; eauto.
Qed.

Lemma max_entry_index_contig : forall es i acc, contig i es -> es <> [] -> acc <= i ->
  max_entry_index acc es = i + nlen es - 1.
Proof.
  induction es as [|e es IH]; intros i acc HC HN HA; [contradiction|].
  destruct HC as [HC1 HC2]. cbn [max_entry_index]. rewrite nlen_cons.
  destruct es as [|e' es'].
  - cbn [max_entry_index]. unfold nlen; cbn [length]. destruct (acc <? e_index e) eqn:E;
      [apply N.ltb_lt in E | apply N.ltb_ge in E]; lia.
  - rewrite (IH (i + 1)); auto; try discriminate.
    + rewrite nlen_cons. lia.
    + destruct (acc <? e_index e) eqn:E; [apply N.ltb_lt in E | apply N.ltb_ge in E]; lia.
Qed.

Lemma last_index_contig : forall es i, contig i es -> es <> [] -> last_index es = i + nlen es - 1.
Proof.
  induction es as [|e es IH]; intros i HC HN; [contradiction|].
  destruct HC as [HC1 HC2]. rewrite nlen_cons. destruct es as [|e' es'].
  - cbn [last_index]. unfold nlen; cbn [length]. lia.
  - change (last_index (e :: e' :: es')) with (last_index (e' :: es')).
    rewrite (IH (i + 1)); auto; try discriminate. rewrite nlen_cons. lia.
Qed.

Lemma KEntry_inj : forall n i j, KEntry n i = KEntry n j -> i = j.
Proof. intros n i j H. unfold KEntry in H. now inversion H. Qed.

Lemma wb_last_puts : forall n es i k, contig i es ->
  (forall e, In e es -> k = KEntry n (e_index e) ->
     wb_last (map (fun e => WPut (KEntry n (e_index e)) (VEntry e)) es) k = Some (Some (VEntry e))) /\
  ((forall e, In e es -> k <> KEntry n (e_index e)) ->
     wb_last (map (fun e => WPut (KEntry n (e_index e)) (VEntry e)) es) k = None).
Proof.
  induction es as [|e0 es IH]; intros i k HC; cbn [map wb_last].
  - split; [intros e [] | auto].
  - destruct HC as [HC1 HC2]. destruct (IH (i + 1) k HC2) as [IH1 IH2]. split.
    + intros e [<-|HI] ->.
      * rewrite IH2; [cbn [wkey]; now rewrite key_eqb_refl|].
        intros e' HI' X. apply KEntry_inj in X. pose proof (contig_bounds _ _ _ HC2 HI'). lia.
      * now rewrite (IH1 e HI eq_refl).
    + intros H. rewrite IH2 by (intros e' HI'; apply H; now right).
      cbn [wkey]. rewrite key_eqb_neq; auto. apply H. now left.
Qed.

Lemma stage_ents : forall g c nd n u, RnG g (c n) nd n -> u_node u = n ->
  upd_ents_wf nd (u_ents u) = true ->
  let (c', w) := save_tail plain_record c u in
  RnG (gapply w g) (c' n) (upd_ents_step nd (u_ents u)) n /\
  (forall n', n' <> n -> c' n' = c n') /\
  (forall o, In o w -> key_node (wkey o) = n) /\
  (forall k v, In (WPut k v) w -> wt k v).
Proof.
  intros g c nd n u H Hn Hwf. unfold save_tail, upd_ents_step. rewrite Hn.
  destruct (u_ents u) as [|e0 es0] eqn:EU.
  { split; [exact H|]. split; [auto|]. split; intros; contradiction. }
  cbn [upd_ents_wf] in Hwf. set (es := e0 :: es0) in *.
  rewrite !andb_true_iff in Hwf. destruct Hwf as (((W1 & W2) & W3) & W4).
  apply N.ltb_lt in W1, W3. apply N.leb_le in W2.
  set (i0 := e_index e0) in *.
  pose proof (ents_okb_contig _ _ _ W4) as HCe.
  assert (es <> []) as Hne by (subst es; discriminate).
  unfold plain_record. rewrite (max_entry_index_contig es i0 0 HCe Hne ltac:(lia)).
  assert (0 <? i0 + nlen es - 1 = true) as -> by (apply N.ltb_lt; subst es; rewrite nlen_cons; lia).
  set (mi := i0 + nlen es - 1).
  set (puts := map (fun e => WPut (KEntry n (e_index e)) (VEntry e)) es).
  set (w := puts ++ [WPut (KMaxIndex n) (VMax mi)]).
  pose proof (g_contig _ _ _ _ H) as HC.
  destruct (contig_below _ _ i0 HC ltac:(lia) ltac:(unfold n_last in *; lia)) as [CB CL].
  assert (HOth : forall k, k <> KMaxIndex n -> (forall e, In e es -> k <> KEntry n (e_index e)) -> gapply w g k = g k).
  { intros k K1 K2. unfold gapply. subst w puts. rewrite wb_last_app. cbn [wb_last wkey].
    rewrite key_eqb_neq by auto. now rewrite (proj2 (wb_last_puts n es i0 k HCe) K2). }
  split; [|split; [|split]].
  - unfold cs_set_max_index. rewrite cupd_same.
    assert (Hlast' : n_marker nd + nlen (below i0 (n_ents nd) ++ es) = mi).
    { rewrite nlen_app, CL. subst mi. lia. }
    destruct H. constructor; cbn [n_marker n_mterm n_ents n_st n_ss c_state c_max c_snap]; auto.
    + apply contig_app; auto. rewrite CL. replace (n_marker nd + 1 + (i0 - (n_marker nd + 1))) with i0 by lia. exact HCe.
    + intros e HI. apply in_app_or in HI. destruct HI as [HI|HI].
      * unfold below in HI. apply filter_In in HI. destruct HI as [HI HX]. apply N.ltb_lt in HX.
        rewrite HOth; auto.
        -- intros X; ktags; inversion X.
        -- intros e' HI' X. apply KEntry_inj in X. pose proof (contig_bounds _ _ _ HCe HI'). lia.
      * unfold gapply. subst w puts. rewrite wb_last_app. cbn [wb_last wkey].
        rewrite key_eqb_neq by (intros X; ktags; inversion X).
        now rewrite (proj1 (wb_last_puts n es i0 _ HCe) e HI eq_refl).
    + left. unfold gapply. subst w puts. rewrite wb_last_app. cbn [wb_last wkey]. rewrite key_eqb_refl.
      unfold n_last. cbn [n_marker n_ents]. now rewrite Hlast'.
    + intros v X. inversion X. unfold n_last. cbn [n_marker n_ents]. now rewrite Hlast'.
    + rewrite HOth; auto; intros; intro X; ktags; inversion X.
    + intros i Hi. rewrite HOth; auto; intros; intro X; ktags; inversion X.
    + destruct (n_ss nd).
      * rewrite HOth; auto; intros; intro X; ktags; inversion X.
      * intros i. rewrite HOth; auto; intros; intro X; ktags; inversion X.
    + unfold n_last. cbn [n_marker n_ents]. rewrite Hlast'. subst mi. lia.
  - intros n' Hn'. unfold cs_set_max_index. now rewrite cupd_other.
  - intros o HI. subst w puts. apply in_app_or in HI. destruct HI as [HI|HI].
    + apply in_map_iff in HI. destruct HI as (x & <- & _). unfold key_node; cbn; apply nid_eta.
    + destruct HI as [<-|[]]. unfold key_node; cbn; apply nid_eta.
  - intros k v HI. subst w puts. apply in_app_or in HI. destruct HI as [HI|HI].
    + apply in_map_iff in HI. destruct HI as (x & X & HI). inversion X; subst.
      pose proof (contig_bounds _ _ _ HCe HI). unfold wt; ktags; cbn.
      repeat split; intros Y; try discriminate. exists x. repeat split; auto. lia.
    + destruct HI as [HI|[]]. inversion HI; subst. unfold wt; ktags; cbn.
      repeat split; intros Y; try discriminate. eauto.
Qed.

(* ---------- one update on its node ---------- *)

Lemma upd_steps_commute : forall nd ss st,
  upd_ss_step (upd_st_step nd st) ss = upd_st_step (upd_ss_step nd ss) st.
Proof.
  intros nd ss st. unfold upd_ss_step, upd_st_step.
  destruct (ss_emptyb ss); destruct (st_emptyb st); reflexivity.
Qed.
Lemma upd_ss_wf_st : forall nd ss st, upd_ss_wf (upd_st_step nd st) ss = upd_ss_wf nd ss.
Proof. intros. unfold upd_st_step. now destruct (st_emptyb st). Qed.
Lemma upd_ents_wf_st : forall nd es st, upd_ents_wf (upd_st_step nd st) es = upd_ents_wf nd es.
Proof. intros. unfold upd_st_step. now destruct (st_emptyb st). Qed.

Definition wb_in_node (w : wb) (n : nid) : Prop := forall o, In o w -> key_node (wkey o) = n.
Definition wb_wt (w : wb) : Prop := forall k v, In (WPut k v) w -> wt k v.

Lemma wb_in_node_app : forall a b n, wb_in_node a n -> wb_in_node b n -> wb_in_node (a ++ b) n.
Proof. intros a b n Ha Hb o HI. apply in_app_or in HI. destruct HI; auto. Qed.
Lemma wb_wt_app : forall a b, wb_wt a -> wb_wt b -> wb_wt (a ++ b).
Proof. intros a b Ha Hb k v HI. apply in_app_or in HI. destruct HI; [eapply Ha | eapply Hb]; eauto. Qed.

Lemma save_node : forall m c nd n u, sorted m -> WT m ->
  RnG (kv_get m) (c n) nd n -> u_node u = n -> update_wf nd u = true ->
  exists c1 wh, save_head m c u = Some (c1, wh) /\
    (forall n', n' <> n -> c1 n' = c n') /\ wb_in_node wh n /\ wb_wt wh /\
    forall ct, ct n = c1 n ->
      let (ct', wt_) := save_tail plain_record ct u in
      (forall n', n' <> n -> ct' n' = ct n') /\ wb_in_node wt_ n /\ wb_wt wt_ /\
      RnG (gapply (wh ++ wt_) (kv_get m)) (ct' n) (update_step nd u) n.
Proof.
  intros m c nd n u HS HW H Hn Hwf. unfold update_wf in Hwf. apply andb_true_iff in Hwf.
  destruct Hwf as [Wss Wes].
  rewrite save_head_parts. rewrite Hn.
  pose proof (stage_state (kv_get m) c nd n (u_st u) H) as S1.
  destruct (state_part c n (u_st u)) as [ca w1]. destruct S1 as (R1 & O1 & K1).
  assert (K1n : wb_in_node w1 n).
  { intros o HI. rewrite (K1 o HI). unfold key_node; cbn; apply nid_eta. }
  assert (K1w : wb_wt w1).
  { intros k v HI. apply K1 in HI. inversion HI; subst. unfold wt; ktags; cbn.
    repeat split; intros X; try discriminate. eauto. }
  destruct (stage_snap m (gapply w1 (kv_get m)) ca (upd_st_step nd (u_st u)) n (u_ss u) (u_ents u) HS HW R1)
    as (c1 & w2 & E2 & R2 & O2 & K2n & K2w).
  { intros i. unfold gapply. rewrite wb_last_none; auto.
    intros o HI. rewrite (K1 o HI). cbn [wkey]. intros X; ktags; inversion X. }
  { now rewrite upd_ss_wf_st. }
  { intros E Hne. unfold upd_ents_wf in Wes. destruct (u_ents u) as [|e0 es0] eqn:EU; [contradiction|].
    rewrite !andb_true_iff in Wes. destruct Wes as (((A & B) & C) & D). apply N.ltb_lt in A.
    pose proof (ents_okb_contig _ _ _ D) as HC.
    rewrite (last_index_contig _ _ HC) by discriminate. rewrite nlen_cons.
    unfold upd_ss_step in A. rewrite E in A. cbn [n_marker] in A. lia. }
  rewrite E2. exists c1, (w1 ++ w2). split; [reflexivity|]. split; [|split; [|split]].
  - intros n' Hn'. rewrite O2 by auto. auto.
  - now apply wb_in_node_app.
  - now apply wb_wt_app.
  - intros ct Hct.
    assert (R2' : RnG (gapply (w1 ++ w2) (kv_get m)) (ct n) (upd_st_step (upd_ss_step nd (u_ss u)) (u_st u)) n).
    { rewrite Hct, <- upd_steps_commute. eapply RnG_ext; [exact R2|]. intros k _. apply gapply_app. }
    pose proof (stage_ents (gapply (w1 ++ w2) (kv_get m)) ct _ n u R2' Hn) as S3.
    rewrite upd_ents_wf_st in S3. specialize (S3 Wes).
    destruct (save_tail plain_record ct u) as [ct' w3]. destruct S3 as (R3 & O3 & K3n & K3w).
    split; [auto | split; [auto | split; [auto|]]].
    unfold update_step. eapply RnG_ext; [exact R3|]. intros k _. apply gapply_app.
Qed.

(* ---------- SaveRaftState with several updates (distinct replicas) ---------- *)

Definition wb_in_nodes (w : wb) (ns : list nid) : Prop := forall o, In o w -> In (key_node (wkey o)) ns.

Lemma wb_last_not_node : forall w ns k, wb_in_nodes w ns -> ~ In (key_node k) ns -> wb_last w k = None.
Proof.
  intros w ns k H Hk. apply wb_last_none. intros o HI X. apply Hk. rewrite <- X. now apply H.
Qed.

Lemma nodes_distinct_cons : forall n ns, nodes_distinct (n :: ns) = true -> ~ In n ns /\ nodes_distinct ns = true.
Proof.
  intros n ns H. cbn [nodes_distinct] in H. apply andb_true_iff in H. destruct H as [H1 H2].
  split; auto. intros HI. apply negb_true_iff in H1. apply not_true_iff_false in H1. apply H1.
  apply existsb_exists. exists n. split; auto. apply nid_eqb_refl.
Qed.

Lemma save_step_other : forall us s n, ~ In n (map u_node us) -> save_step s us n = s n.
Proof.
  induction us as [|u us IH]; intros s n H; [reflexivity|].
  cbn [map In] in H. unfold save_step in *. cbn [fold_left]. rewrite IH by tauto.
  apply supd_other. intros X. apply H. left. now subst.
Qed.

Lemma nid_dec : forall a b : nid, {a = b} + {a <> b}.
Proof. intros a b. destruct (nid_eqb a b) eqn:E; [left; now apply nid_eqb_eq | right; intros ->; rewrite nid_eqb_refl in E; discriminate]. Qed.

Lemma save_list : forall m, sorted m -> WT m -> forall us c s,
  nodes_distinct (map u_node us) = true ->
  (forall n, In n (map u_node us) -> RnG (kv_get m) (c n) (s n) n) ->
  forallb (fun u => update_wf (s (u_node u)) u) us = true ->
  exists c1 Wh, save_heads m c us = Some (c1, Wh) /\
    (forall n, ~ In n (map u_node us) -> c1 n = c n) /\
    wb_in_nodes Wh (map u_node us) /\ wb_wt Wh /\
    forall ct, (forall n, In n (map u_node us) -> ct n = c1 n) ->
      let (c2, Wt) := save_tails plain_record ct us in
      (forall n, ~ In n (map u_node us) -> c2 n = ct n) /\
      wb_in_nodes Wt (map u_node us) /\ wb_wt Wt /\
      forall n, In n (map u_node us) ->
        RnG (gapply (Wh ++ Wt) (kv_get m)) (c2 n) (save_step s us n) n.
Proof.
  intros m HS HW. induction us as [|u us IH]; intros c s HD HR Hwf.
  - exists c, []. split; [reflexivity|]. split; [auto|]. split; [intros o []|]. split; [intros k v []|].
    intros ct _. cbn [save_tails]. split; [auto|]. split; [intros o []|]. split; [intros k v []|]. intros n [].
  - cbn [map] in HD, HR. destruct (nodes_distinct_cons _ _ HD) as [Hnin HD'].
    cbn [forallb] in Hwf. apply andb_true_iff in Hwf. destruct Hwf as [Wu Wus].
    set (n0 := u_node u) in *.
    destruct (save_node m c (s n0) n0 u HS HW (HR n0 (or_introl eq_refl)) eq_refl Wu)
      as (c1a & wh & EH & O1 & Kh & Th & Tail).
    set (s' := supd s n0 (update_step (s n0) u)).
    destruct (IH c1a s' HD') as (c1 & Whr & EHr & Or & Khr & Thr & Tailr).
    { intros n HI. assert (n <> n0) by (intros ->; contradiction).
      rewrite O1 by auto. unfold s'. rewrite supd_other by auto. apply HR. now right. }
    { rewrite forallb_forall in *. intros x HI. unfold s'. rewrite supd_other; auto.
      intros X. apply Hnin. rewrite <- X. now apply in_map. }
    exists c1, (wh ++ Whr). cbn [save_heads]. rewrite EH, EHr. split; [reflexivity|].
    split; [|split; [|split]].
    + intros n Hn. cbn [map In] in Hn. rewrite Or by tauto. apply O1. intros ->. apply Hn. now left.
    + intros o HI. apply in_app_or in HI. cbn [map]. destruct HI as [HI|HI].
      * left. symmetry. now apply Kh.
      * right. now apply Khr.
    + now apply wb_wt_app.
    + intros ct Hct. cbn [save_tails].
      assert (Hct0 : ct n0 = c1a n0).
      { rewrite Hct by (cbn [map]; now left). now apply Or. }
      specialize (Tail ct Hct0). destruct (save_tail plain_record ct u) as [cta wt_].
      destruct Tail as (Ot & Kt & Tt & Rt).
      specialize (Tailr cta). destruct (save_tails plain_record cta us) as [c2 Wtr].
      destruct Tailr as (Otr & Ktr & Ttr & Rtr).
      { intros n HI. assert (n <> n0) by (intros ->; contradiction).
        rewrite Ot by auto. apply Hct. cbn [map]. now right. }
      split; [|split; [|split]].
      * intros n Hn. cbn [map In] in Hn. rewrite Otr by tauto. apply Ot. intros ->. apply Hn. now left.
      * intros o HI. apply in_app_or in HI. cbn [map]. destruct HI as [HI|HI].
        -- left. symmetry. now apply Kt.
        -- right. now apply Ktr.
      * now apply wb_wt_app.
      * intros n Hn. cbn [map In] in Hn. destruct (nid_dec n n0) as [->|Hne].
        -- (* the first update's replica *)
           rewrite Otr by auto.
           assert (save_step s (u :: us) n0 = update_step (s n0) u) as ->.
           { change (save_step s (u :: us) n0) with (save_step s' us n0).
             rewrite save_step_other by auto. unfold s'. apply supd_same. }
           eapply RnG_ext; [exact Rt|]. intros k Hk. unfold gapply.
           rewrite !wb_last_app.
           rewrite (wb_last_not_node Wtr _ k Ktr) by (rewrite Hk; auto).
           rewrite (wb_last_not_node Whr _ k Khr) by (rewrite Hk; auto).
           reflexivity.
        -- destruct Hn as [Hn|Hn]; [exfalso; apply Hne; symmetry; exact Hn|].
           assert (save_step s (u :: us) n = save_step s' us n) as -> by reflexivity.
           eapply RnG_ext; [exact (Rtr n Hn)|]. intros k Hk. unfold gapply.
           rewrite !wb_last_app.
           assert (wb_last wt_ k = None) as ->.
           { apply wb_last_none. intros o HI X. apply Hne. rewrite <- Hk, <- X. now apply Kt. }
           assert (wb_last wh k = None) as ->.
           { apply wb_last_none. intros o HI X. apply Hne. rewrite <- Hk, <- X. now apply Kh. }
           destruct (wb_last Wtr k); destruct (wb_last Whr k); reflexivity.
Qed.

Lemma save_raft_state_R : forall d s us, R d s -> spec_wf_op s (OSave us) = true ->
  exists d', plain_step d (OSave us) = Some d' /\ R d' (spec_step s (OSave us)).
Proof.
  intros d s us (HS & HW & HR) Hwf. cbn [spec_wf_op] in Hwf. apply andb_true_iff in Hwf.
  destruct Hwf as [HD Hwf].
  destruct (save_list (p_kv d) HS HW us (p_cache d) s HD) as (c1 & Wh & EH & O1 & Kh & Th & Tail); auto.
  { intros n _. apply Rn_G. apply HR. }
  specialize (Tail c1 (fun n _ => eq_refl)).
  cbn [plain_step]. unfold p_save_raft_state, save_wb. rewrite EH.
  destruct (save_tails plain_record c1 us) as [c2 Wt]. destruct Tail as (O2 & Kt & Tt & RT).
  eexists. split; [reflexivity|]. cbn [spec_step].
  split; [now apply sorted_commit | split].
  - apply WT_commit; auto. now apply wb_wt_app.
  - intros n. cbn [p_kv p_cache]. destruct (in_dec nid_dec n (map u_node us)) as [HI|HI].
    + apply Rn_G. eapply RnG_ext; [exact (RT n HI)|]. intros k _. now apply get_commit_g.
    + rewrite O2, O1 by auto. rewrite save_step_other by auto.
      eapply Rn_frame; [apply HR|]. intros k Hk. rewrite get_commit by auto.
      rewrite wb_last_app.
      rewrite (wb_last_not_node Wt _ k Kt) by (rewrite Hk; auto).
      rewrite (wb_last_not_node Wh _ k Kh) by (rewrite Hk; auto). reflexivity.
Qed.

(* ---------- the refinement theorem ---------- *)

Lemma R_init : R pdb_init spec_init.
Proof.
  split; [exact I | split].
  - intros k v H. discriminate.
  - intros n. constructor; cbn; auto; try (intros; discriminate); try contradiction.
    + unfold n_ssidx, max_index; cbn; lia.
    + unfold n_last, nlen, max_index; cbn; lia.
Qed.

Lemma plain_step_R : forall d s o, R d s -> spec_wf_op s o = true ->
  exists d', plain_step d o = Some d' /\ R d' (spec_step s o).
Proof.
  intros d s o HR Hwf. destruct o.
  - now apply save_raft_state_R.
  - now apply save_snapshots_R.
  - eexists. split; [reflexivity|]. now apply remove_entries_to_R.
  - now apply remove_node_data_R.
  - now apply import_snapshot_R.
  - eexists. split; [reflexivity|]. now apply reopen_R.
Qed.

Lemma plain_query_R : forall d s q, R d s ->
  R (snd (plain_query d q)) s /\
  (spec_wf_query s q = true -> plain_observe d q = spec_answer s q).
Proof.
  intros d s q HR. unfold plain_observe. destruct q; cbn [plain_query fst snd].
  - split; auto. intros. now apply iterate_refines.
  - split; auto. intros. now apply read_state_refines.
  - destruct (get_snapshot_refines d s n HR). split; auto.
Qed.

Lemma plain_run_R : forall l d s, R d s -> wf_ops s (muts l) = true ->
  exists d', fold_left plain_pstep l (Some d) = Some d' /\ R d' (spec_run s (muts l)).
Proof.
  induction l as [|p l IH]; intros d s HR Hwf.
  - exists d. split; auto.
  - destruct p as [o|q].
    + cbn [muts flat_map app] in *. fold (muts l) in *. cbn [wf_ops] in Hwf.
      apply andb_true_iff in Hwf. destruct Hwf as [W1 W2].
      destruct (plain_step_R d s o HR W1) as (d1 & E1 & R1).
      cbn [fold_left plain_pstep]. rewrite E1. unfold spec_run. cbn [fold_left]. now apply IH.
    + cbn [muts flat_map app] in *. fold (muts l) in *. cbn [fold_left plain_pstep].
      apply IH; auto. now apply plain_query_R.
Qed.

Theorem plain_refines_proved : forall l q,
  wf_ops spec_init (muts l) = true ->
  spec_wf_query (spec_run spec_init (muts l)) q = true ->
  exists d, plain_prun l = Some d /\
            plain_observe d q = spec_answer (spec_run spec_init (muts l)) q.
Proof.
  intros l q Hwf Hq. destruct (plain_run_R l pdb_init spec_init R_init Hwf) as (d & E & HR).
  exists d. split; auto. now apply (plain_query_R d _ q HR).
Qed.

(* the model never panics on contract-abiding runs *)
Theorem plain_no_panic_proved : forall l, wf_ops spec_init (muts l) = true -> plain_prun l <> None.
Proof.
  intros l Hwf. destruct (plain_run_R l pdb_init spec_init R_init Hwf) as (d & E & _).
  unfold plain_prun. rewrite E. discriminate.
Qed.

(* ---------- corollaries about IterateEntries ---------- *)

Section Corollaries.
  Variables (l : list pop) (n : nid) (low high maxsz : N) (d : pdb) (es : list entry) (sz : N).
  Hypothesis Hwf : wf_ops spec_init (muts l) = true.
  Hypothesis Hq : spec_wf_query (spec_run spec_init (muts l)) (QIter n low high maxsz) = true.
  Hypothesis Hrun : plain_prun l = Some d.
  Hypothesis Hans : p_iterate d n low high maxsz = RIter es sz.

  Let s := spec_run spec_init (muts l).
  Let full := filter (in_range low high) (n_ents (s n)).

  Lemma cor_setup : R d s /\ take_size maxsz 0 full = (es, sz).
  Proof.
    destruct (plain_run_R l pdb_init spec_init R_init Hwf) as (d' & E & HR).
    unfold plain_prun in Hrun. rewrite Hrun in E. inversion E; subst d'. split; auto.
    pose proof (proj2 (plain_query_R d s (QIter n low high maxsz) HR) Hq) as HA.
    unfold plain_observe in HA. cbn [plain_query fst] in HA. rewrite Hans in HA.
    cbn [canon spec_answer] in HA. fold s in HA. fold full in HA.
    destruct (take_size maxsz 0 full) as [a b]. now inversion HA.
  Qed.

  Lemma cor_prefix : exists rest, full = es ++ rest.
  Proof.
    destruct cor_setup as [_ HT]. destruct (take_size_prefix full maxsz 0) as [rest Hr].
    rewrite HT in Hr. cbn [fst] in Hr. eauto.
  Qed.

  (* every returned entry is the entry the logical log holds at that index *)
  Lemma never_stale_entry_proved : forall e, In e es -> In e (n_ents (s n)).
  Proof.
    intros e HI. destruct cor_prefix as [rest Hr].
    assert (In e full) as HF by (rewrite Hr; apply in_or_app; now left).
    unfold full in HF. apply filter_In in HF. tauto.
  Qed.

  Lemma never_past_logical_end_proved : forall e, In e es ->
    low <= e_index e < high /\ e_index e <= n_last (s n).
  Proof.
    intros e HI. destruct cor_prefix as [rest Hr]. destruct cor_setup as [(_ & _ & HR) _].
    assert (In e full) as HF by (rewrite Hr; apply in_or_app; now left).
    unfold full in HF. apply filter_In in HF. destruct HF as [HF1 HF2].
    unfold in_range in HF2. apply andb_true_iff in HF2. destruct HF2 as [A B].
    apply N.leb_le in A. apply N.ltb_lt in B.
    pose proof (contig_bounds _ _ _ (r_contig _ _ _ _ (HR n)) HF1). unfold n_last. lia.
  Qed.

  Lemma contig_prefix : forall (a b : list entry) i, contig i (a ++ b) -> contig i a.
  Proof.
    induction a as [|e a IH]; intros b i H; [exact I|]. destruct H as [H1 H2]. split; eauto.
  Qed.

  (* the answer starts at low and has no gap *)
  Lemma never_gap_proved : contig low es.
  Proof.
    destruct cor_prefix as [rest Hr]. destruct cor_setup as [(_ & _ & HR) _].
    cbn [spec_wf_query] in Hq. rewrite !andb_true_iff in Hq. destruct Hq as (((W1 & _) & _) & _).
    apply N.ltb_lt in W1. fold s in W1.
    destruct (filter_range_contig _ _ low high (r_contig _ _ _ _ (HR n)) ltac:(lia)) as [FC _].
    fold full in FC. rewrite Hr in FC. eapply contig_prefix; eauto.
  Qed.
End Corollaries.

(* a shorter answer is only ever caused by the size limit *)
Lemma take_size_short : forall es maxsz size r sz, take_size maxsz size es = (r, sz) ->
  r = es \/ maxsz < sz.
Proof.
  induction es as [|e es IH]; intros maxsz size r sz H; cbn [take_size] in H.
  - inversion H. now left.
  - destruct (maxsz <? size + esize e) eqn:E.
    + inversion H; subst. right. now apply N.ltb_lt.
    + destruct (take_size maxsz (size + esize e) es) as [r' sz'] eqn:T. inversion H; subst.
      destruct (IH _ _ _ _ T) as [->|X]; [now left | now right].
Qed.

Lemma size_limit_only_shortens_proved : forall l n low high maxsz d es sz,
  wf_ops spec_init (muts l) = true ->
  spec_wf_query (spec_run spec_init (muts l)) (QIter n low high maxsz) = true ->
  plain_prun l = Some d -> p_iterate d n low high maxsz = RIter es sz ->
  (exists rest, filter (in_range low high) (n_ents (spec_run spec_init (muts l) n)) = es ++ rest) /\
  (es = filter (in_range low high) (n_ents (spec_run spec_init (muts l) n)) \/ maxsz < sz).
Proof.
  intros l n low high maxsz d es sz Hwf Hq Hrun Hans. split.
  - eapply cor_prefix; eauto.
  - destruct (cor_setup l n low high maxsz d es sz Hwf Hq Hrun Hans) as [_ HT].
    now apply take_size_short in HT.
Qed.

(* closing and reopening the store changes no observation *)
Lemma reopen_preserves_obs_proved : forall l q d,
  wf_ops spec_init (muts l) = true ->
  spec_wf_query (spec_run spec_init (muts l)) q = true ->
  plain_prun l = Some d ->
  plain_observe (p_reopen d) q = plain_observe d q.
Proof.
  intros l q d Hwf Hq Hrun.
  destruct (plain_run_R l pdb_init spec_init R_init Hwf) as (d' & E & HR).
  unfold plain_prun in Hrun. rewrite Hrun in E. inversion E; subst d'.
  rewrite (proj2 (plain_query_R d _ q HR) Hq).
  apply (proj2 (plain_query_R (p_reopen d) _ q (reopen_R _ _ HR)) Hq).
Qed.
