(* C17: bounded-progress lemmas on the L1 model (single-step / bounded-tick facts the liveness
   argument is built from). Unconditional liveness is not a theorem (random time-outs). *)
From DB Require Import Model.RaftCore Proofs.RaftTable Proofs.RaftStep Proofs.RaftRoles.
From Coq Require Import Arith ZifyN ZifyNat ZifyBool Lia.
Open Scope N_scope.

(* ---- flow control of a remote ---- *)
(* a heartbeat response un-pauses a waiting remote *)
Theorem heartbeat_resp_unpauses_wait_proved p :
  rm_state p = RWait -> rm_is_paused (rm_wait_to_retry (p <| rm_active := true |>)) = false.
Proof. intros H. unfold rm_wait_to_retry, rm_is_paused. cbn [rm_state set]. 
  change (rm_state (p <| rm_active := true |>)) with (rm_state p). rewrite H. reflexivity. Qed.

(* a rejected Replicate makes the leader back off: next moves to max(1, min(rejected, hint+1)),
   at most the rejected index, and the remote leaves the wait state *)
Theorem rejected_replicate_next_proved p rejected last :
  rm_state p = RRetry \/ rm_state p = RWait ->
  rm_next p - 1 = rejected -> 1 <= rejected ->
  snd (rm_decrease_to p rejected last) = true /\
  rm_next (fst (rm_decrease_to p rejected last)) = N.max 1 (N.min rejected (last + 1)) /\
  rm_next (fst (rm_decrease_to p rejected last)) <= rejected.
Proof.
  intros Hs He Hr. unfold rm_decrease_to.
  destruct Hs as [Hs|Hs]; rewrite Hs; rewrite He, N.eqb_refl; cbn [negb fst snd];
    (split; [reflexivity|]); unfold rm_wait_to_retry; rewrite Hs;
    match goal with |- rm_next (?X <| rm_next := ?v |>) = _ /\ _ => change (rm_next (X <| rm_next := v |>)) with v end;
    split; try reflexivity; lia.
Qed.

(* a snapshot status report (or the delayed ack) takes the remote out of the snapshot state *)
Theorem snapshot_state_left_on_status_proved p :
  rm_state p = RSnapshot -> rm_state (rm_become_wait p) = RWait.
Proof.
  intros H. unfold rm_become_wait, rm_retry_to_wait, rm_become_retry, rm_clear_ack.
  cbn [rm_state set]. reflexivity.
Qed.

(* an acknowledged Replicate moves a retrying remote into the pipelined replicate state *)
Theorem ack_enters_replicate_proved p :
  rm_state p = RRetry -> rm_state (rm_responded_to p) = RReplicate /\ rm_next (rm_responded_to p) = rm_match p + 1.
Proof. intros H. unfold rm_responded_to. rewrite H. split; reflexivity. Qed.


Theorem rejected_replicate_state_proved p rejected last :
  rm_state p = RRetry \/ rm_state p = RWait -> rm_next p - 1 = rejected ->
  rm_state (fst (rm_decrease_to p rejected last)) = RRetry.
Proof.
  intros Hs He. unfold rm_decrease_to.
  destruct Hs as [Hs|Hs]; rewrite Hs; rewrite He, N.eqb_refl; cbn [negb fst];
    unfold rm_wait_to_retry; rewrite Hs;
    match goal with |- rm_state (?X <| rm_next := ?v |>) = _ => change (rm_state (X <| rm_next := v |>)) with (rm_state X) end;
    try exact Hs; reflexivity.
Qed.

(* ---- the election timer fires ---- *)
Lemma append_entries_rk r ents : rk r (append_entries r ents).
Proof.
  unfold append_entries. destruct (log_append _ _); [|apply panic_rk].
  match goal with |- context [alookup ?a ?b] => destruct (alookup a b) end; [|reflexivity].
  match goal with |- rk r (if ?c then fst (try_commit ?x) else ?y) => destruct c end; [|reflexivity].
  eapply rk_trans; [|apply try_commit_rk]. reflexivity.
Qed.

Definition bl_cc (X : raft) : raft :=
  if 1 <? pending_cc_count X then panic X
  else (if pending_cc_count X =? 1 then (X <| r_pending_cc := true |>) else X).
Lemma bl_cc_rk X : rk X (bl_cc X).
Proof. unfold bl_cc. destruct (1 <? _); [reflexivity|]. destruct (_ =? 1); reflexivity. Qed.
Lemma become_leader_unfold r : r_role r = Candidate ->
  become_leader r = append_entries (bl_cc (set_leader_id (reset (r <| r_role := Leader |>) (r_term r) true) (r_id r)))
                                   [mkEnt 0 0 et_ApplicationEntry 0 0 0 0 []].
Proof. intros Hc. unfold become_leader, is_leader, bl_cc. rewrite Hc. reflexivity. Qed.
Lemma become_leader_role r : r_role r = Candidate -> r_role (become_leader r) = Leader.
Proof.
  intros Hc. rewrite (become_leader_unfold r Hc).
  pose proof (append_entries_rk (bl_cc (set_leader_id (reset (r <| r_role := Leader |>) (r_term r) true) (r_id r)))
                                [mkEnt 0 0 et_ApplicationEntry 0 0 0 0 []]) as H1.
  pose proof (bl_cc_rk (set_leader_id (reset (r <| r_role := Leader |>) (r_term r) true) (r_id r))) as H2.
  pose proof (set_leader_id_rk (reset (r <| r_role := Leader |>) (r_term r) true) (r_id r)) as H3.
  pose proof (reset_rk (r <| r_role := Leader |>) (r_term r) true) as H4.
  unfold rk in *. rewrite H1, H2, H3, H4. reflexivity.
Qed.

Lemma become_candidate_unfold r :
  is_leader r = false -> is_nonvoting r = false -> is_witness r = false ->
  become_candidate r = (set_leader_id (reset (r <| r_role := Candidate |>) (r_term r + 1) true) 0) <| r_vote := r_id r |>.
Proof. intros H1 H2 H3. unfold become_candidate. rewrite H1, H2, H3. reflexivity. Qed.
Lemma vote_upd_role (X : raft) v : r_role (X <| r_vote := v |>) = r_role X. Proof. reflexivity. Qed.
Lemma vote_upd_id (X : raft) v : r_id (X <| r_vote := v |>) = r_id X. Proof. reflexivity. Qed.
Lemma set_leader_id_id (X : raft) l : r_id (set_leader_id X l) = r_id X. Proof. reflexivity. Qed.
Lemma reset_id r t b : r_id (reset r t b) = r_id r.
Proof. unfold reset, reset_peers. destruct (negb _); destruct b; reflexivity. Qed.

Lemma become_candidate_spec r :
  is_leader r = false -> is_nonvoting r = false -> is_witness r = false ->
  r_role (become_candidate r) = Candidate /\ r_term (become_candidate r) = r_term r + 1 /\
  r_vote (become_candidate r) = r_id r /\ r_id (become_candidate r) = r_id r.
Proof.
  intros H1 H2 H3. rewrite (become_candidate_unfold r H1 H2 H3).
  rewrite vote_upd_role, vote_upd_term, vote_upd_vote, vote_upd_id.
  pose proof (set_leader_id_rk (reset (r <| r_role := Candidate |>) (r_term r + 1) true) 0) as A.
  pose proof (reset_rk (r <| r_role := Candidate |>) (r_term r + 1) true) as B. unfold rk in A, B.
  destruct (set_leader_id_tv (reset (r <| r_role := Candidate |>) (r_term r + 1) true) 0) as [C _].
  rewrite A, B, C, reset_term. repeat split; try reflexivity.
  rewrite set_leader_id_id.
  rewrite reset_id. reflexivity.
Qed.

Lemma fold_send_keep (f : raft -> N -> raft) ids :
  (forall r' k, rk r' (f r' k) /\ tv_eq r' (f r' k)) ->
  forall r, rk r (fold_left f ids r) /\ tv_eq r (fold_left f ids r).
Proof.
  intros Hf. induction ids as [|k ids IH]; intros r; cbn [fold_left]; [split; [reflexivity|apply tv_eq_refl]|].
  destruct (Hf r k) as [A B]. destruct (IH (f r k)) as [C D].
  split; [eapply rk_trans; eassumption|eapply tv_eq_trans; eassumption].
Qed.

Theorem campaign_spec_proved r :
  is_leader r = false -> is_nonvoting r = false -> is_witness r = false ->
  r_term (campaign r) = r_term r + 1 /\ r_vote (campaign r) = r_id r /\
  (r_role (campaign r) = Candidate \/ r_role (campaign r) = Leader).
Proof.
  intros H1 H2 H3. destruct (become_candidate_spec r H1 H2 H3) as (Er & Et & Ev & Ei).
  unfold campaign. cbv zeta.
  set (r1 := become_candidate r) in *. clearbody r1.
  set (r2 := fst (handle_vote_resp r1 (r_id r1) false)).
  assert (Er2 : r_role r2 = Candidate /\ r_term r2 = r_term r + 1 /\ r_vote r2 = r_id r).
  { unfold r2, handle_vote_resp. cbn [fst]. repeat split; assumption. }
  clearbody r2. destruct Er2 as (Ea & Eb & Ec).
  destruct (is_single_node_quorum r2).
  - destruct (become_leader_tv r2) as [A B]. rewrite A, B. repeat split; try assumption.
    right. apply become_leader_role. exact Ea.
  - match goal with |- context [fold_left ?f ?ids ?x] =>
      assert (Hf : forall r' k, rk r' (f r' k) /\ tv_eq r' (f r' k))
        by (intros r' k; cbv beta; destruct (k =? r_id r); split; auto with rk tv);
      destruct (fold_send_keep f ids Hf x) as [A [B C]] end.
    unfold rk in A. rewrite A, B, C. repeat split; try assumption. left. exact Ea.
Qed.
