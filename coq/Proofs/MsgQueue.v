(* The receive queue neither loses nor duplicates a message it accepted, and a delayed
   snapshot status report is handed out once, not before it is due and by the first Get
   after it is due. *)
From DB Require Import Model.MsgQueue.
From Coq Require Import Arith ZifyN ZifyNat ZifyBool Lia Permutation.
Open Scope N_scope.

Definition held (q : mq) : list N := q_nodrop q ++ map fst (q_delayed q) ++ q_items q.

Definition accepted_of (o : mqop) (out : mqout) : list N :=
  match o, out with
  | MAdd id, OAdd true _ => [id]
  | MMustAdd id, OBool true => [id]
  | MAddDelayed id _, OBool true => [id]
  | _, _ => []
  end.
Definition delivered_of (out : mqout) : list N := match out with OGet ids => ids | _ => [] end.

Fixpoint accepted (ops : list mqop) (outs : list mqout) : list N :=
  match ops, outs with
  | o :: ops', out :: outs' => accepted_of o out ++ accepted ops' outs'
  | _, _ => []
  end.
Definition delivered (outs : list mqout) : list N := flat_map delivered_of outs.

Lemma filter_partition_perm {A} (f : A -> bool) (l : list A) :
  Permutation (filter f l ++ filter (fun x => negb (f x)) l) l.
Proof.
  induction l as [|a l IH]; [constructor|]. cbn [filter]. destruct (f a); cbn [negb app].
  - constructor. exact IH.
  - eapply Permutation_trans; [apply Permutation_sym, Permutation_middle|]. constructor. exact IH.
Qed.

Lemma get_delayed_perm now d :
  Permutation (fst (get_delayed now d) ++ map fst (snd (get_delayed now d))) (map fst d).
Proof.
  unfold get_delayed. cbn [fst snd]. rewrite <- map_app. apply Permutation_map. apply filter_partition_perm.
Qed.

(* one step: what was held plus what was newly accepted = what is delivered now plus what is held after *)
Lemma step_conservation q o :
  Permutation (held q ++ accepted_of o (snd (mq_step q o)))
              (delivered_of (snd (mq_step q o)) ++ held (fst (mq_step q o))).
Proof.
  unfold held. destruct o as [|id|id|id delay| |]; cbn [mq_step].
  - cbn [fst snd accepted_of delivered_of q_nodrop q_delayed q_items app]. rewrite app_nil_r. apply Permutation_refl.
  - destruct (q_size q <=? _); [cbn [fst snd accepted_of delivered_of app]; rewrite app_nil_r; apply Permutation_refl|].
    destruct (q_stopped q); cbn [fst snd accepted_of delivered_of q_nodrop q_delayed q_items app];
      [rewrite app_nil_r; apply Permutation_refl|].
    rewrite <- !app_assoc. apply Permutation_refl.
  - destruct (q_stopped q); cbn [fst snd accepted_of delivered_of q_nodrop q_delayed q_items app];
      [rewrite app_nil_r; apply Permutation_refl|].
    rewrite <- !app_assoc. apply Permutation_app_head.
    rewrite (app_assoc (map fst (q_delayed q))). apply (Permutation_app_comm (map fst (q_delayed q) ++ q_items q) [id]).
  - destruct (q_stopped q); cbn [fst snd accepted_of delivered_of q_nodrop q_delayed q_items app];
      [rewrite app_nil_r; apply Permutation_refl|].
    rewrite map_app. cbn [map fst]. rewrite <- !app_assoc. apply Permutation_app_head. apply Permutation_app_head.
    apply (Permutation_app_comm (q_items q) [id]).
  - pose proof (get_delayed_perm (q_tick q) (q_delayed q)) as Hp.
    destruct (get_delayed (q_tick q) (q_delayed q)) as [due rest] eqn:E. cbn [fst snd] in Hp.
    cbn [fst snd delivered_of accepted_of q_nodrop q_delayed q_items]. rewrite app_nil_r. cbn [app].
    rewrite app_nil_r.
    rewrite <- !app_assoc. apply Permutation_app_head.
    eapply Permutation_trans; [apply Permutation_app_tail; apply Permutation_sym; exact Hp|].
    rewrite <- !app_assoc. apply Permutation_app_head. apply Permutation_app_comm.
  - cbn [fst snd accepted_of delivered_of q_nodrop q_delayed q_items app]. rewrite app_nil_r. apply Permutation_refl.
Qed.

Theorem no_loss_no_duplication_proved : forall ops q,
  Permutation (held q ++ accepted ops (snd (mq_run q ops)))
              (delivered (snd (mq_run q ops)) ++ held (fst (mq_run q ops))).
Proof.
  induction ops as [|o ops IH]; intros q.
  - cbn. rewrite app_nil_r. apply Permutation_refl.
  - cbn [mq_run]. pose proof (step_conservation q o) as Hs.
    destruct (mq_step q o) as [q1 out] eqn:E1. cbn [fst snd] in Hs.
    specialize (IH q1). destruct (mq_run q1 ops) as [q2 outs] eqn:E2. cbn [fst snd] in *.
    cbn [accepted delivered flat_map]. fold (delivered outs).
    rewrite app_assoc. eapply Permutation_trans; [apply Permutation_app_tail; exact Hs|].
    rewrite <- !app_assoc. apply Permutation_app_head. exact IH.
Qed.

(* a delayed record is handed out exactly by the Gets whose tick is past its due tick, in order *)
Theorem delayed_due_exactly_proved now d id due :
  In (id, due) d ->
  (In id (fst (get_delayed now d)) /\ due < now \/ In (id, due) (snd (get_delayed now d)) /\ now <= due).
Proof.
  intros Hin. unfold get_delayed. cbn [fst snd].
  destruct (N.ltb_spec due now) as [Hlt|Hge].
  - left. split; [|exact Hlt]. apply in_map_iff. exists (id, due). split; [reflexivity|].
    apply filter_In. split; [exact Hin|]. cbn. apply N.ltb_lt. exact Hlt.
  - right. split; [|exact Hge]. apply filter_In. split; [exact Hin|]. cbn.
    apply negb_true_iff. apply N.ltb_ge. exact Hge.
Qed.

Theorem delayed_order_kept_proved now d :
  fst (get_delayed now d) = map fst (filter (fun r => snd r <? now) d) /\
  snd (get_delayed now d) = filter (fun r => negb (snd r <? now)) d.
Proof. split; reflexivity. Qed.

Theorem get_hands_out_everything_due_proved q :
  let q' := fst (mq_step q MGet) in
  q_items q' = [] /\ q_nodrop q' = [] /\ (forall id due, In (id, due) (q_delayed q') -> q_tick q <= due).
Proof.
  cbn [mq_step get_delayed fst q_items q_nodrop q_delayed]. repeat split.
  intros id due Hin. apply filter_In in Hin. destruct Hin as [_ Hc]. cbn [snd] in Hc.
  apply negb_true_iff in Hc. apply N.ltb_ge in Hc. exact Hc.
Qed.

Theorem must_add_refused_only_when_closed_proved q id delay :
  snd (mq_step q (MMustAdd id)) = OBool (negb (q_stopped q)) /\
  snd (mq_step q (MAddDelayed id delay)) = OBool (negb (q_stopped q)).
Proof. cbn [mq_step]. destruct (q_stopped q); split; reflexivity. Qed.
