(* Proofs/ClientSession.v — the client-side counter discipline (C05). *)
From DB Require Import Base.Bytes Gen.GenC05 Model.ClientSession.
From Coq Require Import Sorted.
From Coq Require Import ZifyN ZifyNat ZifyBool.
Ltac Zify.zify_post_hook ::= Z.div_mod_to_equations.
Open Scope N_scope.

(* the state of a session in use: next series id = acknowledged + 1 *)
Definition c_ok (s : csession) : Prop :=
  c_client s <> 0 /\ c_series s = c_responded s + 1.

Lemma c_prepare_ok : forall cid s,
  cid <> 0 -> c_prepare_for_propose (c_new cid) = Some s -> c_ok s /\ c_series s = 1 /\ c_client s = cid.
Proof.
  intros cid s H. unfold c_prepare_for_propose, c_new, c_regular, not_session_managed_client_id, noop_series_id,
    series_id_first_proposal. cbn.
  destruct (cid =? 0) eqn:E; [apply N.eqb_eq in E; congruence|]. cbn.
  intros Q; inversion Q; subst. unfold c_ok. cbn. repeat split; auto.
Qed.

(* every triple emitted from an ok state with series id >= lo, as long as the
   series counter cannot reach the reserved ids (fewer than 2^64-3 completions) *)
Lemma c_run_discipline : forall ops s out s',
  c_ok s -> c_series s + N.of_nat (length ops) < series_id_for_register ->
  c_run s ops = Some (out, s') ->
  c_ok s' /\ c_series s <= c_series s' /\
  Forall (fun t => fst (fst t) = c_client s /\ snd t + 1 = snd (fst t) /\
                   c_series s <= snd (fst t) <= c_series s') out /\
  Sorted (fun a b => snd (fst a) <= snd (fst b)) out.
Proof.
  induction ops as [|o r IH]; intros s out s' OK B H.
  - inversion H; subst. repeat split; auto; try apply OK; lia.
  - destruct o; cbn [c_run] in H.
    + destruct (c_run s r) as [[out1 s1]|] eqn:R; [|discriminate]. inversion H; subst.
      destruct (IH s out1 s' OK) as (OK' & LE & F & SO); auto.
      { cbn [length] in B. lia. }
      repeat split; auto; try apply OK'.
      * constructor; auto. cbn. destruct OK as [_ E]. repeat split; auto; lia.
      * constructor; auto. destruct out1 as [|x t]; constructor. cbn.
        inversion F; subst. cbn in *. lia.
    + unfold c_proposal_completed in H.
      destruct (c_regular s); [|discriminate].
      destruct (c_series s =? (c_responded s + 1) mod c_two64); [|discriminate].
      unfold series_id_for_register in B. cbn [length] in B.
      assert (M : (c_series s + 1) mod c_two64 = c_series s + 1).
      { apply N.mod_small. unfold c_two64. lia. }
      rewrite M in H.
      set (s1 := mkC (c_client s) (c_series s + 1) (c_series s)) in *.
      assert (OK1 : c_ok s1) by (destruct OK; split; cbn; auto).
      destruct (IH s1 out s' OK1) as (OK' & LE & F & SO); auto.
      { cbn. unfold series_id_for_register. lia. }
      cbn in LE. repeat split; auto; try apply OK'; try lia.
      eapply Forall_impl; [|exact F]. cbn. intros t (A1 & A2 & A3). repeat split; auto; lia.
Qed.

(* two emitted triples with the same series id are identical (a retry carries
   exactly the same ids), and the client never panics *)
Lemma c_run_total : forall ops s,
  c_ok s -> c_series s + N.of_nat (length ops) < series_id_for_register ->
  c_run s ops <> None.
Proof.
  induction ops as [|o r IH]; intros s OK B; cbn [c_run]; [discriminate|].
  destruct o.
  - specialize (IH s OK). cbn [length] in B. destruct (c_run s r) as [[? ?]|]; [discriminate|].
    exfalso. apply IH; auto. lia.
  - unfold c_proposal_completed, c_regular. destruct OK as [C E].
    unfold series_id_for_register in B. cbn [length] in B.
    assert (M1 : (c_responded s + 1) mod c_two64 = c_responded s + 1) by (apply N.mod_small; unfold c_two64; lia).
    assert (M2 : (c_series s + 1) mod c_two64 = c_series s + 1) by (apply N.mod_small; unfold c_two64; lia).
    unfold not_session_managed_client_id, noop_series_id.
    destruct (c_client s =? 0) eqn:E1; [apply N.eqb_eq in E1; congruence|].
    destruct (c_series s =? 0) eqn:E2; [apply N.eqb_eq in E2; lia|]. cbn.
    rewrite M1, M2. rewrite E, N.eqb_refl. apply IH.
    + split; cbn; auto.
    + cbn. unfold series_id_for_register. lia.
Qed.

Lemma client_discipline_proved : forall cid ops s0 out s',
  cid <> 0 -> N.of_nat (length ops) < series_id_for_register - 1 ->
  c_prepare_for_propose (c_new cid) = Some s0 ->
  c_run s0 ops <> None /\
  (c_run s0 ops = Some (out, s') ->
   Forall (fun t => fst (fst t) = cid /\ 1 <= snd (fst t) /\ snd t + 1 = snd (fst t) /\
                    snd (fst t) <> series_id_for_register /\ snd (fst t) <> series_id_for_unregister) out /\
   Sorted (fun a b => snd (fst a) <= snd (fst b)) out /\
   (forall a b, In a out -> In b out -> snd (fst a) = snd (fst b) -> a = b)).
Proof.
  intros cid ops s0 out s' C B P. destruct (c_prepare_ok cid s0 C P) as (OK & S1 & CL).
  assert (B' : c_series s0 + N.of_nat (length ops) < series_id_for_register) by (rewrite S1; lia).
  split; [now apply c_run_total|]. intros R.
  destruct (c_run_discipline ops s0 out s' OK B' R) as (OK' & LE & F & SO).
  assert (UB : c_series s' < series_id_for_register).
  { clear - OK B' R. revert s0 out s' OK B' R. induction ops as [|o r IH]; intros s out s' OK B R.
    - inversion R; subst. cbn in B. lia.
    - destruct o; cbn [c_run] in R.
      + destruct (c_run s r) as [[o1 s1]|] eqn:Q; [|discriminate]. inversion R; subst.
        eapply IH; eauto. cbn [length] in B. lia.
      + unfold c_proposal_completed in R. destruct (c_regular s); [|discriminate].
        destruct (c_series s =? (c_responded s + 1) mod c_two64); [|discriminate].
        unfold series_id_for_register in B. cbn [length] in B.
        assert (M : (c_series s + 1) mod c_two64 = c_series s + 1) by (apply N.mod_small; unfold c_two64; lia).
        rewrite M in R. eapply IH; [| |exact R].
        * destruct OK; split; cbn; auto.
        * cbn. unfold series_id_for_register. lia. }
  repeat split; auto.
  - eapply Forall_impl; [|exact F]. cbn. intros t (A1 & A2 & A3).
    unfold series_id_for_register, series_id_for_unregister in *. repeat split; try lia; try congruence.
  - intros [[a1 a2] a3] [[b1 b2] b3] Ha Hb E. cbn in E. subst b2.
    rewrite Forall_forall in F. destruct (F _ Ha) as (X1 & X2 & _). destruct (F _ Hb) as (Y1 & Y2 & _).
    cbn in *. f_equal; [f_equal|]; try congruence. lia.
Qed.
