(* C18, local half: a non-voting member or a witness never becomes (pre)candidate or
   leader in a step of raft.Handle; the only role change is the promotion of a non-voting
   member to follower by an applied AddNode / restored membership. *)
From DB Require Import Model.RaftCore Proofs.RaftTable Proofs.RaftStep.
From Coq Require Import ZifyN ZifyNat ZifyBool Lia.
Open Scope N_scope.

Definition rk (r r' : raft) : Prop := r_role r' = r_role r.
Lemma rk_refl r : rk r r. Proof. reflexivity. Qed.
Lemma rk_trans a b c : rk a b -> rk b c -> rk a c.
Proof. unfold rk. congruence. Qed.
Lemma fold_rk {A} (f : raft -> A -> raft) l :
  (forall r x, rk r (f r x)) -> forall r, rk r (fold_left f l r).
Proof.
  intros Hf. induction l as [|x l IH]; intros r; simpl; [apply rk_refl|].
  eapply rk_trans; [apply Hf|apply IH].
Qed.

Lemma panic_rk r : rk r (panic r). Proof. reflexivity. Qed.
Lemma handle_log_query_rk r m : rk r (handle_log_query r m).
Proof.
  unfold handle_log_query. destruct (r_log_query r); [reflexivity|]. cbv zeta.
  repeat match goal with |- context [if ?c then _ else _] => destruct c end; reflexivity.
Qed.
Lemma send_rk r m : rk r (send r m).
Proof. unfold send. destruct (finalize_term _ _); reflexivity. Qed.
Lemma set_peer_rk r k id p : rk r (set_peer r k id p).
Proof. destruct k; reflexivity. Qed.
Lemma set_leader_id_rk r l : rk r (set_leader_id r l). Proof. reflexivity. Qed.
Lemma reset_rk r t b : rk r (reset r t b).
Proof. unfold reset, reset_peers, rk. destruct (negb _); destruct b; reflexivity. Qed.
#[export] Hint Resolve rk_refl panic_rk send_rk set_peer_rk set_leader_id_rk reset_rk : rk.

Lemma become_nonvoting_rk r t l : rk r (become_nonvoting r t l).
Proof. unfold become_nonvoting. destruct (negb _); [apply panic_rk|].
  eapply rk_trans; [apply reset_rk|apply set_leader_id_rk]. Qed.
Lemma become_witness_rk r t l : rk r (become_witness r t l).
Proof. unfold become_witness. destruct (negb _); [apply panic_rk|].
  eapply rk_trans; [apply reset_rk|apply set_leader_id_rk]. Qed.

Lemma send_replicate_rk r to : rk r (send_replicate r to).
Proof.
  unfold send_replicate. destruct (find_peer r to) as [[k rp]|]; [|apply panic_rk].
  destruct (rm_is_paused rp); [apply rk_refl|].
  destruct (log_entries_from _ _) as [ents0|].
  - destruct ents0 as [|e0 es]; [apply send_rk|].
    destruct (rm_progress _ _); [|apply panic_rk].
    eapply rk_trans; [apply set_peer_rk|apply send_rk].
  - destruct (negb (rm_active rp)); [apply rk_refl|].
    destruct (is_empty_snapshot _); [apply panic_rk|].
    eapply rk_trans; [apply set_peer_rk|apply send_rk].
Qed.
Lemma broadcast_replicate_rk r : rk r (broadcast_replicate r).
Proof.
  unfold broadcast_replicate. destruct (negb (is_leader r)); [apply panic_rk|].
  destruct (amem _ _); [apply panic_rk|].
  apply fold_rk. intros r' x. destruct (x =? r_id r); [apply rk_refl|apply send_replicate_rk].
Qed.
Lemma try_commit_rk r : rk r (fst (try_commit r)).
Proof.
  unfold try_commit. destruct (negb (is_leader r)); [simpl; apply panic_rk|].
  destruct (log_try_commit _ _ _); reflexivity.
Qed.

Lemma restore_rk r s : rk r (fst (restore r s)).
Proof.
  unfold restore. cbv zeta.
  destruct (_ <=? _); [apply rk_refl|].
  destruct (_ && _); [apply panic_rk|].
  destruct (_ && _); [apply panic_rk|].
  destruct (match_term _ _ _).
  - destruct (log_commit_to _ _); simpl; [reflexivity|apply panic_rk].
  - simpl. reflexivity.
Qed.

Lemma handle_heartbeat_message_rk r m : rk r (handle_heartbeat_message r m).
Proof.
  unfold handle_heartbeat_message. destruct (log_commit_to _ _); [|apply panic_rk].
  eapply rk_trans; [|apply send_rk]. reflexivity.
Qed.
Lemma handle_install_snapshot_message_rk r m : rk r (handle_install_snapshot_message r m).
Proof.
  unfold handle_install_snapshot_message.
  pose proof (restore_rk r (m_snapshot m)) as H. destruct (restore r (m_snapshot m)) as [r1 ok]. simpl in H.
  eapply rk_trans; [exact H|apply send_rk].
Qed.
Lemma handle_replicate_message_rk r m : rk r (handle_replicate_message r m).
Proof.
  unfold handle_replicate_message. cbv zeta.
  destruct (_ <? _); [apply send_rk|].
  destruct (match_term _ _ _); [|apply send_rk].
  destruct (log_try_append _ _ _); [|apply panic_rk].
  destruct (log_commit_to _ _); [|apply panic_rk].
  eapply rk_trans; [|apply send_rk]. reflexivity.
Qed.
Lemma leader_is_available_rk r m : rk r (leader_is_available r m).
Proof. reflexivity. Qed.
Lemma handle_node_request_prevote_rk r m : rk r (handle_node_request_prevote r m).
Proof.
  unfold handle_node_request_prevote. cbv zeta. destruct (_ <? _); [apply panic_rk|].
  destruct (_ && _); apply send_rk.
Qed.
Lemma handle_node_request_vote_rk r m : rk r (handle_node_request_vote r m).
Proof.
  unfold handle_node_request_vote. cbv zeta.
  destruct (_ && _); (eapply rk_trans; [|apply send_rk]); reflexivity.
Qed.
Lemma handle_follower_propose_rk r m : rk r (handle_follower_propose r m).
Proof. unfold handle_follower_propose. destruct (_ =? 0); [reflexivity|apply send_rk]. Qed.
Lemma handle_follower_read_index_rk r m : rk r (handle_follower_read_index r m).
Proof. unfold handle_follower_read_index. destruct (_ =? 0); [reflexivity|apply send_rk]. Qed.
Lemma handle_follower_read_index_resp_rk r m : rk r (handle_follower_read_index_resp r m).
Proof. reflexivity. Qed.

(* the promotion relation: unchanged, or non-voting -> follower *)
Definition promo (r r' : raft) : Prop :=
  r_role r' = r_role r \/ (r_role r = NonVoting /\ r_role r' = Follower).
Lemma rk_promo r r' : rk r r' -> promo r r'. Proof. left; assumption. Qed.
Lemma promo_rk_trans a b c : promo a b -> rk b c -> promo a c.
Proof. unfold promo, rk. intros [H|[H1 H2]] Hc; [left; congruence|right; split; congruence]. Qed.
Lemma rk_promo_trans a b c : rk a b -> promo b c -> promo a c.
Proof. unfold promo, rk. intros Hc [H|[H1 H2]]; [left; congruence|right; split; congruence]. Qed.

Definition nw (r : raft) : Prop := r_role r = NonVoting \/ r_role r = Witness.

Lemma to_follower_role r t l rt : is_witness r = false -> r_role (to_follower_state r t l rt) = Follower.
Proof.
  intros H. unfold to_follower_state. rewrite H.
  pose proof (set_leader_id_rk (reset (r <| r_role := Follower |>) t rt) l) as H1.
  pose proof (reset_rk (r <| r_role := Follower |>) t rt) as H2. unfold rk in *.
  rewrite H1, H2. reflexivity.
Qed.
Lemma to_follower_witness r t l rt : is_witness r = true -> to_follower_state r t l rt = panic r.
Proof. intros H. unfold to_follower_state. rewrite H. reflexivity. Qed.

Lemma become_follower_promo r t l : nw r -> promo r (become_follower r t l).
Proof.
  intros [H|H]; unfold become_follower.
  - right. split; [exact H|]. apply to_follower_role. unfold is_witness. rewrite H. reflexivity.
  - left. rewrite to_follower_witness; [reflexivity|]. unfold is_witness. rewrite H. reflexivity.
Qed.

(* once promoted the replica is a plain follower; these steps keep that *)
Lemma add_node_promo r id : nw r -> promo r (add_node r id).
Proof.
  intros Hnw. unfold add_node. cbv zeta.
  destruct (_ && _); [left; reflexivity|].
  destruct (amem id (r_remotes _)); [left; reflexivity|].
  destruct (alookup id (r_nonvotings _)).
  - destruct (id =? _); [|left; reflexivity].
    eapply rk_promo_trans; [|apply become_follower_promo].
    + reflexivity.
    + exact Hnw.
  - destruct (amem id (r_witnesses _)); left; reflexivity.
Qed.
Lemma add_nonvoting_rk r id : rk r (add_nonvoting r id).
Proof. unfold add_nonvoting. cbv zeta. destruct (_ && _); [reflexivity|]. destruct (amem _ _); reflexivity. Qed.
Lemma add_witness_rk r id : rk r (add_witness r id).
Proof. unfold add_witness. cbv zeta. destruct (_ && _); [reflexivity|]. destruct (amem _ _); reflexivity. Qed.

Lemma nw_not_leader r : nw r -> is_leader r = false.
Proof. intros [H|H]; unfold is_leader; rewrite H; reflexivity. Qed.

Lemma remove_node_rk r id : nw r -> rk r (remove_node r id).
Proof.
  intros Hnw. unfold remove_node. cbv zeta.
  pose proof (nw_not_leader r Hnw) as Hl.
  set (r0 := r <| r_remotes := aremove id (r_remotes r) |> <| r_nonvotings := aremove id (r_nonvotings r) |>
               <| r_witnesses := aremove id (r_witnesses r) |> <| r_pending_cc := false |>).
  assert (Hl0 : is_leader r0 = false) by exact Hl.
  rewrite Hl0, andb_false_r. unfold leader_transfering, gen_leaderTransfering. rewrite Hl0, andb_false_r.
  cbn [andb]. rewrite Hl0. cbn [andb]. reflexivity.
Qed.

Lemma handle_node_config_change_promo r m : nw r -> promo r (handle_node_config_change r m).
Proof.
  intros Hnw. unfold handle_node_config_change. destruct (m_reject m); [left; reflexivity|]. cbv zeta.
  destruct (_ =? cc_AddNode); [apply add_node_promo; exact Hnw|].
  destruct (_ =? cc_RemoveNode); [apply rk_promo, remove_node_rk; exact Hnw|].
  destruct (_ =? cc_AddNonVoting); [apply rk_promo, add_nonvoting_rk|].
  destruct (_ =? cc_AddWitness); [apply rk_promo, add_witness_rk|left; reflexivity].
Qed.

(* restoreRemotes: a non-voting member listed as a voter becomes a follower *)
Definition promo_from (k : role) (r' : raft) : Prop :=
  r_role r' = k \/ (k = NonVoting /\ r_role r' = Follower).

Lemma rr_step_addr_from k r id : (k = NonVoting \/ k = Witness) -> promo_from k r -> promo_from k (rr_step_addr r id).
Proof.
  intros Hk [H|[Hk2 H]]; unfold rr_step_addr; cbv zeta.
  - (* still the original kind *)
    destruct ((id =? r_id r) && is_nonvoting r) eqn:E.
    + apply andb_prop in E. destruct E as [_ E]. unfold is_nonvoting in E.
      assert (Hr : r_role r = NonVoting) by (destruct (r_role r); simpl in E; congruence).
      assert (Hk3 : k = NonVoting) by congruence.
      assert (Hb : r_role (become_follower r (r_term r) (r_leader r)) = Follower).
      { apply to_follower_role. unfold is_witness. rewrite Hr. reflexivity. }
      destruct (amem _ _); right; (split; [exact Hk3|]); [exact Hb|exact Hb].
    + destruct (amem _ _); left; exact H.
  - (* already promoted: a follower is not non-voting *)
    assert (E : is_nonvoting r = false) by (unfold is_nonvoting; rewrite H; reflexivity).
    rewrite E, andb_false_r. destruct (amem _ _); right; (split; [exact Hk2|exact H]).
Qed.

Lemma promo_from_rk k r0 r1 : rk r0 r1 -> promo_from k r0 -> promo_from k r1.
Proof. unfold rk, promo_from. intros E [H|[H2 H]]; [left; congruence|right; split; congruence]. Qed.
Lemma promo_from_upd_w k (r : raft) l : promo_from k r -> promo_from k (r <| r_witnesses := l |>).
Proof. apply promo_from_rk. reflexivity. Qed.
Lemma promo_from_upd_n k (r : raft) l : promo_from k r -> promo_from k (r <| r_nonvotings := l |>).
Proof. apply promo_from_rk. reflexivity. Qed.
Lemma promo_from_upd_r k (r : raft) l : promo_from k r -> promo_from k (r <| r_remotes := l |>).
Proof. apply promo_from_rk. reflexivity. Qed.

Lemma restore_remotes_from k r s : (k = NonVoting \/ k = Witness) -> r_role r = k -> promo_from k (restore_remotes r s).
Proof.
  intros Hk Hr. unfold restore_remotes. cbv zeta.
  assert (H1 : forall l r0, promo_from k r0 -> promo_from k (fold_left rr_step_addr l r0)).
  { induction l as [|x l IH]; intros r0 H0; simpl; [exact H0|]. apply IH. apply rr_step_addr_from; assumption. }
  eapply promo_from_rk; [apply fold_rk; intros; reflexivity|].
  apply promo_from_upd_w.
  eapply promo_from_rk; [apply fold_rk; intros; reflexivity|].
  apply promo_from_upd_n.
  assert (HX : promo_from k (fold_left rr_step_addr (ss_addrs s) (r <| r_remotes := [] |>))).
  { apply H1. apply promo_from_upd_r. left. exact Hr. }
  unfold rr_step_down.
  assert (El : is_leader (fold_left rr_step_addr (ss_addrs s) (r <| r_remotes := [] |>)) = false).
  { unfold is_leader. destruct HX as [H|[_ H]]; rewrite H; destruct Hk; subst; reflexivity. }
  rewrite El, andb_false_r. exact HX.
Qed.

Lemma drop_request_vote_rk r m : rk r (fst (drop_request_vote_from_high_term r m)).
Proof.
  unfold drop_request_vote_from_high_term.
  destruct (_ || _); [reflexivity|]. destruct (_ =? _); [reflexivity|].
  destruct (_ && _); [reflexivity|]. destruct (_ && _); reflexivity.
Qed.

Lemma nw_rk r r' : rk r r' -> nw r -> nw r'.
Proof. unfold rk, nw. intros E [H|H]; [left|right]; congruence. Qed.

Lemma on_message_term_not_matched_rk r m : nw r -> rk r (fst (on_message_term_not_matched r m)).
Proof.
  intros Hnw. unfold on_message_term_not_matched. destruct (_ || _); [reflexivity|].
  pose proof (drop_request_vote_rk r m) as H0.
  destruct (drop_request_vote_from_high_term r m) as [r0 drop]. simpl in H0.
  destruct drop; [exact H0|].
  pose proof (nw_rk _ _ H0 Hnw) as Hnw0.
  destruct (_ <? _).
  - destruct (gen_isPreVoteMessageWithExpectedHigherTerm _ _); [exact H0|]. cbv zeta.
    destruct (is_nonvoting r0) eqn:En; [simpl; eapply rk_trans; [exact H0|apply become_nonvoting_rk]|].
    destruct (is_witness r0) eqn:Ew; [simpl; eapply rk_trans; [exact H0|apply become_witness_rk]|].
    exfalso. unfold is_nonvoting, is_witness in *. destruct Hnw0 as [H|H]; rewrite H in *; discriminate.
  - destruct (_ || _); simpl; [eapply rk_trans; [exact H0|apply send_rk]|exact H0].
Qed.

Lemma tick_nw_rk f r : nw r -> rk r (tick (S f) r).
Proof.
  intros Hnw. rewrite tick_S. cbv zeta.
  set (r0 := r <| r_quiesce := false |> <| r_tick_count := r_tick_count r + 1 |>).
  assert (Hl : is_leader r0 = false) by (apply (nw_not_leader r Hnw)).
  rewrite Hl.
  set (r1 := r0 <| r_election_tick := r_election_tick r0 + 1 |>).
  assert (E : is_nonvoting r1 || is_witness r1 = true).
  { change (is_nonvoting r || is_witness r = true). unfold is_nonvoting, is_witness.
    destruct Hnw as [H|H]; rewrite H; reflexivity. }
  rewrite E. reflexivity.
Qed.

Definition nw_handler_list : list handler :=
     [H_none; H_handleNonVotingHeartbeat; H_handleNonVotingReplicate; H_handleNonVotingSnapshot;
      H_handleNodeRequestVote; H_handleNodeRequestPreVote; H_handleNonVotingPropose;
      H_handleNonVotingReadIndex; H_handleNonVotingReadIndexResp; H_handleNodeConfigChange;
      H_handleLocalTick; H_handleRestoreRemote; H_handleLogQuery;
      H_handleWitnessHeartbeat; H_handleWitnessReplicate; H_handleWitnessSnapshot].

(* every handler registered for the nonVoting / witness states is in the list above:
   a computation over the generated table *)
Lemma nw_handlers_table :
  forallb (fun h => existsb (handler_beq h) nw_handler_list)
          (handlers_of_state st_nonVoting ++ handlers_of_state st_witness) = true.
Proof. vm_compute. reflexivity. Qed.

Lemma nw_handlers s t : s = st_nonVoting \/ s = st_witness -> In (handler_of s t) nw_handler_list.
Proof.
  intros Hs. destruct (handler_of_state s t) as [E|E]; [rewrite E; left; reflexivity|].
  pose proof nw_handlers_table as F. rewrite forallb_forall in F.
  assert (Hin : In (handler_of s t) (handlers_of_state st_nonVoting ++ handlers_of_state st_witness)).
  { apply in_or_app. destruct Hs; subst s; [left|right]; exact E. }
  specialize (F _ Hin). apply existsb_exists in F. destruct F as (h & Hh & Eq).
  apply internal_handler_dec_bl in Eq. subst h. exact Hh.
Qed.

Lemma role_num_nw r : nw r -> role_num (r_role r) = st_nonVoting \/ role_num (r_role r) = st_witness.
Proof. intros [H|H]; rewrite H; [left|right]; reflexivity. Qed.

Theorem nonvoting_witness_never_campaign_proved f r m :
  nw r -> promo r (handle f r m).
Proof.
  intros Hnw. destruct f as [|f]; [left; reflexivity|]. rewrite handle_S.
  destruct (r_panic r); [left; reflexivity|].
  destruct (_ && _); [left; reflexivity|].
  pose proof (on_message_term_not_matched_rk r m Hnw) as H1.
  destruct (on_message_term_not_matched r m) as [r1 ignore]. simpl in H1.
  destruct (_ || _); [left; exact H1|].
  destruct (_ && _); [left; exact H1|].
  cbv zeta. pose proof (nw_rk _ _ H1 Hnw) as Hnw1.
  eapply rk_promo_trans; [exact H1|].
  pose proof (nw_handlers (role_num (r_role r1)) (m_type m) (role_num_nw r1 Hnw1)) as Hin.
  destruct (handler_of (role_num (r_role r1)) (m_type m)); unfold nw_handler_list in Hin; simpl in Hin;
    try (exfalso; intuition discriminate).
  all: unfold run_handler; cbv zeta.
  all: try (left; reflexivity).
  all: try solve [ apply rk_promo; eapply rk_trans; [apply leader_is_available_rk|];
                   first [apply handle_heartbeat_message_rk|apply handle_replicate_message_rk|apply handle_install_snapshot_message_rk] ].
  all: try solve [ apply rk_promo; first [apply handle_follower_propose_rk | apply handle_follower_read_index_rk
                   | apply handle_follower_read_index_resp_rk | apply handle_node_request_vote_rk
                   | apply handle_node_request_prevote_rk | apply handle_log_query_rk ] ].
  all: first
    [ (* local tick *)
      destruct (m_reject m); [left; reflexivity|];
      destruct f as [|f]; [left; reflexivity|]; apply rk_promo, tick_nw_rk; exact Hnw1
    | apply handle_node_config_change_promo; exact Hnw1
    | (* restore remotes *)
      destruct (restore_remotes_from (r_role r1) r1 (m_snapshot m)) as [H|[H2 H]];
      [destruct Hnw1; [left|right]; assumption|reflexivity|left; exact H|right; split; [exact H2|exact H]] ].
Qed.

(* corollary in the property's words *)
Theorem nonvoting_witness_never_candidate_or_leader_proved f r m :
  r_role r = NonVoting \/ r_role r = Witness ->
  r_role (handle f r m) <> Candidate /\ r_role (handle f r m) <> PreVoteCandidate /\ r_role (handle f r m) <> Leader /\
  (r_role r = Witness -> r_role (handle f r m) = Witness).
Proof.
  intros Hnw. destruct (nonvoting_witness_never_campaign_proved f r m Hnw) as [H|[H1 H2]].
  - rewrite H. destruct Hnw as [E|E]; rewrite E; repeat split; try discriminate; intros; congruence.
  - rewrite H2. repeat split; try discriminate. intros E. congruence.
Qed.

(* ---- witnesses are sent metadata and membership changes only ---- *)
Definition witness_safe (e : entry) : Prop :=
  e_type e = et_ConfigChangeEntry \/ (e_type e = et_MetadataEntry /\ e_cmd e = [] /\ e_key e = 0 /\
                                      e_client e = 0 /\ e_series e = 0 /\ e_resp e = 0).

Lemma make_metadata_entries_safe ents : Forall witness_safe (make_metadata_entries ents).
Proof.
  unfold make_metadata_entries. apply Forall_forall. intros x Hx. apply in_map_iff in Hx.
  destruct Hx as (e & E & _). destruct (N.eqb_spec (e_type e) et_ConfigChangeEntry) as [Ec|Ec]; subst x.
  - left. exact Ec.
  - right. repeat split; reflexivity.
Qed.

Lemma make_metadata_entries_index ents :
  map e_index (make_metadata_entries ents) = map e_index ents /\
  map e_term (make_metadata_entries ents) = map e_term ents.
Proof.
  unfold make_metadata_entries. rewrite !map_map. split; apply map_ext; intros e;
    destruct (e_type e =? et_ConfigChangeEntry); reflexivity.
Qed.

Lemma send_msgs_in r m x : In x (r_msgs (send r m)) ->
  In x (r_msgs r) \/ (m_entries x = m_entries m /\ m_to x = m_to m /\ m_type x = m_type m /\
                      m_snapshot x = m_snapshot m /\ m_hint x = m_hint m /\ m_hinthigh x = m_hinthigh m).
Proof.
  unfold send. destruct (finalize_term r (m <| m_from := r_id r |>)) as [m'|] eqn:E.
  - cbn [r_msgs set]. intros Hin. change (In x (r_msgs r ++ [m'])) in Hin. apply in_app_or in Hin.
    destruct Hin as [Hin|[Hin|[]]]; [left; exact Hin|right]. subst x.
    unfold finalize_term in E.
    destruct (_ && _); [discriminate|]. destruct (_ && _); [discriminate|].
    destruct (_ && _); inversion E; repeat split; reflexivity.
  - intros Hin. left. exact Hin.
Qed.

Theorem witness_gets_metadata_only_proved r to rp x :
  find_peer r to = Some (KWitness, rp) ->
  In x (r_msgs (send_replicate r to)) ->
  In x (r_msgs r) \/
  (m_to x = to /\ Forall witness_safe (m_entries x) /\
   (m_type x = mt_InstallSnapshot -> ss_witness (m_snapshot x) = true /\ ss_has_file (m_snapshot x) = false)).
Proof.
  intros Hf. unfold send_replicate. rewrite Hf.
  destruct (rm_is_paused rp); [left; assumption|].
  destruct (log_entries_from _ _) as [ents0|].
  - assert (Hsafe : Forall witness_safe (make_metadata_entries ents0)) by apply make_metadata_entries_safe.
    destruct ents0 as [|e0 es].
    + intros Hin. apply send_msgs_in in Hin. destruct Hin as [Hin|(He & Ht & Hty & _)]; [left; exact Hin|right].
      cbn [m_entries m_to m_type set] in *. split; [exact Ht|]. split; [rewrite He; constructor|].
      intros Hx. rewrite Hty in Hx. discriminate.
    + destruct (rm_progress _ _); [|left; assumption].
      intros Hin. apply send_msgs_in in Hin. destruct Hin as [Hin|(He & Ht & Hty & _)].
      * left. destruct (set_peer r KWitness to r0) eqn:Es. unfold set_peer in Es. inversion Es. subst. exact Hin.
      * right. cbn [m_entries m_to m_type set] in *. split; [exact Ht|]. split; [rewrite He; exact Hsafe|].
        intros Hx. rewrite Hty in Hx. discriminate.
  - destruct (negb (rm_active rp)); [left; assumption|].
    destruct (is_empty_snapshot _); [left; assumption|].
    intros Hin. apply send_msgs_in in Hin. destruct Hin as [Hin|(He & Ht & Hty & Hs & _)].
    + left. exact Hin.
    + right. cbn [m_entries m_to m_type m_snapshot set] in *. split; [exact Ht|]. split; [rewrite He; constructor|].
      intros _. rewrite Hs. split; reflexivity.
Qed.

(* ---- quorums count voters and witnesses only ---- *)
Theorem vote_from_nonvoting_ignored_proved r m :
  amem (m_from m) (r_nonvotings r) = true -> handle_candidate_request_vote_resp r m = r.
Proof. intros H. unfold handle_candidate_request_vote_resp. rewrite H. reflexivity. Qed.

Theorem prevote_from_nonvoting_ignored_proved r m :
  amem (m_from m) (r_nonvotings r) = true -> handle_prevote_candidate_resp r m = r.
Proof. intros H. unfold handle_prevote_candidate_resp. rewrite H. reflexivity. Qed.

(* ReadIndex confirmation hints are sent to voting members only *)
Lemma fold_msgs_hint (ids : list N) (f : raft -> N -> raft) (P : msg -> Prop) :
  (forall r' id x, In id ids -> In x (r_msgs (f r' id)) -> In x (r_msgs r') \/ P x) ->
  forall r x, In x (r_msgs (fold_left f ids r)) -> In x (r_msgs r) \/ P x.
Proof.
  induction ids as [|id ids IH]; intros Hf r x Hin; simpl in Hin; [left; exact Hin|].
  apply IH in Hin; [|intros r' id' x' Hi; apply Hf; right; exact Hi].
  destruct Hin as [Hin|Hin]; [|right; exact Hin]. apply Hf in Hin; [exact Hin|left; reflexivity].
Qed.

Theorem readindex_hint_only_to_voters_proved r ctx x :
  negb ((fst ctx =? 0) && (snd ctx =? 0)) = true ->
  In x (r_msgs (broadcast_heartbeat_hint r ctx)) ->
  In x (r_msgs r) \/ In (m_to x) (voting_ids r).
Proof.
  intros Hctx. unfold broadcast_heartbeat_hint. cbv zeta.
  apply negb_true_iff in Hctx. rewrite Hctx.
  apply (fold_msgs_hint (voting_ids r) _ (fun x => In (m_to x) (voting_ids r))).
  intros r' id y Hid Hin. destruct (id =? r_id r); [left; exact Hin|].
  unfold send_heartbeat in Hin. apply send_msgs_in in Hin.
  destruct Hin as [Hin|(_ & Ht & _)]; [left; exact Hin|right]. cbn [m_to set] in Ht. rewrite Ht. exact Hid.
Qed.
