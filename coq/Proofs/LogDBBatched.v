(* C09: the batched entry format (Model/LogDBBatched.v). *)
From Coq Require Import List NArith Bool Lia.
From Coq Require Import ZifyN ZifyNat ZifyBool.
From DB Require Import Base.Bytes Gen.GenC09 Model.LogStoreSpec Model.KV Model.LogDBPlain
  Model.LogDBBatched Proofs.LogStoreSpec Proofs.LogDBKV Proofs.LogDBPlain.
Import ListNotations.
Open Scope N_scope.
Ltac Zify.zify_post_hook ::= Z.div_mod_to_equations.

(* strictly ascending indexes above pi, non-decreasing terms above pt *)
Fixpoint good_from (pi pt : N) (l : list entry) : Prop :=
  match l with
  | [] => True
  | e :: t => pi < e_index e /\ pt <= e_term e /\ good_from (e_index e) (e_term e) t
  end.

Lemma good_from_weaken : forall l pi pt pi' pt', good_from pi pt l -> pi' <= pi -> pt' <= pt -> good_from pi' pt' l.
Proof. destruct l as [|e l]; cbn; intros; auto. destruct H as (A & B & C). repeat split; auto; lia. Qed.

(* ---------- compactBatchFields / restoreBatchFields ---------- *)

Lemma last_cons2 : forall (e0 e1 : entry) r d, last (e0 :: e1 :: r) d = last (e1 :: r) d.
Proof. reflexivity. Qed.

(* in a good list the last entry bounds every entry *)
Lemma good_last_bounds : forall l pi pt d, good_from pi pt l -> l <> [] ->
  pi + nlen l <= e_index (last l d) /\ pt <= e_term (last l d).
Proof.
  induction l as [|e l IH]; intros pi pt d H Hn; [contradiction|].
  destruct H as (A & B & C). rewrite nlen_cons. destruct l as [|e1 l'].
  - cbn [last]. unfold nlen; cbn [length]. lia.
  - rewrite last_cons2. destruct (IH (e_index e) (e_term e) d C ltac:(discriminate)) as [I1 I2].
    rewrite nlen_cons in *. lia.
Qed.

(* all terms equal t and indexes consecutive from i *)
Fixpoint uniform (t i : N) (l : list entry) : Prop :=
  match l with [] => True | e :: r => e_term e = t /\ e_index e = i /\ uniform t (i + 1) r end.

Lemma good_uniform : forall l pi pt d, good_from pi pt l -> l <> [] ->
  e_term (last l d) = pt -> e_index (last l d) = pi + nlen l -> uniform pt (pi + 1) l.
Proof.
  induction l as [|e l IH]; intros pi pt d H Hn HT HI; [contradiction|].
  destruct H as (A & B & C). rewrite nlen_cons in HI. destruct l as [|e1 l'].
  - cbn [last] in *. unfold nlen in HI; cbn [length] in HI. cbn. repeat split; auto; lia.
  - rewrite last_cons2 in HT, HI.
    destruct (good_last_bounds _ _ _ d C ltac:(discriminate)) as [I1 I2].
    assert (e_term e = pt) by lia. assert (e_index e = pi + 1) by lia.
    split; auto. split; auto.
    replace (pi + 1 + 1) with (e_index e + 1) by lia.
    apply (IH (e_index e) pt d); auto; try discriminate; try lia.
    rewrite <- H. exact C.
Qed.

Lemma restore_from_uniform : forall r t i, uniform t i r ->
  restore_from t i (map (fun e => set_term_index e 0 0) r) = r.
Proof.
  induction r as [|e r IH]; intros t i H; [reflexivity|].
  destruct H as (A & B & C). cbn [map restore_from]. rewrite (IH _ _ C). f_equal.
  destruct e; cbn in *. subst. reflexivity.
Qed.

Lemma last_map_cons : forall (f : entry -> entry) r e0 d, r <> [] ->
  last (e0 :: map f r) d = f (last r d).
Proof.
  induction r as [|e r IH]; intros e0 d Hn; [contradiction|].
  destruct r as [|e1 r']; [reflexivity|].
  change (last (e0 :: map f (e :: e1 :: r')) d) with (last (f e :: map f (e1 :: r')) d).
  rewrite IH by discriminate. reflexivity.
Qed.

(* restoreBatchFields undoes compactBatchFields on every batch the store writes *)
Theorem batch_compact_restore_id_proved : forall l pi, good_from pi 1 l ->
  restore_if_many (compact_if_many l) = l.
Proof.
  intros l pi H. destruct l as [|e0 [|e1 r]]; try reflexivity.
  cbn [compact_if_many]. unfold compact_batch.
  destruct H as (A & B & C).
  set (l := e0 :: e1 :: r) in *. set (lst := last l e0).
  destruct (good_last_bounds (e1 :: r) _ _ e0 C ltac:(discriminate)) as [I1 I2].
  change (last (e1 :: r) e0) with lst in I1, I2.
  destruct ((e_term e0 =? e_term lst) && (e_index e0 + nlen l - 1 =? e_index lst)) eqn:E.
  - apply andb_true_iff in E. destruct E as [E1 E2]. apply N.eqb_eq in E1, E2.
    cbn [restore_if_many map]. unfold restore_batch.
    assert (e_term (last (e0 :: set_term_index e1 0 0 :: map (fun e => set_term_index e 0 0) r) e0) = 0) as ->.
    { change (set_term_index e1 0 0 :: map (fun e => set_term_index e 0 0) r)
        with (map (fun e => set_term_index e 0 0) (e1 :: r)).
      rewrite last_map_cons by discriminate. reflexivity. }
    cbn [N.eqb]. unfold l. f_equal.
    change (set_term_index e1 0 0 :: map (fun e => set_term_index e 0 0) r)
      with (map (fun e => set_term_index e 0 0) (e1 :: r)).
    apply restore_from_uniform.
    apply (good_uniform (e1 :: r) (e_index e0) (e_term e0) e0 C); try discriminate.
    + change (last (e1 :: r) e0) with lst. lia.
    + change (last (e1 :: r) e0) with lst. subst l. rewrite nlen_cons in E2. lia.
  - (* not compacted: the last term is not 0, restore leaves the batch alone *)
    unfold l at 1. cbn [restore_if_many]. unfold restore_batch. fold l. fold lst.
    assert (e_term lst =? 0 = false) as -> by (apply N.eqb_neq; lia). reflexivity.
Qed.
