(* C09: the batched entry format (Model/LogDBBatched.v). *)
From Coq Require Import List NArith Bool Lia.
From Coq Require Import ZifyN ZifyNat ZifyBool.
From DB Require Import Base.Bytes Gen.GenC09 Model.LogStoreSpec Model.KV Model.LogDBPlain
  Model.LogDBBatched Proofs.LogStoreSpec Proofs.LogDBKV Proofs.LogDBPlain.
Import ListNotations.
Open Scope N_scope.
Ltac Zify.zify_post_hook ::= Z.div_mod_to_equations.

(* strictly ascending indexes above pi, non-decreasing terms above pt *)
Fixpoint good_from (pi pt : N) (l : list entry) : Prop :=
  match l with
  | [] => True
  | e :: t => pi < e_index e /\ pt <= e_term e /\ good_from (e_index e) (e_term e) t
  end.

Lemma good_from_weaken : forall l pi pt pi' pt', good_from pi pt l -> pi' <= pi -> pt' <= pt -> good_from pi' pt' l.
Proof. destruct l as [|e l]; cbn; intros; auto. destruct H as (A & B & C). repeat split; auto; lia. Qed.

(* ---------- compactBatchFields / restoreBatchFields ---------- *)

Lemma last_cons2 : forall (e0 e1 : entry) r d, last (e0 :: e1 :: r) d = last (e1 :: r) d.
Proof. reflexivity. Qed.

(* in a good list the last entry bounds every entry *)
Lemma good_last_bounds : forall l pi pt d, good_from pi pt l -> l <> [] ->
  pi + nlen l <= e_index (last l d) /\ pt <= e_term (last l d).
Proof.
  induction l as [|e l IH]; intros pi pt d H Hn; [contradiction|].
  destruct H as (A & B & C). rewrite nlen_cons. destruct l as [|e1 l'].
  - cbn [last]. unfold nlen; cbn [length]. lia.
  - rewrite last_cons2. destruct (IH (e_index e) (e_term e) d C ltac:(discriminate)) as [I1 I2].
    rewrite nlen_cons in *. lia.
Qed.

(* all terms equal t and indexes consecutive from i *)
Fixpoint uniform (t i : N) (l : list entry) : Prop :=
  match l with [] => True | e :: r => e_term e = t /\ e_index e = i /\ uniform t (i + 1) r end.

Lemma good_uniform : forall l pi pt d, good_from pi pt l -> l <> [] ->
  e_term (last l d) = pt -> e_index (last l d) = pi + nlen l -> uniform pt (pi + 1) l.
Proof.
  induction l as [|e l IH]; intros pi pt d H Hn HT HI; [contradiction|].
  destruct H as (A & B & C). rewrite nlen_cons in HI. destruct l as [|e1 l'].
  - cbn [last] in *. unfold nlen in HI; cbn [length] in HI. cbn. repeat split; auto; lia.
  - rewrite last_cons2 in HT, HI.
    destruct (good_last_bounds _ _ _ d C ltac:(discriminate)) as [I1 I2].
    assert (e_term e = pt) by lia. assert (e_index e = pi + 1) by lia.
    split; auto. split; auto.
    replace (pi + 1 + 1) with (e_index e + 1) by lia.
    apply (IH (e_index e) pt d); auto; try discriminate; try lia.
    rewrite <- H. exact C.
Qed.

Lemma restore_from_uniform : forall r t i, uniform t i r ->
  restore_from t i (map (fun e => set_term_index e 0 0) r) = r.
Proof.
  induction r as [|e r IH]; intros t i H; [reflexivity|].
  destruct H as (A & B & C). cbn [map restore_from]. rewrite (IH _ _ C). f_equal.
  destruct e; cbn in *. subst. reflexivity.
Qed.

Lemma last_map_cons : forall (f : entry -> entry) r e0 d, r <> [] ->
  last (e0 :: map f r) d = f (last r d).
Proof.
  induction r as [|e r IH]; intros e0 d Hn; [contradiction|].
  destruct r as [|e1 r']; [reflexivity|].
  change (last (e0 :: map f (e :: e1 :: r')) d) with (last (f e :: map f (e1 :: r')) d).
  rewrite IH by discriminate. reflexivity.
Qed.

(* restoreBatchFields undoes compactBatchFields on every batch the store writes *)
Theorem batch_compact_restore_id_proved : forall l pi, good_from pi 1 l ->
  restore_if_many (compact_if_many l) = l.
Proof.
  intros l pi H. destruct l as [|e0 [|e1 r]]; try reflexivity.
  cbn [compact_if_many]. unfold compact_batch.
  destruct H as (A & B & C).
  set (l := e0 :: e1 :: r) in *. set (lst := last l e0).
  destruct (good_last_bounds (e1 :: r) _ _ e0 C ltac:(discriminate)) as [I1 I2].
  change (last (e1 :: r) e0) with lst in I1, I2.
  destruct ((e_term e0 =? e_term lst) && (e_index e0 + nlen l - 1 =? e_index lst)) eqn:E.
  - apply andb_true_iff in E. destruct E as [E1 E2]. apply N.eqb_eq in E1, E2.
    cbn [restore_if_many map]. unfold restore_batch.
    assert (e_term (last (e0 :: set_term_index e1 0 0 :: map (fun e => set_term_index e 0 0) r) e0) = 0) as ->.
    { change (set_term_index e1 0 0 :: map (fun e => set_term_index e 0 0) r)
        with (map (fun e => set_term_index e 0 0) (e1 :: r)).
      rewrite last_map_cons by discriminate. reflexivity. }
    cbn [N.eqb]. unfold l. f_equal.
    change (set_term_index e1 0 0 :: map (fun e => set_term_index e 0 0) r)
      with (map (fun e => set_term_index e 0 0) (e1 :: r)).
    apply restore_from_uniform.
    apply (good_uniform (e1 :: r) (e_index e0) (e_term e0) e0 C); try discriminate.
    + change (last (e1 :: r) e0) with lst. lia.
    + change (last (e1 :: r) e0) with lst. subst l. rewrite nlen_cons in E2. lia.
  - (* not compacted: the last term is not 0, restore leaves the batch alone *)
    unfold l at 1. cbn [restore_if_many]. unfold restore_batch. fold l. fold lst.
    assert (e_term lst =? 0 = false) as -> by (apply N.eqb_neq; lia). reflexivity.
Qed.

(* ---------- batch ids ---------- *)

Ltac bid := unfold batch_id, bsz, c09_batch_size in *.

Lemma batch_id_mono : forall a b, a <= b -> batch_id a <= batch_id b.
Proof. intros. bid. lia. Qed.
Lemma batch_id_lt : forall a b, batch_id a < batch_id b -> a < b.
Proof. intros. bid. lia. Qed.
Lemma aligned_spec : forall i, i mod bsz = 0 -> forall x, x < i -> batch_id x < batch_id i.
Proof. intros. bid. lia. Qed.

Definition bfilter (b : N) (es : list entry) : list entry :=
  filter (fun e => batch_id (e_index e) =? b) es.

Lemma filter_comm : forall {A} (f h : A -> bool) l, filter f (filter h l) = filter h (filter f l).
Proof.
  induction l as [|a l IH]; [reflexivity|]. cbn [filter].
  destruct (h a) eqn:H; destruct (f a) eqn:F; cbn [filter]; rewrite ?H, ?F, IH; reflexivity.
Qed.

Lemma filter_and : forall {A} (f h : A -> bool) l, filter (fun x => f x && h x) l = filter f (filter h l).
Proof.
  induction l as [|a l IH]; [reflexivity|]. cbn [filter].
  destruct (h a) eqn:H; destruct (f a) eqn:F; cbn [filter andb]; rewrite ?F, IH; reflexivity.
Qed.

(* ---------- good lists ---------- *)

Lemma good_from_in : forall l pi pt x, good_from pi pt l -> In x l -> pi < e_index x /\ pt <= e_term x.
Proof.
  induction l as [|e l IH]; intros pi pt x H HI; [contradiction|].
  destruct H as (A & B & C). destruct HI as [<-|HI]; [auto|].
  destruct (IH _ _ _ C HI). lia.
Qed.

Lemma good_from_filter : forall (f : entry -> bool) l pi pt, good_from pi pt l -> good_from pi pt (filter f l).
Proof.
  induction l as [|e l IH]; intros pi pt H; [exact I|].
  destruct H as (A & B & C). cbn [filter]. destruct (f e).
  - cbn [good_from]. repeat split; auto.
  - apply IH. eapply good_from_weaken; eauto; lia.
Qed.

Lemma good_from_app : forall a b pi pt qi qt, good_from pi pt a ->
  (forall x, In x a -> e_index x <= qi /\ e_term x <= qt) -> pi <= qi -> pt <= qt ->
  good_from qi qt b -> good_from pi pt (a ++ b).
Proof.
  induction a as [|e a IH]; intros b pi pt qi qt Ha Hb Hi Ht Hg; cbn [app].
  - eapply good_from_weaken; eauto.
  - destruct Ha as (A & B & C). cbn [good_from]. repeat split; auto.
    destruct (Hb e (or_introl eq_refl)). eapply IH; eauto.
    intros x HI. apply Hb. now right.
Qed.

(* in an ascending list, what lies below i is a prefix: lb.Entries[:i] *)
Lemma take_below_filter : forall l pi pt i, good_from pi pt l ->
  take_below i l = filter (fun x => e_index x <? i) l.
Proof.
  induction l as [|e l IH]; intros pi pt i H; [reflexivity|].
  destruct H as (A & B & C). cbn [take_below filter].
  destruct (i <=? e_index e) eqn:E.
  - apply N.leb_le in E. assert (e_index e <? i = false) as -> by (apply N.ltb_ge; lia).
    symmetry. apply filter_nil. intros x HI. destruct (good_from_in _ _ _ _ C HI). apply N.ltb_ge. lia.
  - apply N.leb_gt in E. assert (e_index e <? i = true) as -> by (apply N.ltb_lt; lia).
    f_equal. eapply IH; eauto.
Qed.

Lemma good_last_in : forall (l : list entry) d, l <> [] -> In (last l d) l.
Proof.
  induction l as [|e l IH]; intros d H; [contradiction|].
  destruct l as [|e1 l']; [now left|]. right. rewrite last_cons2. apply IH. discriminate.
Qed.

Lemma last_default : forall (l : list entry) d d', l <> [] -> last l d = last l d'.
Proof.
  induction l as [|e l IH]; intros d d' H; [contradiction|].
  destruct l as [|e1 l']; [reflexivity|]. rewrite !last_cons2. apply IH. discriminate.
Qed.

Lemma good_le_last : forall l pi pt d x, good_from pi pt l -> In x l -> e_index x <= e_index (last l d).
Proof.
  induction l as [|e l IH]; intros pi pt d x H HI; [contradiction|].
  destruct H as (A & B & C). destruct l as [|e1 l'].
  - destruct HI as [<-|[]]. cbn. lia.
  - rewrite last_cons2. destruct HI as [<-|HI].
    + destruct (good_last_bounds (e1 :: l') _ _ d C ltac:(discriminate)). lia.
    + eapply IH; eauto.
Qed.

(* getMergedFirstBatch on a stored batch of the same batch id: keep what is below the first
   new index, then the new entries *)
Lemma merge_first_batch_spec : forall eb lb e0 pi pt, good_from pi pt lb -> lb <> [] ->
  hd e0 eb = e0 -> eb <> [] ->
  (forall x, In x lb -> batch_id (e_index x) = batch_id (e_index e0)) ->
  merge_first_batch eb lb = Some (filter (fun x => e_index x <? e_index e0) lb ++ eb).
Proof.
  intros eb lb e0 pi pt Hg Hn Hh Hne Hid. destruct eb as [|e eb']; [contradiction|]. cbn in Hh. subst e.
  destruct lb as [|l0 lr]; [contradiction|]. unfold merge_first_batch.
  rewrite (Hid l0 (or_introl eq_refl)). rewrite N.ltb_irrefl.
  pose proof Hg as (A & B & C).
  destruct (e_index l0 <? e_index e0) eqn:E.
  - apply N.ltb_lt in E. destruct (e_index e0 <=? e_index (last (l0 :: lr) l0)) eqn:E2.
    + rewrite (take_below_filter _ _ _ _ Hg). reflexivity.
    + apply N.leb_gt in E2. rewrite filter_all; [reflexivity|].
      intros x HI. apply N.ltb_lt. pose proof (good_le_last _ _ _ l0 x Hg HI). lia.
  - apply N.ltb_ge in E. rewrite filter_nil; [reflexivity|].
    intros x HI. apply N.ltb_ge. destruct HI as [<-|HI]; [lia|].
    destruct (good_from_in _ _ _ _ C HI). lia.
Qed.


(* ---------- split into batches ---------- *)

Definition dummy_entry : entry := mkEnt 0 0 0 0.
Definition gid (g : list entry) : N := batch_id (e_index (hd dummy_entry g)).
Definition uniform_id (g : list entry) (c : N) : Prop := forall x, In x g -> batch_id (e_index x) = c.

Fixpoint ids_sorted (c : N) (es : list entry) : Prop :=
  match es with [] => True | e :: t => c <= batch_id (e_index e) /\ ids_sorted (batch_id (e_index e)) t end.

Fixpoint inc_groups (lo : N) (gs : list (list entry)) : Prop :=
  match gs with
  | [] => True
  | g :: t => g <> [] /\ uniform_id g (gid g) /\ lo < gid g /\ inc_groups (gid g) t
  end.

Lemma split_concat : forall es cur, concat (split_batches cur es) = rev cur ++ es.
Proof.
  induction es as [|e r IH]; intros cur.
  - cbn [split_batches]. destruct cur; [reflexivity|]. cbn [concat]. now rewrite !app_nil_r.
  - cbn [split_batches]. destruct cur as [|c cur'].
    + rewrite IH. reflexivity.
    + destruct (batch_id (e_index e) =? batch_id (e_index c)).
      * rewrite IH. cbn [rev]. now rewrite <- app_assoc.
      * cbn [concat]. rewrite IH. reflexivity.
Qed.

Lemma uniform_gid : forall g c, g <> [] -> uniform_id g c -> gid g = c.
Proof. intros [|e g] c H U; [contradiction|]. unfold gid. cbn. apply U. now left. Qed.

Lemma split_ok : forall es cur c, cur <> [] -> uniform_id cur c -> ids_sorted c es ->
  exists g t, split_batches cur es = g :: t /\ g <> [] /\ uniform_id g c /\ inc_groups c t.
Proof.
  induction es as [|e r IH]; intros cur c Hn HU HS.
  - cbn [split_batches]. destruct cur as [|c0 cur']; [contradiction|].
    exists (rev (c0 :: cur')), []. split; [reflexivity|]. split; [|split; [|exact I]].
    + intros X. apply (f_equal (@length entry)) in X. rewrite rev_length in X. discriminate.
    + intros x HI. apply HU. now apply in_rev.
  - destruct HS as [HS1 HS2]. cbn [split_batches]. destruct cur as [|c0 cur']; [contradiction|].
    rewrite (HU c0 (or_introl eq_refl)).
    destruct (batch_id (e_index e) =? c) eqn:E.
    + apply N.eqb_eq in E. apply (IH (e :: c0 :: cur') c); [discriminate | | now rewrite <- E].
      intros x [<-|HI]; auto.
    + apply N.eqb_neq in E.
      destruct (IH [e] (batch_id (e_index e))) as (g' & t' & E' & G1 & G2 & G3); [discriminate | | auto |].
      { intros x [<-|[]]. reflexivity. }
      exists (rev (c0 :: cur')), (g' :: t'). rewrite E'. split; [reflexivity|]. split; [|split].
      * intros X. apply (f_equal (@length entry)) in X. rewrite rev_length in X. discriminate.
      * intros x HI. apply HU. now apply in_rev.
      * cbn [inc_groups]. rewrite (uniform_gid _ _ G1 G2). split; [auto|]. split; [auto|]. split; [lia | auto].
Qed.

(* ascending indexes give sorted batch ids *)
Lemma good_ids_sorted : forall l pi pt, good_from pi pt l -> ids_sorted (batch_id pi) l.
Proof.
  induction l as [|e l IH]; intros pi pt H; [exact I|].
  destruct H as (A & B & C). split; [apply batch_id_mono; lia | eapply IH; eauto].
Qed.

Lemma contig_ids_sorted : forall es i, contig i es -> ids_sorted (batch_id i) es.
Proof.
  induction es as [|e es IH]; intros i HC; [exact I|].
  destruct HC as [HC1 HC2]. split; [rewrite HC1; lia|]. rewrite HC1.
  assert (ids_sorted (batch_id (i + 1)) es) by (apply IH; auto).
  destruct es as [|e1 es']; [exact I|]. destruct H as [H1 H2]. split; auto.
  destruct HC2 as [HC3 _]. rewrite HC3. apply batch_id_mono. lia.
Qed.

(* the groups of a contiguous list *)
Lemma split_contig : forall e0 es, contig (e_index e0) (e0 :: es) ->
  exists g t, split_batches [] (e0 :: es) = g :: t /\ g <> [] /\ uniform_id g (batch_id (e_index e0)) /\
              inc_groups (batch_id (e_index e0)) t /\ concat (g :: t) = e0 :: es.
Proof.
  intros e0 es HC. cbn [split_batches].
  destruct (split_ok es [e0] (batch_id (e_index e0))) as (g & t & E & G1 & G2 & G3); [discriminate | | |].
  - intros x [<-|[]]. reflexivity.
  - destruct HC as [_ HC2]. pose proof (contig_ids_sorted _ _ HC2) as H.
    destruct es as [|e1 es']; [exact I|]. destruct H as [H1 H2]. split; auto.
    destruct HC2 as [HC3 _]. rewrite HC3. apply batch_id_mono. lia.
  - exists g, t. rewrite E. repeat split; auto. rewrite <- E, split_concat. reflexivity.
Qed.

(* each group is the part of the whole list with its batch id *)
Lemma inc_groups_lower : forall gs lo g x, inc_groups lo gs -> In g gs -> In x g -> lo < batch_id (e_index x).
Proof.
  induction gs as [|g0 gs IH]; intros lo g x H HI HX; [contradiction|].
  destruct H as (A & B & C & D). destruct HI as [<-|HI].
  - rewrite (B x HX). exact C.
  - pose proof (IH _ _ _ D HI HX). lia.
Qed.

Lemma bfilter_app : forall b a c, bfilter b (a ++ c) = bfilter b a ++ bfilter b c.
Proof. intros. unfold bfilter. apply filter_app. Qed.

Lemma inc_groups_nonempty : forall gs lo g, inc_groups lo gs -> In g gs -> g <> [].
Proof.
  induction gs as [|h t IH]; intros lo g H HI; [contradiction|].
  destruct H as (A & B & C & D). destruct HI as [<-|HI]; eauto.
Qed.

Lemma inc_groups_gid_gt : forall gs lo g, inc_groups lo gs -> In g gs -> lo < gid g.
Proof.
  induction gs as [|h t IH]; intros lo g H HI; [contradiction|].
  destruct H as (A & B & C & D). destruct HI as [<-|HI]; [exact C|].
  pose proof (IH _ _ D HI). lia.
Qed.

Lemma bfilter_groups : forall gs lo, inc_groups lo gs ->
  (forall g, In g gs -> bfilter (gid g) (concat gs) = g) /\
  (forall b, (forall g, In g gs -> gid g <> b) -> bfilter b (concat gs) = []).
Proof.
  induction gs as [|g0 gs IH]; intros lo H.
  - split; [intros g [] | reflexivity].
  - destruct H as (A & B & C & D). destruct (IH _ D) as [I1 I2]. cbn [concat]. split.
    + intros g [<-|HI]; rewrite bfilter_app.
      * rewrite I2.
        -- rewrite app_nil_r. unfold bfilter. apply filter_all. intros x HX. apply N.eqb_eq. now apply B.
        -- intros g HI X. pose proof (inc_groups_gid_gt _ _ _ D HI). lia.
      * rewrite (I1 g HI). unfold bfilter at 1. rewrite filter_nil; [reflexivity|].
        intros x HX. apply N.eqb_neq. rewrite (B x HX).
        pose proof (inc_groups_gid_gt _ _ _ D HI). lia.
    + intros b Hb. rewrite bfilter_app. rewrite I2 by (intros g HI; apply Hb; now right).
      rewrite app_nil_r. unfold bfilter. apply filter_nil. intros x HX. apply N.eqb_neq.
      rewrite (B x HX). apply Hb. now left.
Qed.

(* ---------- recordBatch over the groups ---------- *)

Definition bput (n : nid) (g : list entry) : wop := WPut (KBatch n (gid g)) (VBatch (compact_if_many g)).

Lemma record_tail : forall m n first_id last_id t lo cn, inc_groups lo t -> first_id <= lo ->
  exists cn', record_groups m n first_id last_id cn t = Some (cn', map (bput n) t) /\
    c_state cn' = c_state cn /\ c_max cn' = c_max cn /\ c_snap cn' = c_snap cn /\
    ((forall g, In g t -> gid g <> last_id) -> c_batch cn' = c_batch cn) /\
    (forall g, In g t -> gid g = last_id -> c_batch cn' = Some g).
Proof.
  induction t as [|g t IH]; intros lo cn H Hlo.
  - exists cn. cbn [record_groups map]. split; [reflexivity|]. split; [auto|]. split; [auto|].
    split; [auto|]. split; [auto|]. intros g HI. destruct HI.
  - destruct H as (A & B & C & D). destruct g as [|e0 g']; [contradiction|].
    cbn [record_groups]. change (batch_id (e_index e0)) with (gid (e0 :: g')).
    assert (first_id =? gid (e0 :: g') = false) as -> by (apply N.eqb_neq; lia).
    set (cn1 := if last_id =? gid (e0 :: g') then mkC (c_state cn) (c_max cn) (c_snap cn) (Some (e0 :: g')) else cn).
    destruct (IH (gid (e0 :: g')) cn1 D ltac:(lia)) as (cn' & E & S1 & S2 & S3 & S4 & S5).
    exists cn'. rewrite E. split; [reflexivity|].
    assert (c_state cn1 = c_state cn /\ c_max cn1 = c_max cn /\ c_snap cn1 = c_snap cn) as (T1 & T2 & T3)
      by (unfold cn1; destruct (last_id =? gid (e0 :: g')); auto).
    split; [congruence|]. split; [congruence|]. split; [congruence|]. split.
    + intros Hne. rewrite S4 by (intros g HI; apply Hne; now right).
      unfold cn1. assert (last_id =? gid (e0 :: g') = false) as ->; [|reflexivity].
      apply N.eqb_neq. intros X. apply (Hne (e0 :: g')); [now left | auto].
    + intros g [<-|HI] Hg.
      * rewrite S4.
        -- unfold cn1. rewrite <- Hg, N.eqb_refl. reflexivity.
        -- intros g HI X. pose proof (inc_groups_gid_gt _ _ _ D HI). lia.
      * now apply S5.
Qed.

(* ---------- the relation for the batched format ---------- *)

Definition in_log (nd : rnode) (x : entry) : bool := (n_marker nd <? e_index x) && (e_index x <=? n_last nd).
Definition hterm (nd : rnode) : N := N.max 1 (n_last_term nd).

Record BC (g : gfun) (cb : option (list entry)) (nd : rnode) (n : nid) : Prop := mkBC {
  bc_good : good_from (n_marker nd) (N.max 1 (n_mterm nd)) (n_ents nd);
  bc_typed : forall b v, g (KBatch n b) = Some v -> exists raw, v = VBatch raw;
  bc_all : forall b raw, g (KBatch n b) = Some (VBatch raw) ->
     raw <> [] /\ good_from 0 1 (restore_if_many raw) /\
     (forall x, In x (restore_if_many raw) ->
        batch_id (e_index x) = b /\ e_term x <= hterm nd /\ e_index x < max_index) /\
     filter (in_log nd) (restore_if_many raw) = bfilter b (n_ents nd);
  bc_exists : forall e, In e (n_ents nd) ->
     exists raw, g (KBatch n (batch_id (e_index e))) = Some (VBatch raw);
  bc_cache : forall lb, cb = Some lb -> lb <> [] /\
     (forall e, In e (n_ents nd) -> batch_id (e_index e) <= gid lb) /\
     (batch_id (n_marker nd + 1) <= gid lb ->
        exists raw, g (KBatch n (gid lb)) = Some (VBatch raw) /\ restore_if_many raw = lb)
}.

Lemma BC_ext : forall g g' cb nd n, BC g cb nd n -> (forall b, g' (KBatch n b) = g (KBatch n b)) -> BC g' cb nd n.
Proof.
  intros g g' cb nd n H HE. destruct H. constructor; auto.
  - intros b v X. rewrite HE in X. exact (bc_typed0 b v X).
  - intros b raw X. rewrite HE in X. exact (bc_all0 b raw X).
  - intros e HI. rewrite HE. auto.
  - intros lb Hc. destruct (bc_cache0 lb Hc) as (A & B & C). split; [auto|]. split; [auto|].
    intros X. rewrite HE. auto.
Qed.

(* the stripped node: what the format-independent part of the relation sees *)
Definition strip (nd : rnode) : rnode := mkNode (n_last nd) (n_last_term nd) [] (n_st nd) (n_ss nd).

Lemma n_last_strip : forall nd, n_last (strip nd) = n_last nd.
Proof. intros. unfold strip, n_last at 1, nlen. cbn [n_marker n_ents length]. lia. Qed.

(* ---------- helpers for the entries stage ---------- *)

Lemma ents_okb_good : forall es i prev pi, ents_okb i prev es = true -> pi < i -> good_from pi prev es.
Proof.
  induction es as [|e es IH]; intros i prev pi H Hp; [exact I|].
  cbn [ents_okb] in H. rewrite !andb_true_iff in H. destruct H as ((((H1 & H2) & H3) & H4) & H5).
  apply N.eqb_eq in H1. apply N.leb_le in H2. cbn [good_from]. repeat split; try lia.
  apply (IH (i + 1)); auto. lia.
Qed.

Lemma good_retarget : forall e l pi pt pt', good_from pi pt (e :: l) -> pt' <= e_term e -> good_from pi pt' (e :: l).
Proof. intros e l pi pt pt' (A & B & C) H. repeat split; auto. Qed.

Lemma last_term_app : forall a b d, last_term d (a ++ b) = last_term (last_term d a) b.
Proof. induction a as [|e a IH]; intros; [reflexivity|]. cbn [app last_term]. apply IH. Qed.

Lemma good_le_last_term : forall l pi pt, good_from pi pt l -> pt <= last_term pt l /\
  forall x, In x l -> e_term x <= last_term pt l.
Proof.
  induction l as [|e l IH]; intros pi pt H; cbn [last_term].
  - split; [lia | intros x []].
  - destruct H as (A & B & C). destruct (IH _ _ C) as [I1 I2]. split; [lia|].
    intros x [<-|HI]; [lia | auto].
Qed.

Lemma last_term_default : forall l d d', l <> [] -> last_term d l = last_term d' l.
Proof. destruct l; [contradiction | reflexivity]. Qed.

Lemma term_at_in : forall es e i, contig i es -> In e es -> term_at es (e_index e) = e_term e.
Proof.
  induction es as [|e0 es IH]; intros e i HC HI; [contradiction|].
  destruct HC as [HC1 HC2]. unfold term_at. cbn [find].
  destruct (e_index e0 =? e_index e) eqn:E.
  - apply N.eqb_eq in E. destruct HI as [<-|HI]; [reflexivity|].
    pose proof (contig_bounds _ _ _ HC2 HI). lia.
  - apply N.eqb_neq in E. destruct HI as [<-|HI]; [contradiction|].
    apply (IH e (i + 1) HC2 HI).
Qed.

Lemma last_term_in : forall l d, l <> [] -> exists x, In x l /\ last_term d l = e_term x /\ x = last l x.
Proof.
  induction l as [|e l IH]; intros d H; [contradiction|]. cbn [last_term].
  destruct l as [|e1 l'].
  - exists e. split; [now left|]. split; reflexivity.
  - destruct (IH (e_term e) ltac:(discriminate)) as (x & X1 & X2 & X3). exists x.
    split; [now right|]. split; [exact X2|]. rewrite last_cons2. exact X3.
Qed.

Lemma compact_nonempty : forall l, l <> [] -> compact_if_many l <> [].
Proof.
  intros [|e0 [|e1 r]] H; try contradiction; cbn [compact_if_many]; try discriminate.
  unfold compact_batch. destruct (_ && _); discriminate.
Qed.

Lemma wb_last_bputs : forall n gs lo k, inc_groups lo gs ->
  (forall g, In g gs -> k = KBatch n (gid g) -> wb_last (map (bput n) gs) k = Some (Some (VBatch (compact_if_many g)))) /\
  ((forall g, In g gs -> k <> KBatch n (gid g)) -> wb_last (map (bput n) gs) k = None).
Proof.
  induction gs as [|g0 gs IH]; intros lo k H; cbn [map wb_last].
  - split; [intros g [] | auto].
  - destruct H as (A & B & C & D). destruct (IH _ k D) as [I1 I2]. split.
    + intros g [<-|HI] ->.
      * rewrite I2; [cbn [bput wkey]; now rewrite key_eqb_refl|].
        intros g HI X. unfold KBatch in X. inversion X.
        pose proof (inc_groups_gid_gt _ _ _ D HI). lia.
      * now rewrite (I1 g HI eq_refl).
    + intros Hk. rewrite I2 by (intros g HI; apply Hk; now right).
      cbn [bput wkey]. rewrite key_eqb_neq; auto. apply Hk. now left.
Qed.

Lemma KBatch_inj : forall n a b, KBatch n a = KBatch n b -> a = b.
Proof. intros n a b H. unfold KBatch in H. now inversion H. Qed.

Lemma hd_concat : forall (g : list entry) t e0 es, concat (g :: t) = e0 :: es -> g <> [] -> hd dummy_entry g = e0.
Proof. intros [|x g] t e0 es H Hn; [contradiction|]. cbn in H. now inversion H. Qed.

Lemma in_concat_group : forall (gs : list (list entry)) x, In x (concat gs) -> exists g, In g gs /\ In x g.
Proof.
  induction gs as [|g gs IH]; intros x H; [contradiction|]. cbn [concat] in H.
  apply in_app_or in H. destruct H as [H|H]; [exists g; split; [now left | auto]|].
  destruct (IH x H) as (g' & A & B). exists g'. split; [now right | auto].
Qed.

(* what the first (partial) batch of a save is merged with *)
Definition merge_prefix_ok (nd : rnode) (i0 : N) (P : list entry) : Prop :=
  good_from 0 1 P /\
  (forall x, In x P -> batch_id (e_index x) = batch_id i0 /\ e_index x < i0 /\
                       e_term x <= hterm nd /\ e_index x < max_index) /\
  filter (fun x => n_marker nd <? e_index x) P = bfilter (batch_id i0) (below i0 (n_ents nd)).

Lemma stored_prefix_ok : forall g cb nd n raw i0, BC g cb nd n ->
  g (KBatch n (batch_id i0)) = Some (VBatch raw) -> i0 <= n_last nd + 1 ->
  merge_prefix_ok nd i0 (filter (fun x => e_index x <? i0) (restore_if_many raw)).
Proof.
  intros g cb nd n raw i0 HB HG Hi. destruct (bc_all _ _ _ _ HB _ _ HG) as (A & B & C & D).
  set (R := restore_if_many raw) in *. split; [now apply good_from_filter|]. split.
  - intros x HI. apply filter_In in HI. destruct HI as [HI HX]. apply N.ltb_lt in HX.
    destruct (C x HI) as (C1 & C2 & C3). auto.
  - rewrite (filter_ext_in (fun x => n_marker nd <? e_index x) (in_log nd)).
    + rewrite filter_comm, D. unfold bfilter, below. apply filter_comm.
    + intros x HI. apply filter_In in HI. destruct HI as [_ HX]. apply N.ltb_lt in HX.
      unfold in_log. assert (e_index x <=? n_last nd = true) as -> by (apply N.leb_le; lia).
      now rewrite andb_true_r.
Qed.

Lemma empty_prefix_ok : forall nd i0, bfilter (batch_id i0) (below i0 (n_ents nd)) = [] -> merge_prefix_ok nd i0 [].
Proof. intros nd i0 H. split; [exact I|]. split; [intros x []|]. now rewrite H. Qed.

Lemma merged_first_spec : forall m g cn nd n g1 e0,
  (forall b, g (KBatch n b) = kv_get m (KBatch n b)) -> BC g (c_batch cn) nd n ->
  g1 <> [] -> hd dummy_entry g1 = e0 -> uniform_id g1 (batch_id (e_index e0)) ->
  n_marker nd < e_index e0 <= n_last nd + 1 ->
  exists P, b_merged_first m cn n g1 = Some (P ++ g1) /\ merge_prefix_ok nd (e_index e0) P.
Proof.
  intros m g cn nd n g1 e0 Hg HB Hn Hh HU Hi. set (i0 := e_index e0) in *. set (b0 := batch_id i0).
  destruct g1 as [|x g1']; [contradiction|]. cbn [hd] in Hh. subst x.
  assert (Hbelow : forall e, In e (below i0 (n_ents nd)) -> In e (n_ents nd) /\ e_index e < i0).
  { intros e HI. unfold below in HI. apply filter_In in HI. destruct HI as [A B]. apply N.ltb_lt in B. auto. }
  unfold b_merged_first. fold i0. fold b0.
  destruct (i0 mod bsz =? 0) eqn:EA.
  { (* batch aligned *)
    apply N.eqb_eq in EA. exists []. split; [reflexivity|]. apply empty_prefix_ok.
    unfold bfilter. apply filter_nil. intros e HI. destruct (Hbelow e HI) as [_ HL].
    apply N.eqb_neq. pose proof (aligned_spec i0 EA _ HL). unfold b0 in *. lia. }
  (* reading the batch from the store *)
  assert (HDB : exists P, match get_batch_from_db m n b0 with
                          | None => None
                          | Some None => Some (e0 :: g1')
                          | Some (Some lb) => merge_first_batch (e0 :: g1') lb
                          end = Some (P ++ e0 :: g1') /\ merge_prefix_ok nd i0 P).
  { unfold get_batch_from_db. rewrite <- Hg. destruct (g (KBatch n b0)) as [v|] eqn:G.
    - destruct (bc_typed _ _ _ _ HB _ _ G) as (raw & ->).
      destruct (bc_all _ _ _ _ HB _ _ G) as (A & B & C & D).
      exists (filter (fun x => e_index x <? i0) (restore_if_many raw)). split.
      + apply (merge_first_batch_spec _ _ e0 0 1); auto; try discriminate.
        * intros X. destruct raw as [|r0 [|r1 rr]]; try contradiction; cbn in X; try discriminate.
          unfold restore_batch in X. destruct (e_term _ =? 0); discriminate.
        * intros x HI. destruct (C x HI) as (C1 & _). exact C1.
      + eapply stored_prefix_ok; eauto. lia.
    - exists []. split; [reflexivity|]. apply empty_prefix_ok. fold b0.
      destruct (bfilter b0 (below i0 (n_ents nd))) as [|e r] eqn:F; [reflexivity|]. exfalso.
      assert (In e (bfilter b0 (below i0 (n_ents nd)))) as HI by (rewrite F; now left).
      unfold bfilter in HI. apply filter_In in HI. destruct HI as [HI HX]. apply N.eqb_eq in HX.
      destruct (Hbelow e HI) as [HE _]. destruct (bc_exists _ _ _ _ HB e HE) as (raw & X).
      rewrite HX in X. rewrite G in X. discriminate. }
  destruct (c_batch cn) as [lb|] eqn:EC; [|exact HDB].
  destruct (bc_cache _ _ _ _ HB lb eq_refl) as (Ln & Lb & Le).
  destruct lb as [|l0 lr]; [contradiction|].
  change (batch_id (e_index l0)) with (gid (l0 :: lr)).
  destruct (b0 <? gid (l0 :: lr)) eqn:E1; [exact HDB|]. apply N.ltb_ge in E1.
  destruct (N.eq_dec (gid (l0 :: lr)) b0) as [E2|E2].
  - (* the cached batch is the stored batch of this id *)
    destruct Le as (raw & G & RR).
    { rewrite E2. unfold b0. apply batch_id_mono. lia. }
    rewrite E2 in G. exists (filter (fun x => e_index x <? i0) (l0 :: lr)). split.
    + destruct (bc_all _ _ _ _ HB _ _ G) as (A & B & C & D). rewrite RR in *.
      apply (merge_first_batch_spec _ _ e0 0 1); auto; try discriminate.
      intros x HI. destruct (C x HI) as (C1 & _). exact C1.
    + rewrite <- RR. eapply stored_prefix_ok; eauto. lia.
  - (* an older cached batch: the new entries start a batch *)
    exists []. split.
    + unfold merge_first_batch. change (batch_id (e_index l0)) with (gid (l0 :: lr)). fold i0. fold b0.
      assert (b0 <? gid (l0 :: lr) = false) as -> by (apply N.ltb_ge; lia).
      assert (gid (l0 :: lr) <? b0 = true) as -> by (apply N.ltb_lt; lia). reflexivity.
    + apply empty_prefix_ok. unfold bfilter. apply filter_nil. intros e HI.
      destruct (Hbelow e HI) as [HE _]. apply N.eqb_neq. pose proof (Lb e HE). unfold b0 in *. lia.
Qed.

(* ---------- the entries stage in the batched format ---------- *)

Lemma contig_last_index : forall l i d, contig i l -> l <> [] -> e_index (last l d) = i + nlen l - 1.
Proof.
  induction l as [|e l IH]; intros i d HC Hn; [contradiction|].
  destruct HC as [HC1 HC2]. rewrite nlen_cons. destruct l as [|e1 l'].
  - cbn [last]. unfold nlen; cbn [length]. lia.
  - rewrite last_cons2. rewrite (IH (i + 1) d HC2) by discriminate. rewrite nlen_cons. lia.
Qed.

Lemma n_last_term_ge : forall nd e0 es,
  contig (n_marker nd + 1) (n_ents nd) ->
  upd_ents_wf nd (e0 :: es) = true -> n_last_term nd <= e_term e0.
Proof.
  intros nd e0 es HC Hwf. cbn [upd_ents_wf] in Hwf. rewrite !andb_true_iff in Hwf.
  destruct Hwf as (((W1 & W2) & W3) & W4). apply N.ltb_lt in W1. apply N.leb_le in W2.
  cbn [ents_okb] in W4. rewrite !andb_true_iff in W4. destruct W4 as ((((_ & P) & _) & _) & _).
  apply N.leb_le in P.
  destruct (e_index e0 <=? n_last nd) eqn:E; [lia|]. apply N.leb_gt in E.
  assert (e_index e0 = n_last nd + 1) as Hi by lia. unfold n_last_term.
  destruct (n_ents nd) as [|x l] eqn:EN.
  - cbn [last_term]. unfold n_last in Hi. rewrite EN in Hi. unfold nlen in Hi. cbn [length] in Hi.
    assert (e_index e0 =? n_marker nd + 1 = true) as X by (apply N.eqb_eq; lia). rewrite X in P. lia.
  - destruct (last_term_in (x :: l) (n_mterm nd) ltac:(discriminate)) as (y & Y1 & Y2 & Y3).
    rewrite Y2. rewrite <- EN in *.
    assert (e_index y = n_last nd) as Hy.
    { rewrite Y3. rewrite (contig_last_index _ _ y HC) by (rewrite EN; discriminate).
      unfold n_last. assert (0 < nlen (n_ents nd)) by (rewrite EN, nlen_cons; lia). lia. }
    assert (e_index e0 =? n_marker nd + 1 = false) as X.
    { apply N.eqb_neq. unfold n_last in Hi. assert (0 < nlen (n_ents nd)) by (rewrite EN, nlen_cons; lia). lia. }
    rewrite X in P. replace (e_index e0 - 1) with (e_index y) in P by lia.
    rewrite (term_at_in _ _ _ HC Y1) in P. lia.
Qed.

Lemma strip_rn_entries : forall g cn nd n nd',
  RnG g cn (strip nd) n -> n_st nd' = n_st nd -> n_ss nd' = n_ss nd ->
  n_last nd' = n_last nd -> RnG g cn (strip nd') n.
Proof.
  intros g cn nd n nd' H S1 S2 S3. pose proof (n_last_strip nd) as L1. pose proof (n_last_strip nd') as L2.
  destruct H as [G1 G2 G3 G4 G5 G6 G7 G8 G9 G10 G11]. constructor; unfold strip in *; cbn [n_marker n_ents n_st n_ss n_mterm] in *;
    rewrite ?S1, ?S2 in *; auto.
  - rewrite L2, S3, <- L1. exact G3.
  - intros v Hv. rewrite L2, S3, <- L1. auto.
  - rewrite L2, S3, <- L1. exact G11.
Qed.

Lemma in_log_range : forall nd x, in_log nd x = true <-> n_marker nd < e_index x <= n_last nd.
Proof. intros. unfold in_log. rewrite andb_true_iff, N.ltb_lt, N.leb_le. tauto. Qed.

Lemma bfilter_in : forall b es x, In x (bfilter b es) <-> In x es /\ batch_id (e_index x) = b.
Proof. intros. unfold bfilter. rewrite filter_In, N.eqb_eq. tauto. Qed.

Lemma bfilter_nil_iff : forall b es, (forall x, In x es -> batch_id (e_index x) <> b) -> bfilter b es = [].
Proof. intros b es H. unfold bfilter. apply filter_nil. intros x HI. apply N.eqb_neq. auto. Qed.

Lemma bfilter_first_groups : forall g1 t b0, g1 <> [] -> uniform_id g1 b0 -> inc_groups b0 t ->
  bfilter b0 (concat (g1 :: t)) = g1 /\
  (forall gk, In gk t -> bfilter (gid gk) (concat (g1 :: t)) = gk /\ b0 < gid gk) /\
  (forall b, b <> b0 -> (forall gk, In gk t -> gid gk <> b) -> bfilter b (concat (g1 :: t)) = []).
Proof.
  intros g1 t b0 Hn HU HT. destruct (bfilter_groups t b0 HT) as [I1 I2]. cbn [concat].
  split; [|split].
  - rewrite bfilter_app, I2.
    + rewrite app_nil_r. unfold bfilter. apply filter_all. intros x HX. apply N.eqb_eq. now apply HU.
    + intros gk HI X. pose proof (inc_groups_gid_gt _ _ _ HT HI). lia.
  - intros gk HI. pose proof (inc_groups_gid_gt _ _ _ HT HI) as L. split; [|exact L].
    rewrite bfilter_app, (I1 gk HI). rewrite bfilter_nil_iff; [reflexivity|].
    intros x HX. rewrite (HU x HX). lia.
  - intros b Hb Ht. rewrite bfilter_app, I2 by auto. rewrite app_nil_r.
    apply bfilter_nil_iff. intros x HX. rewrite (HU x HX). auto.
Qed.

Lemma good_from_in_term : forall l pi pt x, good_from pi pt l -> In x l -> pt <= e_term x.
Proof. intros. destruct (good_from_in _ _ _ _ H H0). auto. Qed.

Lemma below_app_last_term : forall nd es e0 es0, es = e0 :: es0 -> good_from (e_index e0 - 1) (n_last_term nd) es ->
  n_last_term (mkNode (n_marker nd) (n_mterm nd) (below (e_index e0) (n_ents nd) ++ es) (n_st nd) (n_ss nd))
  = last_term (e_term e0) es0 /\ n_last_term nd <= last_term (e_term e0) es0 /\
  e_term e0 <= last_term (e_term e0) es0 /\
  (forall x, In x es -> e_term x <= last_term (e_term e0) es0).
Proof.
  intros nd es e0 es0 -> (A & B & C). unfold n_last_term at 1. cbn [n_mterm n_ents].
  rewrite last_term_app. cbn [last_term]. destruct (good_le_last_term _ _ _ C) as [I1 I2].
  split; [reflexivity|]. split; [lia|]. split; [lia|]. intros x [<-|HI]; [lia | auto].
Qed.

Lemma stage_ents_b : forall m g c nd n u, sorted m ->
  (forall b, g (KBatch n b) = kv_get m (KBatch n b)) ->
  RnG g (c n) (strip nd) n -> BC g (c_batch (c n)) nd n ->
  contig (n_marker nd + 1) (n_ents nd) -> u_node u = n ->
  upd_ents_wf nd (u_ents u) = true ->
  exists c' w, b_save_tail m c u = Some (c', w) /\
    RnG (gapply w g) (c' n) (strip (upd_ents_step nd (u_ents u))) n /\
    BC (gapply w g) (c_batch (c' n)) (upd_ents_step nd (u_ents u)) n /\
    contig (n_marker nd + 1) (n_ents (upd_ents_step nd (u_ents u))) /\
    (forall n', n' <> n -> c' n' = c n') /\ wb_in_node w n /\ wb_wt w.
Proof.
  intros m g c nd n u HS Hg H HB HC Hn Hwf. unfold b_save_tail, upd_ents_step. rewrite Hn.
  destruct (u_ents u) as [|e0 es0] eqn:EU.
  { exists c, []. split; [reflexivity|]. split; [exact H|]. split; [exact HB|]. split; [exact HC|].
    split; [auto|]. split; [intros x HI; destruct HI | intros k v HI; destruct HI]. }
  pose proof (n_last_term_ge nd e0 es0 HC Hwf) as KF.
  cbn [upd_ents_wf] in Hwf. set (es := e0 :: es0) in *.
  rewrite !andb_true_iff in Hwf. destruct Hwf as (((W1 & W2) & W3) & W4).
  apply N.ltb_lt in W1, W3. apply N.leb_le in W2.
  set (i0 := e_index e0) in *.
  pose proof (ents_okb_contig _ _ _ W4) as HCe.
  pose proof (ents_okb_good _ _ _ (i0 - 1) W4 ltac:(lia)) as HGe0.
  assert (HGe : good_from (i0 - 1) (n_last_term nd) es) by (eapply good_retarget; eauto).
  assert (Ht1 : 1 <= e_term e0).
  { unfold es in W4. cbn [ents_okb] in W4. rewrite !andb_true_iff in W4. destruct W4 as ((((_ & P) & _) & _) & _).
    apply N.leb_le in P. lia. }
  assert (es <> []) as Hne by (subst es; discriminate).
  set (mi := i0 + nlen es - 1).
  assert (Hmi : max_entry_index 0 es = mi) by (apply max_entry_index_contig; auto; lia).
  assert (Hmi0 : i0 <= mi) by (subst mi es; rewrite nlen_cons; lia).
  assert (Hmib : mi < max_index) by (subst mi; lia).
  assert (Hes : forall x, In x es -> i0 <= e_index x <= mi).
  { intros x HI. pose proof (contig_bounds _ _ _ HCe HI). subst mi. lia. }
  destruct (below_app_last_term nd es e0 es0 eq_refl HGe) as (LT1 & LT2 & LT4 & LT3).
  assert (HG1 : good_from 0 1 es).
  { eapply good_from_weaken; [eapply good_retarget; [exact HGe | exact Ht1] | lia | lia]. }
  set (nd' := mkNode (n_marker nd) (n_mterm nd) (below i0 (n_ents nd) ++ es) (n_st nd) (n_ss nd)) in *.
  destruct (contig_below _ _ i0 HC ltac:(lia) ltac:(unfold n_last in *; lia)) as [CB CL].
  assert (Hlast' : n_last nd' = mi).
  { unfold n_last, nd'. cbn [n_marker n_ents]. rewrite nlen_app, CL. subst mi. lia. }
  assert (Hbelow : forall e, In e (below i0 (n_ents nd)) -> In e (n_ents nd) /\ e_index e < i0).
  { intros e HI. unfold below in HI. apply filter_In in HI. destruct HI as [A B]. apply N.ltb_lt in B. auto. }
  (* the groups *)
  destruct (split_contig e0 es0 HCe) as (g1 & t & ES & G1n & G1u & GT & GC). fold es in ES, GC. fold i0 in G1u, GT.
  set (b0 := batch_id i0) in *.
  pose proof (hd_concat _ _ _ _ GC G1n) as Hhd.
  destruct (bfilter_first_groups g1 t b0 G1n G1u GT) as (BF1 & BFt & BFn). rewrite GC in BF1, BFt, BFn.
  assert (Hg1 : forall x, In x g1 -> In x es) by (intros x HI; rewrite <- BF1 in HI; apply bfilter_in in HI; tauto).
  assert (Hgk : forall gk x, In gk t -> In x gk -> In x es).
  { intros gk x HI HX. destruct (BFt gk HI) as [E _]. rewrite <- E in HX. apply bfilter_in in HX. tauto. }
  (* the merged first batch *)
  destruct (merged_first_spec m g (c n) nd n g1 e0 Hg HB G1n Hhd G1u ltac:(fold i0; lia)) as (P & EM & PG & PX & PF).
  fold i0 in PX, PF. fold b0 in PX, PF.
  set (meb := P ++ g1).
  set (lastid := batch_id (e_index (last es e0))).
  assert (Hlastid : lastid = batch_id mi).
  { unfold lastid. rewrite (contig_last_index _ _ e0 HCe Hne). reflexivity. }
  set (cn1 := if lastid =? b0 then mkC (c_state (c n)) (c_max (c n)) (c_snap (c n)) (Some meb) else c n).
  destruct (record_tail m n b0 lastid t b0 cn1 GT ltac:(lia)) as (cn' & ET & S1 & S2 & S3 & S4 & S5).
  assert (Sc : c_state cn' = c_state (c n) /\ c_snap cn' = c_snap (c n)).
  { unfold cn1 in S1, S3. destruct (lastid =? b0); cbn in S1, S3; auto. }
  set (put0 := WPut (KBatch n b0) (VBatch (compact_if_many meb))).
  set (wrec := put0 :: map (bput n) t).
  assert (EREC : b_record m c n es = Some (cupd c n cn', wrec, mi)).
  { unfold b_record. unfold es at 1. fold es. fold i0. fold b0. fold lastid. rewrite ES.
    destruct g1 as [|x g1']; [contradiction|]. cbn [hd] in Hhd. subst x.
    cbn [record_groups]. fold i0. fold b0. rewrite N.eqb_refl. rewrite EM. fold meb. fold cn1.
    rewrite ET. rewrite Hmi. reflexivity. }
  rewrite EREC. assert (0 <? mi = true) as -> by (apply N.ltb_lt; lia).
  set (w := wrec ++ [WPut (KMaxIndex n) (VMax mi)]).
  exists (cs_set_max_index (cupd c n cn') n mi), w. split; [reflexivity|].
  (* the batch of the last group is cached *)
  assert (Hcb : exists lbn, c_batch cn' = Some lbn /\ lbn <> [] /\ gid lbn = lastid /\
                  ((lbn = meb /\ lastid = b0) \/ (In lbn t))).
  { assert (In (last es e0) (concat (g1 :: t))) as HL by (rewrite GC; apply good_last_in; auto).
    destruct (in_concat_group _ _ HL) as (gl & GI & GX).
    destruct GI as [<-|GI].
    - assert (lastid = b0) as E by (unfold lastid; now apply G1u).
      exists meb. split; [|split; [|split]].
      + rewrite S4; [unfold cn1; rewrite E, N.eqb_refl; reflexivity|].
        intros gk HI. destruct (BFt gk HI). lia.
      + unfold meb. destruct P; [auto | discriminate].
      + unfold gid, meb. destruct P as [|p P'].
        * cbn [app]. fold (gid g1). rewrite (uniform_gid _ _ G1n G1u). lia.
        * cbn [app hd]. destruct (PX p (or_introl eq_refl)) as (A & _). rewrite A. lia.
      + left. auto.
    - assert (gid gl = lastid) as E.
      { pose proof (inc_groups_nonempty _ _ _ GT GI) as Gn.
        assert (uniform_id gl (gid gl)) as GU.
        { clear - GT GI. revert GT GI. generalize b0. induction t as [|h t' IH]; intros lo GT GI; [contradiction|].
          destruct GT as (A & B & C & D). destruct GI as [<-|GI]; eauto. }
        symmetry. unfold lastid. now apply GU. }
      exists gl. split; [now apply S5|]. split; [eapply inc_groups_nonempty; eauto|]. split; [exact E | now right]. }
  destruct Hcb as (lbn & CB1 & CB2 & CB3 & CB4).
  (* what the batch writes *)
  assert (LWrec : forall k, wb_last w k = match (if key_eqb k (KMaxIndex n) then Some (Some (VMax mi)) else None) with
                                         | Some r => Some r | None => wb_last wrec k end).
  { intros k. unfold w. rewrite wb_last_app. cbn [wb_last wkey]. reflexivity. }
  assert (K1 : gapply w g (KMaxIndex n) = Some (VMax mi)).
  { unfold gapply. rewrite LWrec, key_eqb_refl. reflexivity. }
  assert (Krec : forall k, k <> KMaxIndex n -> gapply w g k = match wb_last wrec k with Some r => r | None => g k end).
  { intros k Hk. unfold gapply. rewrite LWrec, key_eqb_neq by auto. reflexivity. }
  assert (K2 : gapply w g (KBatch n b0) = Some (VBatch (compact_if_many meb))).
  { rewrite Krec by (intros X; ktags; inversion X). unfold wrec. cbn [wb_last].
    rewrite (proj2 (wb_last_bputs n t b0 (KBatch n b0) GT)).
    - unfold put0. cbn [wkey]. now rewrite key_eqb_refl.
    - intros gk HI X. apply KBatch_inj in X. destruct (BFt gk HI). lia. }
  assert (K3 : forall gk, In gk t -> gapply w g (KBatch n (gid gk)) = Some (VBatch (compact_if_many gk))).
  { intros gk HI. rewrite Krec by (intros X; ktags; inversion X). unfold wrec. cbn [wb_last].
    now rewrite (proj1 (wb_last_bputs n t b0 _ GT) gk HI eq_refl). }
  assert (K4 : forall k, k <> KMaxIndex n -> k <> KBatch n b0 -> (forall gk, In gk t -> k <> KBatch n (gid gk)) ->
               gapply w g k = g k).
  { intros k A B C. rewrite Krec by auto. unfold wrec. cbn [wb_last].
    rewrite (proj2 (wb_last_bputs n t b0 k GT) C). unfold put0. cbn [wkey]. now rewrite key_eqb_neq. }
  assert (K5 : forall k, (forall b, k <> KBatch n b) -> k <> KMaxIndex n -> gapply w g k = g k).
  { intros k A B. apply K4; auto. }
  assert (Hcn : cs_set_max_index (cupd c n cn') n mi n = mkC (c_state cn') (Some mi) (c_snap cn') (c_batch cn')).
  { unfold cs_set_max_index. rewrite !cupd_same. reflexivity. }
  (* goodness of what is stored *)
  assert (HGh : good_from (i0 - 1) (hterm nd) es) by (eapply good_retarget; eauto; unfold hterm; lia).
  assert (HMT : N.max 1 (n_mterm nd) <= hterm nd /\ forall x, In x (n_ents nd) -> e_term x <= hterm nd).
  { destruct (good_le_last_term _ _ _ (bc_good _ _ _ _ HB)) as [I1 I2]. unfold hterm, n_last_term.
    destruct (n_ents nd) as [|z l] eqn:EN.
    - cbn [last_term] in *. split; [lia | intros x []].
    - rewrite (last_term_default (z :: l) (n_mterm nd) (N.max 1 (n_mterm nd))) by discriminate.
      split; [lia|]. intros x HI. pose proof (I2 x HI). lia. }
  destruct HMT as [HMT1 HMT2].
  assert (GoodMeb : good_from 0 1 meb).
  { unfold meb. eapply (good_from_app P g1 0 1 (i0 - 1) (hterm nd)); eauto; try (unfold hterm; lia).
    - intros x HI. destruct (PX x HI) as (A & B & C & D). lia.
    - rewrite <- BF1. apply good_from_filter. exact HGh. }
  assert (GoodGk : forall gk, In gk t -> good_from 0 1 gk).
  { intros gk HI. destruct (BFt gk HI) as [E _]. rewrite <- E. apply good_from_filter.
    exact HG1. }
  assert (HT' : hterm nd' = last_term (e_term e0) es0 /\ hterm nd <= hterm nd').
  { assert (LT1' : n_last_term nd' = last_term (e_term e0) es0) by exact LT1.
    unfold hterm. rewrite LT1'. split; lia. }
  destruct HT' as [HT1 HT2].
  split; [|split; [|split; [|split; [|split]]]].
  - (* format independent part *)
    rewrite Hcn. destruct Sc as [Sc1 Sc2].
    pose proof (n_last_strip nd') as L2. pose proof (n_last_strip nd) as L1.
    destruct H as [G1 G2 G3 G4 G5 G6 G7 G8 G9 G10 G11].
    constructor; unfold strip in *; cbn [n_marker n_ents n_st n_ss n_mterm c_state c_max c_snap] in *;
      unfold n_ssidx in *; cbn [n_ss] in *;
      change (n_ss nd') with (n_ss nd) in *; change (n_st nd') with (n_st nd) in *.
    + exact I.
    + intros e [].
    + left. rewrite K1, L2, Hlast'. reflexivity.
    + intros v X. inversion X. rewrite L2, Hlast'. reflexivity.
    + rewrite K5 by (intros; intro X; ktags; inversion X). exact G5.
    + rewrite Sc1. exact G6.
    + intros i Hi. rewrite K5 by (intros; intro X; ktags; inversion X). apply G7. exact Hi.
    + destruct (n_ss nd).
      * rewrite K5 by (intros; intro X; ktags; inversion X). exact G8.
      * intros i. rewrite K5 by (intros; intro X; ktags; inversion X). apply G8.
    + rewrite Sc2. exact G9.
    + exact G10.
    + rewrite L2, Hlast'. exact Hmib.
  - (* the batches *)
    rewrite Hcn. cbn [c_batch]. rewrite CB1.
    assert (Hents' : n_ents nd' = below i0 (n_ents nd) ++ es) by reflexivity.
    assert (Hmk' : n_marker nd' = n_marker nd) by reflexivity.
    (* which stored batch a batch id has after the save *)
    assert (Hcase : forall b, b = b0 \/ (exists gk, In gk t /\ gid gk = b) \/
                              (b <> b0 /\ forall gk, In gk t -> gid gk <> b)).
    { intros b. destruct (N.eq_dec b b0); [now left|]. right.
      destruct (existsb (fun gk => gid gk =? b) t) eqn:E.
      - left. apply existsb_exists in E. destruct E as (gk & A & B). apply N.eqb_eq in B. eauto.
      - right. split; auto. intros gk HI X. apply not_true_iff_false in E. apply E.
        apply existsb_exists. exists gk. split; auto. now apply N.eqb_eq. }
    assert (InLogEs : forall x, In x es -> in_log nd' x = true).
    { intros x HI. apply in_log_range. rewrite Hmk', Hlast'. pose proof (Hes x HI). lia. }
    constructor.
    + (* bc_good *)
      rewrite Hents'. cbn [n_marker n_mterm nd'].
      eapply (good_from_app _ es _ _ (i0 - 1) (hterm nd)); eauto; try lia.
      * apply good_from_filter. exact (bc_good _ _ _ _ HB).
      * intros x HI. destruct (Hbelow x HI) as [A B]. split; [lia | auto].
    + (* bc_typed *)
      intros b v X. destruct (Hcase b) as [->|[(gk & GI & <-)|(A & B)]].
      * rewrite K2 in X. inversion X. eauto.
      * rewrite (K3 gk GI) in X. inversion X. eauto.
      * rewrite K4 in X; try (intros Y; ktags; inversion Y; fail).
        -- exact (bc_typed _ _ _ _ HB b v X).
        -- intros Y. apply KBatch_inj in Y. contradiction.
        -- intros gk HI Y. apply KBatch_inj in Y. exact (B gk HI (eq_sym Y)).
    + (* bc_all *)
      intros b raw X. destruct (Hcase b) as [->|[(gk & GI & <-)|(A & B)]].
      * rewrite K2 in X. inversion X; subst raw. clear X.
        rewrite (batch_compact_restore_id_proved meb 0 GoodMeb).
        split; [apply compact_nonempty; unfold meb; destruct P; [auto | discriminate]|].
        split; [exact GoodMeb|]. split.
        -- intros x HI. unfold meb in HI. apply in_app_or in HI. destruct HI as [HI|HI].
           ++ destruct (PX x HI) as (A & B & C & D). split; [exact A|]. split; [lia | exact D].
           ++ split; [now apply G1u|]. pose proof (Hes x (Hg1 x HI)). split; [|lia].
              rewrite HT1. apply LT3. now apply Hg1.
        -- unfold meb. rewrite filter_app, Hents', bfilter_app. f_equal.
           ++ rewrite <- PF. apply filter_ext_in. intros x HI. destruct (PX x HI) as (A & B & C & D).
              unfold in_log. rewrite Hmk', Hlast'.
              assert (e_index x <=? mi = true) as -> by (apply N.leb_le; lia). now rewrite andb_true_r.
           ++ rewrite BF1. apply filter_all. intros x HI. apply InLogEs. now apply Hg1.
      * destruct (BFt gk GI) as [E L]. rewrite (K3 gk GI) in X. inversion X; subst raw. clear X.
        rewrite (batch_compact_restore_id_proved gk 0 (GoodGk gk GI)).
        split; [apply compact_nonempty; eapply inc_groups_nonempty; eauto|].
        split; [exact (GoodGk gk GI)|]. split.
        -- intros x HI. pose proof (Hgk gk x GI HI) as HX. pose proof (Hes x HX). split.
           ++ rewrite <- E in HI. apply bfilter_in in HI. tauto.
           ++ split; [rewrite HT1; now apply LT3 | lia].
        -- rewrite Hents', bfilter_app, E. rewrite bfilter_nil_iff.
           ++ cbn [app]. apply filter_all. intros x HI. apply InLogEs. eapply Hgk; eauto.
           ++ intros x HI. destruct (Hbelow x HI) as [_ HL]. unfold b0 in L.
              pose proof (batch_id_mono (e_index x) i0 ltac:(lia)). lia.
      * assert (Xg : g (KBatch n b) = Some (VBatch raw)).
        { rewrite K4 in X; auto; try (intros Y; ktags; inversion Y; fail).
          - intros Y. apply KBatch_inj in Y. contradiction.
          - intros gk HI Y. apply KBatch_inj in Y. exact (B gk HI (eq_sym Y)). }
        destruct (bc_all _ _ _ _ HB b raw Xg) as (R1 & R2 & R3 & R4).
        split; [exact R1|]. split; [exact R2|]. split.
        -- intros x HI. destruct (R3 x HI) as (A1 & A2 & A3). split; [exact A1|]. split; [lia | exact A3].
        -- rewrite Hents', bfilter_app, (BFn b A B), app_nil_r.
           destruct (N.lt_ge_cases b b0) as [Lb|Lb].
           ++ (* an older batch: nothing changes *)
              rewrite (filter_ext_in (in_log nd') (in_log nd)).
              ** rewrite R4. unfold bfilter, below. rewrite filter_comm. symmetry. apply filter_all.
                 intros x HI. apply filter_In in HI. destruct HI as [_ HI]. apply N.eqb_eq in HI.
                 apply N.ltb_lt. apply batch_id_lt. unfold b0 in Lb. lia.
              ** intros x HI. destruct (R3 x HI) as (A1 & _).
                 assert (e_index x < i0) by (apply batch_id_lt; unfold b0 in Lb; lia).
                 unfold in_log. rewrite Hmk', Hlast'.
                 assert (e_index x <=? mi = true) as -> by (apply N.leb_le; lia).
                 assert (e_index x <=? n_last nd = true) as -> by (apply N.leb_le; lia). reflexivity.
           ++ (* a stale batch above the new end *)
              rewrite bfilter_nil_iff.
              ** apply filter_nil. intros x HI. destruct (R3 x HI) as (A1 & _).
                 destruct (in_log nd' x) eqn:IL; [|reflexivity]. exfalso.
                 apply in_log_range in IL. rewrite Hmk', Hlast' in IL.
                 (* the index b*48 would be one of the new entries *)
                 assert (i0 < b * bsz <= mi) as Hb.
                 { unfold b0 in *. bid. lia. }
                 destruct (contig_nth _ _ (b * bsz) HCe) as (y & Y1 & Y2); [subst mi; lia|].
                 assert (batch_id (e_index y) = b) as Yb by (rewrite Y2; bid; lia).
                 rewrite <- GC in Y1. destruct (in_concat_group _ _ Y1) as (gy & GI & GX).
                 destruct GI as [<-|GI]; [rewrite (G1u y GX) in Yb; lia|].
                 apply (B gy GI). destruct (BFt gy GI) as [E _]. rewrite <- E in GX.
                 apply bfilter_in in GX. destruct GX as [_ GX]. lia.
              ** intros x HI. destruct (Hbelow x HI) as [_ HL].
                 pose proof (batch_id_mono (e_index x) i0 ltac:(lia)). unfold b0 in *. lia.
    + (* bc_exists *)
      intros e HI. rewrite Hents' in HI. apply in_app_or in HI.
      destruct (Hcase (batch_id (e_index e))) as [E|[(gk & GI & E)|(A & B)]].
      * rewrite E, K2. eauto.
      * rewrite <- E, (K3 gk GI). eauto.
      * destruct HI as [HI|HI].
        -- destruct (Hbelow e HI) as [HE _]. destruct (bc_exists _ _ _ _ HB e HE) as (raw & X).
           exists raw. rewrite K4; auto; try (intros Y; ktags; inversion Y; fail).
           ++ intros Y. apply KBatch_inj in Y. contradiction.
           ++ intros gk GI Y. apply KBatch_inj in Y. exact (B gk GI (eq_sym Y)).
        -- exfalso. rewrite <- GC in HI. destruct (in_concat_group _ _ HI) as (gy & GI & GX).
           destruct GI as [<-|GI]; [apply A; now apply G1u|].
           apply (B gy GI). destruct (BFt gy GI) as [E _]. rewrite <- E in GX.
           apply bfilter_in in GX. destruct GX as [_ GX]. now symmetry.
    + (* bc_cache *)
      intros lb Hlb. inversion Hlb; subst lb. clear Hlb. split; [exact CB2|]. split.
      * intros e HI. rewrite Hents' in HI. rewrite CB3, Hlastid. apply batch_id_mono.
        apply in_app_or in HI. destruct HI as [HI|HI].
        -- destruct (Hbelow e HI). lia.
        -- pose proof (Hes e HI). lia.
      * intros _. destruct CB4 as [[-> E]|GI].
        -- exists (compact_if_many meb). rewrite CB3, E, K2. split; [reflexivity|].
           apply (batch_compact_restore_id_proved meb 0 GoodMeb).
        -- exists (compact_if_many lbn). rewrite (K3 lbn GI). split; [reflexivity|].
           apply (batch_compact_restore_id_proved lbn 0 (GoodGk lbn GI)).
  - (* contig *)
    cbn [n_ents]. apply contig_app; auto. rewrite CL.
    replace (n_marker nd + 1 + (i0 - (n_marker nd + 1))) with i0 by lia. exact HCe.
  - intros n' Hn'. unfold cs_set_max_index. rewrite !cupd_other by auto. reflexivity.
  - intros o HI. unfold w, wrec in HI. apply in_app_or in HI. destruct HI as [[HI|HI]|[HI|[]]].
    + rewrite <- HI. unfold put0, key_node; cbn; apply nid_eta.
    + apply in_map_iff in HI. destruct HI as (x & HX & _). rewrite <- HX. unfold bput, key_node; cbn; apply nid_eta.
    + rewrite <- HI. unfold key_node; cbn; apply nid_eta.
  - intros k v HI. unfold w, wrec in HI. apply in_app_or in HI. destruct HI as [[HI|HI]|[HI|[]]].
    + unfold put0 in HI. inversion HI. unfold wt; ktags; cbn. repeat split; intros Y; discriminate.
    + apply in_map_iff in HI. destruct HI as (x & X & _). unfold bput in X. inversion X.
      unfold wt; ktags; cbn. repeat split; intros Y; discriminate.
    + inversion HI. unfold wt; ktags; cbn. repeat split; intros Y; try discriminate. eauto.
Qed.

(* ---------- stages 1 and 2 under the batched relation ---------- *)

Lemma strip_st : forall nd st, upd_st_step (strip nd) st = strip (upd_st_step nd st).
Proof. intros. unfold upd_st_step. destruct (st_emptyb st); reflexivity. Qed.

Lemma strip_ss : forall nd ss, upd_ss_step (strip nd) ss = strip (upd_ss_step nd ss).
Proof.
  intros. unfold upd_ss_step. destruct (ss_emptyb ss); [reflexivity|].
  unfold strip, n_last, n_last_term, n_ssidx, nlen. cbn [n_marker n_ents n_mterm n_st n_ss length last_term].
  f_equal. lia.
Qed.

Lemma upd_ss_wf_strip : forall nd ss, upd_ss_wf (strip nd) ss = upd_ss_wf nd ss.
Proof.
  intros. unfold upd_ss_wf. rewrite n_last_strip. reflexivity.
Qed.

Lemma BC_st : forall g cb nd n st, BC g cb nd n -> BC g cb (upd_st_step nd st) n.
Proof.
  intros g cb nd n st H. unfold upd_st_step. destruct (st_emptyb st); [exact H|].
  destruct H as [B1 B2 B3 B4 B5]. constructor; auto.
Qed.

Lemma BC_ss : forall g cb nd n ss, BC g cb nd n -> contig (n_marker nd + 1) (n_ents nd) ->
  upd_ss_wf nd ss = true -> BC g cb (upd_ss_step nd ss) n.
Proof.
  intros g cb nd n ss H HC Hwf. unfold upd_ss_step. unfold upd_ss_wf in Hwf.
  destruct (ss_emptyb ss) eqn:E; [exact H|]. cbn [orb] in Hwf.
  rewrite !andb_true_iff in Hwf. destruct Hwf as ((W1 & W2) & W3). apply N.leb_le in W2.
  assert (Hlast : n_last nd <= ss_index ss).
  { apply orb_true_iff in W3. destruct W3 as [W3|W3]; apply andb_true_iff in W3; destruct W3 as [A B].
    - now apply N.leb_le in B.
    - apply N.eqb_eq in B. lia. }
  set (nd' := mkNode (ss_index ss) (ss_term ss) [] (n_st nd) (if n_ssidx nd <? ss_index ss then Some ss else n_ss nd)).
  assert (HL' : n_last nd' = ss_index ss) by (unfold n_last, nlen, nd'; cbn [n_marker n_ents length]; lia).
  assert (HT' : hterm nd <= hterm nd') by (unfold hterm, n_last_term, nd'; cbn [n_mterm n_ents last_term]; fold (n_last_term nd); lia).
  destruct H as [B1 B2 B3 B4 B5]. constructor.
  - exact I.
  - exact B2.
  - intros b raw X. destruct (B3 b raw X) as (R1 & R2 & R3 & R4). split; [exact R1|]. split; [exact R2|]. split.
    + intros x HI. destruct (R3 x HI) as (A1 & A2 & A3). split; [exact A1|]. split; [lia | exact A3].
    + cbn [n_ents nd']. unfold bfilter. cbn [filter]. apply filter_nil. intros x HI.
      unfold in_log. rewrite HL'. cbn [n_marker nd'].
      destruct (ss_index ss <? e_index x) eqn:X1; [|reflexivity]. apply N.ltb_lt in X1.
      cbn [andb]. apply N.leb_gt. lia.
  - intros e [].
  - intros lb Hlb. destruct (B5 lb Hlb) as (A & B & C). split; [exact A|]. split; [intros e []|].
    cbn [n_marker nd']. intros X. apply C. unfold n_last in Hlast.
    pose proof (batch_id_mono (n_marker nd + 1) (ss_index ss + 1) ltac:(lia)). lia.
Qed.

Lemma state_part_batch : forall c n st n', c_batch (fst (state_part c n st) n') = c_batch (c n').
Proof.
  intros. unfold state_part. destruct (st_emptyb st); [reflexivity|]. unfold cs_set_state.
  destruct (c_state (c n)) as [v|]; [destruct (st_eqb v st)|]; cbn [fst]; try reflexivity;
    unfold cupd; destruct (nid_eqb n' n) eqn:E; try reflexivity;
    apply nid_eqb_eq in E; subst; reflexivity.
Qed.

Lemma snap_part_batch : forall m c n ss es c' w n', snap_part m c n ss es = Some (c', w) ->
  c_batch (c' n') = c_batch (c n').
Proof.
  intros m c n ss es c' w n' H. unfold snap_part in H. destruct (ss_emptyb ss); [now inversion H|].
  unfold cs_try_save_snapshot in H.
  assert (Hm : forall c0 v, c_batch (cs_set_max_index c0 n v n') = c_batch (c0 n')).
  { intros. unfold cs_set_max_index, cupd. destruct (nid_eqb n' n) eqn:E; [|reflexivity].
    apply nid_eqb_eq in E. now subst. }
  destruct (c_snap (c n)) as [v|].
  - destruct (v <? ss_index ss).
    + destruct (negb _ && _); [discriminate|]. destruct (save_snapshot_wb m n ss); [|discriminate].
      inversion H. apply Hm.
    + now inversion H.
  - destruct (negb _ && _); [discriminate|]. destruct (save_snapshot_wb m n ss); [|discriminate].
    inversion H. rewrite Hm. unfold cupd. destruct (nid_eqb n' n) eqn:E; [|reflexivity].
    apply nid_eqb_eq in E. now subst.
Qed.

(* ---------- one update on its node, batched format ---------- *)

Definition no_batch_keys (w : wb) : Prop := forall o, In o w -> k_tag (wkey o) <> c09_tag_entry_batch.

Lemma gapply_no_batch : forall w g n b, no_batch_keys w -> gapply w g (KBatch n b) = g (KBatch n b).
Proof.
  intros w g n b H. unfold gapply. rewrite wb_last_none; [reflexivity|].
  intros o HI X. apply (H o HI). rewrite X. reflexivity.
Qed.

Lemma snap_part_keys : forall m c n ss es c' w, snap_part m c n ss es = Some (c', w) -> no_batch_keys w.
Proof.
  intros m c n ss es c' w H. unfold snap_part in H. destruct (ss_emptyb ss) eqn:E.
  { inversion H. intros o []. }
  assert (HW : forall w2, save_snapshot_wb m n ss = Some w2 ->
            no_batch_keys (w2 ++ [WPut (KMaxIndex n) (VMax (ss_index ss))])).
  { intros w2 X. unfold save_snapshot_wb in X. rewrite E in X. destruct (list_snapshots m n); [|discriminate].
    inversion X. intros o HI. apply in_app_or in HI. destruct HI as [HI|[<-|[]]]; [|cbn; ktags; discriminate].
    apply in_app_or in HI. destruct HI as [HI|[<-|[]]]; [|cbn; ktags; discriminate].
    apply in_map_iff in HI. destruct HI as (x & <- & _). cbn. ktags. discriminate. }
  destruct (cs_try_save_snapshot c n (ss_index ss)) as [c2 ok]. destruct ok.
  - destruct (negb _ && _); [discriminate|]. destruct (save_snapshot_wb m n ss) eqn:S; [|discriminate].
    inversion H. subst. now apply HW.
  - inversion H. intros o [].
Qed.

Lemma contig_ss : forall nd ss, contig (n_marker nd + 1) (n_ents nd) ->
  contig (n_marker (upd_ss_step nd ss) + 1) (n_ents (upd_ss_step nd ss)).
Proof. intros nd ss H. unfold upd_ss_step. destruct (ss_emptyb ss); [exact H | exact I]. Qed.
Lemma contig_st : forall nd st, contig (n_marker nd + 1) (n_ents nd) ->
  contig (n_marker (upd_st_step nd st) + 1) (n_ents (upd_st_step nd st)).
Proof. intros nd st H. unfold upd_st_step. destruct (st_emptyb st); exact H. Qed.

Record RB1 (g : gfun) (cn : cnode) (nd : rnode) (n : nid) : Prop := mkRB1 {
  rb_core : RnG g cn (strip nd) n;
  rb_batches : BC g (c_batch cn) nd n;
  rb_contig : contig (n_marker nd + 1) (n_ents nd)
}.

Lemma RB1_ext : forall g g' cn nd n, RB1 g cn nd n -> (forall k, key_node k = n -> g' k = g k) -> RB1 g' cn nd n.
Proof.
  intros g g' cn nd n [A B C] HE. constructor; auto.
  - eapply RnG_ext; eauto.
  - eapply BC_ext; eauto. intros b. apply HE. unfold key_node, KBatch; cbn. apply nid_eta.
Qed.

Lemma save_node_b : forall m c nd n u, sorted m -> WT m ->
  RB1 (kv_get m) (c n) nd n -> u_node u = n -> update_wf nd u = true ->
  exists c1 wh, save_head m c u = Some (c1, wh) /\
    (forall n', n' <> n -> c1 n' = c n') /\ wb_in_node wh n /\ wb_wt wh /\
    forall ct, ct n = c1 n ->
      exists ct' wt_, b_save_tail m ct u = Some (ct', wt_) /\
      (forall n', n' <> n -> ct' n' = ct n') /\ wb_in_node wt_ n /\ wb_wt wt_ /\
      RB1 (gapply (wh ++ wt_) (kv_get m)) (ct' n) (update_step nd u) n.
Proof.
  intros m c nd n u HS HW [H HB HC] Hn Hwf. unfold update_wf in Hwf. apply andb_true_iff in Hwf.
  destruct Hwf as [Wss Wes].
  rewrite save_head_parts. rewrite Hn.
  pose proof (stage_state (kv_get m) c (strip nd) n (u_st u) H) as S1.
  pose proof (state_part_batch c n (u_st u) n) as CB1.
  destruct (state_part c n (u_st u)) as [ca w1]. cbn [fst] in CB1. destruct S1 as (R1 & O1 & K1).
  rewrite strip_st in R1.
  assert (K1n : wb_in_node w1 n).
  { intros o HI. rewrite (K1 o HI). unfold key_node; cbn; apply nid_eta. }
  assert (K1w : wb_wt w1).
  { intros k v HI. apply K1 in HI. inversion HI; subst. unfold wt; ktags; cbn.
    repeat split; intros X; try discriminate. eauto. }
  assert (K1b : no_batch_keys w1).
  { intros o HI. rewrite (K1 o HI). cbn. ktags. discriminate. }
  destruct (stage_snap m (gapply w1 (kv_get m)) ca (strip (upd_st_step nd (u_st u))) n (u_ss u) (u_ents u) HS HW R1)
    as (c1 & w2 & E2 & R2 & O2 & K2n & K2w).
  { intros i. unfold gapply. rewrite wb_last_none; auto.
    intros o HI. rewrite (K1 o HI). cbn [wkey]. intros X; ktags; inversion X. }
  { now rewrite upd_ss_wf_strip, upd_ss_wf_st. }
  { intros E Hne. unfold upd_ents_wf in Wes. destruct (u_ents u) as [|e0 es0] eqn:EU; [contradiction|].
    rewrite !andb_true_iff in Wes. destruct Wes as (((A & B) & C) & D). apply N.ltb_lt in A.
    pose proof (ents_okb_contig _ _ _ D) as HCc.
    rewrite (last_index_contig _ _ HCc) by discriminate. rewrite nlen_cons.
    unfold upd_ss_step in A. rewrite E in A. cbn [n_marker] in A. lia. }
  rewrite strip_ss in R2.
  pose proof (snap_part_keys _ _ _ _ _ _ _ E2) as K2b.
  pose proof (snap_part_batch _ _ _ _ _ _ _ n E2) as CB2.
  rewrite E2. exists c1, (w1 ++ w2). split; [reflexivity|]. split; [|split; [|split]].
  - intros n' Hn'. rewrite O2 by auto. auto.
  - now apply wb_in_node_app.
  - now apply wb_wt_app.
  - intros ct Hct.
    set (nd2 := upd_st_step (upd_ss_step nd (u_ss u)) (u_st u)).
    assert (Hnb : no_batch_keys (w1 ++ w2)).
    { intros o HI. apply in_app_or in HI. destruct HI; auto. }
    assert (R2' : RnG (gapply (w1 ++ w2) (kv_get m)) (ct n) (strip nd2) n).
    { rewrite Hct. unfold nd2. rewrite <- upd_steps_commute. eapply RnG_ext; [exact R2|]. intros k _. apply gapply_app. }
    assert (B2' : BC (gapply (w1 ++ w2) (kv_get m)) (c_batch (ct n)) nd2 n).
    { rewrite Hct, CB2, CB1. unfold nd2. rewrite <- upd_steps_commute.
      eapply BC_ext; [|intros b; apply gapply_no_batch; exact Hnb].
      apply BC_ss; [now apply BC_st | now apply contig_st | now rewrite upd_ss_wf_st]. }
    assert (C2' : contig (n_marker nd2 + 1) (n_ents nd2)) by (unfold nd2; apply contig_st, contig_ss; exact HC).
    destruct (stage_ents_b m (gapply (w1 ++ w2) (kv_get m)) ct nd2 n u HS) as (ct' & w3 & E3 & R3 & B3 & C3 & O3 & K3n & K3w); auto.
    + intros b. now apply gapply_no_batch.
    + unfold nd2. now rewrite upd_ents_wf_st.
    + exists ct', w3. split; [exact E3|]. split; [exact O3|]. split; [exact K3n|]. split; [exact K3w|].
      unfold update_step. fold nd2. constructor.
      * eapply RnG_ext; [exact R3|]. intros k _. apply gapply_app.
      * eapply BC_ext; [exact B3|]. intros b. apply gapply_app.
      * assert (n_marker (upd_ents_step nd2 (u_ents u)) = n_marker nd2) as ->; [|exact C3].
        unfold upd_ents_step. now destruct (u_ents u).
Qed.

(* ---------- SaveRaftState with several updates, batched format ---------- *)

Lemma save_list_b : forall m, sorted m -> WT m -> forall us c s,
  nodes_distinct (map u_node us) = true ->
  (forall n, In n (map u_node us) -> RB1 (kv_get m) (c n) (s n) n) ->
  forallb (fun u => update_wf (s (u_node u)) u) us = true ->
  exists c1 Wh, save_heads m c us = Some (c1, Wh) /\
    (forall n, ~ In n (map u_node us) -> c1 n = c n) /\
    wb_in_nodes Wh (map u_node us) /\ wb_wt Wh /\
    forall ct, (forall n, In n (map u_node us) -> ct n = c1 n) ->
      exists c2 Wt, b_save_tails m ct us = Some (c2, Wt) /\
      (forall n, ~ In n (map u_node us) -> c2 n = ct n) /\
      wb_in_nodes Wt (map u_node us) /\ wb_wt Wt /\
      forall n, In n (map u_node us) ->
        RB1 (gapply (Wh ++ Wt) (kv_get m)) (c2 n) (save_step s us n) n.
Proof.
  intros m HS HW. induction us as [|u us IH]; intros c s HD HR Hwf.
  - exists c, []. split; [reflexivity|]. split; [auto|]. split; [intros o []|]. split; [intros k v []|].
    intros ct _. exists ct, []. split; [reflexivity|]. split; [auto|]. split; [intros o []|].
    split; [intros k v []|]. intros n [].
  - cbn [map] in HD, HR. destruct (nodes_distinct_cons _ _ HD) as [Hnin HD'].
    cbn [forallb] in Hwf. apply andb_true_iff in Hwf. destruct Hwf as [Wu Wus].
    set (n0 := u_node u) in *.
    destruct (save_node_b m c (s n0) n0 u HS HW (HR n0 (or_introl eq_refl)) eq_refl Wu)
      as (c1a & wh & EH & O1 & Kh & Th & Tail).
    set (s' := supd s n0 (update_step (s n0) u)).
    destruct (IH c1a s' HD') as (c1 & Whr & EHr & Or & Khr & Thr & Tailr).
    { intros n HI. assert (n <> n0) by (intros ->; contradiction).
      rewrite O1 by auto. unfold s'. rewrite supd_other by auto. apply HR. now right. }
    { rewrite forallb_forall in *. intros x HI. unfold s'. rewrite supd_other; auto.
      intros X. apply Hnin. rewrite <- X. now apply in_map. }
    exists c1, (wh ++ Whr). cbn [save_heads]. rewrite EH, EHr. split; [reflexivity|].
    split; [|split; [|split]].
    + intros n Hn. cbn [map In] in Hn. rewrite Or by tauto. apply O1. intros ->. apply Hn. now left.
    + intros o HI. apply in_app_or in HI. cbn [map]. destruct HI as [HI|HI].
      * left. symmetry. now apply Kh.
      * right. now apply Khr.
    + now apply wb_wt_app.
    + intros ct Hct. cbn [b_save_tails].
      assert (Hct0 : ct n0 = c1a n0).
      { rewrite Hct by (cbn [map]; now left). now apply Or. }
      destruct (Tail ct Hct0) as (cta & wt_ & ET & Ot & Kt & Tt & Rt). rewrite ET.
      destruct (Tailr cta) as (c2 & Wtr & ETr & Otr & Ktr & Ttr & Rtr).
      { intros n HI. assert (n <> n0) by (intros ->; contradiction).
        rewrite Ot by auto. apply Hct. cbn [map]. now right. }
      rewrite ETr. exists c2, (wt_ ++ Wtr). split; [reflexivity|].
      split; [|split; [|split]].
      * intros n Hn. cbn [map In] in Hn. rewrite Otr by tauto. apply Ot. intros ->. apply Hn. now left.
      * intros o HI. apply in_app_or in HI. cbn [map]. destruct HI as [HI|HI].
        -- left. symmetry. now apply Kt.
        -- right. now apply Ktr.
      * now apply wb_wt_app.
      * intros n Hn. cbn [map In] in Hn. destruct (nid_dec n n0) as [->|Hne].
        -- rewrite Otr by auto.
           assert (save_step s (u :: us) n0 = update_step (s n0) u) as ->.
           { change (save_step s (u :: us) n0) with (save_step s' us n0).
             rewrite save_step_other by auto. unfold s'. apply supd_same. }
           eapply RB1_ext; [exact Rt|]. intros k Hk. unfold gapply.
           rewrite !wb_last_app.
           rewrite (wb_last_not_node Wtr _ k Ktr) by (rewrite Hk; auto).
           rewrite (wb_last_not_node Whr _ k Khr) by (rewrite Hk; auto).
           reflexivity.
        -- destruct Hn as [Hn|Hn]; [exfalso; apply Hne; symmetry; exact Hn|].
           assert (save_step s (u :: us) n = save_step s' us n) as -> by reflexivity.
           eapply RB1_ext; [exact (Rtr n Hn)|]. intros k Hk. unfold gapply.
           rewrite !wb_last_app.
           assert (wb_last wt_ k = None) as ->.
           { apply wb_last_none. intros o HI X. apply Hne. rewrite <- Hk, <- X. now apply Kt. }
           assert (wb_last wh k = None) as ->.
           { apply wb_last_none. intros o HI X. apply Hne. rewrite <- Hk, <- X. now apply Kh. }
           destruct (wb_last Wtr k); destruct (wb_last Whr k); reflexivity.
Qed.

(* ---------- the batched relation on whole stores ---------- *)

Definition RB (d : pdb) (s : sstate) : Prop :=
  sorted (p_kv d) /\ WT (p_kv d) /\ forall n, RB1 (kv_get (p_kv d)) (p_cache d n) (s n) n.

Definition sstrip (s : sstate) : sstate := fun n => strip (s n).

Lemma RB_R : forall d s, RB d s -> R d (sstrip s).
Proof.
  intros d s (HS & HW & H). split; [exact HS | split; [exact HW|]]. intros n. apply Rn_G. apply (H n).
Qed.

Lemma save_raft_state_RB : forall d s us, RB d s -> spec_wf_op s (OSave us) = true ->
  exists d', batched_step d (OSave us) = Some d' /\ RB d' (spec_step s (OSave us)).
Proof.
  intros d s us (HS & HW & HR) Hwf. cbn [spec_wf_op] in Hwf. apply andb_true_iff in Hwf.
  destruct Hwf as [HD Hwf].
  destruct (save_list_b (p_kv d) HS HW us (p_cache d) s HD) as (c1 & Wh & EH & O1 & Kh & Th & Tail); auto.
  destruct (Tail c1 (fun n _ => eq_refl)) as (c2 & Wt & ET & O2 & Kt & Tt & RT).
  cbn [batched_step]. unfold b_save_raft_state. rewrite EH, ET.
  eexists. split; [reflexivity|]. cbn [spec_step].
  split; [now apply sorted_commit | split].
  - apply WT_commit; auto. now apply wb_wt_app.
  - intros n. cbn [p_kv p_cache]. destruct (in_dec nid_dec n (map u_node us)) as [HI|HI].
    + eapply RB1_ext; [exact (RT n HI)|]. intros k _. now apply get_commit_g.
    + rewrite O2, O1 by auto. rewrite save_step_other by auto.
      eapply RB1_ext; [apply HR|]. intros k Hk. rewrite get_commit by auto.
      rewrite wb_last_app.
      rewrite (wb_last_not_node Wt _ k Kt) by (rewrite Hk; auto).
      rewrite (wb_last_not_node Wh _ k Kh) by (rewrite Hk; auto). reflexivity.
Qed.

(* ---------- operations shared with the plain format ---------- *)

Lemma RnG_cache_empty : forall g cn nd n, RnG g cn nd n -> RnG g cnode_empty nd n.
Proof.
  intros g cn nd n [G1 G2 G3 G4 G5 G6 G7 G8 G9 G10 G11]. constructor; auto; cbn; intros; discriminate.
Qed.

Lemma BC_nocache : forall g cb nd n, BC g cb nd n -> BC g None nd n.
Proof. intros g cb nd n [B1 B2 B3 B4 B5]. constructor; auto. intros lb X. discriminate. Qed.

Lemma BC_same_log : forall g cb nd nd' n, BC g cb nd n ->
  n_marker nd' = n_marker nd -> n_mterm nd' = n_mterm nd -> n_ents nd' = n_ents nd -> BC g cb nd' n.
Proof.
  intros g cb nd nd' n [B1 B2 B3 B4 B5] E1 E2 E3.
  assert (n_last nd' = n_last nd) as EL by (unfold n_last; now rewrite E1, E3).
  assert (hterm nd' = hterm nd) as EH by (unfold hterm, n_last_term; now rewrite E2, E3).
  assert (forall x, in_log nd' x = in_log nd x) as EI by (intros; unfold in_log; now rewrite E1, EL).
  constructor; rewrite ?E1, ?E2, ?E3; auto.
  - intros b raw X. destruct (B3 b raw X) as (R1 & R2 & R3 & R4). rewrite EH.
    split; [exact R1|]. split; [exact R2|]. split; [exact R3|].
    rewrite (filter_ext _ _ EI). exact R4.
Qed.

Lemma reopen_RB : forall d s, RB d s -> RB (p_reopen d) s.
Proof.
  intros d s (HS & HW & H). split; [exact HS | split; [exact HW|]]. intros n. cbn [p_reopen p_kv p_cache].
  destruct (H n) as [A B C]. constructor; [eapply RnG_cache_empty; eauto | eapply BC_nocache; eauto | exact C].
Qed.

(* what SaveSnapshots touches *)
Lemma save_snapshots_frame : forall d n ss d', sorted (p_kv d) ->
  p_save_snapshots d [mk_snap_update n ss] = Some d' ->
  (forall k, k_tag k <> c09_tag_snapshot -> kv_get (p_kv d') k = kv_get (p_kv d) k) /\
  (forall n', c_batch (p_cache d' n') = c_batch (p_cache d n')).
Proof.
  intros d n ss d' HS H. unfold p_save_snapshots in H. cbn [save_snapshots_wb mk_snap_update u_ss u_node] in H.
  destruct (ss_emptyb ss) eqn:E.
  { inversion H. cbn. auto. }
  assert (HC : forall c1 ok, cs_try_save_snapshot (p_cache d) n (ss_index ss) = (c1, ok) ->
            forall n', c_batch (c1 n') = c_batch (p_cache d n')).
  { intros c1 ok X n'. unfold cs_try_save_snapshot in X. destruct (c_snap (p_cache d n)).
    - inversion X. reflexivity.
    - inversion X. unfold cupd. destruct (nid_eqb n' n) eqn:EN; [|reflexivity].
      apply nid_eqb_eq in EN. now subst. }
  destruct (cs_try_save_snapshot (p_cache d) n (ss_index ss)) as [c1 ok] eqn:ET.
  specialize (HC c1 ok eq_refl). destruct ok.
  - unfold save_snapshot_wb in H. rewrite E in H. destruct (list_snapshots (p_kv d) n) as [l|]; [|discriminate].
    inversion H. cbn [p_kv p_cache]. split; [|exact HC].
    intros k Hk. rewrite get_commit by auto. rewrite wb_last_none; [reflexivity|].
    intros o HI X. apply Hk. rewrite <- X. rewrite app_nil_r in HI. apply in_app_or in HI.
    destruct HI as [HI|[<-|[]]]; [|reflexivity].
    apply in_map_iff in HI. destruct HI as (x & <- & _). reflexivity.
  - inversion H. cbn. auto.
Qed.

Lemma spec_step_snap_strip : forall s n ss n',
  spec_step (sstrip s) (OSnap n ss) n' = sstrip (spec_step s (OSnap n ss)) n'.
Proof.
  intros. cbn [spec_step]. unfold sstrip at 1 2. 
  change (n_ssidx (strip (s n))) with (n_ssidx (s n)).
  destruct (n_ssidx (s n) <? ss_index ss); [|reflexivity].
  unfold sstrip, supd. destruct (nid_eqb n' n); reflexivity.
Qed.

Lemma save_snapshots_RB : forall d s n ss, RB d s -> spec_wf_op s (OSnap n ss) = true ->
  exists d', batched_step d (OSnap n ss) = Some d' /\ RB d' (spec_step s (OSnap n ss)).
Proof.
  intros d s n ss HRB Hwf. pose proof (RB_R _ _ HRB) as HR. destruct HRB as (HS & HW & H).
  assert (Hwf' : spec_wf_op (sstrip s) (OSnap n ss) = true).
  { cbn [spec_wf_op] in *. unfold sstrip. rewrite n_last_strip. exact Hwf. }
  destruct (save_snapshots_R d (sstrip s) n ss HR Hwf') as (d' & E & (HS' & HW' & HR')).
  exists d'. split; [exact E|]. cbn [plain_step] in E.
  destruct (save_snapshots_frame d n ss d' HS E) as [F1 F2].
  split; [exact HS' | split; [exact HW'|]]. intros n'.
  destruct (H n') as [A B C]. constructor.
  - apply Rn_G. change (strip (spec_step s (OSnap n ss) n')) with (sstrip (spec_step s (OSnap n ss)) n').
    rewrite <- spec_step_snap_strip. apply HR'.
  - rewrite F2. eapply BC_ext.
    + eapply (BC_same_log _ _ (s n')); eauto; cbn [spec_step];
        destruct (n_ssidx (s n) <? ss_index ss); try reflexivity;
        unfold supd; destruct (nid_eqb n' n) eqn:EN; try reflexivity;
        apply nid_eqb_eq in EN; subst; reflexivity.
    + intros b. apply F1. cbn. ktags. discriminate.
  - cbn [spec_step]. destruct (n_ssidx (s n) <? ss_index ss); [|exact C].
    unfold supd. destruct (nid_eqb n' n) eqn:EN; [|exact C]. apply nid_eqb_eq in EN. subst. exact (rb_contig _ _ _ _ (H n)).
Qed.

Lemma BC_reset : forall g cb nd n mk tm st ss, BC g cb nd n -> n_last_term nd <= tm ->
  BC g None (mkNode mk tm [] st ss) n.
Proof.
  intros g cb nd n mk tm st ss [B1 B2 B3 B4 B5] Ht.
  set (nd' := mkNode mk tm [] st ss).
  assert (HL' : n_last nd' = mk) by (unfold n_last, nlen, nd'; cbn [n_marker n_ents length]; lia).
  assert (HT' : hterm nd <= hterm nd') by (unfold hterm, n_last_term, nd'; cbn [n_mterm n_ents last_term]; fold (n_last_term nd); lia).
  constructor.
  - exact I.
  - exact B2.
  - intros b raw X. destruct (B3 b raw X) as (R1 & R2 & R3 & R4). split; [exact R1|]. split; [exact R2|]. split.
    + intros x HI. destruct (R3 x HI) as (A1 & A2 & A3). split; [exact A1|]. split; [lia | exact A3].
    + cbn [n_ents nd']. unfold bfilter. cbn [filter]. apply filter_nil. intros x HI.
      unfold in_log. rewrite HL'. cbn [n_marker nd'].
      destruct (mk <? e_index x) eqn:X1; [|reflexivity]. apply N.ltb_lt in X1.
      cbn [andb]. apply N.leb_gt. lia.
  - intros e [].
  - intros lb X. discriminate.
Qed.

Lemma remove_node_wb_no_batch : forall n l, no_batch_keys (remove_node_wb n l).
Proof.
  intros n l o HI. unfold remove_node_wb in HI. apply in_app_or in HI. destruct HI as [HI|HI].
  - destruct HI as [<-|[<-|[<-|[]]]]; cbn; ktags; discriminate.
  - apply in_map_iff in HI. destruct HI as (x & <- & _). cbn. ktags. discriminate.
Qed.

Lemma import_frame : forall d n ss d', sorted (p_kv d) ->
  p_import_snapshot d n ss = Some d' ->
  forall n' b, kv_get (p_kv d') (KBatch n' b) = kv_get (p_kv d) (KBatch n' b).
Proof.
  intros d n ss d' HS H n' b. unfold p_import_snapshot in H.
  destruct (list_snapshots (p_kv d) n) as [l|]; [|discriminate].
  destruct (save_snapshot_wb (p_kv d) n ss) as [w2|] eqn:E2; [|discriminate].
  set (W := (remove_node_wb n _ ++ _) ++ w2 ++ _) in H.
  assert (Hd : d' = mkDB (kv_commit (p_kv d) W) (p_cache d)) by congruence.
  rewrite Hd. cbn [p_kv]. rewrite (get_commit _ _ _ HS). rewrite wb_last_none; [reflexivity|].
  intros o HI X. unfold W in HI.
  assert (k_tag (wkey o) <> c09_tag_entry_batch) as HT; [|apply HT; rewrite X; reflexivity].
  apply in_app_or in HI. destruct HI as [HI|HI].
  - apply in_app_or in HI. destruct HI as [HI|HI].
    + exact (remove_node_wb_no_batch n _ o HI).
    + destruct HI as [<-|[<-|[]]]; cbn; ktags; discriminate.
  - apply in_app_or in HI. destruct HI as [HI|[<-|[]]]; [|cbn; ktags; discriminate].
    unfold save_snapshot_wb in E2. destruct (ss_emptyb ss).
    + inversion E2; subst. destruct HI.
    + destruct (list_snapshots (p_kv d) n); [|discriminate]. inversion E2; subst.
      apply in_app_or in HI. destruct HI as [HI|[<-|[]]]; [|cbn; ktags; discriminate].
      apply in_map_iff in HI. destruct HI as (x & <- & _). cbn. ktags. discriminate.
Qed.

Lemma import_snapshot_RB : forall d s n ss, RB d s -> spec_wf_op s (OImport n ss) = true ->
  exists d', batched_step d (OImport n ss) = Some d' /\ RB d' (spec_step s (OImport n ss)).
Proof.
  intros d s n ss HRB Hwf. pose proof (RB_R _ _ HRB) as HR. destruct HRB as (HS & HW & H).
  assert (Hwf' : spec_wf_op (sstrip s) (OImport n ss) = true) by exact Hwf.
  destruct (import_snapshot_R d (sstrip s) n ss HR Hwf') as (d' & E & (HS' & HW' & HR')).
  exists d'. split; [exact E|].
  cbn [spec_wf_op] in Hwf. rewrite !andb_true_iff in Hwf. destruct Hwf as ((W1 & W2) & W3). apply N.leb_le in W3.
  cbn [plain_step] in E. destruct (p_import_snapshot (p_reopen d) n ss) as [d1|] eqn:EI; [|discriminate].
  inversion E; subst d'. clear E.
  pose proof (import_frame (p_reopen d) n ss d1 HS EI) as F1. cbn [p_reopen p_kv] in F1.
  split; [exact HS' | split; [exact HW'|]]. intros n'. cbn [p_reopen p_kv p_cache spec_step] in *.
  specialize (HR' n'). apply Rn_G in HR'. destruct (H n') as [A B C].
  destruct (nid_eqb n' n) eqn:EN.
  - apply nid_eqb_eq in EN. subst n'. rewrite supd_same in *. constructor.
    + assert (strip (mkNode (ss_index ss) (ss_term ss) [] (Some (mkSt (ss_term ss) 0 (ss_index ss))) (Some ss))
              = mkNode (ss_index ss) (ss_term ss) [] (Some (mkSt (ss_term ss) 0 (ss_index ss))) (Some ss)) as ->.
      { unfold strip, n_last, n_last_term, nlen. cbn [n_marker n_ents n_mterm n_st n_ss length last_term]. f_equal. lia. }
      exact HR'.
    + eapply BC_ext; [eapply BC_reset; eauto | intros b; apply F1].
    + exact I.
  - assert (n' <> n) as HN by (intros ->; rewrite nid_eqb_refl in EN; discriminate).
    rewrite supd_other in * by auto. constructor.
    + exact HR'.
    + eapply BC_ext; [eapply BC_nocache; eauto | intros b; apply F1].
    + exact C.
Qed.

(* ---------- RemoveEntriesTo in the batched format ---------- *)

Lemma RnG_ext_nb : forall g g' cn nd n, RnG g cn nd n ->
  (forall k, k_tag k <> c09_tag_entry_batch -> g' k = g k) -> RnG g' cn nd n.
Proof.
  intros g g' cn nd n [G1 G2 G3 G4 G5 G6 G7 G8 G9 G10 G11] HF.
  constructor; auto.
  - intros e HI. rewrite HF by (cbn; ktags; discriminate). auto.
  - rewrite !HF by (cbn; ktags; discriminate). auto.
  - rewrite HF by (cbn; ktags; discriminate). auto.
  - intros i Hi. rewrite HF by (cbn; ktags; discriminate). auto.
  - destruct (n_ss nd).
    + rewrite HF by (cbn; ktags; discriminate). auto.
    + intros i. rewrite HF by (cbn; ktags; discriminate). auto.
Qed.

Lemma batch_range_spec : forall n hi k,
  in_rangeb (KBatch n 0) (KBatch n hi) false k = true <-> exists b, k = KBatch n b /\ b < hi.
Proof.
  intros n hi k. unfold in_rangeb. rewrite andb_true_iff, key_leb_spec, key_ltb_spec. unfold KBatch. split.
  - intros [H1 H2]. destruct (pre_between _ _ _ _ _ _ H1 H2) as (x & -> & Hx). exists x. split; auto. lia.
  - intros (x & -> & Hx). split; [apply pre_kle; lia | apply pre_klt; lia].
Qed.

Lemma b_remove_get : forall d n idx k, sorted (p_kv d) ->
  kv_get (p_kv (b_remove_entries_to d n idx)) k =
  if (2 <=? batch_id idx) && in_rangeb (KBatch n 0) (KBatch n (batch_id idx - 1)) false k
  then None else kv_get (p_kv d) k.
Proof.
  intros d n idx k HS. unfold b_remove_entries_to.
  destruct ((batch_id idx =? 0) || (batch_id idx =? 1)) eqn:E.
  - assert (2 <=? batch_id idx = false) as ->; [|reflexivity].
    apply N.leb_gt. apply orb_true_iff in E. destruct E as [E|E]; apply N.eqb_eq in E; lia.
  - apply orb_false_iff in E. destruct E as [E1 E2]. apply N.eqb_neq in E1, E2.
    assert (2 <=? batch_id idx = true) as -> by (apply N.leb_le; lia).
    cbn [p_kv andb]. now apply get_del_range.
Qed.

Lemma b_remove_sorted_wt : forall d n idx, sorted (p_kv d) -> WT (p_kv d) ->
  sorted (p_kv (b_remove_entries_to d n idx)) /\ WT (p_kv (b_remove_entries_to d n idx)).
Proof.
  intros d n idx HS HW. unfold b_remove_entries_to.
  destruct ((batch_id idx =? 0) || (batch_id idx =? 1)); [auto|]. cbn [p_kv].
  split; [now apply sorted_del_range | now apply WT_del_range].
Qed.

Lemma good_above : forall l pi pt idx x, good_from pi pt l -> In x l -> e_index x = idx ->
  good_from idx (e_term x) (above idx l).
Proof.
  induction l as [|e l IH]; intros pi pt idx x H HI Hx; [contradiction|].
  destruct H as (A & B & C). unfold above in *. cbn [filter].
  destruct HI as [<-|HI].
  - assert (idx <? e_index e = false) as -> by (apply N.ltb_ge; lia).
    rewrite filter_all; [rewrite <- Hx; exact C|].
    intros y HY. apply N.ltb_lt. destruct (good_from_in _ _ _ _ C HY). lia.
  - destruct (good_from_in _ _ _ _ C HI) as [Lx _].
    assert (idx <? e_index e = false) as -> by (apply N.ltb_ge; lia).
    eapply IH; eauto.
Qed.

Lemma last_term_above : forall l pi pt idx x d, good_from pi pt l -> In x l -> e_index x = idx ->
  last_term (e_term x) (above idx l) = last_term d l.
Proof.
  induction l as [|e l IH]; intros pi pt idx x d H HI Hx; [contradiction|].
  destruct H as (A & B & C). unfold above in *. cbn [filter last_term].
  destruct HI as [<-|HI].
  - assert (idx <? e_index e = false) as -> by (apply N.ltb_ge; lia).
    rewrite filter_all; [reflexivity|].
    intros y HY. apply N.ltb_lt. destruct (good_from_in _ _ _ _ C HY). lia.
  - destruct (good_from_in _ _ _ _ C HI) as [Lx _].
    assert (idx <? e_index e = false) as -> by (apply N.ltb_ge; lia).
    eapply IH; eauto.
Qed.

Lemma remove_entries_to_RB : forall d s n idx, RB d s -> spec_wf_op s (ORemTo n idx) = true ->
  RB (b_remove_entries_to d n idx) (spec_step s (ORemTo n idx)).
Proof.
  intros d s n idx (HS & HW & H) Hwf. cbn [spec_wf_op] in Hwf. apply andb_true_iff in Hwf.
  destruct Hwf as [W1 W2]. apply N.leb_le in W1, W2.
  destruct (b_remove_sorted_wt d n idx HS HW) as [HS' HW'].
  split; [exact HS' | split; [exact HW'|]]. intros n'.
  assert (Hcache : p_cache (b_remove_entries_to d n idx) = p_cache d).
  { unfold b_remove_entries_to. now destruct ((batch_id idx =? 0) || (batch_id idx =? 1)). }
  rewrite Hcache. cbn [spec_step].
  assert (HO : forall k, (forall b, k <> KBatch n b) ->
            kv_get (p_kv (b_remove_entries_to d n idx)) k = kv_get (p_kv d) k).
  { intros k Hk. rewrite b_remove_get by auto. destruct (2 <=? batch_id idx); [|reflexivity]. cbn [andb].
    destruct (in_rangeb _ _ false k) eqn:E; [|reflexivity].
    apply batch_range_spec in E. destruct E as (b & -> & _). exfalso. eapply Hk; eauto. }
  assert (HK : forall b, batch_id idx <= b + 1 ->
            kv_get (p_kv (b_remove_entries_to d n idx)) (KBatch n b) = kv_get (p_kv d) (KBatch n b)).
  { intros b Hb. rewrite b_remove_get by auto. destruct (2 <=? batch_id idx) eqn:E2; [|reflexivity]. cbn [andb].
    destruct (in_rangeb _ _ false (KBatch n b)) eqn:E; [|reflexivity].
    apply batch_range_spec in E. destruct E as (b' & X & L). apply KBatch_inj in X. subst b'.
    apply N.leb_le in E2. lia. }
  assert (HD : forall b v, kv_get (p_kv (b_remove_entries_to d n idx)) (KBatch n b) = Some v ->
            kv_get (p_kv d) (KBatch n b) = Some v).
  { intros b v X. rewrite b_remove_get in X by auto.
    destruct ((2 <=? batch_id idx) && in_rangeb _ _ false (KBatch n b)); [discriminate | exact X]. }
  destruct (nid_eqb n' n) eqn:EN.
  - apply nid_eqb_eq in EN. subst n'. destruct (H n) as [A B C].
    set (nd := s n) in *.
    (* the node after the step *)
    set (nd' := if n_marker nd <? idx then mkNode idx (term_at (n_ents nd) idx) (above idx (n_ents nd)) (n_st nd) (n_ss nd) else nd).
    assert ((if n_marker nd <? idx then supd s n (mkNode idx (term_at (n_ents nd) idx) (above idx (n_ents nd)) (n_st nd) (n_ss nd)) else s) n = nd') as ->.
    { unfold nd'. destruct (n_marker nd <? idx); [apply supd_same | reflexivity]. }
    destruct (n_marker nd <? idx) eqn:EM.
    + apply N.ltb_lt in EM. unfold nd'.
      destruct (contig_above _ _ idx C ltac:(lia)) as [CA CL].
      destruct (contig_nth _ _ idx C) as (x & X1 & X2); [unfold n_last in *; lia|].
      assert (Tx : term_at (n_ents nd) idx = e_term x) by (rewrite <- X2; eapply term_at_in; eauto).
      set (nd2 := mkNode idx (term_at (n_ents nd) idx) (above idx (n_ents nd)) (n_st nd) (n_ss nd)).
      assert (HL2 : n_last nd2 = n_last nd).
      { unfold n_last, nd2. cbn [n_marker n_ents]. rewrite CL. unfold n_last in W2. lia. }
      pose proof (good_from_in_term _ _ _ x (bc_good _ _ _ _ B) X1) as Tx1.
      assert (HT2 : n_last_term nd2 = n_last_term nd).
      { unfold n_last_term, nd2. cbn [n_mterm n_ents]. rewrite Tx.
        apply (last_term_above _ _ _ _ _ _ (bc_good _ _ _ _ B) X1 X2). }
      constructor.
      * eapply RnG_ext_nb; [eapply (strip_rn_entries _ _ nd); eauto|].
        intros k Hk. apply HO. intros b X. subst k. apply Hk. reflexivity.
      * destruct B as [B1 B2 B3 B4 B5]. constructor.
        -- cbn [n_marker n_mterm n_ents nd2]. rewrite Tx.
           assert (N.max 1 (e_term x) = e_term x) as -> by lia.
           eapply good_above; eauto.
        -- intros b v X. exact (B2 b v (HD b v X)).
        -- intros b raw X. destruct (B3 b raw (HD _ _ X)) as (R1 & R2 & R3 & R4).
           split; [exact R1|]. split; [exact R2|]. split.
           ++ unfold hterm. rewrite HT2. exact R3.
           ++ rewrite (filter_ext (in_log nd2) (fun y => (idx <? e_index y) && in_log nd y)).
              ** rewrite filter_and, R4. unfold bfilter, above. cbn [n_ents nd2]. apply filter_comm.
              ** intros y. unfold in_log. rewrite HL2. cbn [n_marker nd2].
                 destruct (idx <? e_index y) eqn:Y; [|reflexivity]. apply N.ltb_lt in Y. cbn [andb].
                 assert (n_marker nd <? e_index y = true) as -> by (apply N.ltb_lt; lia). reflexivity.
        -- intros e HI. cbn [n_ents nd2] in HI. unfold above in HI. apply filter_In in HI.
           destruct HI as [HI HX]. apply N.ltb_lt in HX. destruct (B4 e HI) as (raw & X).
           exists raw. rewrite HK; auto. pose proof (batch_id_mono idx (e_index e) ltac:(lia)). lia.
        -- intros lb Hlb. destruct (B5 lb Hlb) as (L1 & L2 & L3). split; [exact L1|]. split.
           ++ intros e HI. cbn [n_ents nd2] in HI. unfold above in HI. apply filter_In in HI. apply L2. tauto.
           ++ cbn [n_marker nd2]. intros X.
              pose proof (batch_id_mono (n_marker nd + 1) (idx + 1) ltac:(lia)).
              pose proof (batch_id_mono idx (idx + 1) ltac:(lia)).
              destruct L3 as (raw & G & RR); [lia|]. exists raw. split; [|exact RR]. rewrite HK; auto. lia.
      * exact CA.
    + apply N.ltb_ge in EM. unfold nd'. constructor.
      * eapply RnG_ext_nb; [exact A|]. intros k Hk. apply HO. intros b X. subst k. apply Hk. reflexivity.
      * destruct B as [B1 B2 B3 B4 B5]. constructor.
        -- exact B1.
        -- intros b v X. exact (B2 b v (HD b v X)).
        -- intros b raw X. exact (B3 b raw (HD _ _ X)).
        -- intros e HI. destruct (B4 e HI) as (raw & X). exists raw. rewrite HK; auto.
           pose proof (contig_bounds _ _ _ C HI). pose proof (batch_id_mono idx (e_index e) ltac:(lia)). lia.
        -- intros lb Hlb. destruct (B5 lb Hlb) as (L1 & L2 & L3). split; [exact L1|]. split; [exact L2|].
           intros X. destruct (L3 X) as (raw & G & RR). exists raw. split; [|exact RR]. rewrite HK; auto.
           pose proof (batch_id_mono idx (n_marker nd + 1) ltac:(lia)). lia.
      * exact C.
  - assert (n' <> n) as HN by (intros ->; rewrite nid_eqb_refl in EN; discriminate).
    assert (RB1 (kv_get (p_kv (b_remove_entries_to d n idx))) (p_cache d n') (s n') n') as HF.
    { eapply RB1_ext; [apply H|]. intros k Hk. apply HO. intros b X. subst k. apply HN. rewrite <- Hk.
      unfold key_node, KBatch. cbn. apply nid_eta. }
    destruct (n_marker (s n) <? idx); [rewrite supd_other by auto|]; exact HF.
Qed.

(* ---------- RemoveNodeData in the batched format ---------- *)

Lemma remove_node_data_RB : forall d s n, RB d s ->
  exists d', batched_step d (ORemNode n) = Some d' /\ RB d' (spec_step s (ORemNode n)).
Proof.
  intros d s n (HS & HW & H). pose proof (H n) as [Hn HBn HCn]. apply Rn_G in Hn.
  pose proof max_index_u64 as HU.
  destruct (list_snapshots_spec (p_kv d) n HS HW) as (l & HL & Hl).
  cbn [batched_step]. unfold b_remove_node_data. rewrite HL. eexists. split; [reflexivity|].
  set (m1 := kv_commit (p_kv d) (remove_node_wb n l)).
  set (c1 := cs_remove_node_data (cs_set_max_index (p_cache d) n 0) n).
  assert (HS1 : sorted m1) by now apply sorted_commit.
  assert (HW1 : WT m1).
  { apply WT_commit; auto. intros k v HI. unfold remove_node_wb in HI. apply in_app_or in HI.
    destruct HI as [HI|HI]; [cbn in HI; intuition discriminate|].
    apply in_map_iff in HI. destruct HI as (x & X & _). discriminate. }
  assert (HG : forall k, kv_get m1 k = match wb_last (remove_node_wb n l) k with Some r => r | None => kv_get (p_kv d) k end)
    by (intros; now apply get_commit).
  destruct (b_remove_sorted_wt (mkDB m1 c1) n u64max HS1 HW1) as [HS2 HW2].
  split; [exact HS2 | split; [exact HW2|]].
  assert (Hcache : p_cache (b_remove_entries_to (mkDB m1 c1) n u64max) = c1).
  { unfold b_remove_entries_to. now destruct ((batch_id u64max =? 0) || (batch_id u64max =? 1)). }
  rewrite Hcache. cbn [spec_step].
  assert (Hbig : 2 <=? batch_id u64max = true) by (vm_compute; reflexivity).
  assert (HO : forall k, (forall b, k <> KBatch n b) ->
            kv_get (p_kv (b_remove_entries_to (mkDB m1 c1) n u64max)) k = kv_get m1 k).
  { intros k Hk. rewrite b_remove_get by auto. rewrite Hbig. cbn [andb p_kv].
    destruct (in_rangeb _ _ false k) eqn:E; [|reflexivity].
    apply batch_range_spec in E. destruct E as (b & -> & _). exfalso. eapply Hk; eauto. }
  intros n'. destruct (nid_eqb n' n) eqn:EN.
  - apply nid_eqb_eq in EN. subst n'. rewrite supd_same.
    assert (HSN : forall i, kv_get m1 (KSnapshot n i) = None).
    { intros i. rewrite HG, remove_node_wb_last.
      destruct (existsb _ _) eqn:E; auto.
      rewrite !key_eqb_neq by (intros X; ktags; inversion X).
      destruct (kv_get (p_kv d) (KSnapshot n i)) eqn:G; auto. exfalso.
      destruct (HW _ _ G) as (_ & W & _). destruct (W eq_refl) as (old & -> & Wi). cbn in Wi.
      destruct (N.le_gt_cases i u64max) as [X|X].
      - assert (In old l) as HI by (apply Hl; rewrite Wi; auto).
        apply not_true_iff_false in E. apply E. apply existsb_snap_keys. exists old. now rewrite Wi.
      - rewrite (r_snap_hi _ _ _ _ Hn i) in G; [discriminate|]. pose proof (r_ssb _ _ _ _ Hn).
        change (n_ssidx (strip (s n))) with (n_ssidx (s n)) in *. lia. }
    assert (c1 n = mkC None (Some 0) None None) as Hc1.
    { unfold c1, cs_remove_node_data, cs_set_max_index, cupd. cbv beta. now rewrite !nid_eqb_refl. }
    rewrite Hc1.
    (* no batch of the node is left *)
    assert (HNB : forall b, kv_get (p_kv (b_remove_entries_to (mkDB m1 c1) n u64max)) (KBatch n b) = None).
    { intros b. rewrite b_remove_get by auto. rewrite Hbig. cbn [andb p_kv].
      destruct (in_rangeb _ _ false (KBatch n b)) eqn:E; [reflexivity|].
      rewrite HG, (wb_last_none (remove_node_wb n l)).
      - destruct (kv_get (p_kv d) (KBatch n b)) as [v|] eqn:G; [|reflexivity]. exfalso.
        destruct (bc_typed _ _ _ _ HBn _ _ G) as (raw & ->).
        destruct (bc_all _ _ _ _ HBn _ _ G) as (R1 & R2 & R3 & R4).
        assert (exists x, In x (restore_if_many raw)) as (x & HX).
        { destruct raw as [|r0 [|r1 rr]]; [contradiction | exists r0; now left |].
          cbn [restore_if_many]. unfold restore_batch. destruct (e_term _ =? 0); exists r0; now left. }
        destruct (R3 x HX) as (A1 & _ & A3).
        apply not_true_iff_false in E. apply E. apply batch_range_spec. exists b. split; [reflexivity|].
        rewrite <- A1. unfold max_index in A3. bid. unfold u64max. lia.
      - intros o HI X. pose proof (remove_node_wb_no_batch n l o HI) as NB. apply NB. rewrite X. reflexivity. }
    constructor.
    + change (strip empty_node) with empty_node.
      constructor; cbn [empty_node n_marker n_ents n_st n_ss n_mterm c_state c_max c_snap].
      * exact I.
      * intros e [].
      * right. split; [|reflexivity]. rewrite HO by (intros b X; ktags; inversion X).
        rewrite HG, remove_node_wb_last. destruct (existsb _ _); auto. now rewrite key_eqb_refl.
      * intros v X. inversion X. reflexivity.
      * rewrite HO by (intros b X; ktags; inversion X). rewrite HG, remove_node_wb_last.
        destruct (existsb _ _); auto.
        rewrite !(key_eqb_neq (KState n)) by (intros X; ktags; inversion X). now rewrite key_eqb_refl.
      * intros st X. discriminate.
      * intros i _. rewrite HO by (intros b X; ktags; inversion X). apply HSN.
      * intros i. rewrite HO by (intros b X; ktags; inversion X). apply HSN.
      * intros v X. discriminate.
      * unfold n_ssidx, max_index. cbn. lia.
      * unfold n_last, max_index, nlen. cbn. lia.
    + constructor; cbn [empty_node n_marker n_ents n_mterm].
      * exact I.
      * intros b v X. rewrite HNB in X. discriminate.
      * intros b raw X. rewrite HNB in X. discriminate.
      * intros e [].
      * intros lb X. discriminate.
    + exact I.
  - assert (n' <> n) as HN by (intros ->; rewrite nid_eqb_refl in EN; discriminate).
    rewrite supd_other by auto.
    assert (c1 n' = p_cache d n') as ->.
    { unfold c1, cs_remove_node_data, cs_set_max_index, cupd. cbv beta. now rewrite !EN. }
    eapply RB1_ext; [apply H|]. intros k Hk.
    rewrite HO.
    + rewrite HG, remove_node_wb_other; auto. rewrite Hk. auto.
    + intros b X. subst k. apply HN. rewrite <- Hk. unfold key_node, KBatch. cbn. apply nid_eta.
Qed.

(* ---------- all mutations ---------- *)

Lemma batched_step_RB : forall d s o, RB d s -> spec_wf_op s o = true ->
  exists d', batched_step d o = Some d' /\ RB d' (spec_step s o).
Proof.
  intros d s o HR Hwf. destruct o.
  - now apply save_raft_state_RB.
  - now apply save_snapshots_RB.
  - eexists. split; [reflexivity|]. now apply remove_entries_to_RB.
  - now apply remove_node_data_RB.
  - now apply import_snapshot_RB.
  - eexists. split; [reflexivity|]. now apply reopen_RB.
Qed.

Lemma RB_init : RB pdb_init spec_init.
Proof.
  split; [exact I | split].
  - intros k v H. discriminate.
  - intros n. constructor.
    + apply Rn_G. apply (proj2 (proj2 R_init) n).
    + constructor; cbn; try (intros; discriminate); try contradiction; exact I.
    + exact I.
Qed.

(* ---------- GetSnapshot ---------- *)

Lemma get_snapshot_RB : forall d s n, RB d s ->
  canon (QSnap n) (fst (p_get_snapshot d n)) = spec_answer s (QSnap n) /\ RB (snd (p_get_snapshot d n)) s.
Proof.
  intros d s n HRB. pose proof (RB_R _ _ HRB) as HR. destruct HRB as (HS & HW & H).
  destruct (get_snapshot_refines d (sstrip s) n HR) as [A (HS' & HW' & HR')]. split; [exact A|].
  split; [exact HS' | split; [exact HW'|]]. intros n'.
  assert (Hkv : p_kv (snd (p_get_snapshot d n)) = p_kv d /\
                c_batch (p_cache (snd (p_get_snapshot d n)) n') = c_batch (p_cache d n')).
  { unfold p_get_snapshot. destruct (list_snapshots (p_kv d) n) as [l|]; [|auto].
    destruct (last_opt l); [|auto]. cbn [snd p_kv p_cache]. split; [reflexivity|].
    unfold cs_set_snapshot_index, cupd. destruct (nid_eqb n' n) eqn:E; [|reflexivity].
    apply nid_eqb_eq in E. now subst. }
  destruct Hkv as [K1 K2]. destruct (H n') as [A1 B1 C1]. constructor.
  - apply Rn_G. apply HR'.
  - rewrite K1, K2. exact B1.
  - exact C1.
Qed.

(* ---------- scanning a sparsely populated key range ---------- *)

Fixpoint sparse (m : kv) (t s r lo : N) (cnt : nat) : kv :=
  match cnt with
  | O => []
  | S c => (match kv_get m (mkKey t s r lo) with Some v => [(mkKey t s r lo, v)] | None => [] end)
           ++ sparse m t s r (lo + 1) c
  end.

Lemma range_sparse : forall cnt m t s r lo, sorted m ->
  kv_range m (mkKey t s r lo) (mkKey t s r (lo + N.of_nat cnt)) false = sparse m t s r lo cnt.
Proof.
  induction cnt as [|c IH]; intros m t s r lo HS.
  - replace (lo + N.of_nat 0) with lo by lia. apply range_empty.
  - cbn [sparse]. rewrite (range_split m _ (mkKey t s r (lo + 1))) by (auto; apply pre_kle; lia).
    rewrite (range_single m _ _ (mkKey t s r lo)); auto.
    + f_equal. replace (lo + N.of_nat (S c)) with (lo + 1 + N.of_nat c) by lia. now apply IH.
    + intros k' H1 H2. destruct (pre_between _ _ _ _ _ _ H1 H2) as (x & -> & Hx). f_equal. lia.
    + apply pre_kle. lia.
    + apply pre_klt. lia.
Qed.

(* the stored batches with consecutive ids from lo, as long as they exist *)
Fixpoint bprefix (g : gfun) (n : nid) (lo : N) (cnt : nat) : list (list entry) :=
  match cnt with
  | O => []
  | S c => match g (KBatch n lo) with
           | Some (VBatch raw) => raw :: bprefix g n (lo + 1) c
           | _ => []
           end
  end.

Lemma restore_head : forall raw, raw <> [] -> exists e0 r r', raw = e0 :: r /\ restore_if_many raw = e0 :: r'.
Proof.
  intros [|e0 [|e1 r]] H; [contradiction | exists e0, [], []; auto |].
  cbn [restore_if_many]. unfold restore_batch. destruct (e_term _ =? 0); eauto.
Qed.

Lemma sparse_head_id : forall cnt m n lo cb nd, BC (kv_get m) cb nd n ->
  match sparse m c09_tag_entry_batch (fst n) (snd n) lo cnt with
  | [] => True
  | (_, v) :: _ => exists e0 r, v = VBatch (e0 :: r) /\ lo <= batch_id (e_index e0)
  end.
Proof.
  induction cnt as [|c IH]; intros m n lo cb nd HB; [exact I|]. cbn [sparse].
  destruct (kv_get m (mkKey c09_tag_entry_batch (fst n) (snd n) lo)) as [v|] eqn:G.
  - cbn [app]. change (mkKey c09_tag_entry_batch (fst n) (snd n) lo) with (KBatch n lo) in G.
    destruct (bc_typed _ _ _ _ HB _ _ G) as (raw & ->). destruct (bc_all _ _ _ _ HB _ _ G) as (R1 & R2 & R3 & R4).
    destruct (restore_head raw R1) as (e0 & r & r' & -> & RR). exists e0, r. split; [reflexivity|].
    destruct (R3 e0) as (A & _); [rewrite RR; now left|]. lia.
  - cbn [app]. specialize (IH m n (lo + 1) cb nd HB).
    destruct (sparse m c09_tag_entry_batch (fst n) (snd n) (lo + 1) c) as [|[k v] t]; [exact I|].
    destruct IH as (e0 & r & -> & L). exists e0, r. split; [reflexivity | lia].
Qed.

Lemma batches_scan_sparse : forall cnt m n lo cb nd, BC (kv_get m) cb nd n ->
  batches_scan (sparse m c09_tag_entry_batch (fst n) (snd n) lo cnt) lo = Some (bprefix (kv_get m) n lo cnt).
Proof.
  induction cnt as [|c IH]; intros m n lo cb nd HB; [reflexivity|]. cbn [sparse bprefix].
  change (mkKey c09_tag_entry_batch (fst n) (snd n) lo) with (KBatch n lo).
  destruct (kv_get m (KBatch n lo)) as [v|] eqn:G.
  - destruct (bc_typed _ _ _ _ HB _ _ G) as (raw & ->). destruct (bc_all _ _ _ _ HB _ _ G) as (R1 & R2 & R3 & R4).
    destruct (restore_head raw R1) as (e0 & r & r' & -> & RR). cbn [app batches_scan].
    destruct (R3 e0) as (A & _); [rewrite RR; now left|]. rewrite A, N.eqb_refl.
    now rewrite (IH m n (lo + 1) cb nd HB).
  - cbn [app]. pose proof (sparse_head_id c m n (lo + 1) cb nd HB) as HH.
    destruct (sparse m c09_tag_entry_batch (fst n) (snd n) (lo + 1) c) as [|[k v] t]; [reflexivity|].
    destruct HH as (e0 & r & -> & L). cbn [batches_scan].
    assert (batch_id (e_index e0) =? lo = false) as -> by (apply N.eqb_neq; lia). reflexivity.
Qed.

(* ---------- the double loop of batchedEntries.iterate ---------- *)

Fixpoint ts (maxsz size : N) (l : list entry) : list entry * N * bool :=
  match l with
  | [] => ([], size, false)
  | e :: t =>
    let size' := size + esize e in
    if maxsz <? size' then ([e], size', true)
    else let '(r, s, b) := ts maxsz size' t in (e :: r, s, b)
  end.

Lemma ts_take_size : forall l maxsz size, take_size maxsz size l = (fst (fst (ts maxsz size l)), snd (fst (ts maxsz size l))).
Proof.
  induction l as [|e l IH]; intros maxsz size; [reflexivity|]. cbn [ts take_size].
  destruct (maxsz <? size + esize e); [reflexivity|]. rewrite IH.
  destruct (ts maxsz (size + esize e) l) as [[r s] b]. reflexivity.
Qed.

Definition sumsz (l : list entry) : N := fold_left (fun s e => s + esize e) l 0.
Lemma fold_sumsz : forall l a, fold_left (fun s e => s + esize e) l a = a + sumsz l.
Proof.
  unfold sumsz. induction l as [|e l IH]; intros a; cbn [fold_left]; [lia|].
  rewrite IH. rewrite (IH (0 + esize e)). lia.
Qed.
Lemma sumsz_app : forall a b, sumsz (a ++ b) = sumsz a + sumsz b.
Proof. intros. unfold sumsz at 1. rewrite fold_left_app, fold_sumsz. reflexivity. Qed.

Lemma ts_size : forall l maxsz size r s b, ts maxsz size l = (r, s, b) -> s = size + sumsz r.
Proof.
  induction l as [|e l IH]; intros maxsz size r s b H; cbn [ts] in H.
  - inversion H. unfold sumsz. cbn. lia.
  - destruct (maxsz <? size + esize e).
    + inversion H. unfold sumsz. cbn. lia.
    + destruct (ts maxsz (size + esize e) l) as [[r' s'] b'] eqn:T. inversion H; subst.
      rewrite (IH _ _ _ _ _ T). change (e :: r') with ([e] ++ r'). rewrite sumsz_app.
      unfold sumsz at 2. cbn. lia.
Qed.

Lemma ts_app : forall a c maxsz size, ts maxsz size (a ++ c) =
  let '(r, s, b) := ts maxsz size a in
  if b then (r, s, true) else let '(r2, s2, b2) := ts maxsz s c in (r ++ r2, s2, b2).
Proof.
  induction a as [|e a IH]; intros c maxsz size; cbn [app ts].
  - destruct (ts maxsz size c) as [[r2 s2] b2]. reflexivity.
  - destruct (maxsz <? size + esize e); [reflexivity|]. rewrite IH.
    destruct (ts maxsz (size + esize e) a) as [[r s] b]. destruct b; [reflexivity|].
    destruct (ts maxsz s c) as [[r2 s2] b2]. reflexivity.
Qed.

Lemma ts_false : forall l maxsz size r s, ts maxsz size l = (r, s, false) -> r = l.
Proof.
  induction l as [|e l IH]; intros maxsz size r s H; cbn [ts] in H.
  - now inversion H.
  - destruct (maxsz <? size + esize e); [discriminate|].
    destruct (ts maxsz (size + esize e) l) as [[r' s'] b'] eqn:T. inversion H; subst.
    f_equal. eapply IH; eauto.
Qed.

(* one batch *)
Lemma iter_entries_spec : forall es low high maxsz exp size acc,
  contig exp (filter (in_range low high) es) ->
  iter_entries es low high maxsz exp size acc =
  let '(r, s, b) := ts maxsz size (filter (in_range low high) es) in (rev r ++ acc, exp + nlen r, s, b).
Proof.
  induction es as [|e es IH]; intros low high maxsz exp size acc HC; cbn [iter_entries filter].
  - cbn [ts rev app]. replace (exp + nlen []) with exp by (unfold nlen; cbn; lia). reflexivity.
  - change ((low <=? e_index e) && (e_index e <? high)) with (in_range low high e).
    destruct (in_range low high e) eqn:E.
    + cbn [filter] in HC. rewrite E in HC. destruct HC as [HC1 HC2].
      rewrite HC1, N.eqb_refl. cbn [negb ts].
      destruct (maxsz <? size + esize e).
      * cbn [rev app]. replace (exp + nlen [e]) with (exp + 1) by (unfold nlen; cbn; lia). reflexivity.
      * rewrite (IH low high maxsz (exp + 1) (size + esize e) (e :: acc) HC2).
        destruct (ts maxsz (size + esize e) (filter (in_range low high) es)) as [[r s] b].
        cbn [rev]. rewrite <- app_assoc. cbn [app]. rewrite nlen_cons.
        replace (exp + 1 + nlen r) with (exp + (nlen r + 1)) by lia. reflexivity.
    + cbn [filter] in HC. rewrite E in HC. now apply IH.
Qed.

Lemma contig_app_inv : forall (a b : list entry) i, contig i (a ++ b) -> contig i a /\ contig (i + nlen a) b.
Proof.
  induction a as [|e a IH]; intros b i H; cbn [app] in *.
  - split; [exact I|]. replace (i + nlen []) with i by (unfold nlen; cbn; lia). exact H.
  - destruct H as [H1 H2]. destruct (IH b (i + 1) H2) as [I1 I2]. split; [split; auto|].
    rewrite nlen_cons. replace (i + (nlen a + 1)) with (i + 1 + nlen a) by lia. exact I2.
Qed.

(* all batches *)
Lemma iter_batches_spec : forall bs low high maxsz exp size acc,
  contig exp (concat (map (fun b => filter (in_range low high) (restore_if_many b)) bs)) ->
  size = sumsz (rev acc) ->
  iter_batches bs low high maxsz exp size acc =
  let '(r, s, b) := ts maxsz size (concat (map (fun b => filter (in_range low high) (restore_if_many b)) bs)) in
  (rev acc ++ r, s).
Proof.
  induction bs as [|b0 bs IH]; intros low high maxsz exp size acc HC Hs; cbn [iter_batches map concat].
  - cbn [ts]. rewrite app_nil_r. fold (sumsz (rev acc)). now rewrite Hs.
  - destruct (contig_app_inv _ _ _ HC) as [C1 C2].
    rewrite (iter_entries_spec _ _ _ _ _ _ _ C1). rewrite ts_app.
    destruct (ts maxsz size (filter (in_range low high) (restore_if_many b0))) as [[r s] b] eqn:T.
    destruct b.
    + rewrite rev_app_distr, rev_involutive. reflexivity.
    + pose proof (ts_false _ _ _ _ _ T) as Er. rewrite <- Er in C2.
      rewrite (IH low high maxsz (exp + nlen r) s (rev r ++ acc) C2).
      * destruct (ts maxsz s _) as [[r2 s2] b2]. rewrite rev_app_distr, rev_involutive, <- app_assoc. reflexivity.
      * rewrite rev_app_distr, rev_involutive, sumsz_app, <- Hs. rewrite (ts_size _ _ _ _ _ _ T). lia.
Qed.

(* ---------- flattening the visited batches ---------- *)

Definition above_id (lo : N) (X : list entry) : list entry := filter (fun e => lo <? batch_id (e_index e)) X.

Lemma ids_sorted_ge : forall X c x, ids_sorted c X -> In x X -> c <= batch_id (e_index x).
Proof.
  induction X as [|e X IH]; intros c x H HI; [contradiction|].
  destruct H as [A B]. destruct HI as [<-|HI]; [exact A|]. pose proof (IH _ _ B HI). lia.
Qed.

Lemma ids_split : forall X lo, ids_sorted lo X -> X = bfilter lo X ++ above_id lo X.
Proof.
  induction X as [|e X IH]; intros lo H; [reflexivity|].
  destruct H as [A B]. unfold bfilter, above_id in *. cbn [filter].
  destruct (batch_id (e_index e) =? lo) eqn:E.
  - apply N.eqb_eq in E. assert (lo <? batch_id (e_index e) = false) as -> by (apply N.ltb_ge; lia).
    cbn [app]. f_equal. apply IH. now rewrite <- E.
  - apply N.eqb_neq in E. assert (lo <? batch_id (e_index e) = true) as -> by (apply N.ltb_lt; lia).
    rewrite (filter_nil (fun e0 => batch_id (e_index e0) =? lo) X).
    + cbn [app]. f_equal. symmetry. apply filter_all. intros x HI. apply N.ltb_lt.
      pose proof (ids_sorted_ge _ _ _ B HI). lia.
    + intros x HI. apply N.eqb_neq. pose proof (ids_sorted_ge _ _ _ B HI). lia.
Qed.

Lemma ids_sorted_above : forall X lo, ids_sorted lo X -> ids_sorted (lo + 1) (above_id lo X).
Proof.
  induction X as [|e X IH]; intros lo H; [exact I|].
  destruct H as [A B]. unfold above_id in *. cbn [filter].
  destruct (lo <? batch_id (e_index e)) eqn:E.
  - apply N.ltb_lt in E. cbn [ids_sorted]. split; [lia|].
    rewrite filter_all; [exact B|]. intros x HI. apply N.ltb_lt. pose proof (ids_sorted_ge _ _ _ B HI). lia.
  - apply N.ltb_ge in E. apply IH. assert (batch_id (e_index e) = lo) as <- by lia. exact B.
Qed.

Lemma bfilter_above : forall X lo b, lo < b -> bfilter b (above_id lo X) = bfilter b X.
Proof.
  intros X lo b H. unfold bfilter, above_id. rewrite filter_comm. apply filter_all.
  intros x HI. apply filter_In in HI. destruct HI as [_ HI]. apply N.eqb_eq in HI. apply N.ltb_lt. lia.
Qed.

Lemma flat_prefix : forall (T : list entry -> list entry) g n cnt lo X,
  ids_sorted lo X ->
  (forall x, In x X -> batch_id (e_index x) < lo + N.of_nat cnt) ->
  (forall x b, In x X -> lo <= b <= batch_id (e_index x) -> exists raw, g (KBatch n b) = Some (VBatch raw)) ->
  (forall b raw, lo <= b -> g (KBatch n b) = Some (VBatch raw) -> T raw = bfilter b X) ->
  concat (map T (bprefix g n lo cnt)) = X.
Proof.
  intros T g n. induction cnt as [|c IH]; intros lo X HS HB HE HT.
  - destruct X as [|x X]; [reflexivity|]. exfalso.
    pose proof (HB x (or_introl eq_refl)). destruct HS as [A _]. lia.
  - cbn [bprefix]. destruct (g (KBatch n lo)) as [v|] eqn:G.
    + destruct v as [| | | | |raw];
        try (destruct X as [|x X]; [reflexivity|]; exfalso; destruct HS as [A _];
             destruct (HE x lo (or_introl eq_refl) ltac:(lia)) as (raw & Y); congruence).
      cbn [map concat]. rewrite (HT lo raw ltac:(lia) G). rewrite (ids_split X lo HS) at 2. f_equal.
      apply IH.
      * now apply ids_sorted_above.
      * intros x HI. unfold above_id in HI. apply filter_In in HI. destruct HI as [HI _]. pose proof (HB x HI). lia.
      * intros x b HI Hb. unfold above_id in HI. apply filter_In in HI. destruct HI as [HI _].
        apply (HE x b HI). lia.
      * intros b raw' Hb G'. rewrite (HT b raw' ltac:(lia) G'). symmetry. apply bfilter_above. lia.
    + destruct X as [|x X]; [reflexivity|]. exfalso. destruct HS as [A _].
      destruct (HE x lo (or_introl eq_refl) ltac:(lia)) as (raw & Y). congruence.
Qed.

Lemma contig_id_between : forall X i x b, contig i X -> In x X ->
  batch_id i <= b <= batch_id (e_index x) -> exists y, In y X /\ batch_id (e_index y) = b.
Proof.
  intros X i x b HC HI Hb. pose proof (contig_bounds _ _ _ HC HI) as Bx.
  destruct (N.eq_dec b (batch_id i)) as [->|Hne].
  - destruct (contig_nth _ _ i HC ltac:(lia)) as (y & Y1 & Y2). exists y. split; [auto | now rewrite Y2].
  - assert (i < b * bsz <= e_index x) as Hr by (bid; lia).
    destruct (contig_nth _ _ (b * bsz) HC ltac:(lia)) as (y & Y1 & Y2). exists y. split; [auto|].
    rewrite Y2. bid. lia.
Qed.

Lemma restore_idem : forall R pi, good_from pi 1 R -> restore_if_many R = R.
Proof.
  intros [|e0 [|e1 r]] pi H; try reflexivity. cbn [restore_if_many]. unfold restore_batch.
  destruct H as (A & B & C).
  destruct (good_last_bounds (e1 :: r) _ _ e0 C ltac:(discriminate)) as [_ I2].
  change (last (e0 :: e1 :: r) e0) with (last (e1 :: r) e0).
  assert (e_term (last (e1 :: r) e0) =? 0 = false) as -> by (apply N.eqb_neq; lia). reflexivity.
Qed.

Lemma batch_range_empty : forall m n lo hi, hi <= lo -> kv_range m (KBatch n lo) (KBatch n hi) false = [].
Proof.
  intros m n lo hi H. unfold kv_range. apply filter_nil. intros [k v] _. cbn [fst]. unfold in_rangeb.
  destruct (key_leb (KBatch n lo) k) eqn:E1; [|reflexivity]. destruct (key_ltb k (KBatch n hi)) eqn:E2; [|reflexivity].
  exfalso. apply key_leb_spec in E1. apply key_ltb_spec in E2. unfold KBatch in *.
  destruct (pre_between _ _ _ _ _ _ E1 E2) as (x & _ & Hx). lia.
Qed.

Lemma nil_no_in : forall {A} (l : list A), (forall x, ~ In x l) -> l = [].
Proof. intros A [|a l] H; [reflexivity|]. exfalso. apply (H a). now left. Qed.

Lemma iterate_refines_b : forall d s n low high maxsz, RB d s ->
  spec_wf_query s (QIter n low high maxsz) = true ->
  canon (QIter n low high maxsz) (b_iterate d n low high maxsz) = spec_answer s (QIter n low high maxsz).
Proof.
  intros d s n low high maxsz HRB Hwf. pose proof (RB_R _ _ HRB) as HR. destruct HRB as (HS & HW & H).
  destruct (H n) as [_ HB HC].
  cbn [spec_wf_query] in Hwf. rewrite !andb_true_iff in Hwf. destruct Hwf as (((W1 & W2) & W3) & W4).
  apply N.ltb_lt in W1. apply N.leb_le in W2.
  cbn [spec_answer]. unfold b_iterate, p_iterate_with.
  destruct (filter_range_contig _ _ low high HC ltac:(lia)) as [FC FL].
  set (F := filter (in_range low high) (n_ents (s n))) in *.
  destruct (get_max_index_R d (sstrip s) n HR) as [HM|[HM HL]]; rewrite HM;
    unfold sstrip in *; rewrite n_last_strip in *.
  2:{ unfold n_last in HL. assert (n_ents (s n) = []) as HE by (apply nlen_zero; lia).
      subst F. rewrite HE. reflexivity. }
  fold (n_last (s n)) in FL. unfold batched_iterate.
  set (last := n_last (s n)) in *.
  set (high' := if last + 1 <? high then last + 1 else high).
  assert (Hh : high' = N.min high (last + 1)).
  { unfold high'. destruct (last + 1 <? high) eqn:X; [apply N.ltb_lt in X | apply N.ltb_ge in X]; lia. }
  destruct (batch_id_range low high') as [lowid highid] eqn:EBR.
  assert (Hlow : lowid = batch_id low).
  { unfold batch_id_range in EBR. destruct (high' mod bsz =? 0); now inversion EBR. }
  set (Tf := fun b => filter (in_range low high') (restore_if_many b)).
  (* the in-range part of the log, seen through the clamped bound *)
  assert (HF' : filter (in_range low high') (n_ents (s n)) = F).
  { unfold F. apply filter_ext_in. intros e HI. pose proof (contig_bounds _ _ _ HC HI) as Be.
    unfold in_range. f_equal. unfold last, n_last in Hh.
    destruct (e_index e <? high') eqn:X1; destruct (e_index e <? high) eqn:X2; auto;
      [apply N.ltb_lt in X1; apply N.ltb_ge in X2 | apply N.ltb_ge in X1; apply N.ltb_lt in X2]; lia. }
  assert (HFhi : forall x, In x F -> batch_id (e_index x) < highid \/ highid <= lowid).
  { intros x HI. rewrite <- HF' in HI. apply filter_In in HI. destruct HI as [_ HI].
    unfold in_range in HI. apply andb_true_iff in HI. destruct HI as [A B]. apply N.leb_le in A. apply N.ltb_lt in B.
    left. unfold batch_id_range in EBR. destruct (high' mod bsz =? 0) eqn:EM.
    - apply N.eqb_eq in EM. inversion EBR. subst. now apply aligned_spec.
    - inversion EBR. subst. pose proof (batch_id_mono (e_index x) high' ltac:(lia)). lia. }
  assert (HT : forall b raw, lowid <= b -> kv_get (p_kv d) (KBatch n b) = Some (VBatch raw) -> Tf raw = bfilter b F).
  { intros b raw _ G. destruct (bc_all _ _ _ _ HB _ _ G) as (R1 & R2 & R3 & R4). unfold Tf.
    rewrite (filter_ext_in (in_range low high') (fun x => in_range low high' x && in_log (s n) x)).
    - rewrite filter_and, R4. rewrite <- HF'. unfold bfilter. apply filter_comm.
    - intros x _. destruct (in_range low high' x) eqn:X; [|reflexivity]. cbn [andb]. symmetry.
      unfold in_range in X. apply andb_true_iff in X. destruct X as [A B]. apply N.leb_le in A. apply N.ltb_lt in B.
      apply in_log_range. fold last. lia. }
  assert (HE : forall x b, In x F -> lowid <= b <= batch_id (e_index x) ->
            exists raw, kv_get (p_kv d) (KBatch n b) = Some (VBatch raw)).
  { intros x b HI Hb. rewrite Hlow in Hb. destruct (contig_id_between F low x b FC HI Hb) as (y & Y1 & <-).
    apply (bc_exists _ _ _ _ HB). unfold F in Y1. apply filter_In in Y1. tauto. }
  assert (HIS : ids_sorted lowid F) by (rewrite Hlow; now apply contig_ids_sorted).
  (* what iterateBatches returns, flattened, is the in-range part of the log *)
  assert (HBS : exists bs, iterate_batches (p_kv d) n lowid highid = Some bs /\ concat (map Tf bs) = F).
  { unfold iterate_batches. destruct (lowid + 1 =? highid) eqn:E1.
    - apply N.eqb_eq in E1. unfold get_batch_from_db.
      destruct (kv_get (p_kv d) (KBatch n lowid)) as [v|] eqn:G.
      + destruct (bc_typed _ _ _ _ HB _ _ G) as (raw & ->).
        destruct (bc_all _ _ _ _ HB _ _ G) as (R1 & R2 & R3 & R4).
        exists [restore_if_many raw]. split; [reflexivity|]. cbn [map concat]. rewrite app_nil_r.
        unfold Tf. rewrite (restore_idem _ 0 R2).
        pose proof (flat_prefix Tf (kv_get (p_kv d)) n 1 lowid F HIS) as FP. cbn [bprefix] in FP.
        rewrite G in FP. cbn [map concat] in FP. rewrite app_nil_r in FP. apply FP; auto.
        intros x HI. destruct (HFhi x HI); lia.
      + exists []. split; [reflexivity|]. cbn [map concat].
        pose proof (flat_prefix Tf (kv_get (p_kv d)) n 1 lowid F HIS) as FP. cbn [bprefix] in FP.
        rewrite G in FP. cbn [map concat] in FP. apply FP; auto.
        intros x HI. destruct (HFhi x HI); lia.
    - destruct (N.le_gt_cases highid lowid) as [X|X].
      + rewrite batch_range_empty by auto. exists []. split; [reflexivity|]. cbn [map concat].
        symmetry. apply nil_no_in. intros x HI.
        pose proof (ids_sorted_ge _ _ _ HIS HI) as A.
        destruct (HFhi x HI) as [Y|Y]; [lia|].
        pose proof HI as HI2. rewrite <- HF' in HI2. apply filter_In in HI2.
        destruct HI2 as [_ HI2]. unfold in_range in HI2. apply andb_true_iff in HI2. destruct HI2 as [A1 B1].
        apply N.leb_le in A1. apply N.ltb_lt in B1.
        unfold batch_id_range in EBR. destruct (high' mod bsz =? 0) eqn:EM; inversion EBR; subst lowid highid; bid; lia.
      + set (cnt := N.to_nat (highid - lowid)).
        assert (highid = lowid + N.of_nat cnt) as Hc by (unfold cnt; lia).
        unfold KBatch. rewrite Hc. rewrite range_sparse by auto.
        rewrite (batches_scan_sparse cnt (p_kv d) n lowid _ _ HB).
        exists (bprefix (kv_get (p_kv d)) n lowid cnt). split; [reflexivity|].
        apply flat_prefix; auto. intros x HI. destruct (HFhi x HI); lia. }
  destruct HBS as (bs & -> & HFl).
  assert (Hres : iter_batches bs low high' maxsz low 0 [] = take_size maxsz 0 F).
  { rewrite (iter_batches_spec bs low high' maxsz low 0 []).
    - fold Tf. rewrite HFl. rewrite ts_take_size. destruct (ts maxsz 0 F) as [[r s0] b]. reflexivity.
    - fold Tf. rewrite HFl. exact FC.
    - reflexivity. }
  destruct bs as [|b0 bs'].
  - cbn [map concat] in HFl. rewrite <- HFl. reflexivity.
  - rewrite Hres. destruct (take_size maxsz 0 F). reflexivity.
Qed.

(* ---------- ReadRaftState in the batched format ---------- *)

Lemma first_in_range_none : forall R lo hi, first_in_range R lo hi = None ->
  forall x, In x R -> ~ (lo <= e_index x <= hi).
Proof.
  induction R as [|e R IH]; intros lo hi H x HI; [contradiction|]. cbn [first_in_range] in H.
  destruct ((lo <=? e_index e) && (e_index e <=? hi)) eqn:E; [discriminate|].
  destruct HI as [<-|HI]; [|eauto].
  intros [A B]. apply andb_false_iff in E. destruct E as [E|E]; [apply N.leb_gt in E | apply N.leb_gt in E]; lia.
Qed.

Lemma first_in_range_min : forall R pi pt lo hi x, good_from pi pt R -> In x R -> lo <= e_index x <= hi ->
  exists i, first_in_range R lo hi = Some i /\ lo <= i <= e_index x.
Proof.
  induction R as [|e R IH]; intros pi pt lo hi x H HI Hx; [contradiction|].
  destruct H as (A & B & C). cbn [first_in_range].
  destruct ((lo <=? e_index e) && (e_index e <=? hi)) eqn:E.
  - apply andb_true_iff in E. destruct E as [E1 E2]. apply N.leb_le in E1, E2.
    exists (e_index e). split; [reflexivity|]. destruct HI as [<-|HI]; [lia|].
    destruct (good_from_in _ _ _ _ C HI). lia.
  - destruct HI as [<-|HI].
    + exfalso. apply andb_false_iff in E. destruct E as [E|E]; apply N.leb_gt in E; lia.
    + eapply IH; eauto.
Qed.

Lemma first_in_range_some : forall R lo hi i, first_in_range R lo hi = Some i ->
  exists x, In x R /\ e_index x = i /\ lo <= i <= hi.
Proof.
  induction R as [|e R IH]; intros lo hi i H; [discriminate|]. cbn [first_in_range] in H.
  destruct ((lo <=? e_index e) && (e_index e <=? hi)) eqn:E.
  - inversion H; subst. apply andb_true_iff in E. destruct E as [E1 E2]. apply N.leb_le in E1, E2.
    exists e. split; [now left|]. auto.
  - destruct (IH _ _ _ H) as (x & A & B). exists x. split; [now right | auto].
Qed.

(* the scan finds the entry right after arg, or a stored entry at arg *)
Lemma batched_get_range_RB : forall d s n arg, RB d s ->
  n_marker (s n) <= arg -> arg < n_last (s n) ->
  exists first, batched_get_range (p_kv d) n arg (n_last (s n)) = Some (first, n_last (s n) - first + 1)
                /\ arg <= first <= arg + 1 /\ 0 < first.
Proof.
  intros d s n arg (HS & HW & H) H1 H2. destruct (H n) as [_ HB HC].
  set (last := n_last (s n)) in *. unfold batched_get_range.
  destruct (batch_id_range arg (last + 1)) as [lowid highid] eqn:EBR.
  assert (Hlow : lowid = batch_id arg).
  { unfold batch_id_range in EBR. destruct ((last + 1) mod bsz =? 0); now inversion EBR. }
  (* the entry right after arg *)
  destruct (contig_nth _ _ (arg + 1) HC) as (y & Y1 & Y2); [unfold last, n_last in *; lia|].
  destruct (bc_exists _ _ _ _ HB y Y1) as (rawy & Gy). rewrite Y2 in Gy.
  destruct (bc_all _ _ _ _ HB _ _ Gy) as (Ry1 & Ry2 & Ry3 & Ry4).
  assert (Yin : In y (restore_if_many rawy)).
  { assert (In y (bfilter (batch_id (arg + 1)) (n_ents (s n)))) as X by (apply bfilter_in; split; [auto | now rewrite Y2]).
    rewrite <- Ry4 in X. apply filter_In in X. tauto. }
  assert (Hhigh : batch_id (arg + 1) < highid).
  { unfold batch_id_range in EBR. destruct ((last + 1) mod bsz =? 0) eqn:EM.
    - apply N.eqb_eq in EM. inversion EBR. subst. apply aligned_spec; auto. lia.
    - inversion EBR. subst. pose proof (batch_id_mono (arg + 1) (last + 1) ltac:(lia)). lia. }
  remember (N.to_nat (highid - lowid)) as cnt eqn:Ecnt.
  assert (Hc : highid = lowid + N.of_nat cnt).
  { pose proof (batch_id_mono arg (arg + 1) ltac:(lia)). lia. }
  clear Ecnt.
  unfold KBatch. rewrite Hc, range_sparse by auto.
  (* the scan result *)
  assert (HSCAN : exists first, range_scan (sparse (p_kv d) c09_tag_entry_batch (fst n) (snd n) lowid cnt) arg last = Some first
                  /\ arg <= first <= arg + 1 /\ 0 < first).
  { (* the batch of arg + 1 answers arg + 1 unless an entry at arg is stored before it *)
    assert (HY : forall i, first_in_range (restore_if_many rawy) arg last = Some i -> arg <= i <= arg + 1).
    { intros i X. destruct (first_in_range_min _ _ _ arg last y Ry2 Yin ltac:(lia)) as (i' & X' & Hi').
      rewrite X in X'. inversion X'. subst. lia. }
    assert (HY2 : exists i, first_in_range (restore_if_many rawy) arg last = Some i).
    { destruct (first_in_range_min _ _ _ arg last y Ry2 Yin ltac:(lia)) as (i' & X' & _). eauto. }
    destruct (restore_head rawy Ry1) as (ey & ry & ry' & -> & RRy).
    assert (Hpos : forall i, arg <= i -> i <= arg + 1 -> (arg = 0 -> i <> 0) -> 0 < i) by (intros; lia).
    destruct (N.eq_dec (batch_id (arg + 1)) lowid) as [Eq|Ne].
    - (* arg + 1 lives in the first scanned batch *)
      destruct cnt as [|c]; [lia|]. cbn [sparse].
      change (mkKey c09_tag_entry_batch (fst n) (snd n) lowid) with (KBatch n lowid).
      rewrite <- Eq, Gy. cbn [app range_scan]. destruct HY2 as (i & Hi). rewrite Hi.
      exists i. split; [reflexivity|]. pose proof (HY i Hi). split; [lia|].
      destruct (first_in_range_some _ _ _ _ Hi) as (x & X1 & X2 & X3).
      destruct (good_from_in _ _ _ _ Ry2 X1). lia.
    - (* arg + 1 starts the next batch *)
      assert (batch_id (arg + 1) = lowid + 1) as Eq1.
      { pose proof (batch_id_mono arg (arg + 1) ltac:(lia)). rewrite Hlow in *. bid. lia. }
      destruct cnt as [|[|c]]; [lia | lia |]. cbn [sparse].
      change (mkKey c09_tag_entry_batch (fst n) (snd n) lowid) with (KBatch n lowid).
      change (mkKey c09_tag_entry_batch (fst n) (snd n) (lowid + 1)) with (KBatch n (lowid + 1)).
      rewrite <- Eq1, Gy.
      assert (HNext : forall tl, range_scan ([(KBatch n (batch_id (arg + 1)), VBatch (ey :: ry))] ++ tl) arg last = Some (arg + 1)).
      { intros tl. cbn [app range_scan]. destruct HY2 as (i & Hi). rewrite Hi. f_equal.
        pose proof (HY i Hi). destruct (first_in_range_some _ _ _ _ Hi) as (x & X1 & X2 & X3).
        destruct (Ry3 x X1) as (A1 & _). rewrite Eq1 in A1. rewrite Hlow in *. bid. lia. }
      destruct (kv_get (p_kv d) (KBatch n lowid)) as [v0|] eqn:G0.
      + destruct (bc_typed _ _ _ _ HB _ _ G0) as (raw0 & ->).
        destruct (bc_all _ _ _ _ HB _ _ G0) as (R01 & R02 & R03 & R04).
        destruct (restore_head raw0 R01) as (e0 & r0 & r0' & -> & RR0).
        cbn [app range_scan].
        destruct (first_in_range (restore_if_many (e0 :: r0)) arg last) as [i|] eqn:F0.
        * exists i. split; [reflexivity|].
          destruct (first_in_range_some _ _ _ _ F0) as (x & X1 & X2 & X3).
          destruct (R03 x X1) as (A1 & _). destruct (good_from_in _ _ _ _ R02 X1).
          rewrite Hlow in *. split; [|lia]. bid. lia.
        * exists (arg + 1). split; [apply HNext | lia].
      + cbn [app]. exists (arg + 1). split; [apply HNext | lia]. }
  destruct HSCAN as (first & -> & Hf & Hp). exists first.
  assert (first =? 0 = false) as -> by (apply N.eqb_neq; lia). cbn [andb].
  assert (0 <? first = true) as -> by (apply N.ltb_lt; lia). auto.
Qed.

Lemma read_state_refines_b : forall d s n arg, RB d s ->
  spec_wf_query s (QState n arg) = true ->
  canon (QState n arg) (b_read_raft_state d n arg) = spec_answer s (QState n arg).
Proof.
  intros d s n arg HRB Hwf. pose proof (RB_R _ _ HRB) as HR.
  cbn [spec_wf_query] in Hwf. apply andb_true_iff in Hwf.
  destruct Hwf as [W1 W2]. apply N.leb_le in W1, W2.
  cbn [spec_answer]. unfold b_read_raft_state, p_read_raft_state_with.
  rewrite (get_state_R d (sstrip s) n HR). change (n_st (sstrip s n)) with (n_st (s n)).
  destruct (get_max_index_R d (sstrip s) n HR) as [HM|[HM HL]]; rewrite HM;
    unfold sstrip in *; rewrite n_last_strip in *.
  - destruct (arg =? n_last (s n)) eqn:E.
    + apply N.eqb_eq in E. destruct (n_st (s n)); cbn [canon]; auto.
      assert (arg <? n_last (s n) = false) as -> by (apply N.ltb_ge; lia). reflexivity.
    + apply N.eqb_neq in E.
      destruct (batched_get_range_RB d s n arg HRB W1 ltac:(lia)) as (first & -> & Hf & Hp).
      destruct (n_st (s n)); cbn [canon]; auto.
      assert (arg <? n_last (s n) = true) as -> by (apply N.ltb_lt; lia).
      assert (0 <? n_last (s n) - first + 1 = true) as -> by (apply N.ltb_lt; lia).
      cbn [andb]. destruct (first <? arg + 1) eqn:X.
      * apply N.ltb_lt in X. assert (first = arg) by lia. subst first.
        replace (arg + 1 - arg) with 1 by lia.
        assert (n_last (s n) - arg + 1 <=? 1 = false) as -> by (apply N.leb_gt; lia).
        f_equal. lia.
      * apply N.ltb_ge in X. assert (first = arg + 1) by lia. subst first.
        assert (n_last (s n) - (arg + 1) + 1 =? 0 = false) as -> by (apply N.eqb_neq; lia).
        f_equal. lia.
  - destruct (n_st (s n)); cbn [canon]; auto.
    assert (arg <? n_last (s n) = false) as -> by (apply N.ltb_ge; lia). reflexivity.
Qed.

(* ---------- the refinement theorem for the batched format ---------- *)

Lemma batched_query_RB : forall d s q, RB d s ->
  RB (snd (batched_query d q)) s /\
  (spec_wf_query s q = true -> batched_observe d q = spec_answer s q).
Proof.
  intros d s q HR. unfold batched_observe. destruct q; cbn [batched_query fst snd].
  - split; auto. intros. now apply iterate_refines_b.
  - split; auto. intros. now apply read_state_refines_b.
  - destruct (get_snapshot_RB d s n HR). split; auto.
Qed.

Lemma batched_run_RB : forall l d s, RB d s -> wf_ops s (muts l) = true ->
  exists d', fold_left batched_pstep l (Some d) = Some d' /\ RB d' (spec_run s (muts l)).
Proof.
  induction l as [|p l IH]; intros d s HR Hwf.
  - exists d. split; auto.
  - destruct p as [o|q].
    + cbn [muts flat_map app] in *. fold (muts l) in *. cbn [wf_ops] in Hwf.
      apply andb_true_iff in Hwf. destruct Hwf as [W1 W2].
      destruct (batched_step_RB d s o HR W1) as (d1 & E1 & R1).
      cbn [fold_left batched_pstep]. rewrite E1. unfold spec_run. cbn [fold_left]. now apply IH.
    + cbn [muts flat_map app] in *. fold (muts l) in *. cbn [fold_left batched_pstep].
      apply IH; auto. now apply batched_query_RB.
Qed.

Theorem batched_refines_proved : forall l q,
  wf_ops spec_init (muts l) = true ->
  spec_wf_query (spec_run spec_init (muts l)) q = true ->
  exists d, batched_prun l = Some d /\
            batched_observe d q = spec_answer (spec_run spec_init (muts l)) q.
Proof.
  intros l q Hwf Hq. destruct (batched_run_RB l pdb_init spec_init RB_init Hwf) as (d & E & HR).
  exists d. split; auto. now apply (batched_query_RB d _ q HR).
Qed.

Theorem batched_no_panic_proved : forall l, wf_ops spec_init (muts l) = true -> batched_prun l <> None.
Proof.
  intros l Hwf. destruct (batched_run_RB l pdb_init spec_init RB_init Hwf) as (d & E & _).
  unfold batched_prun. rewrite E. discriminate.
Qed.
