(* C15: streams of different snapshots do not interfere; stalled streams are collected. *)
From Coq Require Import List NArith Bool Lia.
From DB Require Import Base.Bytes Model.Chunks Proofs.Chunks.
Import ListNotations.
Open Scope N_scope.

Definition tkey_key (tk : tkey) : key := let '(a, b, c, _) := tk in (a, b, c).
Lemma tkey_key_of : forall m, tkey_key (tkey_of m) = key_of m.
Proof. reflexivity. Qed.

Section Frame.
  Variable D : Type.
  Variable dapp : D -> D -> D.
  Variable V : Type.
  Variable vinit : V.
  Variable vadd : V -> D -> N -> vres V.
  Variable vfinal : V -> bool.
  Variables fix_mid fix_first : bool.
  Variables my_did gc_tick timeout max_slots : N.
  Notation state := (state D V).
  Notation chunk := (chunk D).
  Notation addM := (add D dapp V vinit vadd vfinal fix_mid fix_first my_did max_slots).
  Notation stepM := (step D dapp V vinit vadd vfinal fix_mid fix_first my_did gc_tick timeout max_slots).
  Notation runM := (run D dapp V vinit vadd vfinal fix_mid fix_first my_did gc_tick timeout max_slots).

  (* what the receiver holds for snapshot k' *)
  Definition same_at (k' : key) (st st' : state) : Prop :=
    alookup key_eqb k' (s_tracked st') = alookup key_eqb k' (s_tracked st) /\
    (forall tk, tkey_key tk = k' -> alookup tkey_eqb tk (s_temps st') = alookup tkey_eqb tk (s_temps st)) /\
    alookup key_eqb k' (s_finals st') = alookup key_eqb k' (s_finals st).

  Lemma same_at_refl : forall k st, same_at k st st.
  Proof. intros. repeat split; auto. Qed.
  Lemma same_at_trans : forall k s1 s2 s3, same_at k s1 s2 -> same_at k s2 s3 -> same_at k s1 s3.
  Proof.
    intros k s1 s2 s3 [A1 [A2 A3]] [B1 [B2 B3]]. repeat split; try congruence.
    intros tk H. rewrite B2, A2; auto.
  Qed.

  Lemma same_at_remove_temp : forall k' tk (st : state), tkey_key tk <> k' -> same_at k' st (remove_temp tk st).
  Proof.
    intros k' tk st H. repeat split; auto. intros tk' H'. simpl.
    apply alookup_adel_other; [exact tkey_eqb_eq|]. congruence.
  Qed.
  Lemma same_at_untrack : forall k' k (st : state), k <> k' -> same_at k' st (untrack k st).
  Proof.
    intros k' k st H. repeat split; auto. simpl.
    apply alookup_adel_other; [exact key_eqb_eq|]. congruence.
  Qed.
  Lemma same_at_track : forall k' k td (st : state), k <> k' -> same_at k' st (track k td st).
  Proof.
    intros k' k td st H. repeat split; auto. simpl.
    apply alookup_aset_other; [exact key_eqb_eq|]. congruence.
  Qed.
  Lemma same_at_temps : forall k' tk x (st : state),
      tkey_key tk <> k' -> same_at k' st (set_temps st (aset tkey_eqb tk x (s_temps st))).
  Proof.
    intros k' tk x st H. repeat split; auto. intros tk' H'. simpl.
    apply alookup_aset_other; [exact tkey_eqb_eq|]. congruence.
  Qed.

  (* every tracked stream is filed under the key of its first chunk *)
  Definition tracked_wf (st : state) : Prop :=
    forall k td, alookup key_eqb k (s_tracked st) = Some td -> key_of (t_first td) = k.

  Lemma wf_untrack : forall k (st : state), tracked_wf st -> tracked_wf (untrack k st).
  Proof.
    intros k st H k' td L. simpl in L. destruct (key_eqb k' k) eqn:E.
    - apply key_eqb_eq in E. subst. rewrite alookup_adel_same in L by exact key_eqb_eq. discriminate.
    - apply key_eqb_neq in E. rewrite alookup_adel_other in L by (exact key_eqb_eq || auto). auto.
  Qed.
  Lemma wf_track : forall k td (st : state), tracked_wf st -> key_of (t_first td) = k -> tracked_wf (track k td st).
  Proof.
    intros k td st H Hk k' td' L. simpl in L. destruct (key_eqb k' k) eqn:E.
    - apply key_eqb_eq in E. subst k'. rewrite alookup_aset_same in L by exact key_eqb_eq. congruence.
    - apply key_eqb_neq in E. rewrite alookup_aset_other in L by (exact key_eqb_eq || auto). auto.
  Qed.
  Lemma wf_same_tracked : forall (st st' : state), s_tracked st' = s_tracked st -> tracked_wf st -> tracked_wf st'.
  Proof. intros st st' E H k td L. rewrite E in L. auto. Qed.

  Ltac inner_destruct :=
    repeat match goal with
           | |- context [match ?x with _ => _ end] =>
             lazymatch x with
             | context [match _ with _ => _ end] => fail
             | _ => destruct x eqn:?
             end
           end.

  (* record *)
  Lemma record_frame : forall (st : state) (c : chunk) k',
      tracked_wf st -> k' <> key_of (fst c) ->
      match record D V vinit vadd fix_first max_slots st c with
      | RIgnore st1 => same_at k' st st1 /\ tracked_wf st1
      | RTracked st1 td => same_at k' st st1 /\ tracked_wf st1 /\ key_of (t_first td) = key_of (fst c)
      | RPanic => True
      end.
  Proof.
    intros st [m d] k' WF Hk. simpl in Hk. unfold record.
    destruct (alookup key_eqb (key_of m) (s_tracked st)) as [td0|] eqn:L.
    - pose proof (WF _ _ L) as Hk0.
      assert (Hd : tkey_key (tkey_of (t_first td0)) <> k') by (rewrite tkey_key_of; congruence).
      assert (Hneq : key_of m <> k') by congruence.
      inner_destruct; auto; repeat split;
        try (apply same_at_refl);
        try (eapply same_at_trans; [apply same_at_remove_temp; eassumption|apply same_at_track; assumption]);
        try (apply same_at_track; assumption);
        try (apply same_at_remove_temp; assumption);
        try (apply wf_track; [try (apply wf_same_tracked with (st := st); [reflexivity|]); assumption|reflexivity]);
        try (apply wf_track; [assumption|simpl; assumption]);
        try (apply wf_same_tracked with (st := st); [reflexivity|assumption]);
        try assumption; try reflexivity; try (simpl; assumption).
    - assert (Hneq : key_of m <> k') by congruence.
      inner_destruct; auto; repeat split;
        try (apply same_at_refl);
        try (apply same_at_track; assumption);
        try (apply wf_track; [assumption|reflexivity]);
        try assumption; try reflexivity.
  Qed.

  Lemma save_frame : forall (st : state) (c : chunk) st' k',
      k' <> key_of (fst c) -> save D dapp V st c = Some st' ->
      same_at k' st st' /\ s_tracked st' = s_tracked st.
  Proof.
    intros st [m d] st' k' Hk H. simpl in Hk. unfold save in H.
    assert (Hd : tkey_key (tkey_of m) <> k') by (rewrite tkey_key_of; congruence).
    repeat match type of H with context [match ?x with _ => _ end] => destruct x eqn:? end;
      try discriminate; inversion H; subst; split; try reflexivity;
        try (apply same_at_temps; assumption);
        try (eapply same_at_trans; [apply same_at_temps; eassumption|]; apply (same_at_temps k' (tkey_of m) _ (set_temps st _)); assumption).
  Qed.

  Lemma finish_frame : forall (st : state) m td st' b k',
      k' <> key_of m -> tracked_wf st -> finish D V vfinal st m td = Done st' b ->
      same_at k' st st' /\ tracked_wf st'.
  Proof.
    intros st m td st' b k' Hk WF H. unfold finish in H.
    assert (Hd : tkey_key (tkey_of m) <> k') by (rewrite tkey_key_of; congruence).
    assert (Hn : key_of m <> k') by congruence.
    assert (U : same_at k' st (untrack (key_of m) st)) by (apply same_at_untrack; assumption).
    assert (WU : tracked_wf (untrack (key_of m) st)) by (apply wf_untrack; assumption).
    destruct (negb (vfinal (t_v td))).
    - injection H as H1 H2; subst. split.
      + eapply same_at_trans; [exact U|]. apply same_at_remove_temp. assumption.
      + exact WU.
    - destruct (alookup tkey_eqb (tkey_of m) (s_temps (untrack (key_of m) st))); [|discriminate].
      destruct (alookup key_eqb (key_of m) (s_finals (untrack (key_of m) st))).
      + injection H as H1 H2; subst. split.
        * eapply same_at_trans; [exact U|]. apply same_at_remove_temp. assumption.
        * exact WU.
      + injection H as H1 H2; subst. split; [|exact WU].
        eapply same_at_trans; [exact U|]. repeat split; simpl.
        * intros tk Htk. apply alookup_adel_other; [exact tkey_eqb_eq|]. congruence.
        * apply alookup_aset_other; [exact key_eqb_eq|]. congruence.
  Qed.

  Lemma add_frame : forall (st : state) (c : chunk) st' b k',
      tracked_wf st -> addM st c = Done st' b ->
      tracked_wf st' /\ (k' <> key_of (fst c) -> same_at k' st st').
  Proof.
    intros st [m d] st' b k' WF H. unfold add in H. simpl fst in *.
    destruct (_ || _); [injection H as H1 H2; subst; split; auto; intro; apply same_at_refl|].
    unfold add_locked in H.
    (* well-formedness does not depend on k': use the key itself shifted *)
    assert (G : forall k'', k'' <> key_of m -> tracked_wf st' /\ same_at k'' st st').
    { intros k'' Hk.
      pose proof (record_frame st (m, d) k'' WF Hk) as HR.
      destruct (record D V vinit vadd fix_first max_slots st (m, d)) as [s1|s1 td|]; try discriminate.
      - injection H as H1 H2; subst. destruct HR; auto.
      - destruct HR as [S1 [W1 K1]]. simpl in K1.
        assert (Hd : tkey_key (tkey_of m) <> k'') by (rewrite tkey_key_of; congruence).
        assert (Hn : key_of m <> k'') by congruence.
        destruct (is_removed s1 (node_of m)).
        + injection H as H1 H2; subst. split.
          * apply wf_same_tracked with (st := s1); [reflexivity|assumption].
          * eapply same_at_trans; [exact S1|]. apply same_at_remove_temp. assumption.
        + destruct (if negb (c_hasfi m) && negb (c_id m =? 0) then vadd (t_v td) d (c_id m) else VOk (t_v td))
            as [v1|v1|]; try discriminate.
          * assert (W2 : tracked_wf (track (key_of m) (set_v td v1) s1)) by (apply wf_track; auto).
            assert (S2 : same_at k'' st (track (key_of m) (set_v td v1) s1))
              by (eapply same_at_trans; [exact S1|apply same_at_track; assumption]).
            destruct (save D dapp V (track (key_of m) (set_v td v1) s1) (m, d)) as [s3|] eqn:Hs; [|discriminate].
            apply (save_frame _ _ _ k'') in Hs; [|simpl; assumption]. destruct Hs as [S3 T3].
            assert (W3 : tracked_wf s3) by (apply wf_same_tracked with (st := track (key_of m) (set_v td v1) s1); auto).
            destruct (is_last m).
            -- apply (finish_frame _ _ _ _ _ k'') in H; auto. destruct H as [S4 W4]. split; auto.
               eapply same_at_trans; [exact S2|]. eapply same_at_trans; [exact S3|exact S4].
            -- injection H as H1 H2; subst. split; auto.
               eapply same_at_trans; [exact S2|exact S3].
          * destruct fix_mid; injection H as H1 H2; subst.
            -- split.
               ++ apply wf_untrack. apply wf_same_tracked with (st := s1); [reflexivity|assumption].
               ++ eapply same_at_trans; [exact S1|]. eapply same_at_trans; [apply same_at_remove_temp; eassumption|].
                  apply same_at_untrack. assumption.
            -- split; [apply wf_track; auto|].
               eapply same_at_trans; [exact S1|]. apply same_at_track. assumption. }
    split.
    - (* some key different from key_of m exists *)
      destruct (key_of m) as [[a b0] c0] eqn:E.
      destruct (G (a + 1, b0, c0)) as [W _]; auto.
      intro X. inversion X. lia.
    - intro Hk. apply G. exact Hk.
  Qed.

  (* ----- gc / tick / close keep well-formedness ----- *)
  Lemma wf_gc_list : forall l (st : state), tracked_wf st -> tracked_wf (gc_list D V timeout l st).
  Proof.
    induction l as [|[k td] l IH]; intros st WF; simpl; auto.
    apply IH. destruct (timeout <=? s_tick st - t_tick td); auto.
    apply wf_untrack. apply wf_same_tracked with (st := st); [reflexivity|assumption].
  Qed.
  Lemma wf_close_list : forall l (st : state), tracked_wf st -> tracked_wf (close_list D V l st).
  Proof.
    induction l as [|[k td] l IH]; intros st WF; simpl; auto.
    apply IH. apply wf_untrack. apply wf_same_tracked with (st := st); [reflexivity|assumption].
  Qed.

  Lemma step_wf : forall (st : state) o st' b, tracked_wf st -> stepM st o = Done st' b -> tracked_wf st'.
  Proof.
    intros st o st' b WF H. destruct o as [c| |s r|]; simpl in H.
    - eapply (add_frame st c st' b (0, 0, 0)) in H; auto. destruct H; auto.
    - injection H as H1 H2; subst. unfold tick.
      destruct (_ =? 0); [unfold gc; apply wf_gc_list|]; apply wf_same_tracked with (st := st); auto.
    - injection H as H1 H2; subst. apply wf_same_tracked with (st := st); auto.
    - injection H as H1 H2; subst. unfold close. apply wf_close_list. assumption.
  Qed.

  Lemma run_wf : forall ops (st st' : state), tracked_wf st -> runM st ops = Some st' -> tracked_wf st'.
  Proof.
    induction ops as [|o ops IH]; intros st st' WF H; simpl in H.
    - injection H as H; subst; auto.
    - destruct (stepM st o) as [s1 b|] eqn:Hs; [|discriminate].
      eapply IH; [|exact H]. eapply step_wf; eauto.
  Qed.

  Lemma init_wf : tracked_wf (@init D V).
  Proof. intros k td L. discriminate. Qed.

  (* streams_independent: in any reachable state, offering a chunk of snapshot k leaves
     everything the receiver holds for any other snapshot k' as it was *)
  Lemma streams_independent_proved :
    forall ops (st st' : state) (c : chunk) b k',
      runM init ops = Some st ->
      addM st c = Done st' b ->
      k' <> key_of (fst c) ->
      same_at k' st st'.
  Proof.
    intros ops st st' c b k' Hr Ha Hk.
    pose proof (run_wf _ _ _ init_wf Hr) as WF.
    destruct (add_frame st c st' b k' WF Ha) as [_ G]. auto.
  Qed.

  (* ----- the timeout collector ----- *)
  Lemma alookup_adel_none : forall (K A : Type) (eqb : K -> K -> bool) k k0 (l : list (K * A)),
      alookup eqb k l = None -> alookup eqb k (adel eqb k0 l) = None.
  Proof.
    induction l as [|[k1 a1] l IH]; simpl; intro H; auto.
    destruct (eqb k k1) eqn:E; [discriminate|].
    destruct (eqb k0 k1); simpl; auto. rewrite E. auto.
  Qed.

  Lemma gc_list_tick : forall l (st : state), s_tick (gc_list D V timeout l st) = s_tick st.
  Proof.
    induction l as [|[k td] l IH]; intro st; simpl; auto.
    rewrite IH. destruct (timeout <=? s_tick st - t_tick td); reflexivity.
  Qed.

  Lemma gc_list_none : forall l (st : state) k tk,
      alookup key_eqb k (s_tracked st) = None -> alookup tkey_eqb tk (s_temps st) = None ->
      alookup key_eqb k (s_tracked (gc_list D V timeout l st)) = None /\
      alookup tkey_eqb tk (s_temps (gc_list D V timeout l st)) = None.
  Proof.
    induction l as [|[k1 td1] l IH]; intros st k tk H1 H2; simpl; auto.
    apply IH; destruct (timeout <=? s_tick st - t_tick td1); simpl; auto;
      apply alookup_adel_none; assumption.
  Qed.

  Lemma gc_list_collects : forall l (st : state) k td,
      In (k, td) l -> timeout <= s_tick st - t_tick td ->
      alookup key_eqb k (s_tracked (gc_list D V timeout l st)) = None /\
      alookup tkey_eqb (tkey_of (t_first td)) (s_temps (gc_list D V timeout l st)) = None.
  Proof.
    induction l as [|[k1 td1] l IH]; intros st k td Hin Hto; [destruct Hin|].
    simpl. destruct Hin as [Heq|Hin].
    - injection Heq as E1 E2; subst k1 td1.
      apply N.leb_le in Hto. rewrite Hto.
      apply gc_list_none; simpl.
      + apply alookup_adel_same; exact key_eqb_eq.
      + apply alookup_adel_same; exact tkey_eqb_eq.
    - apply IH; [exact Hin|].
      destruct (timeout <=? s_tick st - t_tick td1); simpl; exact Hto.
  Qed.

  (* stalled_stream_collected: at a gc tick every stream that received no chunk for
     [timeout] ticks is untracked and its temp dir is removed *)
  Lemma stalled_collected_proved :
    forall (st : state) k td,
      alookup key_eqb k (s_tracked st) = Some td ->
      (s_tick st + 1) mod gc_tick = 0 ->
      timeout <= s_tick st + 1 - t_tick td ->
      let st' := tick D V gc_tick timeout st in
      alookup key_eqb k (s_tracked st') = None /\
      alookup tkey_eqb (tkey_of (t_first td)) (s_temps st') = None.
  Proof.
    intros st k td L Hg Ht. unfold tick. apply N.eqb_eq in Hg. rewrite Hg.
    unfold gc. apply gc_list_collects.
    - simpl. eapply alookup_In; [exact key_eqb_eq|exact L].
    - simpl. exact Ht.
  Qed.

  (* and a stream is only ever collected by the timeout: a tick that is not a gc tick, or a
     stream younger than the timeout, keeps the stream *)
  Lemma gc_list_keeps : forall l (st : state) k td,
      alookup key_eqb k (s_tracked st) = Some td ->
      (forall td1, In (k, td1) l -> s_tick st - t_tick td1 < timeout) ->
      alookup key_eqb k (s_tracked (gc_list D V timeout l st)) = Some td.
  Proof.
    induction l as [|[k1 td1] l IH]; intros st k td L Hy; simpl; auto.
    apply IH.
    - destruct (timeout <=? s_tick st - t_tick td1) eqn:E; auto. simpl.
      destruct (key_eqb k k1) eqn:Ek.
      + apply key_eqb_eq in Ek. subst k1. apply N.leb_le in E.
        specialize (Hy td1 (or_introl eq_refl)). lia.
      + apply key_eqb_neq in Ek. rewrite alookup_adel_other by (exact key_eqb_eq || auto). exact L.
    - intros td2 Hin. 
      assert (T : s_tick (if timeout <=? s_tick st - t_tick td1
                          then untrack k1 (remove_temp (tkey_of (t_first td1)) st) else st) = s_tick st)
        by (destruct (timeout <=? s_tick st - t_tick td1); reflexivity).
      rewrite T. apply Hy. right. exact Hin.
  Qed.
End Frame.

Lemma streams_independent_gen :
  forall D dapp V vinit vadd vfinal my_did gc_tick timeout max_slots ops (st st' : state D V) (c : chunk D) b k',
    run D dapp V vinit vadd vfinal fixm fixf my_did gc_tick timeout max_slots init ops = Some st ->
    add D dapp V vinit vadd vfinal fixm fixf my_did max_slots st c = Done st' b ->
    k' <> key_of (fst c) ->
    same_at D V k' st st'.
Proof. intros until k'. apply streams_independent_proved. Qed.

Lemma stalled_stream_collected_gen :
  forall D V gc_tick timeout (st : state D V) k td,
    alookup key_eqb k (s_tracked st) = Some td ->
    (s_tick st + 1) mod gc_tick = 0 ->
    timeout <= s_tick st + 1 - t_tick td ->
    alookup key_eqb k (s_tracked (tick D V gc_tick timeout st)) = None /\
    alookup tkey_eqb (tkey_of (t_first td)) (s_temps (tick D V gc_tick timeout st)) = None.
Proof. intros until td. apply stalled_collected_proved. Qed.
