
type nat =
| O
| S of nat

val fst : ('a1 * 'a2) -> 'a1

val snd : ('a1 * 'a2) -> 'a2

val length : 'a1 list -> nat

val app : 'a1 list -> 'a1 list -> 'a1 list

type comparison =
| Eq
| Lt
| Gt

val compOpp : comparison -> comparison

val add : nat -> nat -> nat

module Nat :
 sig
  val leb : nat -> nat -> bool
 end

val hd : 'a1 -> 'a1 list -> 'a1

val tl : 'a1 list -> 'a1 list

val forallb : ('a1 -> bool) -> 'a1 list -> bool

val firstn : nat -> 'a1 list -> 'a1 list

val skipn : nat -> 'a1 list -> 'a1 list

type positive =
| XI of positive
| XO of positive
| XH

type n =
| N0
| Npos of positive

type z =
| Z0
| Zpos of positive
| Zneg of positive

module Pos :
 sig
  type mask =
  | IsNul
  | IsPos of positive
  | IsNeg
 end

module Coq_Pos :
 sig
  val succ : positive -> positive

  val add : positive -> positive -> positive

  val add_carry : positive -> positive -> positive

  val pred_double : positive -> positive

  type mask = Pos.mask =
  | IsNul
  | IsPos of positive
  | IsNeg

  val succ_double_mask : mask -> mask

  val double_mask : mask -> mask

  val double_pred_mask : positive -> mask

  val sub_mask : positive -> positive -> mask

  val sub_mask_carry : positive -> positive -> mask

  val mul : positive -> positive -> positive

  val iter : ('a1 -> 'a1) -> 'a1 -> positive -> 'a1

  val pow : positive -> positive -> positive

  val compare_cont : comparison -> positive -> positive -> comparison

  val compare : positive -> positive -> comparison

  val eqb : positive -> positive -> bool

  val iter_op : ('a1 -> 'a1 -> 'a1) -> positive -> 'a1 -> 'a1

  val to_nat : positive -> nat

  val of_succ_nat : nat -> positive
 end

module N :
 sig
  val succ_double : n -> n

  val double : n -> n

  val add : n -> n -> n

  val sub : n -> n -> n

  val mul : n -> n -> n

  val compare : n -> n -> comparison

  val eqb : n -> n -> bool

  val leb : n -> n -> bool

  val ltb : n -> n -> bool

  val pow : n -> n -> n

  val pos_div_eucl : positive -> n -> n * n

  val div_eucl : n -> n -> n * n

  val div : n -> n -> n

  val modulo : n -> n -> n

  val to_nat : n -> nat

  val of_nat : nat -> n
 end

module Z :
 sig
  val double : z -> z

  val succ_double : z -> z

  val pred_double : z -> z

  val pos_sub : positive -> positive -> z

  val add : z -> z -> z

  val opp : z -> z

  val sub : z -> z -> z

  val mul : z -> z -> z

  val pow_pos : z -> positive -> z

  val pow : z -> z -> z

  val compare : z -> z -> comparison

  val leb : z -> z -> bool

  val ltb : z -> z -> bool

  val eqb : z -> z -> bool

  val abs : z -> z

  val to_N : z -> n

  val of_N : n -> z
 end

type bytes = n list

val is_byte : n -> bool

val wf_bytesb : bytes -> bool

val u64b : n -> bool

val be : nat -> n -> bytes

val be_dec_acc : n -> bytes -> n

val be_dec : bytes -> n

val uvarint_fuel : nat -> n -> bytes

val uvarint : n -> bytes

val nlen : 'a1 list -> n

val util_add : n -> n -> n

val util_mul : n -> n -> n

val util_divmod : n -> n -> n * n

val colfer_fixed_threshold_marshal : n

val colfer_fixed_threshold_size : n

val colfer_size_max : n

val entry_non_cmd_fields_size : n

type entry = { e_term : n; e_index : n; e_type : z; e_key : n; e_client : 
               n; e_series : n; e_responded : n; e_cmd : bytes }

val int32b : z -> bool

val wf_entryb : entry -> bool

val field64 : n -> n -> bytes

val field_type : z -> bytes

val field_cmd : bytes -> bytes

val encode : entry -> bytes

val varint_extra : nat -> n -> n

val size64 : n -> n

val size_type : z -> n

val size_cmd : bytes -> n

val size : entry -> n

val size_upper_limit : entry -> n

type dec_result =
| DecOk of entry * n
| DecEOF
| DecBadHeader of n
| DecMax

val next1 : bytes -> (n * bytes) option

val dec64 : nat -> n -> n -> bytes -> (n * bytes) option

val dec32 : nat -> n -> n -> bytes -> (n * bytes) option

val declen : nat -> n -> n -> bytes -> (n * bytes) option

type pst = n * bytes

val hd0 : bytes -> n

val dec_field64 : n -> pst -> (n option * pst) option

val to_int32 : n -> z

val dec_field_type : pst -> (z option * pst) option

type cmd_result =
| CmdNone
| CmdEOF
| CmdMax
| CmdOk of bytes * pst

val dec_field_cmd : pst -> cmd_result

val opt_or : 'a1 option -> 'a1 -> 'a1

val decode_from : n -> pst -> dec_result

val decode : bytes -> dec_result
