(* L1: executable functional image of internal/raft/raft.go, remote.go, readindex.go
   and the raft-facing part of peer.go, over the *logical* log (what C19 proves the
   entryLog/inMemory/LogReader stack to be equal to).
   One Go function = one Gallina function of the same name where possible.
   Panics (plog.Panicf / panic) set the sticky [r_panic] flag.
   Map iteration order never matters: peers are kept sorted by replica id and
   outgoing messages are compared after sorting on both sides.
   Not modelled (stated in checks/*.json): in-memory rate limiter (disabled,
   MaxInMemLogSize = 0), event listener, log text, entry-size limits of
   log.entries (payloads in the simulator are tiny; log queries are made with an unlimited size).
   No proofs in this file. *)
From Coq Require Export List NArith Bool Lia.
From RecordUpdate Require Export RecordUpdate.
From DB Require Export Gen.GenRaft.
Export ListNotations.
Open Scope N_scope.

(* ------------------------------------------------------------------ *)
(* association lists sorted by key *)

Section AList.
  Context {V : Type}.
  Definition amap := list (N * V).
  Fixpoint alookup (k : N) (m : amap) : option V :=
    match m with
    | [] => None
    | (k', v) :: r => if k =? k' then Some v else alookup k r
    end.
  Definition amem (k : N) (m : amap) : bool :=
    match alookup k m with Some _ => true | None => false end.
  Fixpoint ainsert (k : N) (v : V) (m : amap) : amap :=
    match m with
    | [] => [(k, v)]
    | (k', v') :: r =>
      if k =? k' then (k, v) :: r
      else if k <? k' then (k, v) :: m
      else (k', v') :: ainsert k v r
    end.
  Fixpoint aremove (k : N) (m : amap) : amap :=
    match m with
    | [] => []
    | (k', v') :: r => if k =? k' then r else (k', v') :: aremove k r
    end.
  Definition akeys (m : amap) : list N := map fst m.
  Definition amap_vals (f : N -> V -> V) (m : amap) : amap :=
    map (fun kv => (fst kv, f (fst kv) (snd kv))) m.
End AList.
Arguments amap : clear implicits.

(* ------------------------------------------------------------------ *)
(* data *)

Record entry := mkEnt {
  e_term : N; e_index : N; e_type : N; e_key : N;
  e_client : N; e_series : N; e_resp : N; e_cmd : list N }.
#[export] Instance eta_entry : Settable _ :=
  settable! mkEnt <e_term; e_index; e_type; e_key; e_client; e_series; e_resp; e_cmd>.

Record snapshot := mkSnap {
  ss_index : N; ss_term : N;
  ss_addrs : list N; ss_nonvotings : list N; ss_witnesses : list N;   (* membership ids, sorted *)
  ss_witness : bool; ss_dummy : bool; ss_has_file : bool;
  ss_ccid : N (* Membership.ConfigChangeId: carried, never read by the raft core *) }.
#[export] Instance eta_snap : Settable _ :=
  settable! mkSnap <ss_index; ss_term; ss_addrs; ss_nonvotings; ss_witnesses; ss_witness; ss_dummy; ss_has_file; ss_ccid>.
Definition empty_snapshot := mkSnap 0 0 [] [] [] false false false 0.
Definition is_empty_snapshot (s : snapshot) : bool := ss_index s =? 0.

Record msg := mkMsg {
  m_type : N; m_to : N; m_from : N; m_term : N; m_logterm : N; m_logindex : N;
  m_commit : N; m_reject : bool; m_hint : N; m_hinthigh : N;
  m_entries : list entry; m_snapshot : snapshot }.
#[export] Instance eta_msg : Settable _ :=
  settable! mkMsg <m_type; m_to; m_from; m_term; m_logterm; m_logindex; m_commit; m_reject;
                   m_hint; m_hinthigh; m_entries; m_snapshot>.
Definition msg0 (t : N) := mkMsg t 0 0 0 0 0 0 false 0 0 [] empty_snapshot.

Inductive rstate := RRetry | RWait | RReplicate | RSnapshot.
Definition rstate_eqb (a b : rstate) : bool :=
  match a, b with
  | RRetry, RRetry | RWait, RWait | RReplicate, RReplicate | RSnapshot, RSnapshot => true
  | _, _ => false end.

Record remote := mkRemote {
  rm_match : N; rm_next : N; rm_snapidx : N; rm_state : rstate; rm_active : bool;
  rm_ack_tick : N; rm_ack_rej : bool }.
#[export] Instance eta_remote : Settable _ :=
  settable! mkRemote <rm_match; rm_next; rm_snapidx; rm_state; rm_active; rm_ack_tick; rm_ack_rej>.
Definition new_remote (mt nx : N) := mkRemote mt nx 0 RRetry false 0 false.

Record read_status := mkRS {
  rs_ctx : N * N; (* low, high *) rs_index : N; rs_from : N; rs_confirmed : list N }.
#[export] Instance eta_rs : Settable _ := settable! mkRS <rs_ctx; rs_index; rs_from; rs_confirmed>.

(* the logical log *)
Record rlog := mkLog {
  l_marker : N;            (* firstIndex - 1 *)
  l_marker_term : N;
  l_ents : list entry;     (* contiguous, first has index marker+1 *)
  l_committed : N;
  l_processed : N;
  l_saved_to : N;          (* inMemory.savedTo *)
  l_pending_snap : option snapshot;   (* inMemory.snapshot *)
  l_snapshot : snapshot }.            (* LogReader.Snapshot() *)
#[export] Instance eta_rlog : Settable _ :=
  settable! mkLog <l_marker; l_marker_term; l_ents; l_committed; l_processed; l_saved_to; l_pending_snap; l_snapshot>.

Inductive role := Follower | Candidate | PreVoteCandidate | Leader | NonVoting | Witness.
Definition role_eqb (a b : role) : bool :=
  match a, b with
  | Follower, Follower | Candidate, Candidate | PreVoteCandidate, PreVoteCandidate
  | Leader, Leader | NonVoting, NonVoting | Witness, Witness => true
  | _, _ => false end.
Definition role_num (r : role) : N :=
  match r with Follower => st_follower | Candidate => st_candidate
  | PreVoteCandidate => st_preVoteCandidate | Leader => st_leader
  | NonVoting => st_nonVoting | Witness => st_witness end.

Record raft := mkRaft {
  r_id : N;
  r_role : role;
  r_term : N;
  r_vote : N;
  r_leader : N;
  r_applied : N;
  r_log : rlog;
  r_remotes : amap remote;
  r_nonvotings : amap remote;
  r_witnesses : amap remote;
  r_votes : amap bool;
  r_reads : list read_status;        (* readIndex.queue with the pending records, oldest first *)
  r_msgs : list msg;                 (* in emission order *)
  r_dropped_entries : list entry;
  r_dropped_reads : list (N * N);
  r_ready : list (N * (N * N));      (* readyToRead: index, ctx *)
  r_transfer_target : N;
  r_is_transfer_target : bool;
  r_pending_cc : bool;
  r_election_tick : N;
  r_heartbeat_tick : N;
  r_election_timeout : N;
  r_heartbeat_timeout : N;
  r_rand_timeout : N;
  r_check_quorum : bool;
  r_prevote : bool;
  r_quiesce : bool;
  r_snapshotting : bool;
  r_tick_count : N;
  r_leader_update : option (N * N);  (* leaderID, term *)
  r_prev_state : N * N * N;          (* Peer.prevState: term, vote, commit *)
  r_oracle : N;                      (* value the implementation drew for the randomized timeout *)
  r_log_query : option (N * N * bool * list entry); (* logQueryResult: first, last, ErrCompacted, entries *)
  r_panic : bool }.
#[export] Instance eta_raft : Settable _ :=
  settable! mkRaft <r_id; r_role; r_term; r_vote; r_leader; r_applied; r_log; r_remotes; r_nonvotings;
    r_witnesses; r_votes; r_reads; r_msgs; r_dropped_entries; r_dropped_reads; r_ready;
    r_transfer_target; r_is_transfer_target; r_pending_cc; r_election_tick; r_heartbeat_tick;
    r_election_timeout; r_heartbeat_timeout; r_rand_timeout; r_check_quorum; r_prevote; r_quiesce;
    r_snapshotting; r_tick_count; r_leader_update; r_prev_state; r_oracle; r_log_query; r_panic>.

Definition panic (r : raft) : raft := r <| r_panic := true |>.

(* ------------------------------------------------------------------ *)
(* log (logentry.go on the logical log) *)

Definition nlen {A} (l : list A) : N := N.of_nat (length l).

Definition log_last (l : rlog) : N := l_marker l + nlen (l_ents l).
Definition log_first (l : rlog) : N := l_marker l + 1.

Definition ent_at (l : rlog) (i : N) : option entry :=
  if (i <=? l_marker l) then None else nth_error (l_ents l) (N.to_nat (i - l_marker l - 1)).

(* entryLog.term: 0 outside [first-1, last] *)
Definition log_term (l : rlog) (i : N) : N :=
  if (i <? l_marker l) || (log_last l <? i) then 0
  else if i =? l_marker l then l_marker_term l
  else match ent_at l i with Some e => e_term e | None => 0 end.

Definition log_last_term (l : rlog) : N := log_term l (log_last l).
Definition match_term (l : rlog) (i t : N) : bool := log_term l i =? t.

Definition up_to_date (l : rlog) (index term : N) : bool :=
  let lt := log_last_term l in
  if lt <=? term then (if lt <? term then true else log_last l <=? index) else false.

(* entries from [start] to the end; None = ErrCompacted *)
Definition log_entries_from (l : rlog) (start : N) : option (list entry) :=
  if log_last l <? start then Some []
  else if (match l_pending_snap l with Some _ => true | None => false end) &&
          (match l_ents l with [] => true | _ => false end) then None
  else if start <? log_first l then None
  else Some (skipn (N.to_nat (start - log_first l)) (l_ents l)).

Definition log_entries_range (l : rlog) (lo hi : N) : list entry :=  (* [lo, hi), lo >= first *)
  firstn (N.to_nat (hi - lo)) (skipn (N.to_nat (lo - log_first l)) (l_ents l)).

(* inMemory.merge on the logical log: truncate at the first new index, append *)
Definition log_append_raw (l : rlog) (ents : list entry) : rlog :=
  match ents with
  | [] => l
  | e :: _ =>
    let fi := e_index e in
    l <| l_ents := firstn (N.to_nat (fi - log_first l)) (l_ents l) ++ ents |>
      <| l_saved_to := N.min (l_saved_to l) (fi - 1) |>
  end.

(* entryLog.append; [None] = panic (committed entries being changed / gap) *)
Definition log_append (l : rlog) (ents : list entry) : option rlog :=
  match ents with
  | [] => Some l
  | e :: _ =>
    if e_index e <=? l_committed l then None
    else if log_last l + 1 <? e_index e then None
    else Some (log_append_raw l ents)
  end.

Fixpoint conflict_index (l : rlog) (ents : list entry) : N :=
  match ents with
  | [] => 0
  | e :: r => if match_term l (e_index e) (e_term e) then conflict_index l r else e_index e
  end.

(* entryLog.tryAppend(index, ents) *)
Definition log_try_append (l : rlog) (index : N) (ents : list entry) : option rlog :=
  let ci := conflict_index l ents in
  if ci =? 0 then Some l
  else if ci <=? l_committed l then None
  else log_append l (skipn (N.to_nat (ci - index - 1)) ents).

(* entryLog.commitTo; None = panic *)
Definition log_commit_to (l : rlog) (i : N) : option rlog :=
  if i <=? l_committed l then Some l
  else if log_last l <? i then None
  else Some (l <| l_committed := i |>).

(* entryLog.tryCommit *)
Definition log_try_commit (l : rlog) (i t : N) : rlog * bool :=
  if i <=? l_committed l then (l, false)
  else if log_term l i =? t then
    match log_commit_to l i with Some l' => (l', true) | None => (l, false) end
  else (l, false).

Definition log_restore (l : rlog) (s : snapshot) : rlog :=
  l <| l_marker := ss_index s |> <| l_marker_term := ss_term s |> <| l_ents := [] |>
    <| l_committed := ss_index s |> <| l_processed := ss_index s |>
    <| l_saved_to := ss_index s |> <| l_pending_snap := Some s |>.

Definition log_snapshot (l : rlog) : snapshot :=
  match l_pending_snap l with Some s => s | None => l_snapshot l end.

Definition count_cc (ents : list entry) : N :=
  nlen (filter (fun e => e_type e =? et_ConfigChangeEntry) ents).

(* ------------------------------------------------------------------ *)
(* remote.go *)

Definition rm_become_retry (p : remote) : remote :=
  let nx := match rm_state p with
            | RSnapshot => N.max (rm_match p + 1) (rm_snapidx p + 1)
            | _ => rm_match p + 1 end in
  p <| rm_next := nx |> <| rm_snapidx := 0 |> <| rm_state := RRetry |>.
Definition rm_retry_to_wait (p : remote) : remote :=
  match rm_state p with RRetry => p <| rm_state := RWait |> | _ => p end.
Definition rm_wait_to_retry (p : remote) : remote :=
  match rm_state p with RWait => p <| rm_state := RRetry |> | _ => p end.
Definition rm_clear_ack (p : remote) : remote := p <| rm_ack_tick := 0 |> <| rm_ack_rej := false |>.
Definition rm_become_wait (p : remote) : remote :=
  rm_retry_to_wait (rm_become_retry (rm_clear_ack p)).
Definition rm_become_replicate (p : remote) : remote :=
  p <| rm_next := rm_match p + 1 |> <| rm_snapidx := 0 |> <| rm_state := RReplicate |>.
Definition rm_become_snapshot (p : remote) (i : N) : remote :=
  p <| rm_snapidx := i |> <| rm_state := RSnapshot |>.
Definition rm_try_update (p : remote) (index : N) : remote * bool :=
  let p1 := if rm_next p <? index + 1 then p <| rm_next := index + 1 |> else p in
  if rm_match p1 <? index then ((rm_wait_to_retry p1) <| rm_match := index |>, true)
  else (p1, false).
(* progress; None = panic *)
Definition rm_progress (p : remote) (last : N) : option remote :=
  match rm_state p with
  | RReplicate => Some (p <| rm_next := last + 1 |>)
  | RRetry => Some (rm_retry_to_wait p)
  | _ => None end.
Definition rm_responded_to (p : remote) : remote :=
  match rm_state p with
  | RRetry => rm_become_replicate p
  | RSnapshot => if rm_snapidx p <=? rm_match p then rm_become_retry p else p
  | _ => p end.
Definition rm_decrease_to (p : remote) (rejected last : N) : remote * bool :=
  match rm_state p with
  | RReplicate =>
    if rejected <=? rm_match p then (p, false) else (p <| rm_next := rm_match p + 1 |>, true)
  | _ =>
    if negb (rm_next p - 1 =? rejected) then (p, false)   (* next >= 1 always; next = 0 wraps in Go *)
    else ((rm_wait_to_retry p) <| rm_next := N.max 1 (N.min rejected (last + 1)) |>, true)
  end.
Definition rm_is_paused (p : remote) : bool :=
  match rm_state p with RWait | RSnapshot => true | _ => false end.

(* ------------------------------------------------------------------ *)
(* message classes: generated from the source (GenRaft) *)

(* ------------------------------------------------------------------ *)
(* raft.go helpers *)

(* numVotingMembers / quorum / isSingleNodeQuorum: the expressions are TRANSLATED from the
   source by tools/genmodel into Gen/GenRaft.v, names gen_X *)
Definition num_voting (r : raft) : N := gen_numVotingMembers (nlen (r_remotes r)) (nlen (r_witnesses r)).
Definition quorum (r : raft) : N := gen_quorum (num_voting r).
Definition is_single_node_quorum (r : raft) : bool := gen_isSingleNodeQuorum (quorum r).
Definition is_leader (r : raft) : bool := role_eqb (r_role r) Leader.
Definition is_nonvoting (r : raft) : bool := role_eqb (r_role r) NonVoting.
Definition is_witness (r : raft) : bool := role_eqb (r_role r) Witness.

(* votingMembers: remotes ∪ witnesses, as a sorted list of ids with the kind *)
Fixpoint merge_ids (a b : list N) (fuel : nat) : list N :=
  match fuel with O => a ++ b | S f =>
    match a, b with
    | [], _ => b | _, [] => a
    | x :: a', y :: b' => if x <=? y then x :: merge_ids a' b f else y :: merge_ids a b' f
    end end.
Definition voting_ids (r : raft) : list N :=
  merge_ids (akeys (r_remotes r)) (akeys (r_witnesses r)) (length (r_remotes r) + length (r_witnesses r)).
Definition all_ids (r : raft) : list N :=
  let v := voting_ids r in merge_ids v (akeys (r_nonvotings r)) (length v + length (r_nonvotings r)).

Inductive pkind := KRemote | KNonVoting | KWitness.
Definition find_peer (r : raft) (id : N) : option (pkind * remote) :=
  match alookup id (r_remotes r) with
  | Some p => Some (KRemote, p)
  | None => match alookup id (r_nonvotings r) with
            | Some p => Some (KNonVoting, p)
            | None => match alookup id (r_witnesses r) with
                      | Some p => Some (KWitness, p)
                      | None => None end end end.
Definition set_peer (r : raft) (k : pkind) (id : N) (p : remote) : raft :=
  match k with
  | KRemote => r <| r_remotes := ainsert id p (r_remotes r) |>
  | KNonVoting => r <| r_nonvotings := ainsert id p (r_nonvotings r) |>
  | KWitness => r <| r_witnesses := ainsert id p (r_witnesses r) |>
  end.

Definition self_removed (r : raft) : bool :=
  match r_role r with
  | NonVoting => negb (amem (r_id r) (r_nonvotings r))
  | Witness => negb (amem (r_id r) (r_witnesses r))
  | _ => negb (amem (r_id r) (r_remotes r))
  end.

Definition raft_state (r : raft) : N * N * N := (r_term r, r_vote r, l_committed (r_log r)).

Definition set_leader_id (r : raft) (lid : N) : raft :=
  r <| r_leader := lid |> <| r_leader_update := Some (lid, r_term r) |>.

(* finalizeMessageTerm + send *)
Definition finalize_term (r : raft) (m : msg) : option msg :=
  if (m_term m =? 0) && (m_type m =? mt_RequestVote) then None
  else if (0 <? m_term m) && negb (is_request_vote_message (m_type m)) &&
          negb (m_type m =? mt_RequestPreVoteResp) then None
  else if negb (is_request_message (m_type m)) && negb (is_request_vote_message (m_type m)) &&
          negb (m_type m =? mt_RequestPreVoteResp)
       then Some (m <| m_term := r_term r |>)
       else Some m.

Definition send (r : raft) (m : msg) : raft :=
  match finalize_term r (m <| m_from := r_id r |>) with
  | Some m' => r <| r_msgs := r_msgs r ++ [m'] |>
  | None => panic r
  end.

Definition make_witness_snapshot (s : snapshot) : snapshot :=
  s <| ss_has_file := false |> <| ss_witness := true |> <| ss_dummy := false |>.

Definition make_metadata_entries (ents : list entry) : list entry :=
  map (fun e => if e_type e =? et_ConfigChangeEntry then e
                else mkEnt (e_term e) (e_index e) et_MetadataEntry 0 0 0 0 []) ents.

(* sendReplicateMessage *)
Definition send_replicate (r : raft) (to : N) : raft :=
  match find_peer r to with
  | None => panic r
  | Some (k, rp) =>
    if rm_is_paused rp then r
    else
      let l := r_log r in
      let nx := rm_next rp in
      match log_entries_from l nx with
      | Some ents0 =>
        let ents := match k with KWitness => make_metadata_entries ents0 | _ => ents0 end in
        let m := (msg0 mt_Replicate) <| m_to := to |> <| m_logindex := nx - 1 |>
                   <| m_logterm := log_term l (nx - 1) |> <| m_entries := ents |>
                   <| m_commit := l_committed l |> in
        match ents0 with
        | [] => send r m
        | _ =>
          let lastidx := e_index (last ents0 (mkEnt 0 0 0 0 0 0 0 [])) in
          match rm_progress rp lastidx with
          | None => panic r
          | Some rp' => send (set_peer r k to rp') m
          end
        end
      | None =>
        (* log compacted: send a snapshot unless the remote is not active *)
        if negb (rm_active rp) then r
        else
          let ss := log_snapshot l in
          if is_empty_snapshot ss then panic r
          else
            let ss' := match k with KWitness => make_witness_snapshot ss | _ => ss end in
            let m := (msg0 mt_InstallSnapshot) <| m_to := to |> <| m_snapshot := ss' |> in
            send (set_peer r k to (rm_become_snapshot rp (ss_index ss))) m
      end
  end.

Definition broadcast_replicate (r : raft) : raft :=
  if negb (is_leader r) then panic r
  else if amem (r_id r) (r_nonvotings r) then panic r
  else fold_left (fun r' id => if id =? r_id r then r' else send_replicate r' id) (all_ids r) r.

Definition send_heartbeat (r : raft) (to : N) (ctx : N * N) (mt : N) : raft :=
  send r ((msg0 mt_Heartbeat) <| m_to := to |> <| m_commit := N.min mt (l_committed (r_log r)) |>
            <| m_hint := fst ctx |> <| m_hinthigh := snd ctx |>).

Definition peer_match (r : raft) (id : N) : N :=
  match find_peer r id with Some (_, p) => rm_match p | None => 0 end.

Definition broadcast_heartbeat_hint (r : raft) (ctx : N * N) : raft :=
  let r1 := fold_left (fun r' id => if id =? r_id r then r' else send_heartbeat r' id ctx (peer_match r id))
                      (voting_ids r) r in
  if (fst ctx =? 0) && (snd ctx =? 0)
  then fold_left (fun r' id => send_heartbeat r' id (0, 0) (peer_match r id)) (akeys (r_nonvotings r)) r1
  else r1.

Definition broadcast_heartbeat (r : raft) : raft :=
  if negb (is_leader r) then panic r
  else match rev (r_reads r) with
       | rs :: _ =>
         (* hinted heartbeat to the voting members, plain heartbeat to the non-voting ones *)
         fold_left (fun r' id => send_heartbeat r' id (0, 0) (peer_match r id)) (akeys (r_nonvotings r))
                   (broadcast_heartbeat_hint r (rs_ctx rs))
       | [] => broadcast_heartbeat_hint r (0, 0)
       end.

(* tryCommit: the (n - quorum)-th smallest match of the voting members *)
Fixpoint insert_sorted (x : N) (l : list N) : list N :=
  match l with [] => [x] | y :: r => if x <=? y then x :: l else y :: insert_sorted x r end.
Definition sort_n (l : list N) : list N := fold_right insert_sorted [] l.

Definition try_commit (r : raft) : raft * bool :=
  if negb (is_leader r) then (panic r, false)
  else
    let ms := sort_n (map (fun kv => rm_match (snd kv)) (r_remotes r) ++
                      map (fun kv => rm_match (snd kv)) (r_witnesses r)) in
    let q := nth (N.to_nat (num_voting r - quorum r)) ms 0 in
    let '(l', ok) := log_try_commit (r_log r) q (r_term r) in
    (r <| r_log := l' |>, ok).

Fixpoint number_entries (ents : list entry) (term next : N) : list entry :=
  match ents with
  | [] => []
  | e :: rest => (e <| e_term := term |> <| e_index := next |>) :: number_entries rest term (next + 1)
  end.

Definition append_entries (r : raft) (ents : list entry) : raft :=
  let l := r_log r in
  let ents' := number_entries ents (r_term r) (log_last l + 1) in
  match log_append l ents' with
  | None => panic r
  | Some l' =>
    let r1 := r <| r_log := l' |> in
    match alookup (r_id r) (r_remotes r1) with
    | None => panic r1
    | Some self =>
      let r2 := r1 <| r_remotes := ainsert (r_id r) (fst (rm_try_update self (log_last l'))) (r_remotes r1) |> in
      if is_single_node_quorum r2 then fst (try_commit r2) else r2
    end
  end.

(* reset *)
Definition reset_peers (r : raft) : raft :=
  let last := log_last (r_log r) in
  let f := fun id (_ : remote) => new_remote (if id =? r_id r then last else 0) (last + 1) in
  r <| r_remotes := amap_vals f (r_remotes r) |>
    <| r_nonvotings := amap_vals f (r_nonvotings r) |>
    <| r_witnesses := amap_vals f (r_witnesses r) |>.

Definition reset (r : raft) (term : N) (reset_timeout : bool) : raft :=
  let r1 := if negb (r_term r =? term) then r <| r_term := term |> <| r_vote := 0 |> else r in
  let r2 := if reset_timeout then r1 <| r_election_tick := 0 |> <| r_rand_timeout := r_oracle r1 |> else r1 in
  reset_peers (r2 <| r_votes := [] |> <| r_heartbeat_tick := 0 |> <| r_reads := [] |>
                  <| r_pending_cc := false |> <| r_transfer_target := 0 |>).

Definition to_follower_state (r : raft) (term lid : N) (rt : bool) : raft :=
  if is_witness r then panic r
  else set_leader_id (reset (r <| r_role := Follower |>) term rt) lid.
Definition become_follower (r : raft) (term lid : N) := to_follower_state r term lid true.
Definition become_follower_ke (r : raft) (term lid : N) := to_follower_state r term lid false.
Definition become_nonvoting (r : raft) (term lid : N) : raft :=
  if negb (is_nonvoting r) then panic r else set_leader_id (reset r term true) lid.
Definition become_witness (r : raft) (term lid : N) : raft :=
  if negb (is_witness r) then panic r else set_leader_id (reset r term true) lid.

Definition become_prevote_candidate (r : raft) : raft :=
  if negb (r_prevote r) || is_leader r || is_nonvoting r || is_witness r then panic r
  else set_leader_id (reset (r <| r_role := PreVoteCandidate |>) (r_term r) true) 0.

Definition become_candidate (r : raft) : raft :=
  if is_leader r || is_nonvoting r || is_witness r then panic r
  else (set_leader_id (reset (r <| r_role := Candidate |>) (r_term r + 1) true) 0) <| r_vote := r_id r |>.

Definition pending_cc_count (r : raft) : N :=
  match log_entries_from (r_log r) (l_committed (r_log r) + 1) with
  | Some ents => count_cc ents
  | None => 0   (* the Go code panics; unreachable: committed+1 > first *)
  end.

Definition become_leader (r : raft) : raft :=
  if negb (is_leader r) && negb (role_eqb (r_role r) Candidate) then panic r
  else
    let r1 := set_leader_id (reset (r <| r_role := Leader |>) (r_term r) true) (r_id r) in
    let n := pending_cc_count r1 in
    let r2 := if 1 <? n then panic r1 else if n =? 1 then r1 <| r_pending_cc := true |> else r1 in
    append_entries r2 [mkEnt 0 0 et_ApplicationEntry 0 0 0 0 []].

(* handleVoteResp *)
Definition handle_vote_resp (r : raft) (from : N) (rejected : bool) : raft * N :=
  let votes := if amem from (r_votes r) then r_votes r else ainsert from (negb rejected) (r_votes r) in
  (r <| r_votes := votes |>, nlen (filter (fun kv => snd kv) votes)).

Definition campaign (r : raft) : raft :=
  let r1 := become_candidate r in
  let term := r_term r1 in
  let r2 := fst (handle_vote_resp r1 (r_id r1) false) in
  if is_single_node_quorum r2 then become_leader r2
  else
    let hint := if r_is_transfer_target r2 then r_id r2 else 0 in
    let r3 := r2 <| r_is_transfer_target := false |> in
    let l := r_log r3 in
    fold_left (fun r' k => if k =? r_id r then r' else
      send r' ((msg0 mt_RequestVote) <| m_term := term |> <| m_to := k |> <| m_logindex := log_last l |>
                 <| m_logterm := log_last_term l |> <| m_hint := hint |>)) (voting_ids r3) r3.

Definition prevote_campaign (r : raft) : raft :=
  let r1 := become_prevote_candidate r in
  let r2 := fst (handle_vote_resp r1 (r_id r1) false) in
  if is_single_node_quorum r2 then campaign r2
  else
    let l := r_log r2 in
    fold_left (fun r' k => if k =? r_id r then r' else
      send r' ((msg0 mt_RequestPreVote) <| m_term := r_term r2 + 1 |> <| m_to := k |>
                 <| m_logindex := log_last l |> <| m_logterm := log_last_term l |>)) (voting_ids r2) r2.

(* membership *)
Definition add_node (r : raft) (id : N) : raft :=
  let r0 := r <| r_pending_cc := false |> in
  if (id =? r_id r0) && is_witness r0 then panic r0
  else if amem id (r_remotes r0) then r0
  else match alookup id (r_nonvotings r0) with
       | Some rp =>
         let r1 := r0 <| r_nonvotings := aremove id (r_nonvotings r0) |>
                      <| r_remotes := ainsert id rp (r_remotes r0) |> in
         if id =? r_id r1 then become_follower r1 (r_term r1) (r_leader r1) else r1
       | None =>
         if amem id (r_witnesses r0) then panic r0
         else r0 <| r_remotes := ainsert id (new_remote 0 (log_last (r_log r0) + 1)) (r_remotes r0) |>
       end.

Definition add_nonvoting (r : raft) (id : N) : raft :=
  let r0 := r <| r_pending_cc := false |> in
  if (id =? r_id r0) && negb (is_nonvoting r0) then panic r0
  else if amem id (r_nonvotings r0) then r0
  else r0 <| r_nonvotings := ainsert id (new_remote 0 (log_last (r_log r0) + 1)) (r_nonvotings r0) |>.

Definition add_witness (r : raft) (id : N) : raft :=
  let r0 := r <| r_pending_cc := false |> in
  if (id =? r_id r0) && negb (is_witness r0) then panic r0
  else if amem id (r_witnesses r0) then r0
  else r0 <| r_witnesses := ainsert id (new_remote 0 (log_last (r_log r0) + 1)) (r_witnesses r0) |>.

Definition leader_transfering (r : raft) : bool := gen_leaderTransfering (is_leader r) (r_transfer_target r).

Definition remove_node (r : raft) (id : N) : raft :=
  let r0 := r <| r_remotes := aremove id (r_remotes r) |> <| r_nonvotings := aremove id (r_nonvotings r) |>
              <| r_witnesses := aremove id (r_witnesses r) |> <| r_pending_cc := false |> in
  let r1 := if (r_id r0 =? id) && is_leader r0 then become_follower r0 (r_term r0) 0 else r0 in
  let r2 := if leader_transfering r1 && (r_transfer_target r1 =? id) then r1 <| r_transfer_target := 0 |> else r1 in
  if is_leader r2 && (0 <? num_voting r2) then
    let '(r3, ok) := try_commit r2 in
    if ok then broadcast_replicate r3 else r3
  else r2.

(* restore / restoreRemotes *)
Definition mem_n (x : N) (l : list N) : bool := existsb (N.eqb x) l.

(* returns (raft, restored) ; panics when the snapshot changes the kind of this replica *)
Definition restore (r : raft) (s : snapshot) : raft * bool :=
  let l := r_log r in
  if ss_index s <=? l_committed l then (r, false)
  else if negb (is_nonvoting r) && mem_n (r_id r) (ss_nonvotings s) then (panic r, false)
  else if negb (is_witness r) && mem_n (r_id r) (ss_witnesses s) then (panic r, false)
  else if match_term l (ss_index s) (ss_term s) then
    match log_commit_to l (ss_index s) with
    | Some l' => (r <| r_log := l' |>, false)
    | None => (panic r, false)
    end
  else (r <| r_log := log_restore l s |>, true).

Definition rr_step_addr (r' : raft) (id : N) : raft :=
  let r1 := if (id =? r_id r') && is_nonvoting r' then become_follower r' (r_term r') (r_leader r') else r' in
  if amem id (r_witnesses r1) then panic r1
  else let nx := log_last (r_log r1) + 1 in
       r1 <| r_remotes := ainsert id (new_remote (if id =? r_id r1 then nx - 1 else 0) nx) (r_remotes r1) |>.
Definition rr_mk (r' : raft) (id : N) : remote :=
  let nx := log_last (r_log r') + 1 in new_remote (if id =? r_id r' then nx - 1 else 0) nx.
Definition rr_add_nonvoting (r' : raft) (id : N) : raft :=
  r' <| r_nonvotings := ainsert id (rr_mk r' id) (r_nonvotings r') |>.
Definition rr_add_witness (r' : raft) (id : N) : raft :=
  r' <| r_witnesses := ainsert id (rr_mk r' id) (r_witnesses r') |>.
Definition rr_step_down (r1 : raft) : raft :=
  if self_removed r1 && is_leader r1 then become_follower r1 (r_term r1) 0 else r1.

Definition restore_remotes (r : raft) (s : snapshot) : raft :=
  let r1 := fold_left rr_step_addr (ss_addrs s) (r <| r_remotes := [] |>) in
  let r2 := rr_step_down r1 in
  let r3 := fold_left rr_add_nonvoting (ss_nonvotings s) (r2 <| r_nonvotings := [] |>) in
  fold_left rr_add_witness (ss_witnesses s) (r3 <| r_witnesses := [] |>).

(* ------------------------------------------------------------------ *)
(* readindex.go *)

Definition ctx_eqb (a b : N * N) : bool := (fst a =? fst b) && (snd a =? snd b).

Definition ri_add_request (r : raft) (index : N) (ctx : N * N) (from : N) : raft :=
  if existsb (fun rs => ctx_eqb (rs_ctx rs) ctx) (r_reads r) then r
  else match r_reads r with
       | [] => r <| r_reads := [mkRS ctx index from []] |>
       | _ =>
         let p := last (r_reads r) (mkRS (0, 0) 0 0 []) in
         if index <? rs_index p then panic r
         else r <| r_reads := r_reads r ++ [mkRS ctx index from []] |>
       end.

Fixpoint split_at_ctx (ctx : N * N) (q acc : list read_status) : option (list read_status * read_status * list read_status) :=
  match q with
  | [] => None
  | rs :: rest => if ctx_eqb (rs_ctx rs) ctx then Some (rev acc, rs, rest)
                  else split_at_ctx ctx rest (rs :: acc)
  end.

(* confirm: returns the released requests (all rewritten to the confirmed one's index) *)
Definition ri_confirm (r : raft) (ctx : N * N) (from : N) (q : N) : raft * list read_status :=
  match split_at_ctx ctx (r_reads r) [] with
  | None => (r, [])
  | Some (before, rs, after) =>
    let conf := if mem_n from (rs_confirmed rs) then rs_confirmed rs else from :: rs_confirmed rs in
    let rs' := rs <| rs_confirmed := conf |> in
    if nlen conf + 1 <? q then (r <| r_reads := before ++ rs' :: after |>, [])
    else
      if existsb (fun v => rs_index rs <? rs_index v) before then (panic r, [])
      else (r <| r_reads := after |>,
            map (fun v => v <| rs_index := rs_index rs |>) (before ++ [rs']))
  end.

(* ------------------------------------------------------------------ *)
(* handlers *)

Definition report_dropped_proposal (r : raft) (m : msg) : raft :=
  r <| r_dropped_entries := r_dropped_entries r ++ m_entries m |>.
Definition report_dropped_read (r : raft) (m : msg) : raft :=
  r <| r_dropped_reads := r_dropped_reads r ++ [(m_hint m, m_hinthigh m)] |>.

Definition handle_heartbeat_message (r : raft) (m : msg) : raft :=
  match log_commit_to (r_log r) (m_commit m) with
  | None => panic r
  | Some l' =>
    send (r <| r_log := l' |>)
         ((msg0 mt_HeartbeatResp) <| m_to := m_from m |> <| m_hint := m_hint m |> <| m_hinthigh := m_hinthigh m |>)
  end.

Definition handle_install_snapshot_message (r : raft) (m : msg) : raft :=
  let '(r1, ok) := restore r (m_snapshot m) in
  let idx := if ok then log_last (r_log r1) else l_committed (r_log r1) in
  send r1 ((msg0 mt_ReplicateResp) <| m_to := m_from m |> <| m_logindex := idx |>).

Definition handle_replicate_message (r : raft) (m : msg) : raft :=
  let l := r_log r in
  let resp := (msg0 mt_ReplicateResp) <| m_to := m_from m |> in
  if m_logindex m <? l_committed l then send r (resp <| m_logindex := l_committed l |>)
  else if match_term l (m_logindex m) (m_logterm m) then
    match log_try_append l (m_logindex m) (m_entries m) with
    | None => panic r
    | Some l1 =>
      let lastidx := m_logindex m + nlen (m_entries m) in
      match log_commit_to l1 (N.min lastidx (m_commit m)) with
      | None => panic r
      | Some l2 => send (r <| r_log := l2 |>) (resp <| m_logindex := lastidx |>)
      end
    end
  else send r (resp <| m_reject := true |> <| m_logindex := m_logindex m |> <| m_hint := log_last l |>).

Definition has_config_change_to_apply (r : raft) : bool :=
  gen_hasConfigChangeToApply (r_applied r) (l_committed (r_log r)).

Definition handle_node_election (r : raft) (m : msg) : raft :=
  if is_leader r then r
  else if has_config_change_to_apply r then r
  else if r_prevote r && negb (r_is_transfer_target r) then prevote_campaign r
  else campaign r.

Definition handle_node_request_prevote (r : raft) (m : msg) : raft :=
  let utd := up_to_date (r_log r) (m_logindex m) (m_logterm m) in
  let resp := (msg0 mt_RequestPreVoteResp) <| m_to := m_from m |> in
  if m_term m <? r_term r then panic r
  else if (r_term r <? m_term m) && utd then send r (resp <| m_term := m_term m |>)
  else send r (resp <| m_term := r_term r |> <| m_reject := true |>).

Definition can_grant_vote (r : raft) (m : msg) : bool :=
  gen_canGrantVote (m_from m) (m_term m) (r_term r) (r_vote r).

Definition handle_node_request_vote (r : raft) (m : msg) : raft :=
  let resp := (msg0 mt_RequestVoteResp) <| m_to := m_from m |> in
  if can_grant_vote r m && up_to_date (r_log r) (m_logindex m) (m_logterm m)
  then send (r <| r_election_tick := 0 |> <| r_vote := m_from m |>) resp
  else send r (resp <| m_reject := true |>).

Definition handle_node_config_change (r : raft) (m : msg) : raft :=
  if m_reject m then r <| r_pending_cc := false |>
  else
    let t := m_hinthigh m in
    if t =? cc_AddNode then add_node r (m_hint m)
    else if t =? cc_RemoveNode then remove_node r (m_hint m)
    else if t =? cc_AddNonVoting then add_nonvoting r (m_hint m)
    else if t =? cc_AddWitness then add_witness r (m_hint m)
    else panic r.

Definition handle_leader_check_quorum (r : raft) : raft :=
  if negb (is_leader r) then panic r
  else
    let act := fun (m : amap remote) =>
      nlen (filter (fun kv => (fst kv =? r_id r) || rm_active (snd kv)) m) in
    let c := act (r_remotes r) + act (r_witnesses r) in
    let clr := fun (m : amap remote) =>
      map (fun kv => if (fst kv =? r_id r) || rm_active (snd kv)
                     then (fst kv, (snd kv) <| rm_active := false |>) else kv) m in
    let r1 := r <| r_remotes := clr (r_remotes r) |> <| r_witnesses := clr (r_witnesses r) |> in
    if c <? quorum r1 then become_follower r1 (r_term r1) 0 else r1.

Fixpoint propose_scan (r : raft) (ents acc : list entry) : raft * list entry :=
  match ents with
  | [] => (r, rev acc)
  | e :: rest =>
    if e_type e =? et_ConfigChangeEntry then
      if r_pending_cc r
      then propose_scan (r <| r_dropped_entries := r_dropped_entries r ++ [e] |> <| r_pending_cc := true |>)
                        rest (mkEnt 0 0 et_ApplicationEntry 0 0 0 0 [] :: acc)
      else propose_scan (r <| r_pending_cc := true |>) rest (e :: acc)
    else propose_scan r rest (e :: acc)
  end.

Definition handle_leader_propose (r : raft) (m : msg) : raft :=
  if negb (is_leader r) then panic r
  else if leader_transfering r then report_dropped_proposal r m
  else
    let '(r1, ents) := propose_scan r (m_entries m) [] in
    broadcast_replicate (append_entries r1 ents).

Definition has_committed_entry_at_current_term (r : raft) : bool :=
  log_term (r_log r) (l_committed (r_log r)) =? r_term r.

Definition handle_leader_read_index (r : raft) (m : msg) : raft :=
  if negb (is_leader r) then panic r
  else
    let ctx := (m_hint m, m_hinthigh m) in
    if amem (m_from m) (r_witnesses r) then r
    else if negb (is_single_node_quorum r) then
      if r_term r =? 0 then panic r
      else if negb (has_committed_entry_at_current_term r) then report_dropped_read r m
      else broadcast_heartbeat_hint (ri_add_request r (l_committed (r_log r)) ctx (m_from m)) ctx
    else
      let r1 := r <| r_ready := r_ready r ++ [(l_committed (r_log r), ctx)] |> in
      if negb (m_from m =? r_id r) && amem (m_from m) (r_nonvotings r) then
        send r1 ((msg0 mt_ReadIndexResp) <| m_to := m_from m |> <| m_logindex := l_committed (r_log r) |>
                   <| m_hint := m_hint m |> <| m_hinthigh := m_hinthigh m |> <| m_commit := m_commit m |>)
      else r1.

Definition send_timeout_now (r : raft) (to : N) : raft := send r ((msg0 mt_TimeoutNow) <| m_to := to |>).

Definition enter_retry_state (p : remote) : remote :=
  match rm_state p with RReplicate => rm_become_retry p | _ => p end.

(* the `lw` wrapper looks the sender up once and passes the pointer; the handlers
   below re-read the peer after every call that may have replaced it *)
Definition handle_leader_replicate_resp (r : raft) (m : msg) (k : pkind) (rp0 : remote) : raft :=
  if negb (is_leader r) then panic r
  else
    let from := m_from m in
    let rp := rp0 <| rm_active := true |> in
    if negb (m_reject m) then
      let paused := rm_is_paused rp in
      let '(rp1, updated) := rm_try_update rp (m_logindex m) in
      if updated then
        let rp2 := rm_responded_to rp1 in
        let r1 := set_peer r k from rp2 in
        let '(r2, ok) := try_commit r1 in
        let r3 := if ok then broadcast_replicate r2
                  else if paused then send_replicate r2 from else r2 in
        if leader_transfering r3 && (from =? r_transfer_target r3) &&
           (log_last (r_log r3) =? peer_match r3 from)
        then send_timeout_now r3 (r_transfer_target r3) else r3
      else set_peer r k from rp1
    else
      let '(rp1, dec) := rm_decrease_to rp (m_logindex m) (m_hint m) in
      if dec then send_replicate (set_peer r k from (enter_retry_state rp1)) from
      else set_peer r k from rp1.

Definition handle_read_index_leader_confirmation (r : raft) (m : msg) : raft :=
  let ctx := (m_hint m, m_hinthigh m) in
  let '(r1, ris) := ri_confirm r ctx (m_from m) (quorum r) in
  fold_left (fun r' s =>
    if (rs_from s =? 0) || (rs_from s =? r_id r')
    then r' <| r_ready := r_ready r' ++ [(rs_index s, rs_ctx s)] |>
    else send r' ((msg0 mt_ReadIndexResp) <| m_to := rs_from s |> <| m_logindex := rs_index s |>
                    <| m_hint := m_hint m |> <| m_hinthigh := m_hinthigh m |>)) ris r1.

Definition handle_leader_heartbeat_resp (r : raft) (m : msg) (k : pkind) (rp0 : remote) : raft :=
  if negb (is_leader r) then panic r
  else
    let rp := rm_wait_to_retry (rp0 <| rm_active := true |>) in
    let r1 := set_peer r k (m_from m) rp in
    let r2 := if rm_match rp <? log_last (r_log r1) then send_replicate r1 (m_from m) else r1 in
    if negb (m_hint m =? 0) then handle_read_index_leader_confirmation r2 m else r2.

Definition handle_leader_transfer (r : raft) (m : msg) : raft :=
  if negb (is_leader r) then panic r
  else
    let target := m_hint m in
    if target =? 0 then panic r
    else if leader_transfering r then r
    else if r_id r =? target then r
    else match alookup target (r_remotes r) with
         | None => r
         | Some rp =>
           let r1 := r <| r_transfer_target := target |> <| r_election_tick := 0 |> in
           if rm_match rp =? log_last (r_log r1) then send_timeout_now r1 target else r1
         end.

Definition handle_leader_snapshot_status (r : raft) (m : msg) (k : pkind) (rp : remote) : raft :=
  match rm_state rp with
  | RSnapshot =>
    if m_hint m =? 0 then
      let rp1 := if m_reject m then rp <| rm_snapidx := 0 |> else rp in
      set_peer r k (m_from m) (rm_become_wait rp1)
    else
      (set_peer r k (m_from m) (rp <| rm_ack_tick := m_hint m |> <| rm_ack_rej := m_reject m |>))
        <| r_snapshotting := true |>
  | _ => r
  end.

Definition handle_leader_unreachable (r : raft) (m : msg) (k : pkind) (rp : remote) : raft :=
  set_peer r k (m_from m) (enter_retry_state rp).

Definition handle_follower_propose (r : raft) (m : msg) : raft :=
  if r_leader r =? 0 then report_dropped_proposal r m
  else send r (m <| m_to := r_leader r |>).

Definition handle_follower_read_index (r : raft) (m : msg) : raft :=
  if r_leader r =? 0 then report_dropped_read r m
  else send r (m <| m_to := r_leader r |>).

Definition handle_follower_leader_transfer (r : raft) (m : msg) : raft :=
  if r_leader r =? 0 then r else send r (m <| m_to := r_leader r |>).

Definition leader_is_available (r : raft) (m : msg) : raft :=
  set_leader_id (r <| r_election_tick := 0 |>) (m_from m).

Definition handle_follower_read_index_resp (r : raft) (m : msg) : raft :=
  let r1 := leader_is_available r m in
  r1 <| r_ready := r_ready r1 ++ [(m_logindex m, (m_hint m, m_hinthigh m))] |>.

Definition handle_candidate_read_index (r : raft) (m : msg) : raft :=
  let r1 := report_dropped_read r m in
  r1 <| r_dropped_reads := r_dropped_reads r1 ++ [(m_hint m, m_hinthigh m)] |>.

Definition handle_candidate_request_vote_resp (r : raft) (m : msg) : raft :=
  if amem (m_from m) (r_nonvotings r) then r
  else
    let '(r1, count) := handle_vote_resp r (m_from m) (m_reject m) in
    if count =? quorum r1 then broadcast_replicate (become_leader r1)
    else if nlen (r_votes r1) - count =? quorum r1 then become_follower r1 (r_term r1) 0
    else r1.

Definition handle_prevote_candidate_resp (r : raft) (m : msg) : raft :=
  if amem (m_from m) (r_nonvotings r) then r
  else
    let '(r1, count) := handle_vote_resp r (m_from m) (m_reject m) in
    if count =? quorum r1 then campaign r1
    else if nlen (r_votes r1) - count =? quorum r1 then become_follower r1 (r_term r1) 0
    else r1.

(* ---- the dispatcher: which handler runs is read from the GENERATED table ---- *)

(* handler names as generated from initializeHandlerMap *)
(* handleLogQuery with getCommittedEntries for an unlimited size: ErrCompacted when the range
   starts below the first index or above the commit index (or the log range is unavailable:
   a pending snapshot over an empty log), the committed part of [low, high) otherwise;
   checkBound panics when low lies above min(high, committed+1) *)
Definition handle_log_query (r : raft) (m : msg) : raft :=
  match r_log_query r with
  | Some _ => panic r
  | None =>
    let l := r_log r in
    let low := m_from m in
    let high := N.min (m_to m) (l_committed l + 1) in
    let mk := fun err ents => r <| r_log_query := Some (log_first l, l_committed l + 1, err, ents) |> in
    if (low <? log_first l) || (l_committed l <? low) then mk true []
    else if low =? high then mk false []
    else if high <? low then panic r
    else if (match l_pending_snap l with Some _ => true | None => false end) &&
            (match l_ents l with [] => true | _ => false end) then mk true []
    else mk false (log_entries_range l low high)
  end.

Definition run_handler (h : handler) (r : raft) (m : msg) : raft :=
  let with_peer := fun (f : raft -> msg -> pkind -> remote -> raft) =>
    match find_peer r (m_from m) with Some (k, rp) => f r m k rp | None => r end in
  match h with
  | H_none => r
  | H_handleCandidateHeartbeat => handle_heartbeat_message (become_follower r (r_term r) (m_from m)) m
  | H_handleCandidatePropose => report_dropped_proposal r m
  | H_handleCandidateReadIndex => handle_candidate_read_index r m
  | H_handleCandidateReplicate => handle_replicate_message (become_follower r (r_term r) (m_from m)) m
  | H_handleCandidateInstallSnapshot => handle_install_snapshot_message (become_follower r (r_term r) (m_from m)) m
  | H_handleCandidateRequestVoteResp => handle_candidate_request_vote_resp r m
  | H_handlePreVoteCandidateRequestPreVoteResp => handle_prevote_candidate_resp r m
  | H_handleNodeElection => handle_node_election r m
  | H_handleNodeRequestVote => handle_node_request_vote r m
  | H_handleNodeRequestPreVote => handle_node_request_prevote r m
  | H_handleNodeConfigChange => handle_node_config_change r m
  | H_handleLocalTick => r     (* dispatched in [handle]: needs the recursion *)
  | H_handleRestoreRemote => restore_remotes r (m_snapshot m)
  | H_handleLogQuery => handle_log_query r m
  | H_handleFollowerPropose | H_handleNonVotingPropose => handle_follower_propose r m
  | H_handleFollowerReplicate | H_handleNonVotingReplicate | H_handleWitnessReplicate =>
      handle_replicate_message (leader_is_available r m) m
  | H_handleFollowerHeartbeat | H_handleNonVotingHeartbeat | H_handleWitnessHeartbeat =>
      handle_heartbeat_message (leader_is_available r m) m
  | H_handleFollowerReadIndex | H_handleNonVotingReadIndex => handle_follower_read_index r m
  | H_handleFollowerLeaderTransfer => handle_follower_leader_transfer r m
  | H_handleFollowerReadIndexResp | H_handleNonVotingReadIndexResp => handle_follower_read_index_resp r m
  | H_handleFollowerInstallSnapshot | H_handleNonVotingSnapshot | H_handleWitnessSnapshot =>
      handle_install_snapshot_message (leader_is_available r m) m
  | H_handleFollowerTimeoutNow => r   (* dispatched in [handle] *)
  | H_handleLeaderHeartbeat => broadcast_heartbeat r
  | H_handleLeaderCheckQuorum => handle_leader_check_quorum r
  | H_handleLeaderPropose => handle_leader_propose r m
  | H_handleLeaderReadIndex => handle_leader_read_index r m
  | H_handleLeaderReplicateResp => with_peer handle_leader_replicate_resp
  | H_handleLeaderHeartbeatResp => with_peer handle_leader_heartbeat_resp
  | H_handleLeaderSnapshotStatus => with_peer handle_leader_snapshot_status
  | H_handleLeaderUnreachable => with_peer handle_leader_unreachable
  | H_handleLeaderTransfer => handle_leader_transfer r m
  | H_handleLeaderRateLimit => r
  end.

(* onMessageTermNotMatched: returns (raft, ignore) *)
Definition drop_request_vote_from_high_term (r : raft) (m : msg) : raft * bool :=
  if negb (is_request_vote_message (m_type m)) || negb (r_check_quorum r) || (m_term m <=? r_term r)
  then (r, false)
  else if m_hint m =? m_from m then (r, false)
  else if is_leader r && negb (r_quiesce r) && (r_election_timeout r <=? r_election_tick r) then (panic r, false)
  else if negb (r_leader r =? 0) && (r_election_tick r <? r_election_timeout r) then (r, true)
  else (r, false).

Definition on_message_term_not_matched (r : raft) (m : msg) : raft * bool :=
  if (m_term m =? 0) || (m_term m =? r_term r) then (r, false)
  else
    let '(r0, drop) := drop_request_vote_from_high_term r m in
    if drop then (r0, true)
    else if r_term r0 <? m_term m then
      if gen_isPreVoteMessageWithExpectedHigherTerm (m_reject m) (m_type m)
      then (r0, false)
      else
        let lid := if is_leader_message (m_type m) then m_from m else 0 in
        if is_nonvoting r0 then (become_nonvoting r0 (m_term m) lid, false)
        else if is_witness r0 then (become_witness r0 (m_term m) lid, false)
        else if m_type m =? mt_RequestVote then (become_follower_ke r0 (m_term m) lid, false)
        else (become_follower r0 (m_term m) lid, false)
    else
      if (m_type m =? mt_RequestPreVote) ||
         (is_leader_message (m_type m) && (r_check_quorum r0 || r_prevote r0))
      then (send r0 ((msg0 mt_NoOP) <| m_to := m_from m |>), true)
      else (r0, true).

Definition quiesced_tick (r : raft) : raft :=
  (r <| r_quiesce := true |>) <| r_election_tick := r_election_tick r + 1 |>.

(* raft.Handle with explicit recursion fuel: Handle -> tick -> Handle(Election/CheckQuorum/
   LeaderHeartbeat/SnapshotStatus) nests at most three deep *)
Fixpoint handle (fuel : nat) (r : raft) (m : msg) : raft :=
  match fuel with
  | O => panic r
  | S f =>
    if r_panic r then r
    else if negb (r_prevote r) && is_prevote_message (m_type m) then panic r
    else
      let '(r1, ignore) := on_message_term_not_matched r m in
      if ignore || r_panic r1 then r1
      else if negb (is_prevote_message (m_type m)) && negb (m_term m =? 0) && negb (r_term r1 =? m_term m)
      then panic r1
      else
        let h := handler_of (role_num (r_role r1)) (m_type m) in
        match h with
        | H_handleLocalTick => if m_reject m then quiesced_tick r1 else tick f r1
        | H_handleFollowerTimeoutNow =>
          let r2 := tick f (r1 <| r_election_tick := r_rand_timeout r1 |> <| r_is_transfer_target := true |>) in
          r2 <| r_is_transfer_target := false |>
        | _ => run_handler h r1 m
        end
  end
with tick (fuel : nat) (r : raft) : raft :=
  match fuel with
  | O => panic r
  | S f =>
    let r0 := r <| r_quiesce := false |> <| r_tick_count := r_tick_count r + 1 |> in
    if is_leader r0 then
      (* leaderTick *)
      let r1 := r0 <| r_election_tick := r_election_tick r0 + 1 |> in
      let abort := gen_timeToAbortLeaderTransfer (r_election_tick r1) (r_election_timeout r1) (leader_transfering r1) in
      let r2 := if gen_timeForCheckQuorum (r_election_tick r1) (r_election_timeout r1) then
                  let r1' := r1 <| r_election_tick := 0 |> in
                  if r_check_quorum r1' then handle f r1' ((msg0 mt_CheckQuorum) <| m_from := r_id r1' |>) else r1'
                else r1 in
      let r3 := if abort then r2 <| r_transfer_target := 0 |> else r2 in
      let r4 := r3 <| r_heartbeat_tick := r_heartbeat_tick r3 + 1 |> in
      let r5 := if gen_timeForHeartbeat (r_heartbeat_tick r4) (r_heartbeat_timeout r4) then
                  handle f (r4 <| r_heartbeat_tick := 0 |>) ((msg0 mt_LeaderHeartbeat) <| m_from := r_id r4 |>)
                else r4 in
      check_pending_snapshot_ack f r5
    else
      (* nonLeaderTick *)
      let r1 := r0 <| r_election_tick := r_election_tick r0 + 1 |> in
      if is_nonvoting r1 || is_witness r1 then r1
      else if negb (self_removed r1) && gen_timeForElection (r_election_tick r1) (r_rand_timeout r1) then
        handle f (r1 <| r_election_tick := 0 |>) ((msg0 mt_Election) <| m_from := r_id r1 |>)
      else r1
  end
with check_pending_snapshot_ack (fuel : nat) (r : raft) : raft :=
  match fuel with
  | O => panic r
  | S f =>
    if is_leader r && r_snapshotting r then
      let step := fun (k : pkind) (acc : raft) (id : N) =>
        match find_peer acc id with
        | Some (k', rp) =>
          match rm_state rp with
          | RSnapshot =>
            if 0 <? rm_ack_tick rp then
              let rp1 := rp <| rm_ack_tick := rm_ack_tick rp - 1 |> in
              if rm_ack_tick rp1 =? 0 then
                let acc1 := set_peer acc k' id rp1 in
                let acc2 := handle f acc1 ((msg0 mt_SnapshotStatus) <| m_from := id |> <| m_reject := rm_ack_rej rp1 |>) in
                match find_peer acc2 id with
                | Some (k2, rp2) => set_peer acc2 k2 id (rm_clear_ack rp2)
                | None => acc2
                end
              else (set_peer acc k' id rp1) <| r_snapshotting := true |>
            else acc <| r_snapshotting := true |>
          | _ => acc
          end
        | None => acc
        end in
      let r0 := r <| r_snapshotting := false |> in
      let r1 := fold_left (step KRemote) (akeys (r_remotes r0)) r0 in
      let r2 := fold_left (step KNonVoting) (akeys (r_nonvotings r1)) r1 in
      fold_left (step KWitness) (akeys (r_witnesses r2)) r2
    else r
  end.

Definition handle_fuel : nat := 6.
Definition raft_handle (r : raft) (m : msg) : raft := handle handle_fuel r m.

(* Peer.Handle: local message types panic; responses from unknown replicas are dropped *)
Definition peer_handle (r : raft) (m : msg) : raft :=
  if is_local_message_type (m_type m) then panic r
  else if amem (m_from m) (r_remotes r) || amem (m_from m) (r_nonvotings r) ||
          amem (m_from m) (r_witnesses r) || negb (is_response_message_type (m_type m))
       then raft_handle r m
       else r.

(* ------------------------------------------------------------------ *)
(* Peer API used by the simulator *)

Definition peer_tick (r : raft) : raft := raft_handle r (msg0 mt_LocalTick).
Definition peer_quiesced_tick (r : raft) : raft := raft_handle r ((msg0 mt_LocalTick) <| m_reject := true |>).
Definition peer_propose (r : raft) (ents : list entry) : raft :=
  raft_handle r ((msg0 mt_Propose) <| m_from := r_id r |> <| m_entries := ents |>).
Definition peer_propose_cc (r : raft) (key : N) (cmd : list N) : raft :=
  raft_handle r ((msg0 mt_Propose) <| m_entries := [mkEnt 0 0 et_ConfigChangeEntry key 0 0 0 cmd] |>).
Definition peer_apply_cc (r : raft) (cctype id : N) : raft :=
  if id =? 0 then r <| r_pending_cc := false |>
  else raft_handle r ((msg0 mt_ConfigChangeEvent) <| m_hint := id |> <| m_hinthigh := cctype |>).
Definition peer_reject_cc (r : raft) : raft :=
  raft_handle r ((msg0 mt_ConfigChangeEvent) <| m_reject := true |>).
Definition peer_read_index (r : raft) (ctx : N * N) : raft :=
  raft_handle r ((msg0 mt_ReadIndex) <| m_hint := fst ctx |> <| m_hinthigh := snd ctx |>).
Definition peer_query_raft_log (r : raft) (low high : N) : raft :=
  raft_handle r ((msg0 mt_LogQuery) <| m_from := low |> <| m_to := high |>).
Definition peer_leader_transfer (r : raft) (target : N) : raft :=
  raft_handle r ((msg0 mt_LeaderTransfer) <| m_to := r_id r |> <| m_hint := target |>).
Definition peer_restore_remotes (r : raft) (s : snapshot) : raft :=
  raft_handle r ((msg0 mt_SnapshotReceived) <| m_snapshot := s |>).
Definition peer_unreachable (r : raft) (id : N) : raft :=
  raft_handle r ((msg0 mt_Unreachable) <| m_from := id |>).
Definition peer_snapshot_status (r : raft) (id : N) (reject : bool) : raft :=
  raft_handle r ((msg0 mt_SnapshotStatus) <| m_from := id |> <| m_reject := reject |>).

(* the Update handed to the engine (peer.go getUpdate + setFastApply + getUpdateCommit) *)
Record update := mkUpdate {
  u_state : option (N * N * N);
  u_entries_to_save : list entry;
  u_committed_entries : list entry;
  u_more : bool;
  u_snapshot : option snapshot;
  u_ready : list (N * (N * N));
  u_msgs : list msg;
  u_dropped_entries : list entry;
  u_dropped_reads : list (N * N);
  u_leader_update : option (N * N);
  u_fast_apply : bool;
  u_invalid : bool }.   (* validateUpdate would panic *)

Definition entries_to_save (l : rlog) : list entry :=
  if log_last l <? l_saved_to l + 1 then []
  else if l_saved_to l + 1 <? log_first l then l_ents l   (* cannot happen: savedTo >= marker *)
  else skipn (N.to_nat (l_saved_to l + 1 - log_first l)) (l_ents l).

Definition entries_to_apply (l : rlog) : list entry :=
  let fna := N.max (l_processed l + 1) (log_first l) in
  if fna <? l_committed l + 1 then log_entries_range l fna (l_committed l + 1) else [].

Definition last_index_of (ents : list entry) : N :=
  match rev ents with e :: _ => e_index e | [] => 0 end.
Definition first_index_of (ents : list entry) : N :=
  match ents with e :: _ => e_index e | [] => 0 end.

Definition get_update (r : raft) (more_to_apply : bool) : update :=
  let l := r_log r in
  let save := entries_to_save l in
  let apply := if more_to_apply then entries_to_apply l else [] in
  let st := raft_state r in
  let '(t, v, c) := st in
  let '(pt, pv, pc) := r_prev_state r in
  let changed := negb ((t =? pt) && (v =? pv) && (c =? pc)) in
  let more := match apply with [] => false | _ => last_index_of apply <? l_committed l end in
  let fast0 := match l_pending_snap l with Some _ => false | None => true end in
  let fast := fast0 && negb (match apply, save with
                             | _ :: _, _ :: _ =>
                               (first_index_of save <=? last_index_of apply) &&
                               (last_index_of apply <=? last_index_of save)
                             | _, _ => false end) in
  let invalid :=
    (match apply with
     | _ :: _ => (0 <? c) && (c <? last_index_of apply)
     | [] => false end) ||
    (match apply, save with
     | _ :: _, _ :: _ => last_index_of save <? last_index_of apply
     | _, _ => false end) in
  mkUpdate (if changed then Some st else None) save apply more (l_pending_snap l)
           (r_ready r) (r_msgs r) (r_dropped_entries r) (r_dropped_reads r) (r_leader_update r)
           fast invalid.

(* Peer.Commit(ud) with the UpdateCommit computed by getUpdateCommit, followed in the
   simulator by the persistence of the update (atomic with it) *)
Definition commit_update (r : raft) (u : update) (last_applied : N) : raft :=
  let l := r_log r in
  let processed0 := match u_committed_entries u with [] => 0 | es => last_index_of es end in
  let stable_snap := match u_snapshot u with Some s => ss_index s | None => 0 end in
  let processed := N.max processed0 stable_snap in
  (* inmem.commitUpdate: savedLogTo *)
  let l1 := match u_entries_to_save u with
            | [] => l
            | es => let i := last_index_of es in
                    let t := match rev es with e :: _ => e_term e | [] => 0 end in
                    if (log_last l <? i) || (i <? log_first l) then l
                    else if log_term l i =? t then l <| l_saved_to := i |> else l
            end in
  let l2 := match l_pending_snap l1 with
            | Some s => if ss_index s =? stable_snap
                        then l1 <| l_pending_snap := None |> <| l_snapshot := s |> else l1
            | None => l1 end in
  let bad := ((0 <? processed) && ((processed <? l_processed l2) || (l_committed l2 <? processed))) ||
             ((0 <? last_applied) && ((l_committed l2 <? last_applied) ||
                                       ((if 0 <? processed then processed else l_processed l2) <? last_applied))) in
  let l3 := if 0 <? processed then l2 <| l_processed := processed |> else l2 in
  let r1 := r <| r_msgs := [] |> <| r_log_query := None |> <| r_leader_update := None |> <| r_dropped_entries := [] |>
              <| r_dropped_reads := [] |> <| r_log := l3 |> in
  let r2 := match u_state u with Some st => r1 <| r_prev_state := st |> | None => r1 end in
  let r3 := match u_ready u with [] => r2 | _ => r2 <| r_ready := [] |> end in
  if bad then panic r3 else r3.

(* LogReader.CreateSnapshot + Compact as issued by the node after a snapshot was saved *)
Definition log_compact (l : rlog) (s : snapshot) (compact_to : N) : rlog :=
  let l1 := if ss_index (l_snapshot l) <? ss_index s then l <| l_snapshot := s |> else l in
  if (compact_to <? l_marker l1) || (log_last l1 <? compact_to) then l1
  else
    let t := log_term l1 compact_to in
    l1 <| l_ents := skipn (N.to_nat (compact_to - l_marker l1)) (l_ents l1) |>
       <| l_marker := compact_to |> <| l_marker_term := t |>.

(* newRaft on a fresh or restarted replica. [members] = membership of the snapshot in the
   log reader; [st] = persisted hard state (term, vote, commit) if any *)
Definition new_raft (id : N) (kind : role) (et ht : N) (cq pv : bool)
           (l : rlog) (addrs nonvotings witnesses : list N) (st : option (N * N * N)) (oracle : N) : raft :=
  let mk := fun ids => fold_left (fun m i => ainsert i (new_remote 0 1) m) ids [] in
  let r0 := mkRaft id Follower 0 0 0 0 l (mk addrs) (mk nonvotings) (mk witnesses) [] [] [] [] [] []
                   0 false false 0 0 et ht 0 cq pv false false 0 None (0, 0, 0) oracle None false in
  let r1 := match st with
            | Some (t, v, c) =>
              if (c <? l_committed l) || (log_last l <? c) then panic r0
              else r0 <| r_term := t |> <| r_vote := v |> <| r_log := l <| l_committed := c |> |>
            | None => r0 end in
  let r2 := match kind with
            | NonVoting => become_nonvoting (r1 <| r_role := NonVoting |>) (r_term r1) 0
            | Witness => become_witness (r1 <| r_role := Witness |>) (r_term r1) 0
            | _ => become_follower r1 (r_term r1) 0
            end in
  r2 <| r_prev_state := raft_state r2 |>.
