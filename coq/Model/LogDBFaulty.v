(* C10 — the Pebble-backed log db (Model/LogDBPlain.v, Model/LogDBBatched.v) re-stated over a
   KV store that can FAIL or CRASH at a chosen call.

   The KV calls the db makes (internal/logdb/kv/kv.go): GetValue, IterateValue (reads),
   CommitWriteBatch, BulkRemoveEntries (writes).  Every call is counted; the oracle
   [f_fault = Some (n, ft)] makes the call with index n
     FtErr          return an I/O error, nothing is applied,
     FtCrashBefore  kill the process before the call takes effect,
     FtCrashAfter   kill the process after the call took effect but before it returned.
   A write batch is applied entirely or not at all (kv_commit on the durable map or nothing):
   the Pebble assumption (synced atomic batches; the regenerated fact c10_commit_sync).
   Every call is appended to the trace [f_trace] (newest first) with its arguments, the
   write batch included: the real call sequence of the implementation is compared with it.

   The model follows the CODE, including its treatment of errors.  Two places are
   parameters (regenerated from the source into Gen/GenC10.v and passed in by the
   *_cur definitions at the end):
     fl_save / fl_snap  db.saveRaftState / db.saveSnapshots: `if err := r.saveSnapshot(wb, ud);
         err != nil` returns the error (true) or returns nil = SUCCESS with nothing
         committed (false, the code before the repair, finding F1);
     fl_batch  batchedEntries: a failed GetValue of the stored first batch is propagated (true)
         or taken for "no such batch" (false, the code before the repair, finding F2).

   Results of an operation: FOk | FErr (error returned: the engine panics) | FPanic |
   FCrash.  After anything but FOk the process is gone: the next thing that happens to
   the store is recovery = reopen on the durable map with an empty cache.
   No proofs in this file. *)
From Coq Require Import List NArith Bool.
From DB Require Import Base.Bytes Gen.GenC09 Gen.GenC10 Model.LogStoreSpec Model.KV
  Model.LogDBPlain Model.LogDBBatched.
Import ListNotations.
Open Scope N_scope.

Inductive fault := FtErr | FtCrashBefore | FtCrashAfter.

Inductive kvcall :=
| CGet (k : key)
| CIter (fk lk : key) (inc : bool)
| CCommit (w : wb)
| CDelRange (fk lk : key).

Record fstate := mkF { f_calls : N; f_fault : option (N * fault); f_trace : list kvcall }.

Inductive cres (A : Type) := CVal (a : A) | CIOErr | CCrash.
Arguments CVal {A} a.
Arguments CIOErr {A}.
Arguments CCrash {A}.

Definition firing (s : fstate) : option fault :=
  match f_fault s with
  | Some (n, ft) => if f_calls s =? n then Some ft else None
  | None => None
  end.
Definition tick (c : kvcall) (s : fstate) : fstate := mkF (f_calls s + 1) (f_fault s) (c :: f_trace s).

(* a read call whose fault-free answer is v *)
Definition rd {A} (c : kvcall) (v : A) (s : fstate) : cres A * fstate :=
  (match firing s with None => CVal v | Some FtErr => CIOErr | Some _ => CCrash end, tick c s).

(* a write call that turns the durable map m into m' *)
Inductive wres := WOk | WIOErr | WCrash.
Definition wr (c : kvcall) (m m' : kv) (s : fstate) : wres * kv * fstate :=
  match firing s with
  | None => (WOk, m', tick c s)
  | Some FtErr => (WIOErr, m, tick c s)
  | Some FtCrashBefore => (WCrash, m, tick c s)
  | Some FtCrashAfter => (WCrash, m', tick c s)
  end.

Inductive fres := FOk | FErr | FPanic | FCrash.
Definition fres_of (r : wres) : fres := match r with WOk => FOk | WIOErr => FErr | WCrash => FCrash end.

Record fdb := mkFD { d_kv : kv; d_cache : cache; d_st : fstate }.
Definition fdb_init (ft : option (N * fault)) : fdb := mkFD [] cache_empty (mkF 0 ft []).
Definition pdb_of (d : fdb) : pdb := mkDB (d_kv d) (d_cache d).
(* recovery: reopen on the durable map *)
Definition recovered (d : fdb) : pdb := mkDB (d_kv d) cache_empty.

(* db.listSnapshots: one IterateValue *)
Definition iter_snapshots (n : nid) : kvcall := CIter (KSnapshot n 0) (KSnapshot n u64max) true.
Definition list_snapshots_f (m : kv) (n : nid) (s : fstate) : cres (option (list snapshot)) * fstate :=
  rd (iter_snapshots n) (list_snapshots m n) s.

(* db.saveSnapshot *)
Definition save_snapshot_wb_f (m : kv) (n : nid) (ss : snapshot) (s : fstate) : cres (option wb) * fstate :=
  if ss_emptyb ss then (CVal (Some []), s)
  else rd (iter_snapshots n) (save_snapshot_wb m n ss) s.

(* intermediate results of the staging loops: HIOErr carries the cache as it is when
   the error is noticed *)
Inductive hres (A : Type) := HOk (a : A) | HPanic | HIOErr (c : cache) | HCrash.
Arguments HOk {A} a.
Arguments HPanic {A}.
Arguments HIOErr {A} c.
Arguments HCrash {A}.

Definition head_state (c : cache) (u : update) : cache * wb :=
  if st_emptyb (u_st u) then (c, [])
  else let (c', changed) := cs_set_state c (u_node u) (u_st u) in
       (c', if changed then [WPut (KState (u_node u)) (VState (u_st u))] else []).

(* the first loop of saveRaftState for one update *)
Definition save_head_f (m : kv) (c : cache) (u : update) (s : fstate) : hres (cache * wb) * fstate :=
  let n := u_node u in
  let '(c1, w1) := head_state c u in
  if ss_emptyb (u_ss u) then (HOk (c1, w1), s)
  else
    let (c2, ok) := cs_try_save_snapshot c1 n (ss_index (u_ss u)) in
    if ok then
      if negb (match u_ents u with [] => true | _ => false end)
         && (last_index (u_ents u) <? ss_index (u_ss u))
      then (HPanic, s)
      else match save_snapshot_wb_f m n (u_ss u) s with
           | (CVal None, s1) => (HPanic, s1)
           | (CVal (Some w2), s1) =>
             (HOk (cs_set_max_index c2 n (ss_index (u_ss u)),
                   w1 ++ w2 ++ [WPut (KMaxIndex n) (VMax (ss_index (u_ss u)))]), s1)
           | (CIOErr, s1) => (HIOErr c2, s1)
           | (CCrash, s1) => (HCrash, s1)
           end
    else (HOk (c2, w1), s).

Fixpoint save_heads_f (m : kv) (c : cache) (us : list update) (s : fstate) : hres (cache * wb) * fstate :=
  match us with
  | [] => (HOk (c, []), s)
  | u :: t =>
    match save_head_f m c u s with
    | (HOk (c1, w1), s1) =>
      match save_heads_f m c1 t s1 with
      | (HOk (c2, w2), s2) => (HOk (c2, w1 ++ w2), s2)
      | r => r
      end
    | r => r
    end
  end.

(* ---- batched format: batchedEntries.record reads the stored first batch ---- *)

Definition b_merged_first_f (f2 : bool) (m : kv) (cn : cnode) (n : nid) (eb : list entry) (s : fstate)
  : cres (option (list entry)) * fstate :=
  match eb with
  | [] => (CVal None, s)
  | e0 :: _ =>
    if e_index e0 mod bsz =? 0 then (CVal (Some eb), s)
    else
      let bid := batch_id (e_index e0) in
      let from_db :=
        match rd (CGet (KBatch n bid)) (get_batch_from_db m n bid) s with
        | (CVal None, s1) => (CVal None, s1)
        | (CVal (Some None), s1) => (CVal (Some eb), s1)
        | (CVal (Some (Some lb)), s1) => (CVal (merge_first_batch eb lb), s1)
        | (CIOErr, s1) => if f2 then (CIOErr, s1) else (CVal (Some eb), s1)
        | (CCrash, s1) => (CCrash, s1)
        end in
      match c_batch cn with
      | Some (l0 :: lr) =>
        if bid <? batch_id (e_index l0) then from_db else (CVal (merge_first_batch eb (l0 :: lr)), s)
      | Some [] => (CVal None, s)
      | None => from_db
      end
  end.

Fixpoint record_groups_f (f2 : bool) (m : kv) (n : nid) (first_id last_id : N) (cn : cnode)
    (gs : list (list entry)) (s : fstate) : cres (option (cnode * wb)) * fstate :=
  match gs with
  | [] => (CVal (Some (cn, [])), s)
  | g :: rest =>
    match g with
    | [] => record_groups_f f2 m n first_id last_id cn rest s
    | e0 :: _ =>
      let bid := batch_id (e_index e0) in
      match (if first_id =? bid then b_merged_first_f f2 m cn n g s else (CVal (Some g), s)) with
      | (CVal None, s1) => (CVal None, s1)
      | (CVal (Some meb), s1) =>
        let cn1 := if last_id =? bid then mkC (c_state cn) (c_max cn) (c_snap cn) (Some meb) else cn in
        match record_groups_f f2 m n first_id last_id cn1 rest s1 with
        | (CVal (Some (cn2, w)), s2) =>
          (CVal (Some (cn2, WPut (KBatch n bid) (VBatch (compact_if_many meb)) :: w)), s2)
        | r => r
        end
      | (CIOErr, s1) => (CIOErr, s1)
      | (CCrash, s1) => (CCrash, s1)
      end
    end
  end.

Definition b_record_f (f2 : bool) (m : kv) (c : cache) (n : nid) (es : list entry) (s : fstate)
  : cres (option (cache * wb * N)) * fstate :=
  match es with
  | [] => (CVal None, s)
  | e0 :: _ =>
    match record_groups_f f2 m n (batch_id (e_index e0)) (batch_id (e_index (last es e0))) (c n)
            (split_batches [] es) s with
    | (CVal None, s1) => (CVal None, s1)
    | (CVal (Some (cn, w)), s1) => (CVal (Some (cupd c n cn, w, max_entry_index 0 es)), s1)
    | (CIOErr, s1) => (CIOErr, s1)
    | (CCrash, s1) => (CCrash, s1)
    end
  end.

Definition b_save_tail_f (f2 : bool) (m : kv) (c : cache) (u : update) (s : fstate) : hres (cache * wb) * fstate :=
  match u_ents u with
  | [] => (HOk (c, []), s)
  | es =>
    match b_record_f f2 m c (u_node u) es s with
    | (CVal None, s1) => (HPanic, s1)
    | (CVal (Some (c1, w, mi)), s1) =>
      if 0 <? mi then (HOk (cs_set_max_index c1 (u_node u) mi, w ++ [WPut (KMaxIndex (u_node u)) (VMax mi)]), s1)
      else (HOk (c1, w), s1)
    | (CIOErr, s1) => (HIOErr c, s1)
    | (CCrash, s1) => (HCrash, s1)
    end
  end.
Fixpoint b_save_tails_f (f2 : bool) (m : kv) (c : cache) (us : list update) (s : fstate) : hres (cache * wb) * fstate :=
  match us with
  | [] => (HOk (c, []), s)
  | u :: t =>
    match b_save_tail_f f2 m c u s with
    | (HOk (c1, w1), s1) =>
      match b_save_tails_f f2 m c1 t s1 with
      | (HOk (c2, w2), s2) => (HOk (c2, w1 ++ w2), s2)
      | r => r
      end
    | r => r
    end
  end.

(* the second loop (saveEntries): the plain format makes no KV call *)
Definition save_tails_f (batched f2 : bool) (m : kv) (c : cache) (us : list update) (s : fstate)
  : hres (cache * wb) * fstate :=
  if batched then b_save_tails_f f2 m c us s
  else (HOk (save_tails plain_record c us), s).

(* `if wb.Count() > 0 { return r.kvs.CommitWriteBatch(wb) }; return nil` *)
Definition commit_f (d : fdb) (c : cache) (w : wb) (s : fstate) : fres * fdb :=
  match w with
  | [] => (FOk, mkFD (d_kv d) c s)
  | _ => let '(r, m', s1) := wr (CCommit w) (d_kv d) (kv_commit (d_kv d) w) s in
         (fres_of r, mkFD m' c s1)
  end.

(* db.saveRaftState *)
Definition f_save_raft_state (batched f1 f2 : bool) (d : fdb) (us : list update) : fres * fdb :=
  match save_heads_f (d_kv d) (d_cache d) us (d_st d) with
  | (HPanic, s1) => (FPanic, mkFD (d_kv d) (d_cache d) s1)
  | (HCrash, s1) => (FCrash, mkFD (d_kv d) (d_cache d) s1)
  | (HIOErr c, s1) => (if f1 then FErr else FOk, mkFD (d_kv d) c s1)
  | (HOk (c1, w1), s1) =>
    match save_tails_f batched f2 (d_kv d) c1 us s1 with
    | (HPanic, s2) => (FPanic, mkFD (d_kv d) c1 s2)
    | (HCrash, s2) => (FCrash, mkFD (d_kv d) c1 s2)
    | (HIOErr c, s2) => (FErr, mkFD (d_kv d) c s2)
    | (HOk (c2, w2), s2) => commit_f d c2 (w1 ++ w2) s2
    end
  end.

(* db.saveSnapshots *)
Fixpoint save_snapshots_wb_f (m : kv) (c : cache) (us : list update) (s : fstate) : hres (cache * wb) * fstate :=
  match us with
  | [] => (HOk (c, []), s)
  | u :: t =>
    if ss_emptyb (u_ss u) then save_snapshots_wb_f m c t s
    else let (c1, ok) := cs_try_save_snapshot c (u_node u) (ss_index (u_ss u)) in
         if ok then
           match save_snapshot_wb_f m (u_node u) (u_ss u) s with
           | (CVal None, s1) => (HPanic, s1)
           | (CVal (Some w1), s1) =>
             match save_snapshots_wb_f m c1 t s1 with
             | (HOk (c2, w2), s2) => (HOk (c2, w1 ++ w2), s2)
             | r => r
             end
           | (CIOErr, s1) => (HIOErr c1, s1)
           | (CCrash, s1) => (HCrash, s1)
           end
         else save_snapshots_wb_f m c1 t s
  end.
Definition f_save_snapshots (f1 : bool) (d : fdb) (us : list update) : fres * fdb :=
  match save_snapshots_wb_f (d_kv d) (d_cache d) us (d_st d) with
  | (HPanic, s1) => (FPanic, mkFD (d_kv d) (d_cache d) s1)
  | (HCrash, s1) => (FCrash, mkFD (d_kv d) (d_cache d) s1)
  | (HIOErr c, s1) => (if f1 then FErr else FOk, mkFD (d_kv d) c s1)
  | (HOk (c1, w), s1) => commit_f d c1 w s1
  end.

(* db.removeEntriesTo: one BulkRemoveEntries (the batched format skips it for the first two batches) *)
Definition f_remove_entries_to (batched : bool) (d : fdb) (n : nid) (idx : N) : fres * fdb :=
  if batched then
    let bid := batch_id idx in
    if (bid =? 0) || (bid =? 1) then (FOk, d)
    else let '(r, m', s1) := wr (CDelRange (KBatch n 0) (KBatch n (bid - 1))) (d_kv d)
                                (kv_del_range (d_kv d) (KBatch n 0) (KBatch n (bid - 1))) (d_st d) in
         (fres_of r, mkFD m' (d_cache d) s1)
  else let '(r, m', s1) := wr (CDelRange (KEntry n 0) (KEntry n idx)) (d_kv d)
                              (kv_del_range (d_kv d) (KEntry n 0) (KEntry n idx)) (d_st d) in
       (fres_of r, mkFD m' (d_cache d) s1).

(* db.removeNodeData: IterateValue, CommitWriteBatch, then the cache, then BulkRemoveEntries *)
Definition f_remove_node_data (batched : bool) (d : fdb) (n : nid) : fres * fdb :=
  match list_snapshots_f (d_kv d) n (d_st d) with
  | (CVal None, s1) => (FPanic, mkFD (d_kv d) (d_cache d) s1)
  | (CIOErr, s1) => (FErr, mkFD (d_kv d) (d_cache d) s1)
  | (CCrash, s1) => (FCrash, mkFD (d_kv d) (d_cache d) s1)
  | (CVal (Some l), s1) =>
    let w := remove_node_wb n l in
    match wr (CCommit w) (d_kv d) (kv_commit (d_kv d) w) s1 with
    | (WOk, m1, s2) =>
      let c1 := cs_remove_node_data (cs_set_max_index (d_cache d) n 0) n in
      f_remove_entries_to batched (mkFD m1 c1 s2) n u64max
    | (r, m1, s2) => (fres_of r, mkFD m1 (d_cache d) s2)
    end
  end.

(* db.importSnapshot: two IterateValue (listSnapshots, then saveSnapshot lists again), one commit *)
Definition f_import_snapshot (d : fdb) (n : nid) (ss : snapshot) : fres * fdb :=
  match list_snapshots_f (d_kv d) n (d_st d) with
  | (CVal None, s1) => (FPanic, mkFD (d_kv d) (d_cache d) s1)
  | (CIOErr, s1) => (FErr, mkFD (d_kv d) (d_cache d) s1)
  | (CCrash, s1) => (FCrash, mkFD (d_kv d) (d_cache d) s1)
  | (CVal (Some l), s1) =>
    let selected := filter (fun cur => ss_index ss <=? ss_index cur) l in
    let w1 := remove_node_wb n selected
              ++ [WPut (KBootstrap n) VBoot;
                  WPut (KState n) (VState (mkSt (ss_term ss) 0 (ss_index ss)))] in
    match save_snapshot_wb_f (d_kv d) n ss s1 with
    | (CVal None, s2) => (FPanic, mkFD (d_kv d) (d_cache d) s2)
    | (CIOErr, s2) => (FErr, mkFD (d_kv d) (d_cache d) s2)
    | (CCrash, s2) => (FCrash, mkFD (d_kv d) (d_cache d) s2)
    | (CVal (Some w2), s2) =>
      let w := w1 ++ w2 ++ [WPut (KMaxIndex n) (VMax (ss_index ss))] in
      let '(r, m', s3) := wr (CCommit w) (d_kv d) (kv_commit (d_kv d) w) s2 in
      (fres_of r, mkFD m' (d_cache d) s3)
    end
  end.

Definition f_reopen (d : fdb) : fdb := mkFD (d_kv d) cache_empty (d_st d).

(* which of the two repairs the code contains *)
Record flags := mkFl { fl_save : bool; fl_snap : bool; fl_batch : bool }.
Definition all_fixed : flags := mkFl true true true.

Definition f_step (batched : bool) (fl : flags) (d : fdb) (o : op) : fres * fdb :=
  match o with
  | OSave us => f_save_raft_state batched (fl_save fl) (fl_batch fl) d us
  | OSnap n ss => f_save_snapshots (fl_snap fl) d [mk_snap_update n ss]
  | ORemTo n idx => f_remove_entries_to batched d n idx
  | ORemNode n => f_remove_node_data batched d n
  | OImport n ss =>
    match f_import_snapshot (f_reopen d) n ss with
    | (FOk, d') => (FOk, f_reopen d')
    | r => r
    end
  | OReopen => (FOk, f_reopen d)
  end.

(* a run stops at the first operation that does not return success: the number of
   acknowledged operations, the result of the one in flight (FOk = the list ended), the state *)
Fixpoint f_run (batched : bool) (fl : flags) (d : fdb) (ops : list op) : nat * fres * fdb :=
  match ops with
  | [] => (O, FOk, d)
  | o :: t =>
    match f_step batched fl d o with
    | (FOk, d') => let '(k, r, d'') := f_run batched fl d' t in (S k, r, d'')
    | (r, d') => (O, r, d')
    end
  end.

(* the fault-free reference: the C09 models *)
Definition ref_step (batched : bool) : pdb -> op -> option pdb :=
  if batched then batched_step else plain_step.
Definition ref_run (batched : bool) (ops : list op) : option pdb :=
  fold_left (fun d o => match d with Some d => ref_step batched d o | None => None end) ops (Some pdb_init).

(* the calls an operation made: the new part of the trace, oldest first *)
Definition new_calls (before after : fstate) : list kvcall :=
  rev (firstn (length (f_trace after) - length (f_trace before)) (f_trace after)).
Definition is_write (c : kvcall) : bool :=
  match c with CCommit _ | CDelRange _ _ => true | _ => false end.

(* ---- the current code: the parameters regenerated from the source ---- *)
Definition cur_flags : flags :=
  mkFl c10_save_raft_state_propagates_snapshot_error
       c10_save_snapshots_propagates_snapshot_error
       c10_batch_read_error_propagates.
Definition f_step_cur (batched : bool) := f_step batched cur_flags.
Definition f_run_cur (batched : bool) := f_run batched cur_flags.
