(* Executable model of the gogo-protobuf style codecs of raftpb (and
   client.Session): a generic wire format (uvarint keys, wire types 0 and 2 on
   the encoding side; 0, 1, 2, 3/4 (groups), 5 on the skipping side) plus, per
   type, a schema  T_to_fields / T_step  and a transcription of Size().
   No proofs in this file.

   Go                                model
   encodeVarintRaft                  uvarint               (Base/Bytes.v)
   sovRaft                           sov
   the inlined varint loops          rd_varint             (10 bytes max, wraps mod 2^64)
   skipRaft                          skip_field
   T.MarshalTo                       T_encode t = enc_fields (T_to_fields t)
   T.Size                            T_size t              (separate computation)
   T.Unmarshal                       T_decode = parse the buffer into fields, then
                                     fold T_step over them starting from the zero value

   The Go decoders interleave parsing and field assignment; the model parses
   first and assigns afterwards.  All decoding errors are one outcome (None),
   so the verdict is the same.  Known deviations, all on malformed input only:
   * map entries (Membership, Bootstrap): Go parses the inner key/value fields
     against the end of the OUTER buffer and may read past the entry; the model
     confines them to the entry.
   * raft_optimized.go Message/MessageBatch.Unmarshal lack the postIndex<0 checks
     and pre-scan with entryCount/messageCount without bounds checks (Go panics
     on some malformed inputs where the model says None).
   Maps are association lists in encoding order (the harness sorts by key);
   nil and empty slices/maps are identified except for the `!= nil` guarded byte
   fields, which are [option bytes]. *)
From DB Require Export Base.Bytes Gen.GenC13 Model.CodecEntry.
Open Scope N_scope.

(* ---------- wire format ---------- *)

Definition sov (x : N) : N := 1 + varint_extra 9 x.

Inductive fval :=
| FV (x : N)            (* wire type 0 *)
| FB (b : bytes)        (* wire type 2 *)
| FSkip.                (* wire types 1, 3, 5: only ever skipped *)
Definition field := (N * fval)%type.

Definition key (num wt : N) : N := num * 8 + wt.

Definition enc_field (f : field) : bytes :=
  match f with
  | (n, FV x) => uvarint (key n 0) ++ uvarint x
  | (n, FB b) => uvarint (key n 2) ++ uvarint (nlen b) ++ b
  | (_, FSkip) => []
  end.

Definition enc_fields (fs : list field) : bytes := flat_map enc_field fs.

(* the inlined loops: for shift := 0; ; shift += 7 { if shift >= 64 -> overflow;
   if iNdEx >= l -> EOF; b := dAtA[iNdEx]; iNdEx++; x |= uint64(b&0x7F) << shift;
   if b < 0x80 { break } } *)
Definition rd_varint (d : bytes) : option (N * bytes) := declen 10 0 0 d.

(* skipRaft: number of bytes the field starting at [d] occupies (may exceed
   |d| for wire types 1, 2, 5: the caller checks) *)
Fixpoint skip_field (fuel : nat) (d : bytes) : option N :=
  match fuel with
  | O => None
  | S f =>
    match rd_varint d with
    | None => None
    | Some (wire, r) =>
      let used := nlen d - nlen r in
      match wire mod 8 with
      | 0 => match rd_varint r with
             | None => None
             | Some (_, r') => Some (nlen d - nlen r')
             end
      | 1 => Some (used + 8)
      | 2 => match rd_varint r with
             | None => None
             | Some (len, r') =>
               if 2 ^ 63 <=? len then None
               else let n := nlen d - nlen r' + len in
                    if 2 ^ 63 <=? n then None else Some n
             end
      | 3 => skip_group f r used
      | 4 => Some used
      | 5 => Some (used + 4)
      | _ => None
      end
    end
  end
with skip_group (fuel : nat) (d : bytes) (used : N) : option N :=
  match fuel with
  | O => None
  | S f =>
    match rd_varint d with
    | None => None
    | Some (iw, r) =>
      if iw mod 8 =? 4 then Some (used + (nlen d - nlen r))
      else match skip_field f d with
           | None => None
           | Some n => if nlen d <=? n then None
                       else skip_group f (skipn (N.to_nat n) d) (used + n)
           end
    end
  end.

(* fieldNum := int32(wire >> 3) *)
Definition field_num (wire : N) : Z := to_int32 ((wire / 8) mod 2 ^ 32).

Fixpoint parse (fuel : nat) (d : bytes) : option (list field) :=
  match d with
  | [] => Some []
  | _ =>
    match fuel with
    | O => None
    | S f =>
      match rd_varint d with
      | None => None
      | Some (wire, r) =>
        let wt := wire mod 8 in
        let fnum := field_num wire in
        if wt =? 4 then None
        else if (fnum <=? 0)%Z then None
        else
          let num := Z.to_N fnum in
          if wt =? 0 then
            match rd_varint r with
            | None => None
            | Some (x, r') =>
              match parse f r' with
              | None => None
              | Some fs => Some ((num, FV x) :: fs)
              end
            end
          else if wt =? 2 then
            match rd_varint r with
            | None => None
            | Some (len, r') =>
              if nlen r' <? len then None
              else let n := N.to_nat len in
                   match parse f (skipn n r') with
                   | None => None
                   | Some fs => Some ((num, FB (firstn n r')) :: fs)
                   end
            end
          else
            match skip_field (S (length d)) d with
            | None => None
            | Some n =>
              if nlen d <? n then None
              else match parse f (skipn (N.to_nat n) d) with
                   | None => None
                   | Some fs => Some ((num, FSkip) :: fs)
                   end
            end
      end
    end
  end.

Definition parse_all (d : bytes) : option (list field) := parse (length d) d.

(* fold a per-type step function over the parsed fields *)
Fixpoint fold_fields {T} (step : T -> field -> option T) (fs : list field) (t : T) : option T :=
  match fs with
  | [] => Some t
  | f :: r => match step t f with None => None | Some t' => fold_fields step r t' end
  end.

Definition decode_with {T} (step : T -> field -> option T) (zero : T) (d : bytes) : option T :=
  match parse_all d with
  | None => None
  | Some fs => fold_fields step fs zero
  end.

(* value conversions *)
Definition enc_i32 (z : Z) : N := Z.to_N (z mod 2 ^ 64).         (* uint64(int32) sign-extends *)
Definition dec_i32 (x : N) : Z := to_int32 (x mod 2 ^ 32).
Definition enc_bool (b : bool) : N := if b then 1 else 0.
Definition dec_bool (x : N) : bool := negb (x =? 0).
Definition dec_u32 (x : N) : N := x mod 2 ^ 32.

(* size helpers: fields with a 1-byte key / a 2-byte key *)
Definition szv (x : N) : N := 1 + sov x.
Definition szb (l : N) : N := 1 + l + sov l.
Definition szv2 (x : N) : N := 2 + sov x.
Definition szb2 (l : N) : N := 2 + l + sov l.
Definition sum_map {A} (f : A -> N) (l : list A) : N := fold_right (fun a acc => f a + acc) 0 l.

(* ---------- State ---------- *)
Record state := mkState { st_term : N; st_vote : N; st_commit : N }.
Definition state_zero := mkState 0 0 0.
Definition wf_state (s : state) : Prop := u64 (st_term s) /\ u64 (st_vote s) /\ u64 (st_commit s).
Definition state_to_fields (s : state) : list field :=
  [(1, FV (st_term s)); (2, FV (st_vote s)); (3, FV (st_commit s))].
Definition state_encode s := enc_fields (state_to_fields s).
Definition state_size (s : state) : N := szv (st_term s) + szv (st_vote s) + szv (st_commit s).
Definition state_step (s : state) (f : field) : option state :=
  match f with
  | (1, FV x) => Some (mkState x (st_vote s) (st_commit s))
  | (2, FV x) => Some (mkState (st_term s) x (st_commit s))
  | (3, FV x) => Some (mkState (st_term s) (st_vote s) x)
  | (1, _) | (2, _) | (3, _) => None
  | _ => Some s
  end.
Definition state_decode := decode_with state_step state_zero.
Definition state_size_upper : N := state_size_upper_limit.

(* ---------- client.Session ---------- *)
Record session := mkSession { ss_shard : N; ss_client : N; ss_series : N; ss_responded : N }.
Definition session_zero := mkSession 0 0 0 0.
Definition wf_session (s : session) : Prop :=
  u64 (ss_shard s) /\ u64 (ss_client s) /\ u64 (ss_series s) /\ u64 (ss_responded s).
Definition session_to_fields (s : session) : list field :=
  [(1, FV (ss_shard s)); (2, FV (ss_client s)); (3, FV (ss_series s)); (4, FV (ss_responded s))].
Definition session_encode s := enc_fields (session_to_fields s).
Definition session_size (s : session) : N :=
  szv (ss_shard s) + szv (ss_client s) + szv (ss_series s) + szv (ss_responded s).
Definition session_step (s : session) (f : field) : option session :=
  match f with
  | (1, FV x) => Some (mkSession x (ss_client s) (ss_series s) (ss_responded s))
  | (2, FV x) => Some (mkSession (ss_shard s) x (ss_series s) (ss_responded s))
  | (3, FV x) => Some (mkSession (ss_shard s) (ss_client s) x (ss_responded s))
  | (4, FV x) => Some (mkSession (ss_shard s) (ss_client s) (ss_series s) x)
  | (1, _) | (2, _) | (3, _) | (4, _) => None
  | _ => Some s
  end.
Definition session_decode := decode_with session_step session_zero.

(* ---------- ConfigChange ---------- *)
Record configchange := mkCC {
  cc_id : N; cc_type : Z; cc_replica : N; cc_address : bytes; cc_init : bool }.
Definition cc_zero := mkCC 0 0 0 [] false.
Definition wf_cc (c : configchange) : Prop :=
  u64 (cc_id c) /\ int32 (cc_type c) /\ u64 (cc_replica c) /\ nlen (cc_address c) < 2 ^ 63.
Definition cc_to_fields (c : configchange) : list field :=
  [(1, FV (cc_id c)); (2, FV (enc_i32 (cc_type c))); (3, FV (cc_replica c));
   (4, FB (cc_address c)); (5, FV (enc_bool (cc_init c)))].
Definition cc_encode c := enc_fields (cc_to_fields c).
Definition cc_size (c : configchange) : N :=
  szv (cc_id c) + szv (enc_i32 (cc_type c)) + szv (cc_replica c) + szb (nlen (cc_address c)) + 2.
Definition cc_step (c : configchange) (f : field) : option configchange :=
  match f with
  | (1, FV x) => Some (mkCC x (cc_type c) (cc_replica c) (cc_address c) (cc_init c))
  | (2, FV x) => Some (mkCC (cc_id c) (dec_i32 x) (cc_replica c) (cc_address c) (cc_init c))
  | (3, FV x) => Some (mkCC (cc_id c) (cc_type c) x (cc_address c) (cc_init c))
  | (4, FB b) => Some (mkCC (cc_id c) (cc_type c) (cc_replica c) b (cc_init c))
  | (5, FV x) => Some (mkCC (cc_id c) (cc_type c) (cc_replica c) (cc_address c) (dec_bool x))
  | (1, _) | (2, _) | (3, _) | (4, _) | (5, _) => None
  | _ => Some c
  end.
Definition cc_decode := decode_with cc_step cc_zero.

(* the optional byte fields are guarded in the Go code either by `x != nil`
   (generated guard = true: Some [] is written as an empty field) or by
   `len(x) > 0` (false: Some [] is not written); MarshalTo and Size() carry their
   own guard, regenerated from the source for each of them *)
Definition opt_present (guard_nil : bool) (o : option bytes) : option bytes :=
  if guard_nil then o else match o with Some [] => None | _ => o end.

(* ---------- SnapshotFile ---------- *)
Record snapshotfile := mkSF {
  sf_filepath : bytes; sf_filesize : N; sf_fileid : N; sf_metadata : option bytes }.
Definition sf_zero := mkSF [] 0 0 None.
Definition olen (o : option bytes) : N := match o with Some b => nlen b | None => 0 end.
Definition wf_sf (s : snapshotfile) : Prop :=
  nlen (sf_filepath s) < 2 ^ 32 /\ u64 (sf_filesize s) /\ u64 (sf_fileid s) /\ olen (sf_metadata s) < 2 ^ 32.
Definition opt_field (n : N) (o : option bytes) : list field :=
  match o with Some b => [(n, FB b)] | None => [] end.
Definition sf_to_fields (s : snapshotfile) : list field :=
  [(2, FB (sf_filepath s)); (3, FV (sf_filesize s)); (4, FV (sf_fileid s))] ++ opt_field 5 (opt_present sf_metadata_guard_nil_marshal (sf_metadata s)).
Definition sf_encode s := enc_fields (sf_to_fields s).
Definition opt_size (o : option bytes) : N := match o with Some b => szb (nlen b) | None => 0 end.
Definition sf_size (s : snapshotfile) : N :=
  szb (nlen (sf_filepath s)) + szv (sf_filesize s) + szv (sf_fileid s) + opt_size (opt_present sf_metadata_guard_nil_size (sf_metadata s)).
Definition sf_step (s : snapshotfile) (f : field) : option snapshotfile :=
  match f with
  | (2, FB b) => Some (mkSF b (sf_filesize s) (sf_fileid s) (sf_metadata s))
  | (3, FV x) => Some (mkSF (sf_filepath s) x (sf_fileid s) (sf_metadata s))
  | (4, FV x) => Some (mkSF (sf_filepath s) (sf_filesize s) x (sf_metadata s))
  | (5, FB b) => Some (mkSF (sf_filepath s) (sf_filesize s) (sf_fileid s) (Some b))
  | (2, _) | (3, _) | (4, _) | (5, _) => None
  | _ => Some s
  end.
Definition sf_decode := decode_with sf_step sf_zero.

(* ---------- SnapshotHeader ---------- *)
Record snapshotheader := mkSH {
  sh_session_size : N; sh_datastore_size : N; sh_unreliable_time : N; sh_git_version : bytes;
  sh_header_checksum : option bytes; sh_payload_checksum : option bytes;
  sh_checksum_type : Z; sh_version : N; sh_compression_type : Z }.
Definition sh_zero := mkSH 0 0 0 [] None None 0 0 0.
Definition wf_sh (s : snapshotheader) : Prop :=
  u64 (sh_session_size s) /\ u64 (sh_datastore_size s) /\ u64 (sh_unreliable_time s) /\
  nlen (sh_git_version s) < 2 ^ 63 /\ olen (sh_header_checksum s) < 2 ^ 63 /\
  olen (sh_payload_checksum s) < 2 ^ 63 /\ int32 (sh_checksum_type s) /\ u64 (sh_version s) /\
  int32 (sh_compression_type s).
Definition sh_to_fields (s : snapshotheader) : list field :=
  [(1, FV (sh_session_size s)); (2, FV (sh_datastore_size s)); (3, FV (sh_unreliable_time s));
   (4, FB (sh_git_version s))] ++ opt_field 5 (opt_present sh_header_checksum_guard_nil_marshal (sh_header_checksum s)) ++
  opt_field 6 (opt_present sh_payload_checksum_guard_nil_marshal (sh_payload_checksum s)) ++
  [(7, FV (enc_i32 (sh_checksum_type s))); (8, FV (sh_version s));
   (9, FV (enc_i32 (sh_compression_type s)))].
Definition sh_encode s := enc_fields (sh_to_fields s).
Definition sh_size (s : snapshotheader) : N :=
  szv (sh_session_size s) + szv (sh_datastore_size s) + szv (sh_unreliable_time s) +
  szb (nlen (sh_git_version s)) + opt_size (opt_present sh_header_checksum_guard_nil_size (sh_header_checksum s)) +
  opt_size (opt_present sh_payload_checksum_guard_nil_size (sh_payload_checksum s)) +
  szv (enc_i32 (sh_checksum_type s)) + szv (sh_version s) + szv (enc_i32 (sh_compression_type s)).
Definition sh_step (s : snapshotheader) (f : field) : option snapshotheader :=
  let '(mkSH a b c d e g h i j) := s in
  match f with
  | (1, FV x) => Some (mkSH x b c d e g h i j)
  | (2, FV x) => Some (mkSH a x c d e g h i j)
  | (3, FV x) => Some (mkSH a b x d e g h i j)
  | (4, FB y) => Some (mkSH a b c y e g h i j)
  | (5, FB y) => Some (mkSH a b c d (Some y) g h i j)
  | (6, FB y) => Some (mkSH a b c d e (Some y) h i j)
  | (7, FV x) => Some (mkSH a b c d e g (dec_i32 x) i j)
  | (8, FV x) => Some (mkSH a b c d e g h x j)
  | (9, FV x) => Some (mkSH a b c d e g h i (dec_i32 x))
  | (1, _) | (2, _) | (3, _) | (4, _) | (5, _) | (6, _) | (7, _) | (8, _) | (9, _) => None
  | _ => Some s
  end.
Definition sh_decode := decode_with sh_step sh_zero.

(* ---------- RaftDataStatus ---------- *)
Record raftdatastatus := mkRDS {
  rds_address : bytes; rds_binver : N; rds_hardhash : N; rds_logdbtype : bytes; rds_hostname : bytes;
  rds_deployment : N; rds_stepworkers : N; rds_logdbshards : N; rds_maxsessions : N;
  rds_entrybatch : N; rds_addr_by_nhid : bool }.
Definition rds_zero := mkRDS [] 0 0 [] [] 0 0 0 0 0 false.
Definition wf_rds (s : raftdatastatus) : Prop :=
  nlen (rds_address s) < 2 ^ 63 /\ rds_binver s < 2 ^ 32 /\ u64 (rds_hardhash s) /\
  nlen (rds_logdbtype s) < 2 ^ 63 /\ nlen (rds_hostname s) < 2 ^ 63 /\ u64 (rds_deployment s) /\
  u64 (rds_stepworkers s) /\ u64 (rds_logdbshards s) /\ u64 (rds_maxsessions s) /\
  u64 (rds_entrybatch s).
Definition rds_to_fields (s : raftdatastatus) : list field :=
  [(1, FB (rds_address s)); (2, FV (rds_binver s)); (3, FV (rds_hardhash s));
   (4, FB (rds_logdbtype s)); (5, FB (rds_hostname s)); (6, FV (rds_deployment s));
   (7, FV (rds_stepworkers s)); (8, FV (rds_logdbshards s)); (9, FV (rds_maxsessions s));
   (10, FV (rds_entrybatch s)); (11, FV (enc_bool (rds_addr_by_nhid s)))].
Definition rds_encode s := enc_fields (rds_to_fields s).
Definition rds_size (s : raftdatastatus) : N :=
  szb (nlen (rds_address s)) + szv (rds_binver s) + szv (rds_hardhash s) +
  szb (nlen (rds_logdbtype s)) + szb (nlen (rds_hostname s)) + szv (rds_deployment s) +
  szv (rds_stepworkers s) + szv (rds_logdbshards s) + szv (rds_maxsessions s) +
  szv (rds_entrybatch s) + 2.
Definition rds_step (s : raftdatastatus) (f : field) : option raftdatastatus :=
  let '(mkRDS a b c d e g h i j k l) := s in
  match f with
  | (1, FB y) => Some (mkRDS y b c d e g h i j k l)
  | (2, FV x) => Some (mkRDS a (dec_u32 x) c d e g h i j k l)
  | (3, FV x) => Some (mkRDS a b x d e g h i j k l)
  | (4, FB y) => Some (mkRDS a b c y e g h i j k l)
  | (5, FB y) => Some (mkRDS a b c d y g h i j k l)
  | (6, FV x) => Some (mkRDS a b c d e x h i j k l)
  | (7, FV x) => Some (mkRDS a b c d e g x i j k l)
  | (8, FV x) => Some (mkRDS a b c d e g h x j k l)
  | (9, FV x) => Some (mkRDS a b c d e g h i x k l)
  | (10, FV x) => Some (mkRDS a b c d e g h i j x l)
  | (11, FV x) => Some (mkRDS a b c d e g h i j k (dec_bool x))
  | (1, _) | (2, _) | (3, _) | (4, _) | (5, _) | (6, _) | (7, _) | (8, _) | (9, _)
  | (10, _) | (11, _) => None
  | _ => Some s
  end.
Definition rds_decode := decode_with rds_step rds_zero.

(* ---------- EntryBatch (entries use the colfer codec of CodecEntry.v) ---------- *)
Definition entry_decode_exact (b : bytes) : option entry :=
  match decode b with DecOk e _ => Some e | _ => None end.

Definition eb_to_fields (es : list entry) : list field := map (fun e => (1, FB (encode e))) es.
Definition eb_encode es := enc_fields (eb_to_fields es).
Definition eb_size (es : list entry) : N := sum_map (fun e => szb (size e)) es.
Definition eb_step (es : list entry) (f : field) : option (list entry) :=
  match f with
  | (1, FB b) => match entry_decode_exact b with Some e => Some (es ++ [e]) | None => None end
  | (1, _) => None
  | _ => Some es
  end.
Definition eb_decode := decode_with eb_step [].
Definition eb_size_upper (es : list entry) : N :=
  eb_upper_base + sum_map (fun e => size_upper_limit e + eb_upper_per_entry) es.

(* ---------- maps ---------- *)
Definition smap := list (N * bytes).     (* map[uint64]string *)
Definition bmap := list (N * bool).      (* map[uint64]bool   *)

Fixpoint map_set {V} (k : N) (v : V) (m : list (N * V)) : list (N * V) :=
  match m with
  | [] => [(k, v)]
  | (k', v') :: r => if k =? k' then (k, v) :: r else (k', v') :: map_set k v r
  end.

Definition smap_entry (kv : N * bytes) : bytes := enc_fields [(1, FV (fst kv)); (2, FB (snd kv))].
Definition bmap_entry (kv : N * bool) : bytes := enc_fields [(1, FV (fst kv)); (2, FV (enc_bool (snd kv)))].
Definition smap_fields (n : N) (m : smap) : list field := map (fun kv => (n, FB (smap_entry kv))) m.
Definition bmap_fields (n : N) (m : bmap) : list field := map (fun kv => (n, FB (bmap_entry kv))) m.
Definition smap_entry_size (kv : N * bytes) : N :=
  1 + sov (fst kv) + 1 + nlen (snd kv) + sov (nlen (snd kv)).
Definition bmap_entry_size (kv : N * bool) : N := 1 + sov (fst kv) + 1 + 1.
Definition smap_size (m : smap) : N := sum_map (fun kv => let e := smap_entry_size kv in e + 1 + sov e) m.
Definition bmap_size (m : bmap) : N := sum_map (fun kv => let e := bmap_entry_size kv in e + 1 + sov e) m.

(* inner key/value loop of a map entry, confined to the entry (see header):
   field 1 -> mapkey |= varint (whatever the wire type), field 2 -> value, other
   fields skipped *)
Fixpoint smap_entry_loop (fuel : nat) (d : bytes) (k : N) (v : bytes) : option (N * bytes) :=
  match d with
  | [] => Some (k, v)
  | _ =>
    match fuel with
    | O => None
    | S f =>
      match rd_varint d with
      | None => None
      | Some (wire, r) =>
        let fnum := field_num wire in
        if (fnum =? 1)%Z then
          match rd_varint r with
          | None => None
          | Some (x, r') => smap_entry_loop f r' (N.lor k x) v
          end
        else if (fnum =? 2)%Z then
          match rd_varint r with
          | None => None
          | Some (len, r') =>
            if nlen r' <? len then None
            else let n := N.to_nat len in smap_entry_loop f (skipn n r') k (firstn n r')
          end
        else
          match skip_field (S (length d)) d with
          | None => None
          | Some n => if nlen d <? n then None else smap_entry_loop f (skipn (N.to_nat n) d) k v
          end
      end
    end
  end.
Definition smap_entry_decode (b : bytes) : option (N * bytes) := smap_entry_loop (length b) b 0 [].

Fixpoint bmap_entry_loop (fuel : nat) (d : bytes) (k : N) (v : bool) : option (N * bool) :=
  match d with
  | [] => Some (k, v)
  | _ =>
    match fuel with
    | O => None
    | S f =>
      match rd_varint d with
      | None => None
      | Some (wire, r) =>
        let fnum := field_num wire in
        if (fnum =? 1)%Z then
          match rd_varint r with
          | None => None
          | Some (x, r') => bmap_entry_loop f r' (N.lor k x) v
          end
        else if (fnum =? 2)%Z then
          match rd_varint r with
          | None => None
          | Some (x, r') => bmap_entry_loop f r' k (dec_bool x)
          end
        else
          match skip_field (S (length d)) d with
          | None => None
          | Some n => if nlen d <? n then None else bmap_entry_loop f (skipn (N.to_nat n) d) k v
          end
      end
    end
  end.
Definition bmap_entry_decode (b : bytes) : option (N * bool) := bmap_entry_loop (length b) b 0 false.

Definition smap_put (b : bytes) (m : smap) : option smap :=
  match smap_entry_decode b with Some (k, v) => Some (map_set k v m) | None => None end.
Definition bmap_put (b : bytes) (m : bmap) : option bmap :=
  match bmap_entry_decode b with Some (k, v) => Some (map_set k v m) | None => None end.

Definition keys {V} (m : list (N * V)) : list N := map fst m.
Definition wf_smap (m : smap) : Prop :=
  NoDup (keys m) /\ Forall (fun kv => u64 (fst kv) /\ nlen (snd kv) < 2 ^ 32) m.
Definition wf_bmap (m : bmap) : Prop := NoDup (keys m) /\ Forall (fun kv => u64 (fst kv)) m.

(* ---------- Membership ---------- *)
Record membership := mkMB {
  mb_ccid : N; mb_addresses : smap; mb_removed : bmap; mb_nonvotings : smap; mb_witnesses : smap }.
Definition mb_zero := mkMB 0 [] [] [] [].
Definition wf_mb (m : membership) : Prop :=
  u64 (mb_ccid m) /\ wf_smap (mb_addresses m) /\ wf_bmap (mb_removed m) /\
  wf_smap (mb_nonvotings m) /\ wf_smap (mb_witnesses m).
Definition mb_to_fields (m : membership) : list field :=
  [(1, FV (mb_ccid m))] ++ smap_fields 2 (mb_addresses m) ++ bmap_fields 3 (mb_removed m) ++
  smap_fields 4 (mb_nonvotings m) ++ smap_fields 5 (mb_witnesses m).
Definition mb_encode m := enc_fields (mb_to_fields m).
Definition mb_size (m : membership) : N :=
  szv (mb_ccid m) + smap_size (mb_addresses m) + bmap_size (mb_removed m) +
  smap_size (mb_nonvotings m) + smap_size (mb_witnesses m).
Definition mb_step (m : membership) (f : field) : option membership :=
  let '(mkMB a b c d e) := m in
  match f with
  | (1, FV x) => Some (mkMB x b c d e)
  | (2, FB y) => match smap_put y b with Some b' => Some (mkMB a b' c d e) | None => None end
  | (3, FB y) => match bmap_put y c with Some c' => Some (mkMB a b c' d e) | None => None end
  | (4, FB y) => match smap_put y d with Some d' => Some (mkMB a b c d' e) | None => None end
  | (5, FB y) => match smap_put y e with Some e' => Some (mkMB a b c d e') | None => None end
  | (1, _) | (2, _) | (3, _) | (4, _) | (5, _) => None
  | _ => Some m
  end.
Definition mb_decode := decode_with mb_step mb_zero.

(* ---------- Bootstrap ---------- *)
Record bootstrap := mkBS { bs_addresses : smap; bs_join : bool; bs_type : Z }.
Definition bs_zero := mkBS [] false 0.
Definition wf_bs (b : bootstrap) : Prop := wf_smap (bs_addresses b) /\ int32 (bs_type b).
Definition bs_to_fields (b : bootstrap) : list field :=
  smap_fields 1 (bs_addresses b) ++ [(2, FV (enc_bool (bs_join b))); (3, FV (enc_i32 (bs_type b)))].
Definition bs_encode b := enc_fields (bs_to_fields b).
Definition bs_size (b : bootstrap) : N := smap_size (bs_addresses b) + 2 + szv (enc_i32 (bs_type b)).
Definition bs_step (b : bootstrap) (f : field) : option bootstrap :=
  match f with
  | (1, FB y) => match smap_put y (bs_addresses b) with
                 | Some a' => Some (mkBS a' (bs_join b) (bs_type b)) | None => None end
  | (2, FV x) => Some (mkBS (bs_addresses b) (dec_bool x) (bs_type b))
  | (3, FV x) => Some (mkBS (bs_addresses b) (bs_join b) (dec_i32 x))
  | (1, _) | (2, _) | (3, _) => None
  | _ => Some b
  end.
Definition bs_decode := decode_with bs_step bs_zero.

(* ---------- Snapshot ---------- *)
Record snapshot := mkSN {
  sn_filepath : bytes; sn_filesize : N; sn_index : N; sn_term : N; sn_membership : membership;
  sn_files : list snapshotfile; sn_checksum : option bytes; sn_dummy : bool; sn_shard : N;
  sn_type : Z; sn_imported : bool; sn_ondisk : N; sn_witness : bool }.
Definition sn_zero := mkSN [] 0 0 0 mb_zero [] None false 0 0 false 0 false.
Definition sn_size (s : snapshot) : N :=
  szb (nlen (sn_filepath s)) + szv (sn_filesize s) + szv (sn_index s) + szv (sn_term s) +
  szb (mb_size (sn_membership s)) + sum_map (fun f => szb (sf_size f)) (sn_files s) +
  opt_size (opt_present sn_checksum_guard_nil_size (sn_checksum s)) + 2 + szv (sn_shard s) + szv (enc_i32 (sn_type s)) + 2 +
  szv (sn_ondisk s) + 2.
Definition wf_sn (s : snapshot) : Prop :=
  nlen (sn_filepath s) < 2 ^ 32 /\ u64 (sn_filesize s) /\ u64 (sn_index s) /\ u64 (sn_term s) /\
  wf_mb (sn_membership s) /\ Forall wf_sf (sn_files s) /\ olen (sn_checksum s) < 2 ^ 32 /\
  u64 (sn_shard s) /\ int32 (sn_type s) /\ u64 (sn_ondisk s) /\ sn_size s < 2 ^ 63.
Definition sn_to_fields (s : snapshot) : list field :=
  [(2, FB (sn_filepath s)); (3, FV (sn_filesize s)); (4, FV (sn_index s)); (5, FV (sn_term s));
   (6, FB (mb_encode (sn_membership s)))] ++
  map (fun f => (7, FB (sf_encode f))) (sn_files s) ++
  opt_field 8 (opt_present sn_checksum_guard_nil_marshal (sn_checksum s)) ++
  [(9, FV (enc_bool (sn_dummy s))); (10, FV (sn_shard s)); (11, FV (enc_i32 (sn_type s)));
   (12, FV (enc_bool (sn_imported s))); (13, FV (sn_ondisk s)); (14, FV (enc_bool (sn_witness s)))].
Definition sn_encode s := enc_fields (sn_to_fields s).
Definition sn_step (s : snapshot) (f : field) : option snapshot :=
  let '(mkSN a b c d e g h i j k l m n) := s in
  match f with
  | (2, FB y) => Some (mkSN y b c d e g h i j k l m n)
  | (3, FV x) => Some (mkSN a x c d e g h i j k l m n)
  | (4, FV x) => Some (mkSN a b x d e g h i j k l m n)
  | (5, FV x) => Some (mkSN a b c x e g h i j k l m n)
  | (6, FB y) => match decode_with mb_step e y with
                 | Some e' => Some (mkSN a b c d e' g h i j k l m n) | None => None end
  | (7, FB y) => match sf_decode y with
                 | Some sf => Some (mkSN a b c d e (g ++ [sf]) h i j k l m n) | None => None end
  | (8, FB y) => Some (mkSN a b c d e g (Some y) i j k l m n)
  | (9, FV x) => Some (mkSN a b c d e g h (dec_bool x) j k l m n)
  | (10, FV x) => Some (mkSN a b c d e g h i x k l m n)
  | (11, FV x) => Some (mkSN a b c d e g h i j (dec_i32 x) l m n)
  | (12, FV x) => Some (mkSN a b c d e g h i j k (dec_bool x) m n)
  | (13, FV x) => Some (mkSN a b c d e g h i j k l x n)
  | (14, FV x) => Some (mkSN a b c d e g h i j k l m (dec_bool x))
  | (2, _) | (3, _) | (4, _) | (5, _) | (6, _) | (7, _) | (8, _) | (9, _) | (10, _)
  | (11, _) | (12, _) | (13, _) | (14, _) => None
  | _ => Some s
  end.
Definition sn_decode := decode_with sn_step sn_zero.

(* ---------- Message ---------- *)
Record message := mkMsg {
  m_type : Z; m_to : N; m_from : N; m_shard : N; m_term : N; m_logterm : N; m_logindex : N;
  m_commit : N; m_reject : bool; m_hint : N; m_entries : list entry; m_snapshot : snapshot;
  m_hinthigh : N }.
Definition msg_zero := mkMsg 0 0 0 0 0 0 0 0 false 0 [] sn_zero 0.
Definition msg_size (m : message) : N :=
  szv (enc_i32 (m_type m)) + szv (m_to m) + szv (m_from m) + szv (m_shard m) + szv (m_term m) +
  szv (m_logterm m) + szv (m_logindex m) + szv (m_commit m) + 2 + szv (m_hint m) +
  sum_map (fun e => szb (size e)) (m_entries m) + szb (sn_size (m_snapshot m)) + szv (m_hinthigh m).
Definition wf_msg (m : message) : Prop :=
  int32 (m_type m) /\ u64 (m_to m) /\ u64 (m_from m) /\ u64 (m_shard m) /\ u64 (m_term m) /\
  u64 (m_logterm m) /\ u64 (m_logindex m) /\ u64 (m_commit m) /\ u64 (m_hint m) /\
  Forall wf_entry (m_entries m) /\ wf_sn (m_snapshot m) /\ u64 (m_hinthigh m) /\ msg_size m < 2 ^ 63.
Definition msg_to_fields (m : message) : list field :=
  [(1, FV (enc_i32 (m_type m))); (2, FV (m_to m)); (3, FV (m_from m)); (4, FV (m_shard m));
   (5, FV (m_term m)); (6, FV (m_logterm m)); (7, FV (m_logindex m)); (8, FV (m_commit m));
   (9, FV (enc_bool (m_reject m))); (10, FV (m_hint m))] ++
  map (fun e => (11, FB (encode e))) (m_entries m) ++
  [(12, FB (sn_encode (m_snapshot m))); (13, FV (m_hinthigh m))].
Definition msg_encode m := enc_fields (msg_to_fields m).
Definition msg_step (s : message) (f : field) : option message :=
  let '(mkMsg a b c d e g h i j k l m n) := s in
  match f with
  | (1, FV x) => Some (mkMsg (dec_i32 x) b c d e g h i j k l m n)
  | (2, FV x) => Some (mkMsg a x c d e g h i j k l m n)
  | (3, FV x) => Some (mkMsg a b x d e g h i j k l m n)
  | (4, FV x) => Some (mkMsg a b c x e g h i j k l m n)
  | (5, FV x) => Some (mkMsg a b c d x g h i j k l m n)
  | (6, FV x) => Some (mkMsg a b c d e x h i j k l m n)
  | (7, FV x) => Some (mkMsg a b c d e g x i j k l m n)
  | (8, FV x) => Some (mkMsg a b c d e g h x j k l m n)
  | (9, FV x) => Some (mkMsg a b c d e g h i (dec_bool x) k l m n)
  | (10, FV x) => Some (mkMsg a b c d e g h i j x l m n)
  | (11, FB y) => match entry_decode_exact y with
                  | Some en => Some (mkMsg a b c d e g h i j k (l ++ [en]) m n) | None => None end
  | (12, FB y) => match decode_with sn_step m y with
                  | Some m' => Some (mkMsg a b c d e g h i j k l m' n) | None => None end
  | (13, FV x) => Some (mkMsg a b c d e g h i j k l m x)
  | (1, _) | (2, _) | (3, _) | (4, _) | (5, _) | (6, _) | (7, _) | (8, _) | (9, _) | (10, _)
  | (11, _) | (12, _) | (13, _) => None
  | _ => Some s
  end.
Definition msg_decode := decode_with msg_step msg_zero.
Definition msg_size_upper (m : message) : N :=
  msg_upper_base + sn_size (m_snapshot m) +
  sum_map (fun e => msg_upper_per_entry + size_upper_limit e) (m_entries m).

(* ---------- MessageBatch ---------- *)
Record messagebatch := mkMBatch {
  bt_requests : list message; bt_deployment : N; bt_source : bytes; bt_binver : N }.
Definition bt_zero := mkMBatch [] 0 [] 0.
Definition wf_bt (b : messagebatch) : Prop :=
  Forall wf_msg (bt_requests b) /\ u64 (bt_deployment b) /\ nlen (bt_source b) < 2 ^ 63 /\
  bt_binver b < 2 ^ 32.
Definition bt_to_fields (b : messagebatch) : list field :=
  map (fun m => (1, FB (msg_encode m))) (bt_requests b) ++
  [(2, FV (bt_deployment b)); (3, FB (bt_source b)); (4, FV (bt_binver b))].
Definition bt_encode b := enc_fields (bt_to_fields b).
Definition bt_size (b : messagebatch) : N :=
  sum_map (fun m => szb (msg_size m)) (bt_requests b) + szv (bt_deployment b) +
  szb (nlen (bt_source b)) + szv (bt_binver b).
Definition bt_step (b : messagebatch) (f : field) : option messagebatch :=
  match f with
  | (1, FB y) => match msg_decode y with
                 | Some m => Some (mkMBatch (bt_requests b ++ [m]) (bt_deployment b) (bt_source b) (bt_binver b))
                 | None => None end
  | (2, FV x) => Some (mkMBatch (bt_requests b) x (bt_source b) (bt_binver b))
  | (3, FB y) => Some (mkMBatch (bt_requests b) (bt_deployment b) y (bt_binver b))
  | (4, FV x) => Some (mkMBatch (bt_requests b) (bt_deployment b) (bt_source b) (dec_u32 x))
  | (1, _) | (2, _) | (3, _) | (4, _) => None
  | _ => Some b
  end.
Definition bt_decode := decode_with bt_step bt_zero.
Definition bt_size_upper (b : messagebatch) : N :=
  bt_upper_base + nlen (bt_source b) +
  sum_map (fun m => bt_upper_per_msg + msg_size_upper m) (bt_requests b).

(* ---------- Chunk ---------- *)
Record chunk := mkCK {
  ck_shard : N; ck_replica : N; ck_from : N; ck_id : N; ck_size : N; ck_count : N;
  ck_data : option bytes; ck_index : N; ck_term : N; ck_membership : membership;
  ck_filepath : bytes; ck_filesize : N; ck_deployment : N; ck_filechunkid : N;
  ck_filechunkcount : N; ck_hasfileinfo : bool; ck_fileinfo : snapshotfile; ck_binver : N;
  ck_ondisk : N; ck_witness : bool }.
Definition ck_zero := mkCK 0 0 0 0 0 0 None 0 0 mb_zero [] 0 0 0 0 false sf_zero 0 0 false.
Definition wf_ck (c : chunk) : Prop :=
  u64 (ck_shard c) /\ u64 (ck_replica c) /\ u64 (ck_from c) /\ u64 (ck_id c) /\ u64 (ck_size c) /\
  u64 (ck_count c) /\ olen (ck_data c) < 2 ^ 63 /\ u64 (ck_index c) /\ u64 (ck_term c) /\
  wf_mb (ck_membership c) /\ nlen (ck_filepath c) < 2 ^ 63 /\ u64 (ck_filesize c) /\
  u64 (ck_deployment c) /\ u64 (ck_filechunkid c) /\ u64 (ck_filechunkcount c) /\
  wf_sf (ck_fileinfo c) /\ ck_binver c < 2 ^ 32 /\ u64 (ck_ondisk c) /\
  mb_size (ck_membership c) < 2 ^ 63.
Definition ck_to_fields (c : chunk) : list field :=
  [(1, FV (ck_shard c)); (2, FV (ck_replica c)); (3, FV (ck_from c)); (4, FV (ck_id c));
   (5, FV (ck_size c)); (6, FV (ck_count c))] ++ opt_field 7 (opt_present ck_data_guard_nil_marshal (ck_data c)) ++
  [(8, FV (ck_index c)); (9, FV (ck_term c)); (10, FB (mb_encode (ck_membership c)));
   (12, FB (ck_filepath c)); (13, FV (ck_filesize c)); (14, FV (ck_deployment c));
   (15, FV (ck_filechunkid c)); (16, FV (ck_filechunkcount c));
   (17, FV (enc_bool (ck_hasfileinfo c))); (18, FB (sf_encode (ck_fileinfo c)));
   (19, FV (ck_binver c)); (20, FV (ck_ondisk c)); (21, FV (enc_bool (ck_witness c)))].
Definition ck_encode c := enc_fields (ck_to_fields c).
Definition ck_size_of (c : chunk) : N :=
  szv (ck_shard c) + szv (ck_replica c) + szv (ck_from c) + szv (ck_id c) + szv (ck_size c) +
  szv (ck_count c) + opt_size (opt_present ck_data_guard_nil_size (ck_data c)) + szv (ck_index c) + szv (ck_term c) +
  szb (mb_size (ck_membership c)) + szb (nlen (ck_filepath c)) + szv (ck_filesize c) +
  szv (ck_deployment c) + szv (ck_filechunkid c) + szv2 (ck_filechunkcount c) + 3 +
  szb2 (sf_size (ck_fileinfo c)) + szv2 (ck_binver c) + szv2 (ck_ondisk c) + 3.
Definition ck_step (s : chunk) (f : field) : option chunk :=
  let '(mkCK a b c d e g h i j k l m n o p q r t u v) := s in
  match f with
  | (1, FV x) => Some (mkCK x b c d e g h i j k l m n o p q r t u v)
  | (2, FV x) => Some (mkCK a x c d e g h i j k l m n o p q r t u v)
  | (3, FV x) => Some (mkCK a b x d e g h i j k l m n o p q r t u v)
  | (4, FV x) => Some (mkCK a b c x e g h i j k l m n o p q r t u v)
  | (5, FV x) => Some (mkCK a b c d x g h i j k l m n o p q r t u v)
  | (6, FV x) => Some (mkCK a b c d e x h i j k l m n o p q r t u v)
  | (7, FB y) => Some (mkCK a b c d e g (Some y) i j k l m n o p q r t u v)
  | (8, FV x) => Some (mkCK a b c d e g h x j k l m n o p q r t u v)
  | (9, FV x) => Some (mkCK a b c d e g h i x k l m n o p q r t u v)
  | (10, FB y) => match decode_with mb_step k y with
                  | Some k' => Some (mkCK a b c d e g h i j k' l m n o p q r t u v) | None => None end
  | (12, FB y) => Some (mkCK a b c d e g h i j k y m n o p q r t u v)
  | (13, FV x) => Some (mkCK a b c d e g h i j k l x n o p q r t u v)
  | (14, FV x) => Some (mkCK a b c d e g h i j k l m x o p q r t u v)
  | (15, FV x) => Some (mkCK a b c d e g h i j k l m n x p q r t u v)
  | (16, FV x) => Some (mkCK a b c d e g h i j k l m n o x q r t u v)
  | (17, FV x) => Some (mkCK a b c d e g h i j k l m n o p (dec_bool x) r t u v)
  | (18, FB y) => match decode_with sf_step r y with
                  | Some r' => Some (mkCK a b c d e g h i j k l m n o p q r' t u v) | None => None end
  | (19, FV x) => Some (mkCK a b c d e g h i j k l m n o p q r (dec_u32 x) u v)
  | (20, FV x) => Some (mkCK a b c d e g h i j k l m n o p q r t x v)
  | (21, FV x) => Some (mkCK a b c d e g h i j k l m n o p q r t u (dec_bool x))
  | (1, _) | (2, _) | (3, _) | (4, _) | (5, _) | (6, _) | (7, _) | (8, _) | (9, _) | (10, _)
  | (12, _) | (13, _) | (14, _) | (15, _) | (16, _) | (17, _) | (18, _) | (19, _) | (20, _)
  | (21, _) => None
  | _ => Some s
  end.
Definition ck_decode := decode_with ck_step ck_zero.
