(* Executable model of the hand-written colfer codec of raftpb.Entry
   (raftpb/raft_optimized.go: Size, marshalTo, unmarshal, SizeUpperLimit).
   No proofs in this file. *)
From DB Require Export Base.Bytes Gen.GenC13.
Open Scope N_scope.

Record entry := mkEntry {
  e_term : N; e_index : N; e_type : Z; e_key : N;
  e_client : N; e_series : N; e_responded : N; e_cmd : bytes }.

Definition int32 (z : Z) : Prop := (- 2 ^ 31 <= z < 2 ^ 31)%Z.
Definition int32b (z : Z) : bool := ((- 2 ^ 31 <=? z) && (z <? 2 ^ 31))%Z.

(* ---- encoder (marshalTo) ---- *)

Definition field64 (tag x : N) : bytes :=
  if colfer_fixed_threshold_marshal <=? x then (tag + 128) :: be 8 x
  else if x =? 0 then [] else tag :: uvarint x.

Definition field_type (v : Z) : bytes :=
  if (v =? 0)%Z then []
  else if (0 <=? v)%Z then 2 :: uvarint (Z.to_N v)
  else (2 + 128) :: uvarint (Z.to_N (- v)).

Definition field_cmd (c : bytes) : bytes :=
  match c with
  | [] => []
  | _ => 7 :: uvarint (nlen c) ++ c
  end.

Definition encode (e : entry) : bytes :=
  field64 0 (e_term e) ++ field64 1 (e_index e) ++ field_type (e_type e) ++
  field64 3 (e_key e) ++ field64 4 (e_client e) ++ field64 5 (e_series e) ++
  field64 6 (e_responded e) ++ field_cmd (e_cmd e) ++ [127].

(* ---- Size() : a separate computation in the Go code ---- *)

Fixpoint varint_extra (fuel : nat) (x : N) : N :=
  match fuel with
  | O => 0
  | S f => if x <? 128 then 0 else 1 + varint_extra f (x / 128)
  end.

Definition size64 (x : N) : N :=
  if colfer_fixed_threshold_size <=? x then 9
  else if x =? 0 then 0 else 2 + varint_extra 9 x.

Definition size_type (v : Z) : N :=
  if (v =? 0)%Z then 0 else 2 + varint_extra 9 (Z.to_N (Z.abs v)).

Definition size_cmd (c : bytes) : N :=
  match c with [] => 0 | _ => nlen c + 2 + varint_extra 9 (nlen c) end.

Definition size (e : entry) : N :=
  1 + size64 (e_term e) + size64 (e_index e) + size_type (e_type e) +
  size64 (e_key e) + size64 (e_client e) + size64 (e_series e) +
  size64 (e_responded e) + size_cmd (e_cmd e).

Definition size_upper_limit (e : entry) : N :=
  entry_non_cmd_fields_size + nlen (e_cmd e).

(* fields in range and |Cmd| within the limit Size() checks first *)
Definition wf_entry0 (e : entry) : Prop :=
  u64 (e_term e) /\ u64 (e_index e) /\ int32 (e_type e) /\ u64 (e_key e) /\
  u64 (e_client e) /\ u64 (e_series e) /\ u64 (e_responded e) /\
  wf_bytes (e_cmd e) /\ nlen (e_cmd e) <= colfer_size_max.

(* ... and the whole encoding strictly below ColferSizeMax: Size() panics above
   the limit and unmarshal only accepts i < ColferSizeMax consumed bytes *)
Definition wf_entry (e : entry) : Prop := wf_entry0 e /\ size e < colfer_size_max.

Definition wf_entryb (e : entry) : bool :=
  u64b (e_term e) && u64b (e_index e) && int32b (e_type e) && u64b (e_key e) &&
  u64b (e_client e) && u64b (e_series e) && u64b (e_responded e) &&
  wf_bytesb (e_cmd e) && (nlen (e_cmd e) <=? colfer_size_max) && (size e <? colfer_size_max).

(* Size() as the Go code runs it: panic("max size reached") = None *)
Definition size_checked (e : entry) : option N :=
  if colfer_size_max <? nlen (e_cmd e) then None
  else if colfer_size_max <? size e then None else Some (size e).

(* The same computations as functions of the LENGTH of Cmd only, for entries too
   large to be built as a list in the extracted model (the "BIG" harness cases);
   Proofs/CodecEntry.v ties them to size / encode / decode. *)
Definition size_cmd_len (n : N) : N := if n =? 0 then 0 else n + 2 + varint_extra 9 n.
Definition size_len (e : entry) (n : N) : N :=
  1 + size64 (e_term e) + size64 (e_index e) + size_type (e_type e) +
  size64 (e_key e) + size64 (e_client e) + size64 (e_series e) +
  size64 (e_responded e) + size_cmd_len n.
Definition size_upper_limit_len (n : N) : N := entry_non_cmd_fields_size + n.
Definition size_checked_len (e : entry) (n : N) : option N :=
  if colfer_size_max <? n then None
  else if colfer_size_max <? size_len e n then None else Some (size_len e n).
(* everything marshalTo writes before the Cmd bytes (for n > 0) *)
Definition encode_head (e : entry) (n : N) : bytes :=
  field64 0 (e_term e) ++ field64 1 (e_index e) ++ field_type (e_type e) ++
  field64 3 (e_key e) ++ field64 4 (e_client e) ++ field64 5 (e_series e) ++
  field64 6 (e_responded e) ++ 7 :: uvarint n.
(* outcome of unmarshal on the encoding: Some consumed = ok, None = ColferMax *)
Definition decode_outcome_len (e : entry) (n : N) : option N :=
  if size_len e n <? colfer_size_max then Some (size_len e n) else None.

(* ---- decoder (unmarshal) ---- *)

Inductive dec_result :=
| DecOk (e : entry) (n : N)
| DecEOF
| DecBadHeader (pos : N)
| DecMax.

(* Go: b := data[i]; i++; if i >= len(data) { goto eof }  -- one byte is
   consumed and at least one more byte must follow. *)
Definition next1 (d : bytes) : option (N * bytes) :=
  match d with
  | b :: ((_ :: _) as rest) => Some (b, rest)
  | _ => None
  end.

(* varint of the uint64 fields: stops at a byte < 0x80 or at shift 56 *)
Fixpoint dec64 (fuel : nat) (shift acc : N) (d : bytes) : option (N * bytes) :=
  match fuel with
  | O => None
  | S f =>
    match next1 d with
    | None => None
    | Some (b, rest) =>
      if (b <? 128) || (shift =? 56) then Some (acc + b * 2 ^ shift, rest)
      else dec64 f (shift + 7) (acc + (b mod 128) * 2 ^ shift) rest
    end
  end.

(* varint of the Type field: uint32 arithmetic, no shift limit *)
Fixpoint dec32 (fuel : nat) (shift acc : N) (d : bytes) : option (N * bytes) :=
  match fuel with
  | O => None
  | S f =>
    match next1 d with
    | None => None
    | Some (b, rest) =>
      if b <? 128 then Some (acc + (b * 2 ^ shift) mod 2 ^ 32, rest)
      else dec32 f (shift + 7) (acc + ((b mod 128) * 2 ^ shift) mod 2 ^ 32) rest
    end
  end.

(* varint of the Cmd length: uint (64 bit), plain end-of-data check before
   each read *)
Fixpoint declen (fuel : nat) (shift acc : N) (d : bytes) : option (N * bytes) :=
  match fuel with
  | O => None
  | S f =>
    match d with
    | [] => None
    | b :: rest =>
      if b <? 128 then Some (acc + (b * 2 ^ shift) mod 2 ^ 64, rest)
      else declen f (shift + 7) (acc + ((b mod 128) * 2 ^ shift) mod 2 ^ 64) rest
    end
  end.

(* parser state: current header byte, bytes after it, bytes consumed so far *)
Definition pst := (N * bytes)%type.

Definition hd0 (d : bytes) : N := hd 0 d.

Definition dec_field64 (tag : N) (st : pst) : option (option N * pst) :=
  let '(h, d) := st in
  if h =? tag then
    match dec64 10 0 0 d with
    | None => None
    | Some (x, rest) => Some (Some x, (hd0 rest, tl rest))
    end
  else if h =? tag + 128 then
    if (length d <=? 8)%nat then None
    else let rest := skipn 8 d in
         Some (Some (be_dec (firstn 8 d)), (hd0 rest, tl rest))
  else Some (None, st).

Definition to_int32 (x : N) : Z :=
  let z := Z.of_N (x mod 2 ^ 32) in
  if (z <? 2 ^ 31)%Z then z else (z - 2 ^ 32)%Z.

Definition dec_field_type (st : pst) : option (option Z * pst) :=
  let '(h, d) := st in
  if h =? 2 then
    match dec32 (10 + length d) 0 0 d with
    | None => None
    | Some (x, rest) => Some (Some (to_int32 x), (hd0 rest, tl rest))
    end
  else if h =? 2 + 128 then
    match dec32 (10 + length d) 0 0 d with
    | None => None
    | Some (x, rest) => Some (Some (to_int32 (2 ^ 32 - x mod 2 ^ 32)), (hd0 rest, tl rest))
    end
  else Some (None, st).

Inductive cmd_result := CmdNone | CmdEOF | CmdMax | CmdOk (c : bytes) (st : pst).

Definition dec_field_cmd (st : pst) : cmd_result :=
  let '(h, d) := st in
  if h =? 7 then
    match declen (10 + length d) 0 0 d with
    | None => CmdEOF
    | Some (x, rest) =>
      if colfer_size_max <? x then CmdMax
      else if nlen rest <=? x then CmdEOF
      else let n := N.to_nat x in
           let rest' := skipn n rest in
           CmdOk (firstn n rest) (hd0 rest', tl rest')
    end
  else CmdNone.

Definition opt_or {A} (o : option A) (d : A) : A :=
  match o with Some x => x | None => d end.

Definition decode_from (total : N) (st0 : pst) : dec_result :=
    match dec_field64 0 st0 with None => DecEOF | Some (term, st) =>
    match dec_field64 1 st with None => DecEOF | Some (index, st) =>
    match dec_field_type st with None => DecEOF | Some (ty, st) =>
    match dec_field64 3 st with None => DecEOF | Some (key, st) =>
    match dec_field64 4 st with None => DecEOF | Some (client, st) =>
    match dec_field64 5 st with None => DecEOF | Some (series, st) =>
    match dec_field64 6 st with None => DecEOF | Some (resp, st) =>
    let fin (cmd : bytes) (st : pst) :=
      let '(h, rest) := st in
      let consumed := total - nlen rest in
      if h =? 127 then
        (* if uint64(i) < ColferSizeMax { return i, nil }; otherwise ColferMax *)
        if consumed <? colfer_size_max then
          DecOk (mkEntry (opt_or term 0) (opt_or index 0) (opt_or ty 0%Z)
                         (opt_or key 0) (opt_or client 0) (opt_or series 0)
                         (opt_or resp 0) cmd) consumed
        else DecMax
      else DecBadHeader (consumed - 1) in
    match dec_field_cmd st with
    | CmdEOF => DecEOF
    | CmdMax => DecMax
    | CmdNone => fin [] st
    | CmdOk c st' => fin c st'
    end end end end end end end end.

Definition decode (data : bytes) : dec_result :=
  match data with
  | [] => DecEOF
  | h :: d => decode_from (nlen data) (h, d)
  end.
