(* Executable model of the entry payload encoding of internal/rsm/encoded.go
   (GetEncoded / GetPayload for Type = EncodedEntry, version 0) with the
   compression of internal/utils/dio as Section variables.  No proofs here.

   header byte: version (4 bits) | compression flag (3 bits) | session flag (1 bit)
   v0, no compression: header 0x00 ++ cmd
   v0, snappy:         header 0x02 ++ snappy block (which starts with the uvarint
                       of the uncompressed length) *)
From DB Require Export Base.Bytes.
Open Scope N_scope.

Inductive compression := NoCompression | Snappy.

Inductive pres := POk (b : bytes) | PErr | PPanic.

Section Payload.
  (* snappy.Encode / snappy.Decode (block format) *)
  Variable compress : bytes -> bytes.
  Variable decompress : bytes -> option bytes.

  Definition ee_header (ct : compression) : N :=
    match ct with NoCompression => 0 | Snappy => 2 end.

  (* GetEncoded: panics on an empty payload *)
  Definition get_encoded (ct : compression) (cmd : bytes) : option bytes :=
    match cmd with
    | [] => None
    | _ => Some (ee_header ct ::
                 match ct with NoCompression => cmd | Snappy => compress cmd end)
    end.

  (* binary.Uvarint on the bytes after the header: (value, bytes read); 0 bytes
     read = buffer too small, overflow is reported with a negative count *)
  Fixpoint uvarint_std (i : nat) (shift acc : N) (d : bytes) : option N :=
    match d with
    | [] => None
    | b :: r =>
      if b <? 128 then
        if (i =? 0)%nat && (1 <? b) then None else Some (acc + b * 2 ^ shift)
      else match i with
           | O => None
           | S i' => uvarint_std i' (shift + 7) (acc + (b mod 128) * 2 ^ shift) r
           end
    end.

  (* getDecodedPayload *)
  Definition get_decoded (cmd : bytes) : pres :=
    match cmd with
    | [] => PPanic                                   (* cmd[0] out of range *)
    | h :: body =>
      let ver := h / 16 in
      let ct := (h / 2) mod 8 in
      let ses := h mod 2 in
      if negb (ver =? 0) then PPanic                 (* unknown cmd encoding version *)
      else if ses =? 1 then PPanic                   (* v0 cmd has session info *)
      else if ct =? 0 then POk body
      else if ct =? 1 then
        match uvarint_std 9 0 0 body with
        | None => PPanic                             (* zero offset / size *)
        | Some sz =>
          if sz =? 0 then PPanic
          else match decompress body with
               | Some out => if nlen out =? sz then POk out else PPanic
               | None => PPanic          (* snappy.Decode error: result is nil, so the
                                            length check panics before err is returned *)
               end
        end
      else PPanic                                    (* unknown compression type *)
    end.
End Payload.
