(* A replica as the simulator (and the engine) sees it: the live raft state plus the
   durable image written by the persistence step of each Update. No proofs here. *)
From DB Require Export Model.RaftCore.
Open Scope N_scope.

Record node := mkNode {
  nd_raft : raft;
  nd_kind : role;                       (* Follower = full voter, NonVoting, Witness *)
  nd_dstate : option (N * N * N);       (* persisted hard state *)
  nd_dmarker : N;                       (* durable entries start at nd_dmarker + 1 *)
  nd_dents : list entry;
  nd_dsnap : snapshot }.                (* newest snapshot record *)
#[export] Instance eta_node : Settable _ :=
  settable! mkNode <nd_raft; nd_kind; nd_dstate; nd_dmarker; nd_dents; nd_dsnap>.

Definition empty_log : rlog := mkLog 0 0 [] 0 0 0 None empty_snapshot.

(* Launch(initial = true, newNode = true): becomeFollower(1), bootstrap entries, addNode *)
Fixpoint bootstrap_entries (ids : list N) (cmds : list (list N)) (i : N) : list entry :=
  match ids, cmds with
  | _ :: ids', c :: cmds' => mkEnt 1 i et_ConfigChangeEntry 0 0 0 0 c :: bootstrap_entries ids' cmds' (i + 1)
  | _, _ => []
  end.

Definition launch (id : N) (kind : role) (et ht : N) (cq pv : bool)
           (init : list N) (cmds : list (list N)) (oracle : N) : node :=
  let r0 := new_raft id kind et ht cq pv empty_log [] [] [] None oracle in
  let r := match init with
           | [] => r0
           | _ =>
             let r1 := become_follower r0 1 0 in
             let ents := bootstrap_entries init cmds 1 in
             let l := r_log r1 in
             let l' := (log_append_raw l ents) <| l_committed := nlen ents |> in
             fold_left add_node init (r1 <| r_log := l' |>)
           end in
  mkNode r kind None 0 [] empty_snapshot.

(* persist the update, then Peer.Commit *)
Definition durable_append (marker : N) (dents : list entry) (ents : list entry) : list entry :=
  match ents with
  | [] => dents
  | e :: _ => firstn (N.to_nat (e_index e - marker - 1)) dents ++ ents
  end.

Definition node_update (nd : node) (more : bool) (last_applied : N) : node * update :=
  let r := nd_raft nd in
  let u := get_update r more in
  let nd1 := match u_snapshot u with
             | Some s => nd <| nd_dsnap := s |> <| nd_dmarker := ss_index s |> <| nd_dents := [] |>
             | None => nd end in
  let nd2 := nd1 <| nd_dents := durable_append (nd_dmarker nd1) (nd_dents nd1) (u_entries_to_save u) |> in
  let nd3 := match u_state u with Some st => nd2 <| nd_dstate := Some st |> | None => nd2 end in
  let r' := if u_invalid u then panic r else commit_update r u last_applied in
  (nd3 <| nd_raft := r' |>, u).

(* LogReader.CreateSnapshot(ss) + Compact(compact_to) *)
Definition node_snapshot (nd : node) (s : snapshot) (compact_to : N) : node :=
  let r := nd_raft nd in
  let fresh := ss_index (l_snapshot (r_log r)) <? ss_index s in
  let nd1 := if fresh then nd <| nd_dsnap := s |> else nd in
  nd1 <| nd_raft := r <| r_log := log_compact (r_log r) s compact_to |> |>.

(* crash + restart: everything volatile is lost, the durable image is reloaded *)
Definition node_restart (nd : node) (oracle : N) : node :=
  let r := nd_raft nd in
  let s := nd_dsnap nd in
  let marker := ss_index s in
  let ents := skipn (N.to_nat (marker - nd_dmarker nd)) (nd_dents nd) in
  let last := marker + nlen ents in
  let l := mkLog marker (ss_term s) ents marker marker last None s in
  let r' := new_raft (r_id r) (nd_kind nd) (r_election_timeout r) (r_heartbeat_timeout r)
                     (r_check_quorum r) (r_prevote r) l
                     (ss_addrs s) (ss_nonvotings s) (ss_witnesses s) (nd_dstate nd) oracle in
  nd <| nd_raft := r' <| r_applied := marker |> |> <| nd_dmarker := marker |> <| nd_dents := ents |>.

Definition on_raft (f : raft -> raft) (nd : node) : node := nd <| nd_raft := f (nd_raft nd) |>.
