(* Executable model of the snapshot directory life cycle:
   snapshotter.{Save,Commit,Shrink,Compact,processOrphans} (snapshotter.go),
   server.SSEnv.{CreateTempDir,SaveSSMetadata,FinalizeSnapshot,RemoveFlagFile,
   MustRemoveTempDir} (internal/server/snapshotenv.go), fileutil.{Mkdir,SyncDir,
   CreateFlagFile} (internal/fileutil/utils.go), rsm.SnapshotWriter.Close,
   rsm.{ShrinkSnapshot,ReplaceSnapshot} (internal/rsm/snapshotio.go), the
   receiving side transport.Chunk.{save,finalize} (internal/transport/chunk.go)
   and engine.processSteps: SaveRaftState ; onSnapshotSaved (engine.go).

   Each call is the list of file-system operations it issues (Model/FS.v) plus
   updates of the log store's snapshot record, an atomic durable cell holding
   the largest recorded index (internal/logdb/db.go saveSnapshot/getSnapshot).
   No proofs in this file. *)
From Coq Require Import List NArith Bool.
From DB Require Export Model.FS Gen.GenC16.
Import ListNotations.
Open Scope N_scope.

(* ---- content tokens ---- *)
Definition T_HDR0 : N := 0.   (* the blank header written when the file is created *)
Definition T_HDR : N := 1.    (* the real header (SnapshotWriter.saveHeader, WriteAt 0) *)
Definition T_BODY : N := 2.   (* payload blocks *)
Definition T_TAIL : N := 3.   (* the v2 tail written by Close *)
Definition T_EMPTY : N := 4.  (* GetEmptyLRUSession, the only payload of a shrunk file *)
Definition T_HASH : N := 5.   (* md5 prefix of a flag file *)
Definition T_DUMMY : N := 6.  (* the only payload (sessions) of an on-disk state machine's own snapshot *)

Definition valid_snap (d : data) : bool :=
  match d with
  | h :: r => (h =? T_HDR) && (last r T_HDR0 =? T_TAIL)
  | [] => false
  end.

Definition is_shrunk (d : data) : bool :=
  match d with
  | [h; e; t] => (h =? T_HDR) && (e =? T_EMPTY) && (t =? T_TAIL)
  | _ => false
  end.

(* the metadata-only ("dummy") snapshot an on-disk state machine takes of itself *)
Definition is_dummy (d : data) : bool :=
  match d with
  | [h; e; t] => (h =? T_HDR) && (e =? T_DUMMY) && (t =? T_TAIL)
  | _ => false
  end.

(* a snapshot file that does not carry the state machine's state *)
Definition is_partial (d : data) : bool := is_shrunk d || is_dummy d.

Definition flag_data (i : N) : data := [T_HASH; i].

(* GetFlagFileContent: [None] = panic (corrupted flag file / empty snapshot) *)
Definition flag_index (d : data) : option N :=
  match d with
  | [h; i] => if (h =? T_HASH) && negb (i =? 0) then Some i else None
  | _ => None
  end.

(* ---- state and operations ---- *)

Record state := mkS { st_fs : fs; st_rec : N }.   (* st_rec = 0: no snapshot recorded *)

Inductive op :=
| OFs (o : fsop)
| ORecord (i : N)     (* logdb.SaveSnapshots / SaveRaftState with ud.Snapshot.Index = i *)
| OCrash.             (* power loss: unsynced state is gone, the record stays *)

Definition step (s : state) (o : op) : option state :=
  match o with
  | OFs f => match fs_step (st_fs s) f with
             | Some t => Some (mkS t (st_rec s))
             | None => None
             end
  | ORecord i => Some (mkS (st_fs s) (N.max (st_rec s) i))
  | OCrash => Some (mkS (fs_crash (st_fs s)) (st_rec s))
  end.

(* plain execution of operations that all succeed (failing ones are skipped) *)
Definition step' (s : state) (o : op) : state :=
  match step s o with Some t => t | None => s end.
Definition run (s : state) (ops : list op) : state := fold_left step' ops s.

(* execution of a program: stops at the first failing call.
   result: final state, the operations that were executed, success *)
Fixpoint exec (s : state) (ops : list op) : state * list op * bool :=
  match ops with
  | [] => (s, [], true)
  | o :: r =>
    match step s o with
    | None => (s, [], false)
    | Some t => let '(u, tr, ok) := exec t r in (u, o :: tr, ok)
    end
  end.

(* ---- the programs ---- *)

(* fileutil.CreateFlagFile(dir, name, msg): Create, Write hash, Write data, Sync, Close, SyncDir(dir) *)
Definition flagfile_ops (d : dname) (f : fname) (i : N) : list op :=
  [OFs (FCreate d f); OFs (FWrite d f [T_HASH]); OFs (FWrite d f [i]);
   OFs (FSyncFile d f); OFs (FSyncDir d)].

(* SSEnv.CreateTempDir = fileutil.Mkdir: MkdirAll, SyncDir(parent) *)
Definition mktemp_ops (d : dname) : list op := [OFs (FMkdir d); OFs FSyncRoot].

(* SSEnv.removeDir: RemoveAll, SyncDir(root) *)
Definition rmdir_ops (d : dname) : list op := [OFs (FRemoveAll d); OFs FSyncRoot].

(* SnapshotWriter: Create + blank header; payload; Close = tail, header at 0, Sync, Close, SyncDir *)
Definition writer_ops (d : dname) (f : fname) (body : data) : list op :=
  [OFs (FCreate d f); OFs (FWrite d f [T_HDR0]); OFs (FWrite d f body);
   OFs (FWrite d f [T_TAIL]); OFs (FWriteAt d f 0 [T_HDR]);
   OFs (FSyncFile d f); OFs (FSyncDir d)].

(* snapshotter.Save *)
Definition save_ops_body (i : N) (body : data) : list op :=
  mktemp_ops (DGen i) ++ writer_ops (DGen i) (FSnap i) body.
Definition save_ops (i n : N) : list op := save_ops_body i (repeat T_BODY (N.to_nat n)).

(* SSEnv.FinalizeSnapshot up to the finalDirExists check *)
Definition finalize_pre (tmp : dname) (i : N) : list op := flagfile_ops tmp FFlag i.
(* renameToFinalDir *)
Definition finalize_rename (tmp : dname) (i : N) : list op :=
  [OFs (FRenameDir tmp (DFinal i)); OFs FSyncRoot].

(* snapshotter.Commit after a successful rename: the order of saveSnapshot and
   RemoveFlagFile is the source order of the two calls (Gen.GenC16) *)
Definition commit_tail (i : N) : list op :=
  if commit_pos_record <? commit_pos_rmflag
  then [ORecord i; OFs (FRemove (DFinal i) FFlag)]
  else [OFs (FRemove (DFinal i) FFlag); ORecord i].

(* engine.processSteps for an update carrying snapshot i: SaveRaftState and
   onSnapshotSaved (removeSnapshotFlagFile), in source order *)
Definition apply_ops (i : N) : list op :=
  if engine_pos_save_raft_state <? engine_pos_on_snapshot_saved
  then [ORecord i; OFs (FRemove (DFinal i) FFlag)]
  else [OFs (FRemove (DFinal i) FFlag); ORecord i].

(* chunks written into the .receiving directory: the first chunk creates the
   file (close syncs the directory), later ones append, the last one syncs *)
Definition recv_data_ops (i n : N) : list op :=
  let d := DRecv i in let f := FSnap i in
  if n <=? 1 then
    [OFs (FCreate d f); OFs (FWrite d f [T_HDR; T_TAIL]); OFs (FSyncFile d f); OFs (FSyncDir d)]
  else
    [OFs (FCreate d f); OFs (FWrite d f [T_HDR]); OFs (FSyncDir d);
     OFs (FWrite d f (repeat T_BODY (N.to_nat (n - 2)))); OFs (FWrite d f [T_TAIL]);
     OFs (FSyncFile d f)].

(* one file of a received image, nch chunks (transport.Chunk.save): the chunk that
   creates the file syncs the directory when the file is closed; the file is
   fsynced at its last chunk when [sync] *)
Definition recv_file_fs (d : dname) (f : fname) (nch : N) (sync : bool) : list fsop :=
  if nch <=? 1 then
    [FCreate d f; FWrite d f [T_HDR; T_TAIL]] ++ (if sync then [FSyncFile d f] else []) ++ [FSyncDir d]
  else
    [FCreate d f; FWrite d f [T_HDR]; FSyncDir d;
     FWrite d f (repeat T_BODY (N.to_nat (nch - 2))); FWrite d f [T_TAIL]] ++
    (if sync then [FSyncFile d f] else []).

(* an image with an external file (ISnapshotFileCollection): the snapshot file
   in n chunks first, then external-file-1 in m chunks.  Chunk.save fsyncs at
   the last chunk of the snapshot and, per Gen.GenC16, at the last chunk of
   every file *)
Definition recvx_fs (i n m : N) : list fsop :=
  recv_file_fs (DRecv i) (FSnap i) n chunk_save_syncs_each_file ++
  recv_file_fs (DRecv i) (FOther 1) m true.

Definition shrink_ops (i : N) : list op :=
  let d := DFinal i in
  [OFs (FCreate d (FShrunk i)); OFs (FWrite d (FShrunk i) [T_HDR0]);
   OFs (FWrite d (FShrunk i) [T_EMPTY]); OFs (FWrite d (FShrunk i) [T_TAIL]);
   OFs (FWriteAt d (FShrunk i) 0 [T_HDR]); OFs (FSyncFile d (FShrunk i)); OFs (FSyncDir d);
   OFs (FRenameFile d (FShrunk i) (FSnap i)); OFs (FSyncDir d)].

(* ---- the directory name codec (internal/server/snapshotenv.go) ----
   getDirName = "snapshot-%016X" (index), getTempDirName = "<dirname>-%d.<suffix>"
   (replica id of the generating replica / sender of the stream, in decimal), and
   the expressions processOrphans (and tools.cleanupSnapshotDir) recognise them
   with: `^snapshot-[0-9A-F]Q$`, `^snapshot-[0-9A-F]Q-[0-9A-F]Q\.generating$`, ...
   where Q is a repetition with bounds (Gen.GenC16).  A number printed in base
   b <= 16 only uses characters of [0-9A-F]; what is left to check is its length. *)
Fixpoint ndigits (fuel : nat) (base n : N) : nat :=
  match fuel with
  | O => 1
  | S f => if n <? base then 1%nat else S (ndigits f base (n / base))
  end.

(* number of characters of n printed in the given base, zero padded to width *)
Definition printed_len (base width n : N) : N :=
  N.max width (N.of_nat (ndigits 64 base n)).

Definition part_ok (lo hi base width n : N) : bool :=
  let l := printed_len base width n in
  (2 <=? base) && (base <=? 16) && (lo <=? l) && (l <=? hi).

Definition final_name_recognised (idx : N) : bool :=
  part_ok final_re_idx_min final_re_idx_max 16 name_index_width idx &&
  part_ok final2_re_idx_min final2_re_idx_max 16 name_index_width idx.

Definition gen_name_recognised (idx id : N) : bool :=
  part_ok gen_re_idx_min gen_re_idx_max 16 name_index_width idx &&
  part_ok gen_re_id_min gen_re_id_max tmp_id_base 0 id.

Definition recv_name_recognised (idx id : N) : bool :=
  part_ok recv_re_idx_min recv_re_idx_max 16 name_index_width idx &&
  part_ok recv_re_id_min recv_re_id_max tmp_id_base 0 id.

(* ---- processOrphans: a function of the tree and the recorded index ---- *)

Definition is_tmp (d : dname) : bool :=
  match d with DGen _ | DRecv _ => true | _ => false end.

(* volatile content of file f in directory d *)
Definition read_file (d : dname) (f : fname) (s : fs) : option data :=
  match flat_map (fun o => if d_is (d_vn o) d
                           then flat_map (fun x => if f_is (f_vn x) f then [f_vd x] else []) (d_files o)
                           else []) s with
  | x :: _ => Some x
  | [] => None
  end.

(* the operations of one loop iteration; [None] = error or panic *)
Definition po_one (n : dname) (s : state) : option (list op) :=
  match n with
  | DFinal i =>
    if negb (has_dir n (st_fs s)) then None          (* Stat fails *)
    else if has_file n FFlag (st_fs s) then          (* isOrphan *)
      match read_file n FFlag (st_fs s) with
      | Some d =>
        match flag_index d with
        | Some j =>
          if (st_rec s =? 0) || negb (st_rec s =? j)
          then Some (rmdir_ops (DFinal j))           (* s.remove(ss.Index) *)
          else Some [OFs (FRemove (DFinal j) FFlag)] (* getEnv(ss.Index).RemoveFlagFile *)
        | None => None
        end
      | None => None
      end
    else                                             (* isSnapshot *)
      if (st_rec s =? 0) || negb (i =? st_rec s) then Some (rmdir_ops n) else Some []
  | DGen _ | DRecv _ => Some (rmdir_ops n)           (* isZombie: for every id, see temp_names_recognised *)
  | DOther _ => Some []
  end.

Fixpoint po_loop (names : list dname) (s : state) : state * list op * bool :=
  match names with
  | [] => (s, [], true)
  | n :: r =>
    match po_one n s with
    | None => (s, [], false)
    | Some ops =>
      let '(t, tr, ok) := exec s ops in
      if ok then let '(u, tr2, ok2) := po_loop r t in (u, tr ++ tr2, ok2)
      else (t, tr, false)
    end
  end.

Fixpoint dedup (l : list dname) : list dname :=
  match l with
  | [] => []
  | x :: r => x :: filter (fun y => negb (dname_eqb x y)) (dedup r)
  end.

(* a directory listing has no specified order: [ord] is the order in which
   fs.List returned the names (an oracle; the theorems hold for every one) *)
Definition process_orphans (ord : list dname -> list dname) (s : state) : state * list op * bool :=
  po_loop (ord (dedup (vnames (st_fs s)))) s.

(* ---- commands: the calls the node makes ---- *)

Inductive cmd :=
| CSave (i n : N)      (* snapshotter.Save of index i, n payload blocks *)
| CCommit (i : N)      (* snapshotter.Commit + node.doSave's handling of errSnapshotOutOfDate *)
| CRecv (i n : N)      (* an n-chunk snapshot stream for index i arrives and is finalized *)
| CRecvX (i n m : N)   (* the same for an image with one external file of m chunks *)
| CApply (i : N)       (* the engine persists the update carrying received snapshot i *)
| CRecord (i : N)      (* only the first half of it: SaveRaftState; onSnapshotSaved has not run yet
                          (the chunk receiver and the snapshot worker run concurrently with it) *)
| CShrink (i : N)
| CCompact (i : N)
| CRestart             (* NodeHost start: processOrphans *)
| CCrash.              (* power loss followed by restart *)

Inductive outcome := Done | Failed | OutOfDate | Skipped | Panicked.

Definition seq (r : state * list op * bool) (k : state -> state * list op * outcome)
  : state * list op * outcome :=
  let '(s, tr, ok) := r in
  if ok then let '(u, tr2, oc) := k s in (u, tr ++ tr2, oc) else (s, tr, Failed).

Definition fin (r : state * list op * bool) : state * list op * outcome :=
  let '(s, tr, ok) := r in (s, tr, if ok then Done else Failed).

(* FinalizeSnapshot + what the caller does with ErrSnapshotOutOfDate *)
Definition finalize (tmp : dname) (i : N) (tail : list op) (s : state) : state * list op * outcome :=
  seq (exec s (finalize_pre tmp i)) (fun s1 =>
    if has_dir (DFinal i) (st_fs s1)
    then let '(u, tr, ok) := exec s1 (rmdir_ops tmp) in (u, tr, if ok then OutOfDate else Failed)
    else fin (exec s1 (finalize_rename tmp i ++ tail))).

(* NodeHost.startShard runs the snapshotter's processOrphans before the node exists,
   and does not start the replica when it fails (call site regenerated: Gen.GenC16) *)
Definition startup_cleans : bool :=
  startshard_orphans_fatal && startshard_orphans_before_newnode.

Definition do_cmd (ord : list dname -> list dname) (s : state) (c : cmd) : state * list op * outcome :=
  match c with
  | CSave i n => if i =? 0 then (s, [], Skipped) else fin (exec s (save_ops i n))
  | CCommit i =>
    if i =? 0 then (s, [], Skipped) else
    seq (exec s (flagfile_ops (DGen i) FMeta i)) (finalize (DGen i) i (commit_tail i))
  | CRecv i n =>
    if i =? 0 then (s, [], Skipped) else
    seq (exec s (mktemp_ops (DRecv i) ++ recv_data_ops i n)) (finalize (DRecv i) i [])
  | CRecvX i n m =>
    if i =? 0 then (s, [], Skipped) else
    seq (exec s (mktemp_ops (DRecv i) ++ map OFs (recvx_fs i n m))) (finalize (DRecv i) i [])
  | CApply i =>
    if has_file (DFinal i) FFlag (st_fs s) then fin (exec s (apply_ops i)) else (s, [], Skipped)
  | CRecord i =>
    if has_file (DFinal i) FFlag (st_fs s) then fin (exec s [ORecord i]) else (s, [], Skipped)
  | CShrink i =>
    if st_rec s <? i then (s, [], Done)
    else match read_file (DFinal i) (FSnap i) (st_fs s) with
         | Some d => if valid_snap d then fin (exec s (shrink_ops i)) else (s, [], Panicked)
         | None => (s, [], Failed)
         end
  | CCompact i =>
    if st_rec s <=? i then (s, [], Panicked) else fin (exec s (rmdir_ops (DFinal i)))
  | CRestart => if startup_cleans then fin (process_orphans ord s) else (s, [], Done)
  | CCrash =>
    seq (exec s [OCrash]) (fun s1 => if startup_cleans then fin (process_orphans ord s1) else (s1, [], Done))
  end.

Fixpoint do_cmds (ord : list dname -> list dname) (s : state) (cs : list cmd) : state * list op :=
  match cs with
  | [] => (s, [])
  | c :: r => let '(t, tr, _) := do_cmd ord s c in
              let '(u, tr2) := do_cmds ord t r in (u, tr ++ tr2)
  end.

Definition init : state := mkS [] 0.

(* ---- what "clean" means after the start-up cleanup ---- *)

Definition files_goodb (i : N) (l : list fobj) : bool :=
  existsb (fun f => f_is (f_dn f) (FSnap i)) l &&
  existsb (fun f => f_is (f_vn f) (FSnap i)) l &&
  forallb (fun f => implb (f_is (f_vn f) (FSnap i) || f_is (f_dn f) (FSnap i)) (valid_snap (f_dd f))) l.

(* every external file of a final directory has its full length (both views) *)
Definition ext_fullb (l : list fobj) : bool :=
  forallb (fun f => match f_vn f, f_dn f with
                    | Some (FOther _), _ | _, Some (FOther _) => valid_snap (f_dd f)
                    | _, _ => true
                    end) l.

Definition cleanb (s : state) : bool :=
  forallb (fun o =>
    match d_vn o with
    | None => true
    | Some (DFinal i) => negb (i =? 0) && (i =? st_rec s) && files_goodb i (d_files o)
                         && negb (fl_has FFlag (d_files o))
    | Some (DGen _) | Some (DRecv _) => false
    | Some (DOther _) => true
    end) (st_fs s)
  && ((st_rec s =? 0) || existsb (fun o => d_is (d_vn o) (DFinal (st_rec s)) && d_is (d_dn o) (DFinal (st_rec s))) (st_fs s)).

(* ---------------------------------------------------------------------- *)
(* on-disk state machines: node.recover (node.go) after a snapshot was recorded.
   RecoverFromSnapshot is not required to be durable: the state machine has a
   volatile applied index and a durable one (what Open returns after a crash);
   Sync makes the volatile state durable.  After sm.Recover, node.recover calls
   sm.Sync and snapshotter.Shrink in their source order (Gen.GenC16). *)

Record dstate := mkDS { ds_st : state; ds_smv : N; ds_smd : N }.

Inductive dop :=
| DBase (o : op)
| DSmRecover (i : N)   (* IOnDiskStateMachine.RecoverFromSnapshot of image i *)
| DSmSync.             (* IOnDiskStateMachine.Sync *)

Definition dstep (s : dstate) (o : dop) : dstate :=
  match o with
  | DBase OCrash => mkDS (step' (ds_st s) OCrash) (ds_smd s) (ds_smd s)
  | DBase b => mkDS (step' (ds_st s) b) (ds_smv s) (ds_smd s)
  | DSmRecover i => mkDS (ds_st s) i (ds_smd s)
  | DSmSync => mkDS (ds_st s) (ds_smv s) (ds_smv s)
  end.

Definition drun (s : dstate) (ops : list dop) : dstate := fold_left dstep ops s.

(* the part of node.recover after sm.Recover returned snapshot i *)
Definition recover_tail (shrink : list op) : list dop :=
  if recover_pos_sync <? recover_pos_shrink
  then DSmSync :: map DBase shrink
  else map DBase shrink ++ [DSmSync].

(* node.recover for recorded snapshot i; [load]: sm.Recover loaded the image *)
Definition recover_prog (s : dstate) (i : N) (load : bool) : dstate * list dop * outcome :=
  let '(_, tr, oc) := do_cmd (fun l => l) (ds_st s) (CShrink i) in
  let ops := (if load then [DSmRecover i] else []) ++ recover_tail tr in
  (drun s ops, ops, oc).

(* the recorded snapshot file as the running process sees it *)
Definition recorded_file (s : dstate) : option data :=
  read_file (DFinal (st_rec (ds_st s))) (FSnap (st_rec (ds_st s))) (st_fs (ds_st s)).

(* a live replica installs the recorded snapshot i (pushed by processSnapshot) *)
Definition cmd_recover (s : dstate) (i : N) : dstate * list dop * outcome :=
  if negb (i =? 0) && (st_rec (ds_st s) =? i) && (ds_smv s <? i) then
    match recorded_file s with
    | Some d => if valid_snap d && negb (is_partial d) then recover_prog s i true else (s, [], Skipped)
    | None => (s, [], Skipped)
    end
  else (s, [], Skipped).

(* node.processSnapshot + node.recover for received snapshot i on a live replica.
   [lr] is the index of the snapshot the LogReader holds (volatile node state, kept
   by the caller): LogReader.ApplySnapshot releases it, and the release of the
   last reference is snapshotter.Compact of that older snapshot *)
Definition cmd_install (s : dstate) (lr i : N) : dstate * list dop * outcome :=
  match cmd_recover s i with
  | (_, _, Skipped) => (s, [], Skipped)
  | _ =>
    let '(_, tr, _) :=
      if negb (lr =? 0) && (lr <? i) then do_cmd (fun l => l) (ds_st s) (CCompact lr)
      else (ds_st s, [], Done) in
    let s1 := drun s (map DBase tr) in
    let '(s2, tr2, oc) := cmd_recover s1 i in
    (s2, map DBase tr ++ tr2, oc)
  end.

(* replica start after processOrphans: OpenOnDiskStateMachine, then the initial
   node.recover. A shrunk recorded snapshot whose OnDiskIndex is beyond what the
   state machine has durably is a panic (checkPartialSnapshotApplyOnDiskSM) *)
Definition init_recover (s : dstate) : dstate * list dop * outcome :=
  let r := st_rec (ds_st s) in
  if r =? 0 then (s, [], Done) else
  match recorded_file s with
  | None => (s, [], Failed)
  | Some d =>
    if negb (valid_snap d) then (s, [], Panicked)
    else if is_dummy d then
      (* Shrink does nothing for a dummy snapshot: only Sync *)
      if r <=? ds_smd s then (drun s [DSmSync], [DSmSync], Done) else (s, [], Panicked)
    else if is_shrunk d then
      if r <=? ds_smd s then recover_prog s r false else (s, [], Panicked)
    else recover_prog s r (ds_smd s <? r)
  end.

(* what the property asks of the state a crash leaves *)
Definition restart_okb (s : dstate) : bool :=
  let r := st_rec (ds_st s) in
  (r =? 0) ||
  match recorded_file s with
  | Some d => valid_snap d && (negb (is_partial d) || (r <=? ds_smd s))
  | None => false
  end.

(* committed entries up to index k are applied (volatile until Sync) *)
Definition cmd_entries (s : dstate) (k : N) : dstate :=
  mkDS (ds_st s) (N.max (ds_smv s) k) (ds_smd s).

(* rsm.StateMachine.Save for an on-disk state machine: every snapshot goes through
   concurrentSave, which calls sync() before the snapshot is written (Gen.GenC16) *)
Definition ondisk_save_syncs : bool :=
  save_concurrent_cond_plain && (concurrent_save_pos_sync <? concurrent_save_pos_dosave).

(* node.doSave on an on-disk replica whose applied index is ap (all of it applied to
   the state machine): Sync ; Save (sessions only, OnDiskIndex = ap) ; Commit ;
   LogReader.CreateSnapshot, which releases the snapshot lr it held (Compact) *)
Definition cmd_save_ondisk (s : dstate) (lr ap : N) : dstate * list dop * outcome :=
  if negb (ap =? 0) && (st_rec (ds_st s) <? ap) && (ap =? ds_smv s) then
    let st0 := ds_st s in
    let '(st1, tr1, ok1) := exec st0 (save_ops_body ap [T_DUMMY]) in
    let '(st2, tr2, oc2) :=
      if ok1 then do_cmd (fun l => l) st1 (CCommit ap) else (st1, [], Failed) in
    let '(_, tr3, _) :=
      match oc2 with
      | Done => if negb (lr =? 0) && (lr <? ap) then do_cmd (fun l => l) st2 (CCompact lr)
                else (st2, [], Done)
      | _ => (st2, [], Done)
      end in
    let ops := (if ondisk_save_syncs then [DSmSync] else []) ++ map DBase (tr1 ++ tr2 ++ tr3) in
    (drun s ops, ops, oc2)
  else (s, [], Skipped).

(* ---------------------------------------------------------------------- *)
(* regular (in-memory) state machines: the replica's state after a restart is what
   snapshotter.Load reads from the recorded snapshot file (plus the log, C04/C08) *)

(* complete and carrying the state machine's image *)
Definition full_snap (d : data) : bool := valid_snap d && negb (is_partial d).

(* replica start after processOrphans: replayLog, then the initial node.recover =
   rsm.StateMachine.Recover -> snapshotter.Load -> RecoverFromSnapshot. Nothing of the
   state machine survives a crash; no Sync, no Shrink *)
Definition init_recover_reg (s : dstate) : dstate * list dop * outcome :=
  let r := st_rec (ds_st s) in
  if r =? 0 then (s, [], Done) else
  match recorded_file s with
  | None => (s, [], Failed)
  | Some d => if full_snap d then (drun s [DSmRecover r], [DSmRecover r], Done) else (s, [], Panicked)
  end.

(* only so that the extracted code contains the type of Z (ocaml/common/util.ml) *)
Definition c16_unused_z (x : N) : BinNums.Z := BinInt.Z.of_N x.
