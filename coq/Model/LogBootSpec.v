(* C09 — the bootstrap records of a log store (raftio.ILogDB SaveBootstrapInfo /
   GetBootstrapInfo / ListNodeInfo): one record per replica, written by
   SaveBootstrapInfo and by ImportSnapshot (Join, the snapshot's state machine type, no
   addresses), removed by RemoveNodeData, untouched by everything else.
   Spec only (no faithful model, no theorem): it is what the C09 driver answers with and
   what the harness compares the four real stores against. No proofs in this file. *)
From Coq Require Import List NArith Bool.
From DB Require Import Base.Bytes Model.LogStoreSpec.
Import ListNotations.
Open Scope N_scope.

Record bootrec := mkBoot { b_join : bool; b_type : N; b_tag : option N (* None: no addresses *) }.
Definition bstate := list (nid * bootrec).

Fixpoint bs_get (s : bstate) (n : nid) : option bootrec :=
  match s with
  | [] => None
  | (m, b) :: t => if nid_eqb m n then Some b else bs_get t n
  end.
Definition bs_del (s : bstate) (n : nid) : bstate := filter (fun p => negb (nid_eqb (fst p) n)) s.
Definition bs_set (s : bstate) (n : nid) (b : bootrec) : bstate := (n, b) :: bs_del s n.
Definition bs_has (s : bstate) (n : nid) : bool := match bs_get s n with Some _ => true | None => false end.

(* the state machine type ImportSnapshot records is the imported snapshot's; the harness
   always imports regular state machine snapshots (pb.RegularStateMachine = 1) *)
Definition import_type : N := 1.

Definition boot_step (s : bstate) (o : op) : bstate :=
  match o with
  | ORemNode n => bs_del s n
  | OImport n _ => bs_set s n (mkBoot true import_type None)
  | _ => s
  end.
