(* C10 — the record framing of tan's log files: internal/tan/record.go (derived from
   Pebble's record package).

   The stream is divided into blocks of [blk] = 32 KB.  A record is stored as one or more
   chunks; a chunk never crosses a block boundary:
       checksum (4 bytes LE) | payload length (2 bytes LE) | chunk type (1 byte) | payload
   chunk types: full / first / middle / last.  The checksum covers the type byte and the
   payload; the function ([getCRC] = uint32(xxhash.Sum64)) is the Section variable [ck], of
   which only equality is used.  When fewer than 7 bytes are left in a block the writer
   fills them with zeroes.

   Writer: [frame rs] = the bytes writer.writeRecord produces for the records rs, starting
   with an empty file (position = bytes written so far; the writer's "j = blockSize" and
   "start of the next block" are the same position).
   Reader: [replay data] = what db.readLog gets from a log image read from its start with
   reader.next / io.Copy: the payloads of the records read, and how reading stopped:
       VEof | VZeroed | VInvalid | VUnexpectedEof | VCrc
   (io.EOF, ErrZeroedChunk, ErrInvalidChunk, io.ErrUnexpectedEOF, ErrCRCMismatch).
   The recyclable chunk types (5..8, header of 11 bytes with a log number) are never
   written by tan but are understood by the reader; they are modelled ([lognum] = the low
   32 bits of the file number the reader was created with).  reader.recover is never
   called by tan and is not modelled.
   The reader state is (off, suf): the offset inside the current block (0 <= off < blk) and
   the unread rest of the stream; Go's buffer indices are r.end = off, r.n = off + min
   (blk - off) |suf|.
   No proofs in this file. *)
From Coq Require Import List NArith Bool.
From DB Require Import Base.Bytes Gen.GenC10.
Import ListNotations.
Open Scope N_scope.

Definition blk : N := c10_tan_block_size.
Definition hdr : N := c10_tan_header_size.
Definition rhdr : N := c10_tan_recyclable_header_size.
Definition ty_full : N := c10_tan_full_chunk.
Definition ty_first : N := c10_tan_first_chunk.
Definition ty_middle : N := c10_tan_middle_chunk.
Definition ty_last : N := c10_tan_last_chunk.

Inductive verdict := VEof | VZeroed | VInvalid | VUnexpectedEof | VCrc.

(* IsInvalidRecord: the verdicts open() takes for a torn tail (the log is cut there and
   the db opens); VCrc makes open() fail *)
Definition recoverable (v : verdict) : bool :=
  match v with VEof | VZeroed | VInvalid | VUnexpectedEof => true | VCrc => false end.

Definition takeN {A} (n : N) (l : list A) : list A := firstn (N.to_nat n) l.
Definition dropN {A} (n : N) (l : list A) : list A := skipn (N.to_nat n) l.
Definition zeros (n : N) : bytes := repeat 0 (N.to_nat n).

Section Tan.
Variable ck : bytes -> N.

(* ---------------- writer ---------------- *)

Definition chunk (ty : N) (p : bytes) : bytes := le 4 (ck (ty :: p)) ++ le 2 (nlen p) ++ [ty] ++ p.

(* singleWriter.Write + writePending: the chunks of one record; avail = room for payload
   in the current block (its header is already reserved) *)
Fixpoint emit (fuel : nat) (first : bool) (avail : N) (p : bytes) : bytes :=
  match fuel with
  | O => []
  | S f =>
    if nlen p <=? avail then chunk (if first then ty_full else ty_last) p
    else chunk (if first then ty_first else ty_middle) (takeN avail p)
         ++ emit f false (blk - hdr) (dropN avail p)
  end.

(* writer.getNext: the padding written before the record that starts at block offset off *)
Definition pad_len (off : N) : N := if blk <? off + hdr then blk - off else 0.

(* writeRecord at position pos *)
Definition write_record (pos : N) (p : bytes) : bytes :=
  let off := pos mod blk in
  let pad := pad_len off in
  let off1 := (off + pad) mod blk in
  zeros pad ++ emit (S (S (length p))) true (blk - (off1 + hdr)) p.

Fixpoint frame_from (pos : N) (rs : list bytes) : bytes :=
  match rs with
  | [] => []
  | r :: t => let w := write_record pos r in w ++ frame_from (pos + nlen w) t
  end.
Definition frame (rs : list bytes) : bytes := frame_from 0 rs.

(* ---------------- reader ---------------- *)

Variable lognum : N.

Inductive chunk_res :=
| ChOk (payload : bytes) (last : bool) (off : N) (suf : bytes)
| ChStop (v : verdict).

(* reader.nextChunk(wantFirst) *)
Fixpoint next_chunk (fuel : nat) (want_first : bool) (off : N) (suf : bytes) : chunk_res :=
  match fuel with
  | O => ChStop VInvalid
  | S f =>
    let room := N.min (blk - off) (nlen suf) in
    if hdr <=? room then
      let checksum := le_dec (takeN 4 suf) in
      let length := le_dec (takeN 2 (dropN 4 suf)) in
      let ty := nth 6 suf 0 in
      if (checksum =? 0) && (length =? 0) && (ty =? 0) then
        if room <? rhdr then next_chunk f want_first ((off + room) mod blk) (dropN room suf)
        else ChStop VZeroed
      else
        let recyclable := (c10_tan_recyclable_full_chunk <=? ty) && (ty <=? c10_tan_recyclable_last_chunk) in
        let h := if recyclable then rhdr else hdr in
        if recyclable && (room <? rhdr) then ChStop VInvalid
        else if recyclable && negb (le_dec (takeN 4 (dropN hdr suf)) =? lognum) then
          ChStop (if want_first then VEof else VInvalid)
        else
          let ty' := if recyclable then ty - (c10_tan_recyclable_full_chunk - 1) else ty in
          if room <? h + length then ChStop VInvalid
          else if negb (checksum =? ck (dropN 6 (takeN (h + length) suf))) then ChStop VCrc
          else
            let off' := (off + h + length) mod blk in
            let suf' := dropN (h + length) suf in
            if want_first && negb ((ty' =? ty_full) || (ty' =? ty_first))
            then next_chunk f want_first off' suf'
            else ChOk (takeN length (dropN h suf)) ((ty' =? ty_full) || (ty' =? ty_last)) off' suf'
    else if blk - off <=? nlen suf then
      (* the block is complete and has no room for a header: read the next block *)
      let suf' := dropN (blk - off) suf in
      match suf' with
      | [] => ChStop (if want_first then VEof else VUnexpectedEof)
      | _ => next_chunk f want_first 0 suf'
      end
    else
      (* the final, short block *)
      match suf with
      | [] => if off =? 0 then ChStop (if want_first then VEof else VUnexpectedEof)
              else ChStop (if want_first then VEof else VInvalid)
      | _ => ChStop VInvalid
      end
  end.

(* io.Copy over singleReader.Read: the chunks after the first one, until the last chunk *)
Inductive rec_res :=
| RecOk (payload : bytes) (off : N) (suf : bytes)
| RecStop (v : verdict).

Fixpoint read_rest (fuel : nat) (acc : bytes) (last : bool) (off : N) (suf : bytes) : rec_res :=
  if last then RecOk acc off suf
  else match fuel with
       | O => RecStop VInvalid
       | S f =>
         match next_chunk (S (length suf)) false off suf with
         | ChStop v => RecStop v
         | ChOk p l off' suf' => read_rest f (acc ++ p) l off' suf'
         end
       end.

Definition read_record (off : N) (suf : bytes) : rec_res :=
  match next_chunk (S (length suf)) true off suf with
  | ChStop v => RecStop v
  | ChOk p l off' suf' => read_rest (S (length suf)) p l off' suf'
  end.

Fixpoint replay_from (fuel : nat) (off : N) (suf : bytes) : list bytes * verdict :=
  match fuel with
  | O => ([], VInvalid)
  | S f =>
    match read_record off suf with
    | RecStop v => ([], v)
    | RecOk p off' suf' => let (rs, v) := replay_from f off' suf' in (p :: rs, v)
    end
  end.
Definition replay (data : bytes) : list bytes * verdict := replay_from (S (length data)) 0 data.

End Tan.

(* ---- the save path of tan: fsync and error rules (internal/tan/logdb.go, db.go) ----
   db.write reports per update whether the log has to be fsynced (entries, a snapshot
   record or a term/vote change: yes; commit index only: no).  [needs] lists that flag for
   the updates of one SaveRaftState call, in order.
   multiplexed mode (concurrentSaveState): all updates go to one log file, which is fsynced
   once after the loop iff [tan_batch_sync needs]; the shape of the accumulation is
   regenerated from the source (c10_tanmux_batch_sync_accumulates: the flag is OR-ed into
   syncLog; otherwise the last update alone decides). *)
Definition tan_batch_sync (needs : list bool) : bool :=
  if c10_tanmux_batch_sync_accumulates then existsb (fun b => b) needs else last needs false.
(* regular mode (sequentialSaveState): update i is fsynced iff it needs it *)
Definition tan_seq_sync (needs : list bool) : list bool :=
  if c10_tan_seq_sync_each_update then needs else map (fun _ => false) needs.
(* db.doWriteLocked: an error of the log rollover (makeRoomForWrite: fsync of the current log,
   index file, new log file, MANIFEST edit) fails the write *)
Definition tan_write_result (rollover_failed write_failed : bool) : bool :=   (* true = success *)
  negb ((c10_tan_rollover_error_propagates && rollover_failed) || write_failed).
