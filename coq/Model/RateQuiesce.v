(* Models of the two small state machines that gate progress outside the raft core:
   internal/server/rate.go InMemRateLimiter (proposals are paused while it says "limited")
   and quiesce.go quiesceState (a quiesced replica gets QuiescedTick instead of Tick).
   uint64 arithmetic that can wrap is written with explicit [mod 2^64]. No proofs here. *)
From Coq Require Export List NArith Bool.
Export ListNotations.
Open Scope N_scope.

Definition w64 : N := 18446744073709551616.
Definition gc_tick : N := 3.
Definition change_tick_threshold : N := 10.

(* ---------------- InMemRateLimiter ---------------- *)
Record rlim := mkRL {
  rl_size : N; rl_max : N;
  rl_followers : list (N * (N * N));   (* replica id -> (tick, size); newest binding first *)
  rl_tick : N; rl_tick_limited : N; rl_limited : bool }.

Definition rl_new (max : N) : rlim := mkRL 0 max [] 1 0 false.

Definition rl_enabled (r : rlim) : bool := (0 <? rl_max r) && negb (rl_max r =? w64 - 1).

Fixpoint fs_remove (id : N) (l : list (N * (N * N))) : list (N * (N * N)) :=
  match l with
  | [] => []
  | (k, v) :: t => if k =? id then fs_remove id t else (k, v) :: fs_remove id t
  end.

Definition fresh (now : N) (v : N * N) : bool := (now - fst v) <=? gc_tick.

Definition max_inmem (r : rlim) : N :=
  fold_left N.max (map (fun kv => snd (snd kv)) (filter (fun kv => fresh (rl_tick r) (snd kv)) (rl_followers r)))
            (rl_size r).

Definition rl_gc (r : rlim) : list (N * (N * N)) :=
  filter (fun kv => fresh (rl_tick r) (snd kv)) (rl_followers r).

(* limitedByInMemSize: the verdict and the follower table after the gc it may run *)
Definition limited_by_size (r : rlim) : bool * list (N * (N * N)) :=
  if negb (rl_enabled r) then (false, rl_followers r)
  else
    let m := max_inmem r in
    let fs := rl_gc r in
    if negb (rl_limited r) then (rl_max r <? m, fs)
    else ((rl_max r * 7) mod w64 / 10 <=? m, fs).

Inductive rlop :=
| RTick | RIncrease (sz : N) | RDecrease (sz : N) | RSet (sz : N) | RReset
| RFollower (id sz : N) | RLimited.

(* step returns the new state and, for RLimited, the answer *)
Definition rl_step (r : rlim) (o : rlop) : rlim * option bool :=
  match o with
  | RTick => (mkRL (rl_size r) (rl_max r) (rl_followers r) (rl_tick r + 1) (rl_tick_limited r) (rl_limited r), None)
  | RIncrease sz => (mkRL ((rl_size r + sz) mod w64) (rl_max r) (rl_followers r) (rl_tick r) (rl_tick_limited r) (rl_limited r), None)
  | RDecrease sz => (mkRL ((rl_size r + w64 - sz mod w64) mod w64) (rl_max r) (rl_followers r) (rl_tick r) (rl_tick_limited r) (rl_limited r), None)
  | RSet sz => (mkRL sz (rl_max r) (rl_followers r) (rl_tick r) (rl_tick_limited r) (rl_limited r), None)
  | RReset => (mkRL (rl_size r) (rl_max r) [] (rl_tick r) (rl_tick_limited r) (rl_limited r), None)
  | RFollower id sz =>
    (mkRL (rl_size r) (rl_max r) ((id, (rl_tick r, sz)) :: fs_remove id (rl_followers r)) (rl_tick r)
          (rl_tick_limited r) (rl_limited r), None)
  | RLimited =>
    let '(lim, fs) := limited_by_size r in
    if Bool.eqb lim (rl_limited r) then
      (mkRL (rl_size r) (rl_max r) fs (rl_tick r) (rl_tick_limited r) (rl_limited r), Some (rl_limited r))
    else if (rl_tick_limited r =? 0) || (change_tick_threshold <? rl_tick r - rl_tick_limited r) then
      (mkRL (rl_size r) (rl_max r) fs (rl_tick r) (rl_tick r) lim, Some lim)
    else
      (mkRL (rl_size r) (rl_max r) fs (rl_tick r) (rl_tick_limited r) (rl_limited r), Some (rl_limited r))
  end.

Fixpoint rl_run (r : rlim) (ops : list rlop) : rlim * list (option bool) :=
  match ops with
  | [] => (r, [])
  | o :: t => let '(r1, a) := rl_step r o in let '(r2, l) := rl_run r1 t in (r2, a :: l)
  end.

(* ---------------- quiesceState ---------------- *)
Record qstate := mkQ {
  q_enabled : bool; q_election : N;
  q_now : N; q_since : N; q_idle : N; q_exit : N; q_flag : bool }.

Definition q_new (enabled : bool) (election : N) : qstate := mkQ enabled election 0 0 0 0 false.

Definition q_quiesced (q : qstate) : bool := q_enabled q && (0 <? q_since q).
Definition q_threshold (q : qstate) : N := q_election q * 10.
Definition q_enter (q : qstate) : qstate :=
  mkQ (q_enabled q) (q_election q) (q_now q) (q_now q) (q_now q) (q_exit q) true.
Definition q_exit_quiesce (q : qstate) : qstate :=
  mkQ (q_enabled q) (q_election q) (q_now q) 0 (q_idle q) (q_now q) (q_flag q).
Definition q_new_to_quiesce (q : qstate) : bool :=
  q_quiesced q && (q_now q - q_since q <? q_election q).
Definition q_just_exited (q : qstate) : bool :=
  negb (q_quiesced q) && (q_now q - q_exit q <? q_threshold q).

Inductive qop := QTick | QRecord (heartbeat : bool) | QTryEnter | QTakeFlag.

(* answers: QTick -> is the replica quiesced for this tick (node.tick picks QuiescedTick);
   QTakeFlag -> newQuiesceState() *)
Definition q_step (q : qstate) (o : qop) : qstate * option bool :=
  match o with
  | QTick =>
    if negb (q_enabled q) then (q, Some false)
    else
      let q1 := mkQ (q_enabled q) (q_election q) (q_now q + 1) (q_since q) (q_idle q) (q_exit q) (q_flag q) in
      let q2 := if negb (q_quiesced q1) && (q_threshold q1 <? q_now q1 - q_idle q1) then q_enter q1 else q1 in
      (q2, Some (q_quiesced q2))
  | QRecord hb =>
    if negb (q_enabled q) then (q, None)
    else if hb && (negb (q_quiesced q) || q_new_to_quiesce q) then (q, None)
    else
      let q1 := mkQ (q_enabled q) (q_election q) (q_now q) (q_since q) (q_now q) (q_exit q) (q_flag q) in
      ((if q_quiesced q1 then q_exit_quiesce q1 else q1), None)
  | QTryEnter =>
    if q_just_exited q then (q, None)
    else if negb (q_quiesced q) then (q_enter q, None) else (q, None)
  | QTakeFlag =>
    (mkQ (q_enabled q) (q_election q) (q_now q) (q_since q) (q_idle q) (q_exit q) false, Some (q_flag q))
  end.

Fixpoint q_run (q : qstate) (ops : list qop) : qstate * list (option bool) :=
  match ops with
  | [] => (q, [])
  | o :: t => let '(q1, a) := q_step q o in let '(q2, l) := q_run q1 t in (q2, a :: l)
  end.

Definition rq_unused_z : BinNums.Z := BinNums.Z0.
Definition rq_unused_nat (n : nat) : nat := S n.
