(* C19 — the logical log: the tiny specification the raft core's log view is
   compared with.  No proofs here.

   A log is a marker (index and term of the entry just before the first
   available one: a restored snapshot or the last compaction point) followed by
   contiguous entries.  On top of it: committed, processed (handed out for
   apply), saved (everything up to here is persisted in its current version),
   whether a restored snapshot still has to be handed out, and the one update
   that has been handed out by GetUpdate and not yet committed. *)
From DB Require Import Base.Bytes Gen.GenC19.
Open Scope N_scope.

Record entry := mkE { e_index : N; e_term : N; e_key : N; e_len : N }.
Definition dummy_entry := mkE 0 0 0 0.

(* pb.Entry.SizeUpperLimit() *)
Definition esize (e : entry) : N := c19_entry_non_cmd_fields_size + e_len e.

(* entryutils.go limitSize: the first entry always, then while the total stays <= limit *)
Fixpoint limit_rest (total limit : N) (l : list entry) : list entry :=
  match l with
  | [] => []
  | e :: r => let t := total + esize e in if limit <? t then [] else e :: limit_rest t limit r
  end.
Definition limit_size (l : list entry) (limit : N) : list entry :=
  match l with [] => [] | e :: r => e :: limit_rest (esize e) limit r end.

Definition is_nil {A} (l : list A) : bool := match l with [] => true | _ => false end.
Definition last_entry (l : list entry) : entry := last l dummy_entry.

(* outcomes: Go error values and panic sites (plog.Panicf / panic / runtime) *)
Inductive rerr := ECompacted | EUnavailable | EGap | EBadRange | ESnapOutOfDate.
Inductive ptag :=
| PInMemLow | PInMemHigh | PHole | PTermOrder | PMarker | PIndexOOR | PAppliedTerm0
| PApplyIdx | PBoundLowHigh | PBoundHigh | PLogDBLen | PConflictCommitted
| PAppendCommitted | PCommitTo | PProcessed | PLastAppliedCommitted
| PLastAppliedProcessed | PRestoreBack | PApplyNotCommitted | PApplyNotSaved
| PReaderGap | PAppendGap | PDescribe.
Inductive res (A : Type) := Ok (a : A) | Fail (e : rerr) | Panic (t : ptag).
Arguments Ok {A} a.
Arguments Fail {A} e.
Arguments Panic {A} t.
Definition bind {A B} (r : res A) (f : A -> res B) : res B :=
  match r with Ok a => f a | Fail e => Fail e | Panic t => Panic t end.
Notation "'do' x <- a ;; b" := (bind a (fun x => b)) (at level 200, x name, a at level 100, b at level 200).

(* ---- operations a raft core performs on its log (shared by model and spec) ---- *)
Inductive op :=
| OAppend (ents : list entry)                         (* entryLog.append: leader append / raw *)
| OReplicate (li lt commit : N) (ents : list entry)   (* follower: handleReplicateMessage, log part *)
| OCommitTo (k : N)
| OGetUpdate (more : bool) (la : N)                   (* Peer.GetUpdate(moreToApply, lastApplied) *)
| OPersist                                            (* store save + LogReader.ApplySnapshot/Append of the oldest unpersisted update *)
| OCommit                                             (* Peer.Commit of the oldest persisted update *)
| ORestore (i t : N)                                  (* raft.restore, log part *)
| OCompact (k : N).                                   (* LogReader.Compact + store removal *)

(* what the spec remembers of a handed-out update *)
Record spend := mkSP { spd_save_last : option (N * N); spd_processed : N; spd_snap : bool }.

Record spec := mkSpec {
  sp_mi : N; sp_mt : N; sp_ents : list entry;
  sp_committed : N; sp_processed : N; sp_saved : N;
  sp_snap : bool;                (* a restored snapshot still has to be handed out *)
  sp_pend : option spend;        (* update handed out, not yet committed *)
  sp_persisted : bool            (* ... and already persisted *)
}.

Definition sp_last (sp : spec) : N := sp_mi sp + nlen (sp_ents sp).
Definition sp_first (sp : spec) : N := sp_mi sp + 1.
Definition sp_get (sp : spec) (i : N) : option entry :=
  if i <=? sp_mi sp then None else nth_error (sp_ents sp) (N.to_nat (i - sp_mi sp - 1)).
Definition sp_term (sp : spec) (i : N) : N :=
  if i =? sp_mi sp then sp_mt sp
  else match sp_get sp i with Some e => e_term e | None => 0 end.
Definition sp_slice (sp : spec) (lo hi : N) : list entry :=
  firstn (N.to_nat (hi - lo)) (skipn (N.to_nat (lo - sp_mi sp - 1)) (sp_ents sp)).

(* view: entries [lo,hi) with a size limit, including the error outcomes *)
Definition sp_entries (sp : spec) (lo hi maxsz : N) : res (list entry) :=
  if hi <? lo then Panic PBoundLowHigh
  else if sp_snap sp && is_nil (sp_ents sp) then Fail ECompacted
  else if lo <? sp_first sp then Fail ECompacted
  else if sp_last sp + 1 <? hi then Panic PBoundHigh
  else if lo =? hi then Ok []
  else Ok (limit_size (sp_slice sp lo hi) maxsz).

(* view: what still has to be persisted *)
Definition sp_to_save (sp : spec) : list entry :=
  skipn (N.to_nat (sp_saved sp - sp_mi sp)) (sp_ents sp).

(* view: what is ready to apply *)
Definition sp_first_not_applied (sp : spec) : N := N.max (sp_processed sp + 1) (sp_first sp).
Definition sp_has_to_apply (sp : spec) : bool := sp_first_not_applied sp <? sp_committed sp + 1.
Definition sp_to_apply (sp : spec) (limit : N) : res (list entry) :=
  if sp_has_to_apply sp
  then sp_entries sp (sp_first_not_applied sp) (sp_committed sp + 1) limit
  else Ok [].

(* ---- transitions ---- *)
Definition sp_append (sp : spec) (ents : list entry) : spec :=
  match ents with
  | [] => sp
  | e0 :: _ =>
    let f := e_index e0 in
    mkSpec (sp_mi sp) (sp_mt sp)
      (firstn (N.to_nat (f - sp_mi sp - 1)) (sp_ents sp) ++ ents)
      (sp_committed sp) (sp_processed sp) (N.min (sp_saved sp) (f - 1))
      (sp_snap sp) (sp_pend sp) (sp_persisted sp)
  end.

Definition sp_commit_to (sp : spec) (k : N) : spec :=
  if k <=? sp_committed sp then sp
  else mkSpec (sp_mi sp) (sp_mt sp) (sp_ents sp) k (sp_processed sp) (sp_saved sp)
         (sp_snap sp) (sp_pend sp) (sp_persisted sp).

(* first entry whose term differs from the log's (0 = none) *)
Fixpoint sp_conflict (sp : spec) (ents : list entry) : N :=
  match ents with
  | [] => 0
  | e :: r => if sp_term sp (e_index e) =? e_term e then sp_conflict sp r else e_index e
  end.

Definition sp_replicate (sp : spec) (li lt commit : N) (ents : list entry) : spec :=
  if li <? sp_committed sp then sp
  else if sp_term sp li =? lt then
    let c := sp_conflict sp ents in
    let sp1 := if c =? 0 then sp else sp_append sp (skipn (N.to_nat (c - li - 1)) ents) in
    sp_commit_to sp1 (N.min (li + nlen ents) commit)
  else sp.

(* raft.restore: ignored at or below committed; a snapshot whose (index, term) is
   in the log only commits; otherwise the log is replaced by the snapshot *)
Definition sp_restore (sp : spec) (i t : N) : spec :=
  if i <=? sp_committed sp then sp
  else if sp_term sp i =? t then sp_commit_to sp i
  else mkSpec i t [] i i i true (sp_pend sp) (sp_persisted sp).

(* compaction of the persistent store: only the first available index moves *)
Definition sp_compact (sp : spec) (k : N) : spec :=
  if (sp_mi sp <? k) && (k <=? sp_last sp) then
    mkSpec k (sp_term sp k) (skipn (N.to_nat (k - sp_mi sp)) (sp_ents sp))
      (sp_committed sp) (sp_processed sp) (sp_saved sp) (sp_snap sp) (sp_pend sp) (sp_persisted sp)
  else sp.

(* GetUpdate hands out: entries to save, entries to apply, the pending snapshot *)
Definition sp_get_update (sp : spec) (more : bool) (limit : N) : spec :=
  let save := sp_to_save sp in
  let app := if more then match sp_to_apply sp limit with Ok l => l | _ => [] end else [] in
  let sl := match save with [] => None | _ => Some (e_index (last_entry save), e_term (last_entry save)) end in
  let pr := match app with [] => 0 | _ => e_index (last_entry app) end in
  let pr := if sp_snap sp then N.max pr (sp_mi sp) else pr in
  mkSpec (sp_mi sp) (sp_mt sp) (sp_ents sp) (sp_committed sp) (sp_processed sp) (sp_saved sp)
    (sp_snap sp) (Some (mkSP sl pr (sp_snap sp))) false.

Definition sp_persist (sp : spec) : spec :=
  match sp_pend sp with
  | Some _ => mkSpec (sp_mi sp) (sp_mt sp) (sp_ents sp) (sp_committed sp) (sp_processed sp) (sp_saved sp)
                (sp_snap sp) (sp_pend sp) true
  | None => sp
  end.

(* Commit acknowledges persistence (only if index and term still match), the
   snapshot, and how far apply has been handed out *)
Definition sp_commit (sp : spec) : spec :=
  match sp_pend sp with
  | Some p =>
    if sp_persisted sp then
      let saved := match spd_save_last p with
                   | Some (i, t) => if (sp_mi sp <? i) && (i <=? sp_last sp) && (sp_term sp i =? t) then i else sp_saved sp
                   | None => sp_saved sp end in
      let pr := if 0 <? spd_processed p then spd_processed p else sp_processed sp in
      mkSpec (sp_mi sp) (sp_mt sp) (sp_ents sp) (sp_committed sp) pr saved
        (if spd_snap p then false else sp_snap sp) None false
    else sp
  | None => sp
  end.

Definition sp_step (limit : N) (sp : spec) (o : op) : spec :=
  match o with
  | OAppend ents => sp_append sp ents
  | OReplicate li lt c ents => sp_replicate sp li lt c ents
  | OCommitTo k => sp_commit_to sp k
  | OGetUpdate more _ => sp_get_update sp more limit
  | OPersist => sp_persist sp
  | OCommit => sp_commit sp
  | ORestore i t => sp_restore sp i t
  | OCompact k => sp_compact sp k
  end.

Definition sp_run (limit : N) (sp : spec) (ops : list op) : spec := fold_left (sp_step limit) ops sp.

(* initial state after a (re)start: marker, persisted entries, committed *)
Definition sp_init (mi mt : N) (ents : list entry) (committed : N) : spec :=
  mkSpec mi mt ents (N.max mi committed) mi (mi + nlen ents) false None false.

(* ---- well-formed operations: the negations of the panic guards, in terms of
   the logical log only (DESIGN Appendix C) ---- *)
Fixpoint contiguous_from (i : N) (l : list entry) : bool :=
  match l with [] => true | e :: r => (e_index e =? i) && contiguous_from (i + 1) r end.
Fixpoint terms_from (t : N) (l : list entry) : bool :=   (* non-decreasing, >= t *)
  match l with [] => true | e :: r => (t <=? e_term e) && terms_from (e_term e) r end.

Definition idle (sp : spec) : bool := match sp_pend sp with None => true | _ => false end.
Definition max_index : N := 2 ^ 62.

Definition wf_op (sp : spec) (o : op) : bool :=
  match o with
  | OAppend ents =>
    match ents with
    | [] => false
    | e0 :: _ =>
      idle sp && contiguous_from (e_index e0) ents && (sp_committed sp <? e_index e0)
      && (e_index e0 <=? sp_last sp + 1)
      && terms_from (N.max 1 (sp_term sp (e_index e0 - 1))) ents
      && (e_index e0 + nlen ents <? max_index)
    end
  | OReplicate li lt commit ents =>
    idle sp && contiguous_from (li + 1) ents && terms_from (N.max 1 lt) ents
    && ((1 <=? lt) || (li =? 0))
    && (li + nlen ents <? max_index)
    && (let c := sp_conflict sp ents in
        (li <? sp_committed sp) || negb (sp_term sp li =? lt) || (c =? 0) || (sp_committed sp <? c))
  | OCommitTo k => idle sp && (k <=? sp_last sp)
  | OGetUpdate more la => idle sp && (la <=? sp_processed sp)
  | OPersist => negb (idle sp) && negb (sp_persisted sp)
  | OCommit => negb (idle sp) && sp_persisted sp
  | ORestore i t => idle sp && (1 <=? t) && (i <? max_index)
  | OCompact k => (k <=? sp_processed sp) && (negb (sp_snap sp) || sp_persisted sp)
  end.

Fixpoint wf_ops (limit : N) (sp : spec) (ops : list op) : bool :=
  match ops with
  | [] => true
  | o :: r => wf_op sp o && wf_ops limit (sp_step limit sp o) r
  end.
