(* R21 - the path on which a replica reports who leads (C03 "two replicas never both report
   themselves leader for the same term"):
     raft.setLeaderID           internal/raft/raft.go   (leaderUpdate for the engine + event on change)
     raftEventListener.LeaderUpdated -> leaderInfoQueue -> NodeHost.handleListenerEvents
                                -> config.NodeHostConfig.RaftEventListener.LeaderUpdated (user)
     pb.Update.LeaderUpdate -> node.processLeaderUpdate -> node.leaderInfo -> NodeHost.GetLeaderID
   The raft core is abstracted to the calls of setLeaderID it makes:
     RBecomeLeader t   becomeLeader at term t: setLeaderID(self)
     RFollow t l       a Replicate / Heartbeat / InstallSnapshot / ReadIndexResp of l accepted at
                       term t, or a step to (follower|nonVoting|witness) caused by such a message
     RNoLeader t       reset without a known leader (campaign, higher term seen, step down)
   and REngine is one engine cycle taking the replica's Update. That the copies along the path
   are field-by-field copies is a regenerated fact each (Gen/GenR21.v). No proofs in this file. *)
From Coq Require Export List NArith Bool.
From DB Require Export Gen.GenR21.
Export ListNotations.
Open Scope N_scope.

Inductive revent :=
| RBecomeLeader (t : N)
| RFollow (t l : N)
| RNoLeader (t : N)
| REngine.

Record report := mkReport { rp_replica : N; rp_term : N; rp_leader : N }.   (* raftio.LeaderInfo *)

Record rstate := mkRS {
  rs_prev : N * N;                 (* raft.prevLeader: (leader, term) of the last event sent *)
  rs_update : option (N * N);      (* raft.leaderUpdate: (leader, term), taken by the next Update *)
  rs_info : option (N * N);        (* node.leaderInfo *)
  rs_reports : list report         (* what the user's listener of this replica's host was told, oldest first *)
}.

Definition rs_init : rstate := mkRS (0, 0) None None [].

(* raft.setLeaderID at term t *)
Definition set_leader_id (id : N) (s : rstate) (l t : N) : rstate :=
  let changed := ((t =? 0) && (l =? 0)) || negb (l =? fst (rs_prev s)) || negb (t =? snd (rs_prev s)) in
  mkRS (if changed then (l, t) else rs_prev s)
       (Some (l, t))
       (rs_info s)
       (if changed then rs_reports s ++ [mkReport id t l] else rs_reports s).

(* node.processLeaderUpdate on the Update's LeaderUpdate *)
Definition engine_cycle (s : rstate) : rstate :=
  match rs_update s with
  | None => s
  | Some (l, t) =>
    mkRS (rs_prev s) None (if t =? 0 then rs_info s else Some (l, t)) (rs_reports s)
  end.

Definition rstep (id : N) (s : rstate) (e : revent) : rstate :=
  match e with
  | RBecomeLeader t => set_leader_id id s id t
  | RFollow t l => set_leader_id id s l t
  | RNoLeader t => set_leader_id id s 0 t
  | REngine => engine_cycle s
  end.

Definition rrun (id : N) (evs : list revent) : rstate := fold_left (rstep id) evs rs_init.

(* NodeHost.GetLeaderID: (leader, term, valid) *)
Definition get_leader_id (s : rstate) : N * N * bool :=
  match rs_info s with
  | None => (0, 0, false)
  | Some (l, t) => (l, t, negb (l =? 0))
  end.

(* a cluster: events tagged with the replica they happen at *)
Definition events_of (id : N) (tr : list (N * revent)) : list revent :=
  map snd (filter (fun x => fst x =? id) tr).

Definition replica_state (tr : list (N * revent)) (id : N) : rstate := rrun id (events_of id tr).

(* everything any listener was told *)
Definition all_reports (ids : list N) (tr : list (N * revent)) : list report :=
  flat_map (fun id => rs_reports (replica_state tr id)) ids.

(* the monitor of the harness: the leaders named for term t *)
Definition leaders_named (t : N) (rs : list report) : list N :=
  map rp_leader (filter (fun r => (rp_term r =? t) && negb (rp_leader r =? 0)) rs).

Fixpoint all_equal (l : list N) : bool :=
  match l with
  | [] => true
  | [_] => true
  | x :: ((y :: _) as rest) => (x =? y) && all_equal rest
  end.

Definition one_leader_named (t : N) (rs : list report) : bool := all_equal (leaders_named t rs).
