(* Executable model of internal/rsm/membership.go (the membership record of a
   replica's state machine and the accept/reject rules for config changes).
   Faithful to the Go code: the ten predicates, their conjunction, the order of
   the reject diagnostics, the panics of [apply]. No proofs in this file.

   Go maps map[uint64]string are association lists whose keys are unique in
   every well-formed value ([ainsert] keeps them unique); iteration order never
   influences a result (the code only iterates to test existence), the
   observation functions at the end sort by key.

   Addresses are byte strings. The code compares them with
   strings.EqualFold(strings.TrimSpace a, strings.TrimSpace b); the model
   compares normal forms [norm a = norm b]. [norm] is a Section variable (the
   theorems hold for every normalisation function); the executable instance
   [norm_ascii] (trim ASCII white space, fold A-Z) is exact for ASCII strings
   and is what the differential check runs. *)
From DB Require Import Base.Bytes Gen.GenC07.
Open Scope N_scope.

Definition addr := bytes.

(* ---- map[uint64]string ---- *)
Definition amap := list (N * addr).

Fixpoint alookup (k : N) (m : amap) : option addr :=
  match m with
  | [] => None
  | (k', v) :: r => if k' =? k then Some v else alookup k r
  end.
Definition amem (k : N) (m : amap) : bool :=
  match alookup k m with Some _ => true | None => false end.
Definition adelete (k : N) (m : amap) : amap :=
  filter (fun p => negb (fst p =? k)) m.
Definition ainsert (k : N) (v : addr) (m : amap) : amap := (k, v) :: adelete k m.
Definition alen (m : amap) : N := nlen m.

(* ---- map[uint64]bool used as a set (Removed) ---- *)
Definition rmem (k : N) (l : list N) : bool := existsb (N.eqb k) l.
Definition radd (k : N) (l : list N) : list N := if rmem k l then l else k :: l.

(* pb.ConfigChange *)
Record cc := mkCC {
  cc_ccid : N;      (* ConfigChangeId *)
  cc_type : Z;      (* Type, an int32 *)
  cc_replica : N;   (* ReplicaID *)
  cc_addr : addr;   (* Address *)
  cc_init : bool    (* Initialize *)
}.

(* pb.Membership *)
Record membership := mkM {
  m_ccid : N;
  m_addresses : amap;
  m_removed : list N;
  m_nonvotings : amap;
  m_witnesses : amap
}.

(* newMembership *)
Definition empty_membership : membership := mkM 0 [] [] [] [].

(* get / set are deep copies *)
Definition m_get (m : membership) : membership := m.
Definition m_set (n : membership) : membership := n.
Definition m_is_empty (m : membership) : bool := alen (m_addresses m) =? 0.

Fixpoint bytes_eqb (a b : bytes) : bool :=
  match a, b with
  | [], [] => true
  | x :: a', y :: b' => (x =? y) && bytes_eqb a' b'
  | _, _ => false
  end.

(* ---- executable address normalisation (ASCII) ---- *)
(* strings.TrimSpace on ASCII: '\t' '\n' '\v' '\f' '\r' ' ' *)
Definition is_space (b : N) : bool :=
  (b =? 9) || (b =? 10) || (b =? 11) || (b =? 12) || (b =? 13) || (b =? 32).
Fixpoint trim_left (a : addr) : addr :=
  match a with
  | [] => []
  | b :: r => if is_space b then trim_left r else a
  end.
Definition trim (a : addr) : addr := rev (trim_left (rev (trim_left a))).
(* strings.EqualFold on ASCII: 'A'..'Z' ~ 'a'..'z' *)
Definition lower (b : N) : N := if (65 <=? b) && (b <=? 90) then b + 32 else b.
Definition norm_ascii (a : addr) : addr := map lower (trim a).

Definition is_add_type (t : Z) : bool :=
  ((t =? cc_add_node) || (t =? cc_add_non_voting) || (t =? cc_add_witness))%Z.

(* outcome of handleConfigChange *)
Inductive outcome :=
| Applied (m : membership)      (* returned true, membership updated *)
| Rejected (reason : N)         (* returned false, membership untouched; reason = position in the else-if chain, 1..10 *)
| Panicked (tag : N).           (* 1 "not suppose to reach here", 2 "unknown config change type", 3 "rejected for unknown reasons" *)

Definition panic_unreachable : N := 1.
Definition panic_unknown_type : N := 2.
Definition panic_unknown_reason : N := 3.

Inductive apply_result := AOk (m : membership) | APanic (tag : N).

Inductive verdict := VApplied | VRejected | VPanic.

(* one request = the decoded config change entry and its log index *)
Definition req := (cc * N)%type.

Section Rules.
  Variable norm : addr -> addr.

  (* addressEqual *)
  Definition address_equal (a b : addr) : bool := bytes_eqb (norm a) (norm b).

  (* isUpToDate *)
  Definition is_up_to_date (ordered : bool) (m : membership) (c : cc) : bool :=
    if negb ordered || cc_init c then true
    else if m_ccid m =? cc_ccid c then true else false.

  (* isAddRemovedNode *)
  Definition is_add_removed_node (m : membership) (c : cc) : bool :=
    if is_add_type (cc_type c) then rmem (cc_replica c) (m_removed m) else false.

  (* isPromoteNonVoting *)
  Definition is_promote_non_voting (m : membership) (c : cc) : bool :=
    if (cc_type c =? cc_add_node)%Z then
      match alookup (cc_replica c) (m_nonvotings m) with
      | Some oa => address_equal oa (cc_addr c)
      | None => false
      end
    else false.

  (* isInvalidNonVotingPromotion *)
  Definition is_invalid_non_voting_promotion (m : membership) (c : cc) : bool :=
    if (cc_type c =? cc_add_node)%Z then
      match alookup (cc_replica c) (m_nonvotings m) with
      | Some oa => negb (address_equal oa (cc_addr c))
      | None => false
      end
    else false.

  Definition addr_in_use (a : addr) (mp : amap) : bool :=
    existsb (fun p => address_equal (snd p) a) mp.

  (* isAddExistingMember *)
  Definition is_add_existing_member (m : membership) (c : cc) : bool :=
    if (cc_type c =? cc_add_node)%Z && amem (cc_replica c) (m_addresses m) then true
    else if (cc_type c =? cc_add_non_voting)%Z && amem (cc_replica c) (m_nonvotings m) then true
    else if (cc_type c =? cc_add_witness)%Z && amem (cc_replica c) (m_witnesses m) then true
    else if is_promote_non_voting m c then false
    else if is_add_type (cc_type c) then
      addr_in_use (cc_addr c) (m_addresses m)
      || addr_in_use (cc_addr c) (m_nonvotings m)
      || addr_in_use (cc_addr c) (m_witnesses m)
    else false.

  (* isAddNodeAsNonVoting *)
  Definition is_add_node_as_non_voting (m : membership) (c : cc) : bool :=
    if (cc_type c =? cc_add_non_voting)%Z then amem (cc_replica c) (m_addresses m) else false.
  (* isAddNodeAsWitness *)
  Definition is_add_node_as_witness (m : membership) (c : cc) : bool :=
    if (cc_type c =? cc_add_witness)%Z then amem (cc_replica c) (m_addresses m) else false.
  (* isAddWitnessAsNonVoting *)
  Definition is_add_witness_as_non_voting (m : membership) (c : cc) : bool :=
    if (cc_type c =? cc_add_non_voting)%Z then amem (cc_replica c) (m_witnesses m) else false.
  (* isAddWitnessAsNode *)
  Definition is_add_witness_as_node (m : membership) (c : cc) : bool :=
    if (cc_type c =? cc_add_node)%Z then amem (cc_replica c) (m_witnesses m) else false.
  (* isAddNonVotingAsWitness *)
  Definition is_add_non_voting_as_witness (m : membership) (c : cc) : bool :=
    if (cc_type c =? cc_add_witness)%Z then amem (cc_replica c) (m_nonvotings m) else false.
  (* isDeleteOnlyNode *)
  Definition is_delete_only_node (m : membership) (c : cc) : bool :=
    if (cc_type c =? cc_remove_node)%Z && (alen (m_addresses m) =? 1)
    then amem (cc_replica c) (m_addresses m) else false.

  (* the ten values handleConfigChange computes, in the order of its conjunction *)
  Definition rule_vector (ordered : bool) (m : membership) (c : cc) : list bool :=
    [ is_up_to_date ordered m c;
      is_add_removed_node m c;
      is_add_existing_member m c;
      is_add_node_as_non_voting m c;
      is_add_node_as_witness m c;
      is_add_witness_as_node m c;
      is_add_witness_as_non_voting m c;
      is_add_non_voting_as_witness m c;
      is_delete_only_node m c;
      is_invalid_non_voting_promotion m c ].

  Definition accepted (ordered : bool) (m : membership) (c : cc) : bool :=
    is_up_to_date ordered m c
    && negb (is_add_removed_node m c)
    && negb (is_add_existing_member m c)
    && negb (is_add_node_as_non_voting m c)
    && negb (is_add_node_as_witness m c)
    && negb (is_add_witness_as_node m c)
    && negb (is_add_witness_as_non_voting m c)
    && negb (is_add_non_voting_as_witness m c)
    && negb (is_delete_only_node m c)
    && negb (is_invalid_non_voting_promotion m c).

  (* the else-if chain of the reject branch (only logged by the code) *)
  Definition reject_reason (ordered : bool) (m : membership) (c : cc) : option N :=
    if negb (is_up_to_date ordered m c) then Some 1
    else if is_add_removed_node m c then Some 2
    else if is_add_existing_member m c then Some 3
    else if is_add_node_as_non_voting m c then Some 4
    else if is_add_node_as_witness m c then Some 5
    else if is_add_witness_as_node m c then Some 6
    else if is_add_witness_as_non_voting m c then Some 7
    else if is_add_non_voting_as_witness m c then Some 8
    else if is_delete_only_node m c then Some 9
    else if is_invalid_non_voting_promotion m c then Some 10
    else None.

  (* apply *)
  Definition apply_cc (m : membership) (c : cc) (index : N) : apply_result :=
    let id := cc_replica c in
    if (cc_type c =? cc_add_node)%Z then
      if amem id (m_witnesses m) then APanic panic_unreachable
      else AOk (mkM index (ainsert id (cc_addr c) (m_addresses m)) (m_removed m)
                    (adelete id (m_nonvotings m)) (m_witnesses m))
    else if (cc_type c =? cc_add_non_voting)%Z then
      if amem id (m_addresses m) then APanic panic_unreachable
      else AOk (mkM index (m_addresses m) (m_removed m)
                    (ainsert id (cc_addr c) (m_nonvotings m)) (m_witnesses m))
    else if (cc_type c =? cc_add_witness)%Z then
      if amem id (m_addresses m) then APanic panic_unreachable
      else if amem id (m_nonvotings m) then APanic panic_unreachable
      else AOk (mkM index (m_addresses m) (m_removed m) (m_nonvotings m)
                    (ainsert id (cc_addr c) (m_witnesses m)))
    else if (cc_type c =? cc_remove_node)%Z then
      AOk (mkM index (adelete id (m_addresses m)) (radd id (m_removed m))
               (adelete id (m_nonvotings m)) (adelete id (m_witnesses m)))
    else APanic panic_unknown_type.

  (* handleConfigChange *)
  Definition handle (ordered : bool) (m : membership) (c : cc) (index : N) : outcome :=
    if accepted ordered m c then
      match apply_cc m c index with
      | AOk m' => Applied m'
      | APanic t => Panicked t
      end
    else
      match reject_reason ordered m c with
      | Some r => Rejected r
      | None => Panicked panic_unknown_reason
      end.

  (* StateMachine.configChange on one entry: new membership and what the replica reports *)
  Definition step (ordered : bool) (m : membership) (r : req) : membership * verdict :=
    match handle ordered m (fst r) (snd r) with
    | Applied m' => (m', VApplied)
    | Rejected _ => (m, VRejected)
    | Panicked _ => (m, VPanic)
    end.

  (* a replica applying the config change entries of its log in order; a panic
     stops the replica (the remaining entries are not processed) *)
  Fixpoint run (ordered : bool) (m : membership) (reqs : list req) : membership * list verdict :=
    match reqs with
    | [] => (m, [])
    | r :: rest =>
        let '(m1, v) := step ordered m r in
        match v with
        | VPanic => (m1, [v])
        | _ => let '(m2, vs) := run ordered m1 rest in (m2, v :: vs)
        end
    end.
End Rules.

(* ---- kind of a replica id in a membership ---- *)
Inductive kind := Voting | NonVoting | Witness.
Definition kind_of (m : membership) (id : N) : option kind :=
  if amem id (m_addresses m) then Some Voting
  else if amem id (m_nonvotings m) then Some NonVoting
  else if amem id (m_witnesses m) then Some Witness
  else None.
Definition addr_of (m : membership) (id : N) : option addr :=
  match alookup id (m_addresses m) with
  | Some a => Some a
  | None => match alookup id (m_nonvotings m) with
            | Some a => Some a
            | None => alookup id (m_witnesses m)
            end
  end.

(* ---- canonical observations: maps sorted by key ---- *)
Fixpoint insert_sorted (p : N * addr) (l : amap) : amap :=
  match l with
  | [] => [p]
  | q :: r => if fst p <=? fst q then p :: l else q :: insert_sorted p r
  end.
Definition sort_amap (m : amap) : amap := fold_right insert_sorted [] m.
Fixpoint insert_sorted_n (x : N) (l : list N) : list N :=
  match l with
  | [] => [x]
  | y :: r => if x <=? y then x :: l else y :: insert_sorted_n x r
  end.
Definition sort_ns (l : list N) : list N := fold_right insert_sorted_n [] l.

Definition observe (m : membership) : membership :=
  mkM (m_ccid m) (sort_amap (m_addresses m)) (sort_ns (m_removed m))
      (sort_amap (m_nonvotings m)) (sort_amap (m_witnesses m)).

(* ---- StateMachine.handleEntry as far as membership is concerned ---- *)
(* internal/rsm/statemachine.go: a replica applies the entries of its log in
   index order. A config change entry goes to configChange (= [step]) WHATEVER
   the index the on disk state machine reported when it was opened
   (onDiskInitIndex); an ordinary update at or below that index is skipped as a
   no-op (entryInInitDiskSM), above it it is handed to the user state machine.
   Recovery from a snapshot record (StateMachine.apply) installs the recorded
   membership and applied index. *)
Inductive entry :=
| EConfigChange (c : cc)
| EUpdate.                       (* any entry that is not a config change *)
Definition lentry := (entry * N)%type.   (* entry, log index *)

Record replica := mkR {
  r_members : membership;
  r_applied : N;      (* lastApplied index *)
  r_updates : N       (* number of entries handed to the user state machine by this incarnation *)
}.

(* entryInInitDiskSM *)
Definition entry_in_init_disk_sm (on_disk : bool) (odi idx : N) : bool :=
  if on_disk then idx <=? odi else false.

Definition sm_handle_entry (norm : addr -> addr) (ordered on_disk : bool) (odi : N)
           (r : replica) (e : lentry) : replica * option verdict :=
  match fst e with
  | EConfigChange c =>
      let '(m', v) := step norm ordered (r_members r) (c, snd e) in
      (mkR m' (snd e) (r_updates r), Some v)
  | EUpdate =>
      if entry_in_init_disk_sm on_disk odi (snd e)
      then (mkR (r_members r) (snd e) (r_updates r), None)
      else (mkR (r_members r) (snd e) (r_updates r + 1), None)
  end.

(* verdicts of the config change entries, in order; a panic stops the replica *)
Fixpoint sm_run (norm : addr -> addr) (ordered on_disk : bool) (odi : N)
         (r : replica) (es : list lentry) : replica * list verdict :=
  match es with
  | [] => (r, [])
  | e :: rest =>
      let '(r1, ov) := sm_handle_entry norm ordered on_disk odi r e in
      match ov with
      | Some VPanic => (r1, [VPanic])
      | Some v => let '(r2, vs) := sm_run norm ordered on_disk odi r1 rest in (r2, v :: vs)
      | None => sm_run norm ordered on_disk odi r1 rest
      end
  end.

(* StateMachine.apply(ss): membership and applied index of the snapshot record *)
Definition sm_recover (ss_members : membership) (ss_index : N) : replica :=
  mkR (m_set ss_members) ss_index 0.

(* the config change requests of a log *)
Fixpoint cc_reqs (es : list lentry) : list req :=
  match es with
  | [] => []
  | (EConfigChange c, i) :: rest => (c, i) :: cc_reqs rest
  | (EUpdate, _) :: rest => cc_reqs rest
  end.

(* ---- the executable instance used by the differential check ---- *)
Definition handle_ascii := handle norm_ascii.
Definition address_equal_ascii := address_equal norm_ascii.
Definition run_ascii := run norm_ascii.
Definition sm_run_ascii := sm_run norm_ascii.

(* mentions Z so that the extracted code has the type *)
Definition cc_type_codes : list Z := [cc_add_node; cc_remove_node; cc_add_non_voting; cc_add_witness].
