(* L2, stages 2 and 3 together (Model/RaftNetCfgSnap.v): the executable side.
   Definitions only (soundness: Proofs/RaftNetCfgSnapExec.v, statements: Props/R02.v).

   [step_fn4] is the successor-state function of [step4]: [step_fn4 s l = Some s'] implies
   [step4 s l s'].  The trace-inclusion checker (sub-check R02, ocaml/r02/driver.ml) runs
   the extracted [step_fn4] on the label sequence that an untrusted explainer proposes for
   every step of the L1 model (= of the code, checked equal state by state), and compares
   the node states it computes with the abstraction of the L1 states.

   The membership function used by the checker, [cfg_sim C0], mirrors the deterministic
   mini membership state machine of the simulator (harness/raftsim/sim.go, Membership.Apply):
   a config change entry carries its request in its payload,
       100 + v  AddNode v        200 + v  RemoveNode v
       300 + v  AddNonVoting v   400 + v  AddWitness v            (v < 100)
   rejected requests (a removed replica coming back, a second role for a member, removing
   the last voter) are entries that leave the membership as it is.  The voters a node
   counts are the full voters and the witnesses of the membership its applied entries
   produce, starting from the bootstrap voters [C0]. *)
From DB Require Export Model.RaftNetCfgSnap.

Section Exec4.
  Variable cfg_of : list entry -> list id.
  Variable is_cc : entry -> bool.

  Definition visible4_b (s : net4) (l : label3) : bool :=
    match l with
    | L3Base (LSendAE i prev _ _) => first4 s i <=? prev
    | L3Crash i c _ _ => first4 s i <=? c
    | _ => true
    end.

  Definition step_fn4 (s : net4) (l : label4) : option net4 :=
    match l with
    | L4Base l0 =>
      if visible4_b s l0 then
        match step_fn3 cfg_of is_cc (base4 s) l0 with
        | Some b' => Some (mkNet4 b' (first4 s) (snaps4 s))
        | None => None
        end
      else None
    | L4Compact i k =>
      if (first4 s i <=? k) && (k <=? commit (nodes (base3 (base4 s)) i)) then
        Some (mkNet4 (base4 s) (updn (first4 s) i k) (snaps4 s))
      else None
    | L4SendIS i sidx =>
      let x := nodes (base3 (base4 s)) i in
      if role_eqb (role x) Leader && (1 <=? sidx) && (sidx <=? commit x) then
        Some (mkNet4 (base4 s) (first4 s) (IS (term x) i sidx (term_at (log x) sidx) :: snaps4 s))
      else None
    | L4HandleIS j t ldr sidx sterm =>
      let n := base3 (base4 s) in
      let x := nodes n j in
      if existsb (snapmsg_eqb (IS t ldr sidx sterm)) (snaps4 s) && (t =? term x) then
        if sidx <=? commit x then
          Some (mkNet4 (set_base (base4 s)
                          (mkNet (upd (nodes n) j
                                      (mkNode (term x) (voted x) Follower (log x) (commit x) (hcommit x)))
                                 (Ack t j ldr (commit x) :: msgs n) (lead n) (llog0 n) (llog n)))
                       (first4 s) (snaps4 s))
        else if term_at (log x) sidx =? sterm then
          Some (mkNet4 (set_base (base4 s)
                          (mkNet (upd (nodes n) j
                                      (mkNode (term x) (voted x) Follower (log x) sidx
                                              (Nat.max (hcommit x) sidx)))
                                 (Ack t j ldr sidx :: msgs n) (lead n) (llog0 n) (llog n)))
                       (first4 s) (snaps4 s))
        else
          Some (mkNet4 (set_base (base4 s)
                          (mkNet (upd (nodes n) j
                                      (mkNode (term x) (voted x) Follower (firstn sidx (llog n t)) sidx
                                              (Nat.max (hcommit x) sidx)))
                                 (Ack t j ldr sidx :: msgs n) (lead n) (llog0 n) (llog n)))
                       (updn (first4 s) j sidx) (snaps4 s))
      else None
    end.

  Fixpoint run4 (s : net4) (ls : list label4) : option net4 :=
    match ls with
    | [] => Some s
    | l :: r => match step_fn4 s l with Some s1 => run4 s1 r | None => None end
    end.

End Exec4.

(* ---------------------------------------------------------------- *)
(* the membership function of the simulator *)

Record members := mkMem {
  m_voters : list id;
  m_nonvotings : list id;
  m_witnesses : list id;
  m_removed : list id
}.

Definition memb (x : id) (l : list id) : bool := existsb (Nat.eqb x) l.
Definition drop (x : id) (l : list id) : list id := filter (fun y => negb (y =? x)) l.

Definition mem_member (m : members) (x : id) : bool :=
  memb x (m_voters m) || memb x (m_nonvotings m) || memb x (m_witnesses m).

(* Membership.Apply of harness/raftsim/sim.go; a rejected request returns [m] *)
Definition mem_apply (m : members) (e : entry) : members :=
  let p := epay e in
  let v := p mod 100 in
  match p / 100 with
  | 1 => (* AddNode: a new voter, or the promotion of a non-voting member *)
    if memb v (m_removed m) || memb v (m_voters m) || memb v (m_witnesses m) then m
    else mkMem (v :: m_voters m) (drop v (m_nonvotings m)) (m_witnesses m) (m_removed m)
  | 2 => (* RemoveNode *)
    if memb v (m_voters m) && (length (m_voters m) =? 1) then m
    else mkMem (drop v (m_voters m)) (drop v (m_nonvotings m)) (drop v (m_witnesses m))
               (v :: m_removed m)
  | 3 => (* AddNonVoting *)
    if memb v (m_removed m) || mem_member m v then m
    else mkMem (m_voters m) (v :: m_nonvotings m) (m_witnesses m) (m_removed m)
  | 4 => (* AddWitness *)
    if memb v (m_removed m) || mem_member m v then m
    else mkMem (m_voters m) (m_nonvotings m) (v :: m_witnesses m) (m_removed m)
  | _ => m
  end.

Definition mem_init (C0 : list id) : members := mkMem C0 [] [] [].

Definition mem_fold (C0 : list id) (l : list entry) : members := fold_left mem_apply l (mem_init C0).

(* the replicas whose votes and acknowledgements are counted *)
Definition mem_voting (m : members) : list id := m_voters m ++ m_witnesses m.

Definition cfg_sim (C0 : list id) (l : list entry) : list id := mem_voting (mem_fold C0 l).

Definition is_cc_sim (e : entry) : bool := (100 <=? epay e) && (epay e <? 500).

Definition step_fn4_sim (C0 : list id) : net4 -> label4 -> option net4 :=
  step_fn4 (cfg_sim C0) is_cc_sim.

Definition run4_sim (C0 : list id) : net4 -> list label4 -> option net4 :=
  run4 (cfg_sim C0) is_cc_sim.

(* ---------------------------------------------------------------- *)
(* what the checker reads from a state (so that the hand-written driver needs no
   constructor or field name of the model) *)

Definition role_code (r : role_t) : nat :=
  match r with Follower => 0 | Candidate => 1 | Leader => 2 end.

Definition code_role (c : nat) : role_t :=
  match c with 0 => Follower | 1 => Candidate | _ => Leader end.

Record l2obs := mkObs {
  o_term : nat; o_voted : option id; o_role : nat; o_log : list entry; o_commit : nat;
  o_applied : nat; o_pending : bool; o_first : nat
}.

Definition l2_obs (s : net4) (i : id) : l2obs :=
  let x := nodes (base3 (base4 s)) i in
  mkObs (term x) (voted x) (role_code (role x)) (log x) (commit x)
        (applied (base4 s) i) (pending (base4 s) i) (first4 s i).

Definition l2_msgs (s : net4) : list msg := msgs (base3 (base4 s)).
Definition l2_snaps (s : net4) : list snapmsg := snaps4 s.
Definition l2_cfg (C0 : list id) (s : net4) (i : id) : list id := cfg (cfg_sim C0) (base4 s) i.
Definition l2_init : net4 := init4.

(* ---------------------------------------------------------------- *)
(* resynchronisation: NOT a step of the model.  The checker uses these only when its
   explainer has no rule for an L1 step; it counts every use, and a run with a use is a
   sequence of model runs, not one run. *)

Definition resync_node (s : net4) (i : id) (o : l2obs) : net4 :=
  let b3 := base4 s in
  let n := base3 b3 in
  let x := mkNode (o_term o) (o_voted o) (code_role (o_role o)) (o_log o) (o_commit o)
                  (Nat.max (hcommit (nodes n i)) (o_commit o)) in
  let isl := role_eqb (code_role (o_role o)) Leader in
  let n' := mkNet (upd (nodes n) i x) (msgs n)
                  (if isl then updg (lead n) (o_term o) (Some i) else lead n)
                  (if isl then updg (llog0 n) (o_term o) (o_log o) else llog0 n)
                  (if isl then updg (llog n) (o_term o) (o_log o) else llog n) in
  mkNet4 (mkNet3 n' (updn3 (applied b3) i (o_applied o)) (updb3 (pending b3) i (o_pending o))
                 (lcfg b3) (lapp b3) (cevents b3))
         (updn (first4 s) i (o_first o)) (snaps4 s).

Definition resync_msg (s : net4) (m : msg) : net4 :=
  let b3 := base4 s in
  let n := base3 b3 in
  mkNet4 (set_base b3 (mkNet (nodes n) (m :: msgs n) (lead n) (llog0 n) (llog n)))
         (first4 s) (snaps4 s).

Definition resync_snap (s : net4) (m : snapmsg) : net4 :=
  mkNet4 (base4 s) (first4 s) (m :: snaps4 s).
