(* Faithful model of one Pebble-backed log db in the BATCHED entry format:
   internal/logdb/batch.go on top of db.go / cache.go (Model/LogDBPlain.v provides the
   format-independent parts: hard state, snapshots, max index, cache, import).

   INTERFACE:
     batch_id, batch_id_range          getBatchID / getBatchIDRange (batch size regenerated)
     restore_batch / compact_batch     restoreBatchFields / compactBatchFields
     merge_first_batch eb lb           getMergedFirstBatch (function); None = panic
     b_record                          batchedEntries.record: reads the stored/cached last
                                       batch, updates the cached last batch, returns the puts
     b_save_raft_state, b_remove_entries_to, b_remove_node_data, b_iterate,
     b_read_raft_state                 the db operations in the batched format
     batched_step / batched_query      as plain_step / plain_query
   No proofs in this file. *)
From Coq Require Import List NArith Bool.
From DB Require Import Base.Bytes Gen.GenC09 Model.LogStoreSpec Model.KV Model.LogDBPlain.
Import ListNotations.
Open Scope N_scope.

Definition bsz : N := c09_batch_size.
Definition batch_id (i : N) : N := i / bsz.
Definition batch_id_range (low high : N) : N * N :=
  if high mod bsz =? 0 then (batch_id low, batch_id high) else (batch_id low, batch_id high + 1).

Definition set_term_index (e : entry) (t i : N) : entry := mkEnt i t (e_tag e) (e_len e).

(* restoreBatchFields (callers guarantee len > 1) *)
Fixpoint restore_from (t idx : N) (es : list entry) : list entry :=
  match es with
  | [] => []
  | e :: r => set_term_index e t idx :: restore_from t (idx + 1) r
  end.
Definition restore_batch (es : list entry) : list entry :=
  match es with
  | e0 :: r =>
    if e_term (last es e0) =? 0 then e0 :: restore_from (e_term e0) (e_index e0 + 1) r else es
  | [] => es
  end.
Definition restore_if_many (es : list entry) : list entry :=
  match es with _ :: _ :: _ => restore_batch es | _ => es end.

(* compactBatchFields (callers guarantee len > 1) *)
Definition compact_batch (es : list entry) : list entry :=
  match es with
  | e0 :: r =>
    let l := last es e0 in
    if (e_term e0 =? e_term l) && (e_index e0 + nlen es - 1 =? e_index l)
    then e0 :: map (fun e => set_term_index e 0 0) r
    else es
  | [] => es
  end.
Definition compact_if_many (es : list entry) : list entry :=
  match es with _ :: _ :: _ => compact_batch es | _ => es end.

Fixpoint take_below (i : N) (es : list entry) : list entry :=   (* lb.Entries[:i] with lb[i].Index >= first *)
  match es with
  | [] => []
  | e :: r => if i <=? e_index e then [] else e :: take_below i r
  end.

(* getMergedFirstBatch(eb, lb): None = panic *)
Definition merge_first_batch (eb lb : list entry) : option (list entry) :=
  match eb, lb with
  | e0 :: _, l0 :: _ =>
    let bid := batch_id (e_index e0) in
    if bid <? batch_id (e_index l0) then None
    else if batch_id (e_index l0) <? bid then Some eb
    else if e_index l0 <? e_index e0 then
      if e_index e0 <=? e_index (last lb l0) then Some (take_below (e_index e0) lb ++ eb)
      else Some (lb ++ eb)
    else Some eb
  | _, _ => None
  end.

(* getBatchFromDB: Some None = not found; None = panic (cannot decode) *)
Definition get_batch_from_db (m : kv) (n : nid) (bid : N) : option (option (list entry)) :=
  match kv_get m (KBatch n bid) with
  | None => Some None
  | Some (VBatch es) => Some (Some (restore_if_many es))
  | Some _ => None
  end.

(* batchedEntries.getMergedFirstBatch (method) *)
Definition b_merged_first (m : kv) (cn : cnode) (n : nid) (eb : list entry) : option (list entry) :=
  match eb with
  | [] => None
  | e0 :: _ =>
    if e_index e0 mod bsz =? 0 then Some eb
    else
      let bid := batch_id (e_index e0) in
      let from_db :=
        match get_batch_from_db m n bid with
        | None => None
        | Some None => Some eb
        | Some (Some lb) => merge_first_batch eb lb
        end in
      match c_batch cn with
      | Some (l0 :: lr) =>
        if bid <? batch_id (e_index l0) then from_db else merge_first_batch eb (l0 :: lr)
      | Some [] => None   (* lb.Entries[0] on an empty cached batch *)
      | None => from_db
      end
  end.

(* maximal runs of entries with the same batch id, in order *)
Fixpoint split_batches (cur : list entry) (es : list entry) : list (list entry) :=
  match es with
  | [] => match cur with [] => [] | _ => [rev cur] end
  | e :: r =>
    match cur with
    | [] => split_batches [e] r
    | c :: _ =>
      if batch_id (e_index e) =? batch_id (e_index c) then split_batches (e :: cur) r
      else rev cur :: split_batches [e] r
    end
  end.

(* recordBatch over the groups *)
Fixpoint record_groups (m : kv) (n : nid) (first_id last_id : N) (cn : cnode) (gs : list (list entry))
  : option (cnode * wb) :=
  match gs with
  | [] => Some (cn, [])
  | g :: rest =>
    match g with
    | [] => record_groups m n first_id last_id cn rest
    | e0 :: _ =>
      let bid := batch_id (e_index e0) in
      match (if first_id =? bid then b_merged_first m cn n g else Some g) with
      | None => None
      | Some meb =>
        let cn1 := if last_id =? bid then mkC (c_state cn) (c_max cn) (c_snap cn) (Some meb) else cn in
        match record_groups m n first_id last_id cn1 rest with
        | None => None
        | Some (cn2, w) => Some (cn2, WPut (KBatch n bid) (VBatch (compact_if_many meb)) :: w)
        end
      end
    end
  end.

(* batchedEntries.record *)
Definition b_record (m : kv) (c : cache) (n : nid) (es : list entry) : option (cache * wb * N) :=
  match es with
  | [] => None (* panic("empty entries") *)
  | e0 :: _ =>
    match record_groups m n (batch_id (e_index e0)) (batch_id (e_index (last es e0))) (c n)
            (split_batches [] es) with
    | None => None
    | Some (cn, w) => Some (cupd c n cn, w, max_entry_index 0 es)
    end
  end.

Definition b_save_tail (m : kv) (c : cache) (u : update) : option (cache * wb) :=
  match u_ents u with
  | [] => Some (c, [])
  | es =>
    match b_record m c (u_node u) es with
    | None => None
    | Some (c1, w, mi) =>
      if 0 <? mi then Some (cs_set_max_index c1 (u_node u) mi, w ++ [WPut (KMaxIndex (u_node u)) (VMax mi)])
      else Some (c1, w)
    end
  end.
Fixpoint b_save_tails (m : kv) (c : cache) (us : list update) : option (cache * wb) :=
  match us with
  | [] => Some (c, [])
  | u :: t =>
    match b_save_tail m c u with
    | None => None
    | Some (c1, w1) =>
      match b_save_tails m c1 t with
      | None => None
      | Some (c2, w2) => Some (c2, w1 ++ w2)
      end
    end
  end.

Definition b_save_raft_state (d : pdb) (us : list update) : option pdb :=
  match save_heads (p_kv d) (p_cache d) us with
  | None => None
  | Some (c1, w1) =>
    match b_save_tails (p_kv d) c1 us with
    | None => None
    | Some (c2, w2) => Some (mkDB (kv_commit (p_kv d) (w1 ++ w2)) c2)
    end
  end.

(* batchedEntries.rangedOp + BulkRemoveEntries *)
Definition b_remove_entries_to (d : pdb) (n : nid) (idx : N) : pdb :=
  let bid := batch_id idx in
  if (bid =? 0) || (bid =? 1) then d
  else mkDB (kv_del_range (p_kv d) (KBatch n 0) (KBatch n (bid - 1))) (p_cache d).

Definition b_remove_node_data (d : pdb) (n : nid) : option pdb :=
  match list_snapshots (p_kv d) n with
  | None => None
  | Some l =>
    let m1 := kv_commit (p_kv d) (remove_node_wb n l) in
    let c1 := cs_remove_node_data (cs_set_max_index (p_cache d) n 0) n in
    Some (b_remove_entries_to (mkDB m1 c1) n u64max)
  end.

(* ---- read side ---- *)

(* iterateBatches: the stored batches visited, not restored; None = panic *)
Fixpoint batches_scan (l : kv) (expected : N) : option (list (list entry)) :=
  match l with
  | [] => Some []
  | (_, VBatch (e0 :: r)) :: t =>
    if batch_id (e_index e0) =? expected then
      match batches_scan t (expected + 1) with
      | None => None
      | Some bs => Some ((e0 :: r) :: bs)
      end
    else Some []
  | _ :: _ => None   (* empty batch: eb.Entries[0] panics; foreign value: cannot decode *)
  end.

Definition iterate_batches (m : kv) (n : nid) (lowid highid : N) : option (list (list entry)) :=
  if lowid + 1 =? highid then
    match get_batch_from_db m n lowid with
    | None => None
    | Some None => Some []
    | Some (Some b) => Some [b]
    end
  else batches_scan (kv_range m (KBatch n lowid) (KBatch n highid) false) lowid.

(* the double loop of batchedEntries.iterate; result: entries (reversed), size, stopped *)
Fixpoint iter_entries (es : list entry) (low high maxsz exp size : N) (acc : list entry)
  : list entry * N * N * bool :=
  match es with
  | [] => (acc, exp, size, false)
  | e :: r =>
    if (low <=? e_index e) && (e_index e <? high) then
      if negb (e_index e =? exp) then (acc, exp, size, true)
      else let size' := size + esize e in
           if maxsz <? size' then (e :: acc, e_index e + 1, size', true)
           else iter_entries r low high maxsz (e_index e + 1) size' (e :: acc)
    else iter_entries r low high maxsz exp size acc
  end.
Fixpoint iter_batches (bs : list (list entry)) (low high maxsz exp size : N) (acc : list entry)
  : list entry * N :=
  match bs with
  | [] => (rev acc, fold_left (fun s e => s + esize e) (rev acc) 0)  (* entriesSize(ents) *)
  | b :: rest =>
    match iter_entries (restore_if_many b) low high maxsz exp size acc with
    | (acc', exp', size', true) => (rev acc', size')
    | (acc', exp', size', false) => iter_batches rest low high maxsz exp' size' acc'
    end
  end.

Definition batched_iterate (m : kv) (n : nid) (maxidx low high maxsz : N) : ranswer :=
  let high' := if maxidx + 1 <? high then maxidx + 1 else high in
  let (lowid, highid) := batch_id_range low high' in
  match iterate_batches m n lowid highid with
  | None => RPanic
  | Some [] => RIter [] 0
  | Some bs => let (es, sz) := iter_batches bs low high' maxsz low 0 [] in RIter es sz
  end.
Definition b_iterate := p_iterate_with batched_iterate.

(* batchedEntries.getRange *)
Fixpoint first_in_range (es : list entry) (lo hi : N) : option N :=
  match es with
  | [] => None
  | e :: r => if (lo <=? e_index e) && (e_index e <=? hi) then Some (e_index e) else first_in_range r lo hi
  end.
Fixpoint range_scan (l : kv) (lo hi : N) : option N :=   (* Some 0 = nothing found; None = panic *)
  match l with
  | [] => Some 0
  | (_, VBatch (e0 :: r)) :: t =>
    match first_in_range (restore_if_many (e0 :: r)) lo hi with
    | Some i => Some i     (* firstIndex = e.Index; return false: the scan stops *)
    | None => range_scan t lo hi
    end
  | _ :: _ => None
  end.
Definition batched_get_range (m : kv) (n : nid) (snapidx maxidx : N) : option (N * N) :=
  let (lowid, highid) := batch_id_range snapidx (maxidx + 1) in
  match range_scan (kv_range m (KBatch n lowid) (KBatch n highid) false) snapidx maxidx with
  | None => None
  | Some first =>
    if (first =? 0) && negb (maxidx =? 0) then None
    else if 0 <? first then Some (first, maxidx - first + 1) else Some (0, 0)
  end.
Definition b_read_raft_state := p_read_raft_state_with batched_get_range.

Definition batched_step (d : pdb) (o : op) : option pdb :=
  match o with
  | OSave us => b_save_raft_state d us
  | OSnap n ss => p_save_snapshots d [mk_snap_update n ss]
  | ORemTo n idx => Some (b_remove_entries_to d n idx)
  | ORemNode n => b_remove_node_data d n
  | OImport n ss =>
    match p_import_snapshot (p_reopen d) n ss with
    | None => None
    | Some d' => Some (p_reopen d')
    end
  | OReopen => Some (p_reopen d)
  end.

Definition batched_query (d : pdb) (q : query) : ranswer * pdb :=
  match q with
  | QIter n low high maxsz => (b_iterate d n low high maxsz, d)
  | QState n arg => (b_read_raft_state d n arg, d)
  | QSnap n => p_get_snapshot d n
  end.

(* ---- runs: mutations interleaved with queries ---- *)
Definition batched_pstep (d : option pdb) (p : pop) : option pdb :=
  match d with
  | None => None
  | Some d =>
    match p with
    | PMut o => batched_step d o
    | PQry q => Some (snd (batched_query d q))
    end
  end.
Definition batched_prun (l : list pop) : option pdb := fold_left batched_pstep l (Some pdb_init).
Definition batched_observe (d : pdb) (q : query) : answer := canon q (fst (batched_query d q)).
