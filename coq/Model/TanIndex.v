(* Faithful model of tan's per-replica entry index: internal/tan/index.go
   (indexEntry.merge / indexEntry.update / index.update / index.query) and the entry
   bookkeeping of db.updateIndex (internal/tan/db.go).

   INTERFACE:
     ientry                 indexEntry: the entries [start, end] of one record live in log
                            file `file` at offset `pos`, `len` bytes
     ie_merge, ie_update    indexEntry.merge / indexEntry.update
     index_update es e      index.update(e): es is the slice index.entries
     index_query es lo hi   index.query(lo, hi): IQPanic | IQRes result ok
     entries_index_entry    the indexEntry db.updateIndex builds for an update with entries
   sort.Search in index.query is modelled as "the first position with low <= end"; the two
   agree whenever the predicate is monotone along the slice, which is the case for a sorted
   index (Props: tan_index_sorted_disjoint).
   No proofs in this file. *)
From Coq Require Import List NArith Bool.
From DB Require Import Base.Bytes Gen.GenC09.
Import ListNotations.
Open Scope N_scope.

Record ientry := mkIE { ie_start : N; ie_end : N; ie_file : N; ie_pos : N; ie_len : N }.

Definition index_block (e : ientry) : N := ie_pos e / c09_tan_index_block_size.

(* indexEntry.merge: Some merged entry, or None *)
Definition ie_merge (e n : ientry) : option ientry :=
  if (ie_end e + 1 =? ie_start n) && (ie_pos e + ie_len e =? ie_pos n) &&
     (ie_file e =? ie_file n) && (index_block e =? index_block n)
  then Some (mkIE (ie_start e) (ie_end n) (ie_file e) (ie_pos e) (ie_len e + ie_len n))
  else None.

(* indexEntry.update: (first result, optional second result, more merge required) *)
Definition ie_update (e n : ientry) : ientry * option ientry * bool :=
  match ie_merge e n with
  | Some m => (m, None, false)
  | None =>
    if ie_start n =? ie_start e then (n, None, false)
    else if ie_start n <? ie_start e then (n, None, true)
    else if (ie_start e <? ie_start n) && (ie_start n <=? ie_end e)
    then (mkIE (ie_start e) (ie_start n - 1) (ie_file e) (ie_pos e) (ie_len e), Some n, false)
    else (e, Some n, false)
  end.

(* index.update on the reversed slice (last entry first) *)
Fixpoint update_rev (r : list ientry) (e : ientry) : list ientry :=
  match r with
  | [] => [e]
  | last :: rest =>
    match ie_update last e with
    | (e1, e2, true) =>
      match rest with
      | [] => [e1]
      | _ => update_rev rest e1
      end
    | (e1, None, false) => e1 :: rest
    | (e1, Some x, false) => x :: e1 :: rest
    end
  end.
Definition index_update (es : list ientry) (e : ientry) : list ientry := rev (update_rev (rev es) e).

Inductive iqres := IQPanic | IQRes (res : list ientry) (ok : bool).

Fixpoint drop_until (low : N) (es : list ientry) : list ientry :=
  match es with
  | [] => []
  | e :: t => if low <=? ie_end e then es else drop_until low t
  end.

Fixpoint collect (high : N) (prev : option ientry) (es : list ientry) : list ientry :=
  match es with
  | [] => []
  | e :: t =>
    if high <=? ie_start e then []
    else match prev with
         | Some p => if ie_end p + 1 =? ie_start e then e :: collect high (Some e) t else []
         | None => e :: collect high (Some e) t
         end
  end.

Definition index_query (es : list ientry) (low high : N) : iqres :=
  if high <? low then IQPanic
  else match drop_until low es with
       | [] => IQRes [] false
       | e :: t => if low <? ie_start e then IQRes [] false
                   else IQRes (collect high None (e :: t)) true
       end.

(* db.updateIndex for an update carrying entries first..last, written at (file, pos):
   `ei := indexEntry{pos: pos, fileNum: logNum}; ei.start = first; ei.end = last` — the
   length field is never set by the production code (it stays 0), so merge can only fire
   for two records at the same offset; the white-box harness also drives update with
   non-zero lengths, as index_test.go does. *)
Definition entries_index_entry (first last file pos : N) : ientry := mkIE first last file pos 0.
