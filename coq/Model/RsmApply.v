(* Model/RsmApply.v — C08: the apply path of internal/rsm/statemachine.go composed
   from the session table (Model/Session.v, C05) and the membership rules
   (Model/Membership.v, C07), the snapshot image (getSSMeta / Save / Stream) and
   Recover/doRecover/apply, pb.EntriesToApply (raftpb/entry.go), and the log
   compaction bookkeeping of node.go (doSave / compactLog / getCompactionIndex /
   recover / removeLog).  No proofs in this file (Proofs/RsmApply.v).

   PART 1 (Section RsmApply) — one replica's replicated state machine
   ------------------------------------------------------------------
   user state machine = Section variables (sm_update, sm_save, sm_recover);
   address normalisation [norm] as in Model/Membership.v.
     entry      = (index, term, BApp session-entry | BCC config-change)
                  an empty / noop entry is BApp with client id 0 and empty cmd
     config     = { c_ondisk; c_ordered }   (IOnDiskStateMachine?, OrderedConfigChange)
     state      = user data, session table, membership, (index, term) updated per
                  entry, (lastApplied.index, lastApplied.term) updated per task,
                  onDiskInitIndex, onDiskIndex, snapshotIndex
     apply_entry   StateMachine.handleEntry (configChange / noop / registerSession /
                   unregisterSession / update, entryInInitDiskSM, setOnDiskIndex,
                   setApplied); panics are [Err]
     entries_to_apply   pb.EntriesToApply (strict = false)
     apply_task    one Task of StateMachine.handle: EntriesToApply, the entries,
                   setLastApplied
     run_tasks     a sequence of tasks
     prepare / snapshot    checkSnapshotStatus + getSSMeta (+ Prepare) under the SM
                   lock, NativeSM.Save / saveDummy / Stream -> image
     recover       StateMachine.recover = doRecover (+ load) + apply, for a fresh
                   replica (init = true) and a running one (init = false)
     open_ondisk   OpenOnDiskStateMachine
   Concurrent state machines: handle() uses handleBatch for a task made only of
   NoOP-session updates; its effect on the state is that of the entry-by-entry path
   (skipped init entries first, then one BatchedUpdate = the same Updates in order,
   setOnDiskIndex(first,last)), so the model has one path; the differential check
   runs concurrent test machines through real batches.  A concurrent snapshot
   captures ALL its metadata in prepare() under the lock and the user data through
   the context returned by PrepareSnapshot; the model's context is the frozen user
   state ([prepare] / [finish_save]).
   uint64 arithmetic: index+1 is written without wrap-around (an index of 2^64-1 is
   not reachable); EntriesToApply's applied-firstIndex+1 is evaluated after its
   guards, where it cannot wrap.

   PART 2 — node.go compaction bookkeeping ([nstate], [nstep]).  *)
From DB Require Import Base.Bytes Gen.GenC05 Gen.GenC08.
From DB Require Model.Session Model.Membership.
Open Scope N_scope.

(* panics of the apply / snapshot path *)
Inductive err :=
| EHole            (* EntriesToApply: "entry hole found" *)
| EGap             (* setApplied: applied index + 1 <> new index *)
| ETermBack        (* setApplied / setLastApplied: term moving backward *)
| EInvalidEntry    (* setLastApplied: index 0 or term 0 *)
| EBatchGap        (* setLastApplied: gap inside / between batches *)
| ENotManaged      (* handleEntry: "not session managed, not empty" *)
| ECC              (* membership.handleConfigChange / apply panics *)
| ESession         (* session assertions (addResponse on an existing key) *)
| EOnDisk          (* setOnDiskIndex / checkRecoverOnDiskSM / checkPartialSnapshotApplyOnDiskSM / shrunk-not-initial *)
| ESnapshot        (* getSSMeta: empty membership; checkSnapshotStatus: index < snapshotIndex; lrusession.save "bad state" *)
| ELoad.           (* snapshotter.Load failed: session table size 0 (newLRUSession panic) or the user Recover returned an error *)

Inductive res (A : Type) := Ok (a : A) | Err (e : err).
Arguments Ok {A} a.
Arguments Err {A} e.

Definition bind {A B} (r : res A) (f : A -> res B) : res B :=
  match r with Ok a => f a | Err e => Err e end.

Record config := mkCfg {
  c_ondisk : bool;      (* sm.OnDisk() *)
  c_ordered : bool      (* config.OrderedConfigChange *)
}.

Section RsmApply.
Context {S result : Type}.
Variable sm_update : S -> bytes -> S * result.
Variable sm_save : S -> bytes.
Variable sm_recover : bytes -> option S.
Variable norm : Membership.addr -> Membership.addr.

Notation table := (@Session.table result).
Notation saved := (@Session.saved result).
Notation soutcome := (@Session.outcome result).

(* pb.Entry as the apply path sees it *)
Inductive body :=
| BApp (e : Session.entry)       (* Type = ApplicationEntry: ClientID, SeriesID, RespondedTo, Cmd *)
| BCC (c : Membership.cc).       (* Type = ConfigChangeEntry: the decoded pb.ConfigChange *)

Record entry := mkE { en_index : N; en_term : N; en_body : body }.

Record state := mkSt {
  r_sm : S;                           (* the user state machine *)
  r_tab : table;                      (* s.sessions *)
  r_mem : Membership.membership;      (* s.members *)
  r_index : N; r_term : N;            (* s.index, s.term *)
  r_last_index : N; r_last_term : N;  (* s.lastApplied.index, .term *)
  r_od_init : N;                      (* s.onDiskInitIndex *)
  r_od : N;                           (* s.onDiskIndex *)
  r_ss_index : N                      (* s.snapshotIndex *)
}.

(* NewStateMachine (+ the user state machine the factory created) *)
Definition init_state (cap : N) (s0 : S) : state :=
  mkSt s0 (Session.empty_table cap) Membership.empty_membership 0 0 0 0 0 0 0.

Definition with_applied (st : state) (i t : N) : state :=
  mkSt (r_sm st) (r_tab st) (r_mem st) i t (r_last_index st) (r_last_term st)
       (r_od_init st) (r_od st) (r_ss_index st).
Definition with_last (st : state) (i t : N) : state :=
  mkSt (r_sm st) (r_tab st) (r_mem st) (r_index st) (r_term st) i t
       (r_od_init st) (r_od st) (r_ss_index st).
Definition with_sess (st : state) (tab : table) (s : S) : state :=
  mkSt s tab (r_mem st) (r_index st) (r_term st) (r_last_index st) (r_last_term st)
       (r_od_init st) (r_od st) (r_ss_index st).
Definition with_mem (st : state) (m : Membership.membership) : state :=
  mkSt (r_sm st) (r_tab st) m (r_index st) (r_term st) (r_last_index st) (r_last_term st)
       (r_od_init st) (r_od st) (r_ss_index st).
Definition with_od (st : state) (od : N) : state :=
  mkSt (r_sm st) (r_tab st) (r_mem st) (r_index st) (r_term st) (r_last_index st) (r_last_term st)
       (r_od_init st) od (r_ss_index st).
Definition with_od_init (st : state) (odi : N) : state :=
  mkSt (r_sm st) (r_tab st) (r_mem st) (r_index st) (r_term st) (r_last_index st) (r_last_term st)
       odi (r_od st) (r_ss_index st).
Definition with_ss_index (st : state) (i : N) : state :=
  mkSt (r_sm st) (r_tab st) (r_mem st) (r_index st) (r_term st) (r_last_index st) (r_last_term st)
       (r_od_init st) (r_od st) i.

(* the five components the property names *)
Definition obs (st : state) : S * table * Membership.membership * N * N :=
  (r_sm st, r_tab st, r_mem st, r_index st, r_term st).

(* ---- setApplied ---------------------------------------------------------- *)
Definition set_applied (st : state) (index term : N) : res state :=
  if negb (r_index st + 1 =? index) then Err EGap
  else if term <? r_term st then Err ETermBack
  else Ok (with_applied st index term).

(* ---- entryInInitDiskSM / setOnDiskIndex ---------------------------------- *)
Definition entry_in_init_disk_sm (cfg : config) (st : state) (index : N) : bool :=
  if c_ondisk cfg then index <=? r_od_init st else false.

Definition set_on_disk_index (cfg : config) (st : state) (first last : N) : res state :=
  if negb (c_ondisk cfg) then Ok st
  else if last <? first then Err EOnDisk
  else if first <=? r_od_init st then Err EOnDisk
  else if first <=? r_od st then Err EOnDisk
  else Ok (with_od st last).

(* ---- handleEntry --------------------------------------------------------- *)
(* what the replica reports for one entry (node.ApplyUpdate / ApplyConfigChange) *)
Inductive event :=
| EvApp (o : soutcome)      (* the session layer's outcome, see Model/Session.v *)
| EvSkip                    (* on-disk SM: entry at or below the index returned by Open, treated as NoOP *)
| EvCC (applied : bool).    (* ApplyConfigChange(cc, key, rejected = negb applied) *)

Definition is_update_kind (k : Session.kind) : bool :=
  match k with Session.KNoopSession | Session.KUpdate => true | _ => false end.

Definition called_user_sm (o : soutcome) : bool :=
  match o with Session.OApplied _ => true | _ => false end.

Definition apply_app (cfg : config) (st : state) (index term : N) (se : Session.entry)
  : res (state * event) :=
  if is_update_kind (Session.classify se) && entry_in_init_disk_sm cfg st index then
    (* s.noop(pb.Entry{Index, Term}) *)
    bind (set_applied st index term) (fun st' => Ok (st', EvSkip))
  else
    let '(sst, o) := Session.step sm_update (Session.mkState (r_tab st) (r_sm st)) se in
    match o with
    | Session.OPanic =>
        Err (match Session.classify se with Session.KBadUnmanaged => ENotManaged | _ => ESession end)
    | _ =>
      let st1 := with_sess st (Session.st_tab sst) (Session.st_sm sst) in
      bind (if called_user_sm o then set_on_disk_index cfg st1 index index else Ok st1)
           (fun st2 => bind (set_applied st2 index term) (fun st3 => Ok (st3, EvApp o)))
    end.

(* StateMachine.configChange *)
Definition apply_cc (cfg : config) (st : state) (index term : N) (c : Membership.cc)
  : res (state * event) :=
  match Membership.handle norm (c_ordered cfg) (r_mem st) c index with
  | Membership.Panicked _ => Err ECC
  | Membership.Applied m' =>
      bind (set_applied (with_mem st m') index term) (fun st' => Ok (st', EvCC true))
  | Membership.Rejected _ =>
      bind (set_applied st index term) (fun st' => Ok (st', EvCC false))
  end.

Definition apply_entry (cfg : config) (st : state) (e : entry) : res (state * event) :=
  match en_body e with
  | BCC c => apply_cc cfg st (en_index e) (en_term e) c
  | BApp se => apply_app cfg st (en_index e) (en_term e) se
  end.

Fixpoint run_entries (cfg : config) (st : state) (es : list entry) : res (state * list event) :=
  match es with
  | [] => Ok (st, [])
  | e :: r =>
    bind (apply_entry cfg st e) (fun p =>
      bind (run_entries cfg (fst p) r) (fun q => Ok (fst q, snd p :: snd q)))
  end.

(* ---- pb.EntriesToApply(entries, applied, strict = false) ------------------ *)
Definition entries_to_apply (ents : list entry) (applied : N) : res (list entry) :=
  match ents with
  | [] => Ok []
  | f :: _ =>
    let last_index := en_index (last ents f) in
    let first_index := en_index f in
    if last_index <=? applied then Ok []
    else if applied + 1 <? first_index then Err EHole
    else let k := applied + 1 - first_index in
         if k <? nlen ents then Ok (skipn (N.to_nat k) ents) else Ok []
  end.

(* ---- setLastApplied ------------------------------------------------------- *)
Fixpoint check_batch (index term : N) (es : list entry) : res (N * N) :=
  match es with
  | [] => Ok (index, term)
  | e :: r =>
    if (en_index e =? 0) || (en_term e =? 0) then Err EInvalidEntry
    else if negb (en_index e =? index + 1) then Err EBatchGap
    else if en_term e <? term then Err ETermBack
    else check_batch (en_index e) (en_term e) r
  end.

Definition set_last_applied (st : state) (es : list entry) : res state :=
  match es with
  | [] => Ok st
  | f :: r =>
    if (en_index f =? 0) || (en_term f =? 0) then Err EInvalidEntry
    else bind (check_batch (en_index f) (en_term f) r) (fun lt =>
      if negb (r_last_index st + 1 =? en_index f) then Err EBatchGap
      else if en_term f <? r_last_term st then Err ETermBack
      else Ok (with_last st (fst lt) (snd lt)))
  end.

(* ---- one Task of StateMachine.handle -------------------------------------- *)
Definition apply_task (cfg : config) (st : state) (ents : list entry) : res (state * list event) :=
  bind (entries_to_apply ents (r_index st)) (fun es =>
    bind (run_entries cfg st es) (fun p =>
      bind (set_last_applied (fst p) es) (fun st' => Ok (st', snd p)))).

Fixpoint run_tasks (cfg : config) (st : state) (ts : list (list entry)) : res (state * list event) :=
  match ts with
  | [] => Ok (st, [])
  | t :: r =>
    bind (apply_task cfg st t) (fun p =>
      bind (run_tasks cfg (fst p) r) (fun q => Ok (fst q, snd p ++ snd q)))
  end.

(* ---- snapshot -------------------------------------------------------------- *)
(* rsm.SSRequest.Type as far as the state machine looks at it *)
Inductive sskind := SSRegular | SSExported | SSStreaming.

(* what a recovering replica gets: the pb.Snapshot record (index, term,
   membership, OnDiskIndex, Dummy, Witness, Imported) and the content of the
   snapshot file (session table, then the user data unless the file is a dummy
   or has been shrunk) *)
Record image := mkImg {
  i_index : N; i_term : N;
  i_mem : Membership.membership;
  i_od : N;                      (* OnDiskIndex *)
  i_sessions : saved;            (* (size, sessions in file order) *)
  i_data : option bytes;         (* user SaveSnapshot output; None: dummy / shrunk / witness file *)
  i_dummy : bool; i_witness : bool; i_imported : bool;
  i_shrunk : bool                (* IsShrunkSnapshotFile(file) *)
}.

(* SSMeta + the context of a concurrent snapshot (frozen user state) *)
Record meta := mkMeta {
  mt_index : N; mt_term : N; mt_mem : Membership.membership; mt_od : N;
  mt_sessions : saved; mt_kind : sskind; mt_ctx : S
}.

Inductive prepared := Prepared (m : meta) (st : state) | OutOfDate.

(* GetEmptyLRUSession: a fresh table of the default capacity *)
Definition empty_saved : saved := (lru_max_session_count, []).

(* prepare(): checkSnapshotStatus, (Prepare), getSSMeta — one critical section
   of s.mu (read lock; the apply path takes the write lock) *)
Definition prepare (cfg : config) (k : sskind) (st : state) : res prepared :=
  if r_last_index st <? r_ss_index st then Err ESnapshot
  else if negb (c_ondisk cfg)
          && negb (match k with SSExported => true | _ => false end)
          && (0 <? r_last_index st) && (r_last_index st =? r_ss_index st)
       then Ok OutOfDate                         (* raft.ErrSnapshotOutOfDate *)
  else if Membership.m_is_empty (r_mem st) then Err ESnapshot
  else match Session.save (r_tab st) with
       | None => Err ESnapshot
       | Some (sv, tab') =>
         Ok (Prepared (mkMeta (r_index st) (r_term st) (Membership.m_get (r_mem st)) (r_od st)
                              sv k (r_sm st))
                      (with_sess st tab' (r_sm st)))
       end.

(* snapshotter.Save / Stream through NativeSM.Save / saveDummy / Stream *)
Definition image_of (cfg : config) (m : meta) : image :=
  match mt_kind m with
  | SSStreaming =>
      mkImg (mt_index m) (mt_term m) (mt_mem m) (mt_od m) empty_saved
            (Some (sm_save (mt_ctx m))) false false false false
  | SSExported =>
      mkImg (mt_index m) (mt_term m) (mt_mem m) (mt_od m) (mt_sessions m)
            (Some (sm_save (mt_ctx m))) false false false false
  | SSRegular =>
      if c_ondisk cfg
      then mkImg (mt_index m) (mt_term m) (mt_mem m) (mt_od m) (mt_sessions m) None true false false false
      else mkImg (mt_index m) (mt_term m) (mt_mem m) (mt_od m) (mt_sessions m)
                 (Some (sm_save (mt_ctx m))) false false false false
  end.

(* doSave: s.snapshotIndex = meta.Index (not for a stream); [st] is the state at
   the time the save finishes — for a concurrent state machine later than the
   state [prepare] saw *)
Definition finish_save (cfg : config) (m : meta) (st : state) : image * state :=
  (image_of cfg m,
   match mt_kind m with SSStreaming => st | _ => with_ss_index st (mt_index m) end).

Inductive snap_result := Snap (img : image) (st : state) | SnapOutOfDate.

(* regular state machine: save() holds the lock from prepare to the end *)
Definition snapshot (cfg : config) (k : sskind) (st : state) : res snap_result :=
  bind (prepare cfg k st) (fun p =>
    match p with
    | OutOfDate => Ok SnapOutOfDate
    | Prepared m st1 => let '(img, st2) := finish_save cfg m st1 in Ok (Snap img st2)
    end).

(* snapshotter.Shrink on an on-disk replica's full snapshot; tools.ImportSnapshot's flag *)
Definition shrink (img : image) : image :=
  if i_dummy img || i_witness img then img
  else mkImg (i_index img) (i_term img) (i_mem img) (i_od img) empty_saved None
             false false (i_imported img) true.
Definition mark_imported (img : image) : image :=
  mkImg (i_index img) (i_term img) (i_mem img) (i_od img) (i_sessions img) (i_data img)
        (i_dummy img) (i_witness img) true (i_shrunk img).

(* StateMachine.ReadyToStream, consulted by node.canStream for every Stream task:
   a restarted on-disk replica whose applied position is still below the index
   its state machine returned from Open must not stream (its metadata would be
   older than its user data) *)
Definition ready_to_stream (cfg : config) (st : state) : bool :=
  if c_ondisk cfg then r_od_init st <=? r_last_index st else true.

(* ---- recover ---------------------------------------------------------------- *)
(* OpenOnDiskStateMachine: the user state machine reports the index of the last
   entry it has durably applied *)
Definition open_ondisk (st : state) (index : N) : state :=
  with_od (with_od_init st index) index.

(* snapshotter.Load: LoadSessions then the user Recover *)
Definition load (st : state) (img : image) : res state :=
  match Session.load (i_sessions img) with
  | None => Err ELoad
  | Some tab =>
    match i_data img with
    | None => Err ELoad
    | Some d => match sm_recover d with
                | None => Err ELoad
                | Some s => Ok (with_sess st tab s)
                end
    end
  end.

Inductive recovered := Recovered (st : state) | RecOutOfDate.

(* StateMachine.apply(ss) *)
Definition apply_snapshot (st : state) (img : image) : state :=
  with_last (with_applied (with_mem st (Membership.m_set (i_mem img))) (i_index img) (i_term img))
            (i_index img) (i_term img).

Definition recover (cfg : config) (init : bool) (st : state) (img : image) : res recovered :=
  if i_index img <=? r_last_index st then Ok RecOutOfDate     (* raft.ErrSnapshotOutOfDate *)
  else
    let partial := i_witness img || i_dummy img in
    let shrunk := if c_ondisk cfg && negb partial then i_shrunk img else false in
    if negb init && shrunk then Err EOnDisk                   (* "not initial recovery but snapshot shrunk" *)
    else if partial || shrunk then
      (* checkPartialSnapshotApplyOnDiskSM; nothing is loaded *)
      if c_ondisk cfg && (if init then r_od_init st <? i_od img else r_od st <? i_od img)
      then Err EOnDisk
      else Ok (Recovered (apply_snapshot st img))
    else if negb (c_ondisk cfg) then
      bind (load st img) (fun st1 => Ok (Recovered (apply_snapshot st1 img)))
    else
      let required := if init then (i_imported img || (r_od_init st <? i_od img))
                      else r_od st <? i_od img in
      if required then
        (* checkRecoverOnDiskSM *)
        if negb (i_imported img && init)
           && ((i_od img <=? r_od_init st) || (i_od img <=? r_od st))
        then Err EOnDisk
        else bind (load st img) (fun st1 =>
               (* applyOnDisk *)
               let st2 := with_od st1 (i_od img) in
               let st3 := if i_imported img && init then with_od_init st2 (i_od img) else st2 in
               Ok (Recovered (apply_snapshot st3 img)))
      else Ok (Recovered (apply_snapshot st img)).

End RsmApply.

(* ========================================================================== *)
(* PART 2 — node.go: which indexes are handed to the log compaction            *)
(* ========================================================================== *)

(* rsm.SSRequest as node.getCompactionIndex / doSave read it *)
Record ssreq := mkReq {
  q_exported : bool;        (* Type == Exported *)
  q_override : bool;        (* OverrideCompaction *)
  q_overhead : N;           (* CompactionOverhead *)
  q_cindex : N              (* CompactionIndex *)
}.
Definition default_req : ssreq := mkReq false false 0 0.

(* node.getCompactionIndex(req, index); [cfg_overhead] = config.CompactionOverhead.
   The comparisons are the generated source facts' ([Gen/GenC08.v]). *)
Definition get_compaction_index (cfg_overhead : N) (q : ssreq) (index : N) : option N :=
  if q_override q then
    if 0 <? q_cindex q then
      if q_cindex q <? index then Some (q_cindex q) else None
    else if q_overhead q <? index then Some (index - q_overhead q) else None
  else if cfg_overhead <? index then Some (index - cfg_overhead) else None.

(* the user-requested branch as it stood before the repair recorded in
   findings/known.txt: `index >= req.CompactionIndex+1` in uint64 arithmetic *)
Definition get_compaction_index_wrapping (cfg_overhead : N) (q : ssreq) (index : N) : option N :=
  if q_override q then
    if 0 <? q_cindex q then
      if (q_cindex q + 1) mod 2 ^ 64 <=? index then Some (q_cindex q) else None
    else if q_overhead q <? index then Some (index - q_overhead q) else None
  else if cfg_overhead <? index then Some (index - cfg_overhead) else None.

Record nstate := mkN {
  n_recorded : list N;      (* indexes of the snapshot records committed to the log store so far
                               (snapshotter.saveSnapshot -> SaveSnapshots; SaveRaftState for a received one) *)
  n_lr_snapshot : N;        (* LogReader.snapshot.Index; 0 = none *)
  n_ss_index : N;           (* n.ss.snapshotIndex *)
  n_compact_to : N;         (* n.ss.compactLogTo; 0 = nothing requested *)
  n_removed : list (N * list N)   (* history: each value handed to LogReader.Compact + ILogDB.RemoveEntriesTo,
                                      with the records that were in the log store at that moment *)
}.

Definition ninit : nstate := mkN [] 0 0 0 [].

Fixpoint list_max (l : list N) : N :=
  match l with [] => 0 | x :: r => N.max x (list_max r) end.

(* outcome of sm.Save as doSave distinguishes it *)
Inductive save_outcome :=
| SaveOk (index : N)        (* ss.Index = the applied index captured by getSSMeta *)
| SaveSoftError.            (* aborted / ErrSnapshotOutOfDate: doSave returns (0, nil) *)

Inductive nop :=
| NSave (q : ssreq) (applied : N) (o : save_outcome) (commit_ok : bool)
      (* node.doSave; [applied] = n.sm.GetLastApplied(), [commit_ok] = false when
         snapshotter.Commit reports errSnapshotOutOfDate (final directory exists:
         FinalizeSnapshot fails BEFORE saveSnapshot is reached) *)
| NReceive (index : N)
      (* an InstallSnapshot accepted by raft: the update carrying it is made durable
         by engine's SaveRaftState (snapshot updates are never fast-applied,
         raft.setFastApply), THEN node.processSnapshot -> LogReader.ApplySnapshot *)
| NRecover (ok init : bool)
      (* node.recover for a pushed Recover task: sm.Recover uses LogReader.Snapshot();
         ok = false: nothing to recover from / aborted / out of date. init: the task
         of a starting replica, followed by setInitialStatus(index recovered from) *)
| NRestart
      (* process restart: volatile snapshotState lost; replayLog re-reads the newest
         record from the log store into the LogReader *)
| NRemoveLog.
      (* node.removeLog on the step worker *)

(* compactLog *)
Definition compact_log (cfg_overhead : N) (q : ssreq) (index : N) (st : nstate) : nstate :=
  match get_compaction_index cfg_overhead q index with
  | Some v => mkN (n_recorded st) (n_lr_snapshot st) (n_ss_index st) v (n_removed st)
  | None => st
  end.

Definition nstep (cfg_overhead : N) (st : nstate) (op : nop) : nstate :=
  match op with
  | NSave q applied o commit_ok =>
    if negb (q_exported q) && (applied <=? n_ss_index st) then st
    else match o with
    | SaveSoftError => st
    | SaveOk index =>
      if negb commit_ok then st
      else
        (* snapshotter.Commit: the record goes to the log store unless exported *)
        let st1 := if q_exported q then st
                   else mkN (index :: n_recorded st) (n_lr_snapshot st) (n_ss_index st)
                            (n_compact_to st) (n_removed st) in
        if q_exported q then st1
        (* logReader.CreateSnapshot: ErrSnapshotOutOfDate is a soft error, doSave returns *)
        else if index <=? n_lr_snapshot st1 then st1
        else
          let st2 := mkN (n_recorded st1) index (n_ss_index st1) (n_compact_to st1) (n_removed st1) in
          let st3 := compact_log cfg_overhead q index st2 in
          mkN (n_recorded st3) (n_lr_snapshot st3) index (n_compact_to st3) (n_removed st3)
    end
  | NReceive index =>
    if index =? 0 then st
    else
      let lr := if index <=? n_lr_snapshot st then n_lr_snapshot st else index in
      (* pushSnapshot: n.ss.setIndex(ss.Index) *)
      mkN (index :: n_recorded st) lr index (n_compact_to st) (n_removed st)
  | NRecover ok init =>
    let done := ok && negb (n_lr_snapshot st =? 0) in
    let st1 := if done then compact_log cfg_overhead default_req (n_lr_snapshot st) st else st in
    if init
    then mkN (n_recorded st1) (n_lr_snapshot st1) (if done then n_lr_snapshot st1 else 0)
             (n_compact_to st1) (n_removed st1)
    else st1
  | NRestart =>
    mkN (n_recorded st) (list_max (n_recorded st)) 0 0 (n_removed st)
  | NRemoveLog =>
    if 0 <? n_compact_to st
    then mkN (n_recorded st) (n_lr_snapshot st) (n_ss_index st) 0
             ((n_compact_to st, n_recorded st) :: n_removed st)
    else st
  end.

Definition nrun (cfg_overhead : N) (st : nstate) (ops : list nop) : nstate :=
  fold_left (nstep cfg_overhead) ops st.

(* ========================================================================== *)
(* the executable instance used by the differential check: the accumulator
   state machine of Model/Session.v, ASCII address normalisation              *)
(* ========================================================================== *)
Definition rsm_state := @state N Session.acc_result.
Definition rsm_init (cap : N) (s0 : N) : rsm_state := init_state cap s0.
Definition rsm_apply_task := @apply_task N Session.acc_result Session.acc_update Membership.norm_ascii.
Definition rsm_run_entries := @run_entries N Session.acc_result Session.acc_update Membership.norm_ascii.
Definition rsm_entries_to_apply := @entries_to_apply.
Definition rsm_set_last_applied := @set_last_applied N Session.acc_result.
Definition rsm_ready_to_stream := @ready_to_stream N Session.acc_result.
Definition rsm_prepare := @prepare N Session.acc_result.
Definition rsm_finish_save := @finish_save N Session.acc_result Session.acc_save.
Definition rsm_snapshot := @snapshot N Session.acc_result Session.acc_save.
Definition rsm_recover := @recover N Session.acc_result Session.acc_recover.
Definition rsm_open_ondisk := @open_ondisk N Session.acc_result.
Definition rsm_shrink := @shrink Session.acc_result.
Definition rsm_mark_imported := @mark_imported Session.acc_result.
Definition rsm_observe_mem := Membership.observe.
Definition rsmapply_unused_z : Z := 0%Z.
