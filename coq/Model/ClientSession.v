(* Model/ClientSession.v — the client side of a session: client.Session
   (client/session.pb.go) and the fields pendingProposal.propose copies into the
   entry (request.go: ClientID, SeriesID, RespondedTo). No proofs here. *)
From DB Require Import Base.Bytes Gen.GenC05.
Open Scope N_scope.

Record csession := mkC { c_client : N; c_series : N; c_responded : N }.

Definition c_two64 : N := 18446744073709551616.

(* assertRegularSession: panics (None) for a NoOP / unmanaged session *)
Definition c_regular (s : csession) : bool :=
  negb (c_client s =? not_session_managed_client_id) && negb (c_series s =? noop_series_id).

(* NewSession: SeriesID = NoOPSeriesID + 1, RespondedTo = 0 *)
Definition c_new (cid : N) : csession := mkC cid (noop_series_id + 1) 0.

Definition c_prepare_for_register (s : csession) : option csession :=
  if c_regular s then Some (mkC (c_client s) series_id_for_register (c_responded s)) else None.
Definition c_prepare_for_unregister (s : csession) : option csession :=
  if c_regular s then Some (mkC (c_client s) series_id_for_unregister (c_responded s)) else None.
Definition c_prepare_for_propose (s : csession) : option csession :=
  if c_regular s then Some (mkC (c_client s) series_id_first_proposal (c_responded s)) else None.

(* ProposalCompleted: if SeriesID == RespondedTo+1 { RespondedTo = SeriesID; SeriesID++ } else panic
   (uint64 arithmetic wraps) *)
Definition c_proposal_completed (s : csession) : option csession :=
  if c_regular s then
    if c_series s =? (c_responded s + 1) mod c_two64
    then Some (mkC (c_client s) ((c_series s + 1) mod c_two64) (c_series s))
    else None
  else None.

(* what a client does with a registered session after PrepareForPropose: it
   proposes (or re-proposes after a timeout: the session object is unchanged, so
   a retry carries the same ids), and calls ProposalCompleted once it has seen
   the result *)
Inductive cop := CPropose | CCompleted.

(* the (ClientID, SeriesID, RespondedTo) triples put into entries, in order;
   None = the client library panicked *)
Fixpoint c_run (s : csession) (ops : list cop) : option (list (N * N * N) * csession) :=
  match ops with
  | [] => Some ([], s)
  | CPropose :: r =>
    match c_run s r with
    | Some (out, s') => Some ((c_client s, c_series s, c_responded s) :: out, s')
    | None => None
    end
  | CCompleted :: r =>
    match c_proposal_completed s with
    | Some s1 => c_run s1 r
    | None => None
    end
  end.
