(* C19 — faithful executable model of
     internal/raft/inmemory.go   (inMemory)
     internal/raft/logentry.go   (entryLog)
     internal/raft/peer.go       (log part of GetUpdate / Commit)
     internal/raft/raft.go       (log part of restore / handleReplicateMessage)
     internal/logdb/logreader.go (LogReader)
   over an abstract persistent entry store (the harness' in-memory raftio.ILogDB).
   No proofs here.

   Dropped (pure capacity management, no observable effect): the [shrunk] flag,
   resize/newEntrySlice copies, slice capacities; the rate limiter's limiting decisions
   (only its size accounting inside inMemory is modelled: im_rl); LogReader's maxEntrySliceSize clip of
   huge ranges (> 4MB/sizeof(Entry) entries).  uint64 wrap-around is written out
   where the code can reach it (entriesToSave); indexes are otherwise assumed
   far below 2^64. *)
From DB Require Import Base.Bytes Gen.GenC19 Model.LogSpec.
Open Scope N_scope.

(* ------------------------------------------------------------------ *)
(* entryutils.go                                                       *)

(* checkEntriesToAppend(ents, toAppend) *)
Definition check_entries_to_append (ents toAppend : list entry) : option ptag :=
  match ents, toAppend with
  | [], _ => None
  | _, [] => None
  | _, a :: _ =>
    let l := last_entry ents in
    if negb (e_index l + 1 =? e_index a) then Some PHole
    else if e_term a <? e_term l then Some PTermOrder
    else None
  end.

(* ------------------------------------------------------------------ *)
(* the persistent entry store (mirrors the harness' memStore)          *)

(* st_skip: a permissive store (any raftio.ILogDB may sit under the LogReader): its
   IterateEntries starts at the first index it holds at or above low instead of
   returning nothing when low itself is missing *)
Record store := mkSt { st_ents : list entry; st_max : N; st_skip : bool }.

Definition st_get (st : store) (i : N) : option entry :=
  find (fun e => e_index e =? i) (st_ents st).

(* SaveRaftState: every entry written under its index, max index := last *)
Definition st_save (st : store) (ents : list entry) : store :=
  match ents with
  | [] => st
  | _ => mkSt (rev ents ++ st_ents st) (e_index (last_entry ents)) (st_skip st)
  end.

(* RemoveEntriesTo *)
Definition st_remove_to (st : store) (k : N) : store :=
  mkSt (filter (fun e => k <? e_index e) (st_ents st)) (st_max st) (st_skip st).

(* IterateEntries(low, high, maxSize): contiguous entries from low, stops after
   the entry that makes size exceed maxSize *)
Fixpoint st_iter (fuel : nat) (st : store) (i size maxSize : N) : list entry * N :=
  match fuel with
  | O => ([], size)
  | S f =>
    match st_get st i with
    | None => ([], size)
    | Some e =>
      let size' := size + esize e in
      if maxSize <? size' then ([e], size')
      else let '(r, sz) := st_iter f st (i + 1) size' maxSize in (e :: r, sz)
    end
  end.
Fixpoint st_first_present (fuel : nat) (st : store) (i : N) : N :=
  match fuel with
  | O => i
  | S f => match st_get st i with Some _ => i | None => st_first_present f st (i + 1) end
  end.
Definition st_iterate (st : store) (low high maxSize : N) : list entry * N :=
  let high := N.min high (st_max st + 1) in
  let start := if st_skip st then st_first_present (N.to_nat (high - low)) st low else low in
  st_iter (N.to_nat (high - start)) st start 0 maxSize.

(* ------------------------------------------------------------------ *)
(* logreader.go                                                        *)

Record reader := mkLR { lr_marker : N; lr_mterm : N; lr_len : N; lr_ssidx : N }.

Definition lr_new : reader := mkLR 0 0 c19_logreader_init_length 0.
Definition lr_first (lr : reader) : N := lr_marker lr + 1.
Definition lr_last (lr : reader) : N := lr_marker lr + lr_len lr - 1.

Definition lr_entries_locked (lr : reader) (st : store) (low high maxSize : N) : res (list entry * N) :=
  if high <? low then Fail EBadRange
  else if low <=? lr_marker lr then Fail ECompacted
  else if lr_last lr + 1 <? high then Fail EUnavailable
  else
    let '(ents, size) := st_iterate st low high maxSize in
    if (nlen ents =? high - low) || (maxSize <? size) then Ok (ents, size)
    else match ents with
         | e0 :: _ =>
           if low <? e_index e0 then Fail ECompacted
           else if lr_last lr <=? e_index (last_entry ents) + 1 then Fail EUnavailable
           else Fail EGap
         | [] => Fail EUnavailable
         end.

(* LogReader.Entries *)
Definition lr_entries (lr : reader) (st : store) (low high maxSize : N) : res (list entry) :=
  do r <- lr_entries_locked lr st low high maxSize ;;
  let '(ents, size) := r in
  if (0 <? maxSize) && (maxSize <? size) && (1 <? nlen ents) then Ok (removelast ents)
  else if (maxSize =? 0) && (maxSize <? size) && (1 <? nlen ents) then Ok (firstn 1 ents)
  else Ok ents.

(* LogReader.Term *)
Definition lr_term (lr : reader) (st : store) (index : N) : res N :=
  if index =? lr_marker lr then Ok (lr_mterm lr)
  else
    do r <- lr_entries_locked lr st index (index + 1) 0 ;;
    match fst r with [] => Ok 0 | e :: _ => Ok (e_term e) end.

(* LogReader.SetRange *)
Definition lr_set_range (lr : reader) (firstIndex length : N) : res reader :=
  if length =? 0 then Ok lr
  else
    let first := lr_first lr in
    let last := firstIndex + length - 1 in
    if last <? first then Ok lr
    else
      let '(firstIndex, length) :=
        if firstIndex <? first then (first, length - (first - firstIndex)) else (firstIndex, length) in
      let offset := firstIndex - lr_marker lr in
      if offset <? lr_len lr then Ok (mkLR (lr_marker lr) (lr_mterm lr) (offset + length) (lr_ssidx lr))
      else if lr_len lr =? offset then Ok (mkLR (lr_marker lr) (lr_mterm lr) (lr_len lr + length) (lr_ssidx lr))
      else Panic PReaderGap.

(* LogReader.Append *)
Definition lr_append (lr : reader) (ents : list entry) : res reader :=
  match ents with
  | [] => Ok lr
  | e0 :: _ =>
    if negb (e_index e0 + nlen ents - 1 =? e_index (last_entry ents)) then Panic PAppendGap
    else lr_set_range lr (e_index e0) (nlen ents)
  end.

(* LogReader.ApplySnapshot (setSnapshot + marker) *)
Definition lr_apply_snapshot (lr : reader) (i t : N) : res reader :=
  if i <=? lr_ssidx lr then Fail ESnapOutOfDate
  else Ok (mkLR i t 1 i).

(* LogReader.Compact *)
Definition lr_compact (lr : reader) (st : store) (index : N) : res reader :=
  if index <? lr_marker lr then Fail ECompacted
  else if lr_last lr <? index then Fail EUnavailable
  else
    do term <- lr_term lr st index ;;
    Ok (mkLR index term (lr_len lr - (index - lr_marker lr)) (lr_ssidx lr)).

(* ------------------------------------------------------------------ *)
(* inmemory.go                                                         *)

Record inmem := mkIM {
  im_snap : option (N * N);      (* snapshot: index, term *)
  im_ents : list entry;
  im_saved : N;                  (* savedTo *)
  im_marker : N;                 (* markerIndex *)
  im_aidx : N; im_aterm : N;     (* appliedToIndex / appliedToTerm *)
  im_rl : option N               (* the size recorded by the rate limiter; None = not rate limited
                                    (rl == nil or MaxInMemLogSize 0 / MaxUint64) *)
}.

Definition im_new (lastIndex : N) (rl : option N) : inmem := mkIM None [] lastIndex (lastIndex + 1) 0 0 rl.

(* pb.GetEntrySliceInMemSize: len(Cmd) + unsafe.Sizeof(Entry) per entry (the uint64 sum wraps:
   every use below is taken mod 2^64) *)
Definition isize (l : list entry) : N := fold_right (fun e acc => c19_entry_struct_size + e_len e + acc) 0 l.
(* RateLimiter.Increase / Decrease (unsigned wrap-around) / Set, only when rateLimited() *)
Definition rl_inc (rl : option N) (sz : N) : option N :=
  match rl with Some n => Some ((n + sz) mod 2 ^ 64) | None => None end.
Definition rl_dec (rl : option N) (sz : N) : option N :=
  match rl with Some n => Some ((n + 2 ^ 64 - sz mod 2 ^ 64) mod 2 ^ 64) | None => None end.
Definition rl_set (rl : option N) (sz : N) : option N :=
  match rl with Some _ => Some (sz mod 2 ^ 64) | None => None end.

Definition im_check_marker (im : inmem) : bool :=
  match im_ents im with [] => true | e :: _ => e_index e =? im_marker im end.

Definition im_get_entries (im : inmem) (low high : N) : res (list entry) :=
  let upper := im_marker im + nlen (im_ents im) in
  if (high <? low) || (low <? im_marker im) then Panic PInMemLow
  else if upper <? high then Panic PInMemHigh
  else Ok (firstn (N.to_nat (high - low)) (skipn (N.to_nat (low - im_marker im)) (im_ents im))).

Definition im_snap_index (im : inmem) : option N :=
  match im_snap im with Some (i, _) => Some i | None => None end.

Definition im_last_index (im : inmem) : option N :=
  match im_ents im with
  | [] => im_snap_index im
  | _ => Some (e_index (last_entry (im_ents im)))
  end.

Definition im_get_term (im : inmem) (index : N) : res (option N) :=
  if (0 <? index) && (index =? im_aidx im) then
    if im_aterm im =? 0 then Panic PAppliedTerm0 else Ok (Some (im_aterm im))
  else if index <? im_marker im then
    match im_snap im with
    | Some (i, t) => if i =? index then Ok (Some t) else Ok None
    | None => Ok None
    end
  else
    match im_last_index im with
    | Some li =>
      if index <=? li then
        match nth_error (im_ents im) (N.to_nat (index - im_marker im)) with
        | Some e => Ok (Some (e_term e))
        | None => Panic PIndexOOR
        end
      else Ok None
    | None => Ok None
    end.

Definition two64 : N := 2 ^ 64.

(* entriesToSave: idx-markerIndex is an unsigned subtraction that can wrap *)
Definition im_entries_to_save (im : inmem) : list entry :=
  let idx := im_saved im + 1 in
  let d := (idx + two64 - im_marker im) mod two64 in
  if nlen (im_ents im) <? d then [] else skipn (N.to_nat d) (im_ents im).

Definition im_with_saved (im : inmem) (s : N) : inmem :=
  mkIM (im_snap im) (im_ents im) s (im_marker im) (im_aidx im) (im_aterm im) (im_rl im).

Definition im_saved_log_to (im : inmem) (index term : N) : res inmem :=
  if index <? im_marker im then Ok im
  else if is_nil (im_ents im) then Ok im
  else if e_index (last_entry (im_ents im)) <? index then Ok im
  else match nth_error (im_ents im) (N.to_nat (index - im_marker im)) with
       | None => Panic PIndexOOR
       | Some e => if e_term e =? term then Ok (im_with_saved im index) else Ok im
       end.

Definition im_applied_log_to (im : inmem) (index : N) : res inmem :=
  if index <? im_marker im then Ok im
  else if is_nil (im_ents im) then Ok im
  else if e_index (last_entry (im_ents im)) <? index then Ok im
  else match nth_error (im_ents im) (N.to_nat (index - im_marker im)) with
       | None => Panic PIndexOOR
       | Some e =>
         if negb (e_index e =? index) then Panic PApplyIdx
         else
           let im' := mkIM (im_snap im) (skipn (N.to_nat (index + 1 - im_marker im)) (im_ents im))
                           (im_saved im) (index + 1) (e_index e) (e_term e)
                           (rl_dec (im_rl im) (isize (firstn (N.to_nat (index + 1 - im_marker im)) (im_ents im)))) in
           if im_check_marker im' then Ok im' else Panic PMarker
       end.

Definition im_saved_snapshot_to (im : inmem) (index : N) : inmem :=
  match im_snap im with
  | Some (i, _) => if i =? index
                   then mkIM None (im_ents im) (im_saved im) (im_marker im) (im_aidx im) (im_aterm im) (im_rl im)
                   else im
  | None => im
  end.

Definition im_commit_update (im : inmem) (stable_to stable_term stable_snap : N) : res inmem :=
  do im1 <- (if 0 <? stable_to then im_saved_log_to im stable_to stable_term else Ok im) ;;
  Ok (if 0 <? stable_snap then im_saved_snapshot_to im1 stable_snap else im1).

Definition im_merge (im : inmem) (ents : list entry) : res inmem :=
  match ents with
  | [] => Panic PIndexOOR
  | e0 :: _ =>
    let f := e_index e0 in
    do im' <-
      (if f =? im_marker im + nlen (im_ents im) then
         match check_entries_to_append (im_ents im) ents with
         | Some t => Panic t
         | None => Ok (mkIM (im_snap im) (im_ents im ++ ents) (im_saved im) (im_marker im) (im_aidx im) (im_aterm im)
                            (rl_inc (im_rl im) (isize ents)))
         end
       else if f <=? im_marker im then
         Ok (mkIM (im_snap im) ents (f - 1) f (im_aidx im) (im_aterm im) (rl_set (im_rl im) (isize ents)))
       else
         do existing <- im_get_entries im (im_marker im) f ;;
         match check_entries_to_append existing ents with
         | Some t => Panic t
         | None => Ok (mkIM (im_snap im) (existing ++ ents) (N.min (im_saved im) (f - 1))
                            (im_marker im) (im_aidx im) (im_aterm im)
                            (rl_set (im_rl im) (isize ents + isize existing)))
         end) ;;
    if im_check_marker im' then Ok im' else Panic PMarker
  end.

Definition im_restore (im : inmem) (i t : N) : inmem := mkIM (Some (i, t)) [] i (i + 1) i t (rl_set (im_rl im) 0).

(* ------------------------------------------------------------------ *)
(* logentry.go                                                         *)

Record elog := mkEL { el_im : inmem; el_committed : N; el_processed : N }.

Definition el_new (lr : reader) (rl : option N) : elog :=
  mkEL (im_new (lr_last lr) rl) (lr_first lr - 1) (lr_first lr - 1).

Definition el_first (el : elog) (lr : reader) : N :=
  match im_snap_index (el_im el) with Some i => i + 1 | None => lr_first lr end.
Definition el_last (el : elog) (lr : reader) : N :=
  match im_last_index (el_im el) with Some i => i | None => lr_last lr end.

Definition el_term (el : elog) (lr : reader) (st : store) (index : N) : res N :=
  let first := el_first el lr - 1 in
  let last := el_last el lr in
  if (index <? first) || (last <? index) then Ok 0
  else
    do t <- im_get_term (el_im el) index ;;
    match t with
    | Some t => Ok t
    | None => lr_term lr st index
    end.

Definition el_check_bound (el : elog) (lr : reader) (low high : N) : res unit :=
  if high <? low then Panic PBoundLowHigh
  else
    let im := el_im el in
    if (match im_snap im with Some _ => true | None => false end) && is_nil (im_ents im) then Fail ECompacted
    else if low <? el_first el lr then Fail ECompacted
    else if el_last el lr + 1 <? high then Panic PBoundHigh
    else Ok tt.

Definition el_from_logdb (el : elog) (lr : reader) (st : store) (low high maxSize : N)
  : res (list entry * bool) :=
  if im_marker (el_im el) <=? low then Ok ([], true)
  else
    let upper := N.min high (im_marker (el_im el)) in
    do ents <- lr_entries lr st low upper maxSize ;;
    if upper - low <? nlen ents then Panic PLogDBLen
    else Ok (ents, nlen ents =? upper - low).

Definition el_from_inmem (el : elog) (ents : list entry) (low high : N) : res (list entry) :=
  if high <=? im_marker (el_im el) then Ok ents
  else
    let lower := N.max low (im_marker (el_im el)) in
    do inm <- im_get_entries (el_im el) lower high ;;
    match inm with
    | [] => Ok ents
    | _ => match ents with
           | [] => Ok inm
           | _ => match check_entries_to_append ents inm with
                  | Some t => Panic t
                  | None => Ok (ents ++ inm)
                  end
           end
    end.

Definition el_get_entries (el : elog) (lr : reader) (st : store) (low high maxSize : N) : res (list entry) :=
  do _ <- el_check_bound el lr low high ;;
  if low =? high then Ok []
  else
    do r <- el_from_logdb el lr st low high maxSize ;;
    let '(ents, checkInMem) := r in
    if negb checkInMem then Ok ents
    else do all <- el_from_inmem el ents low high ;; Ok (limit_size all maxSize).

Definition el_first_not_applied (el : elog) (lr : reader) : N := N.max (el_processed el + 1) (el_first el lr).
Definition el_has_to_apply (el : elog) (lr : reader) : bool := el_first_not_applied el lr <? el_committed el + 1.
Definition el_to_apply (el : elog) (lr : reader) (st : store) (limit : N) : res (list entry) :=
  if el_has_to_apply el lr
  then el_get_entries el lr st (el_first_not_applied el lr) (el_committed el + 1) limit
  else Ok [].

Definition el_to_save (el : elog) : list entry := im_entries_to_save (el_im el).

Fixpoint el_conflict_index (el : elog) (lr : reader) (st : store) (ents : list entry) : res N :=
  match ents with
  | [] => Ok 0
  | e :: r =>
    do t <- el_term el lr st (e_index e) ;;
    if t =? e_term e then el_conflict_index el lr st r else Ok (e_index e)
  end.

Definition el_append (el : elog) (ents : list entry) : res elog :=
  match ents with
  | [] => Ok el
  | e0 :: _ =>
    if e_index e0 <=? el_committed el then Panic PAppendCommitted
    else do im <- im_merge (el_im el) ents ;; Ok (mkEL im (el_committed el) (el_processed el))
  end.

Definition el_try_append (el : elog) (lr : reader) (st : store) (index : N) (ents : list entry) : res elog :=
  do c <- el_conflict_index el lr st ents ;;
  if c =? 0 then Ok el
  else if c <=? el_committed el then Panic PConflictCommitted
  else if (c <=? index) || (nlen ents <? c - index - 1) then Panic PIndexOOR
  else el_append el (skipn (N.to_nat (c - index - 1)) ents).

Definition el_commit_to (el : elog) (lr : reader) (index : N) : res elog :=
  if index <=? el_committed el then Ok el
  else if el_last el lr <? index then Panic PCommitTo
  else Ok (mkEL (el_im el) index (el_processed el)).

Record ucommit := mkUC {
  uc_processed : N; uc_last_applied : N; uc_stable_to : N; uc_stable_term : N; uc_stable_snap : N }.

Definition el_commit_update (el : elog) (cu : ucommit) : res elog :=
  do im1 <- im_commit_update (el_im el) (uc_stable_to cu) (uc_stable_term cu) (uc_stable_snap cu) ;;
  do pr <- (if 0 <? uc_processed cu then
              if (uc_processed cu <? el_processed el) || (el_committed el <? uc_processed cu)
              then Panic PProcessed else Ok (uc_processed cu)
            else Ok (el_processed el)) ;;
  if 0 <? uc_last_applied cu then
    if el_committed el <? uc_last_applied cu then Panic PLastAppliedCommitted
    else if pr <? uc_last_applied cu then Panic PLastAppliedProcessed
    else do im2 <- im_applied_log_to im1 (uc_last_applied cu) ;; Ok (mkEL im2 (el_committed el) pr)
  else Ok (mkEL im1 (el_committed el) pr).

Definition el_restore (el : elog) (i t : N) : res elog :=
  if i <? el_committed el then Panic PRestoreBack
  else Ok (mkEL (im_restore (el_im el) i t) i i).

(* ------------------------------------------------------------------ *)
(* peer.go (log part) and the world the operations act on              *)

Record update := mkUD {
  ud_save : list entry; ud_apply : list entry; ud_more : bool;
  ud_snap : option (N * N); ud_commit : N; ud_last_applied : N;
  ud_fast : bool; ud_uc : ucommit }.

Record pend := mkPend { p_ud : update; p_persisted : bool }.

Record world := mkW {
  w_el : elog; w_lr : reader; w_st : store;
  w_prev : N;                 (* Peer.prevState.Commit *)
  w_queue : list pend;        (* updates handed out, oldest first *)
  w_limit : N                 (* maxEntriesToApplySize *)
}.

Definition with_el (w : world) (el : elog) : world :=
  mkW el (w_lr w) (w_st w) (w_prev w) (w_queue w) (w_limit w).

(* validateUpdate *)
Definition validate_update (commit : N) (app save : list entry) : option ptag :=
  if (0 <? commit) && negb (is_nil app) && (commit <? e_index (last_entry app)) then Some PApplyNotCommitted
  else if negb (is_nil app) && negb (is_nil save) && (e_index (last_entry save) <? e_index (last_entry app))
  then Some PApplyNotSaved
  else None.

(* setFastApply *)
Definition fast_apply (snap : option (N * N)) (app save : list entry) : bool :=
  match snap with
  | Some _ => false
  | None =>
    match app, save with
    | [], _ => true
    | _, [] => true
    | _, s0 :: _ =>
      let la := e_index (last_entry app) in
      negb ((e_index s0 <=? la) && (la <=? e_index (last_entry save)))
    end
  end.

(* getUpdateCommit *)
Definition update_commit (snap : option (N * N)) (app save : list entry) (la : N) : ucommit :=
  let pr := match app with [] => 0 | _ => e_index (last_entry app) end in
  let '(sto, stt) := match save with [] => (0, 0) | _ => (e_index (last_entry save), e_term (last_entry save)) end in
  match snap with
  | Some (i, _) => mkUC (N.max pr i) la sto stt i
  | None => mkUC pr la sto stt 0
  end.

(* Peer.GetUpdate *)
Definition get_update (w : world) (more : bool) (la : N) : res update :=
  let el := w_el w in
  let save := el_to_save el in
  do app <- (if more then el_to_apply el (w_lr w) (w_st w) (w_limit w) else Ok []) ;;
  let more_c := match app with [] => false | _ => e_index (last_entry app) <? el_committed el end in
  let commit := if el_committed el =? w_prev w then 0 else el_committed el in
  let snap := match im_snap (el_im el) with Some (0, _) => None | s => s end in
  match validate_update commit app save with
  | Some t => Panic t
  | None => Ok (mkUD save app more_c snap commit la (fast_apply snap app save) (update_commit snap app save la))
  end.

(* world transitions *)
Definition w_append (w : world) (ents : list entry) : res world :=
  do el <- el_append (w_el w) ents ;; Ok (with_el w el).

(* raft.describe(): evaluated for log text (even when logging is off); it reads
   the term of the last index and panics on any error but ErrCompacted *)
Definition describe (w : world) : res unit :=
  let el := w_el w in
  match el_term el (w_lr w) (w_st w) (el_last el (w_lr w)) with
  | Ok _ => Ok tt
  | Fail ECompacted => Ok tt
  | Fail _ => Panic PDescribe
  | Panic t => Panic t
  end.

(* raft.handleReplicateMessage, log part *)
Definition w_replicate (w : world) (li lt commit : N) (ents : list entry) : res world :=
  let el := w_el w in
  if li <? el_committed el then Ok w
  else
    do t <- el_term el (w_lr w) (w_st w) li ;;
    if t =? lt then
      do el1 <- el_try_append el (w_lr w) (w_st w) li ents ;;
      do el2 <- el_commit_to el1 (w_lr w) (N.min (li + nlen ents) commit) ;;
      Ok (with_el w el2)
    else do _ <- describe w ;; Ok w.

Definition w_commit_to (w : world) (k : N) : res world :=
  do el <- el_commit_to (w_el w) (w_lr w) k ;; Ok (with_el w el).

(* raft.restore, log part *)
Definition w_restore (w : world) (i t : N) : res world :=
  let el := w_el w in
  if i <=? el_committed el then do _ <- describe w ;; Ok w
  else
    do lt <- el_term el (w_lr w) (w_st w) i ;;
    if lt =? t then do el1 <- el_commit_to el (w_lr w) i ;; Ok (with_el w el1)
    else do _ <- describe w ;; do el1 <- el_restore el i t ;; Ok (with_el w el1).

Definition w_get_update (w : world) (more : bool) (la : N) : res world :=
  do ud <- get_update w more la ;;
  Ok (mkW (w_el w) (w_lr w) (w_st w) (w_prev w) (w_queue w ++ [mkPend ud false]) (w_limit w)).

(* engine: SaveRaftState, then processSnapshot (soft error ignored), then LogReader.Append *)
Definition persist_update (lr : reader) (st : store) (ud : update) : res (reader * store) :=
  let st1 := st_save st (ud_save ud) in
  let lr1 := match ud_snap ud with
             | Some (i, t) => match lr_apply_snapshot lr i t with Ok l => l | _ => lr end
             | None => lr
             end in
  do lr2 <- lr_append lr1 (ud_save ud) ;;
  Ok (lr2, st1).

Fixpoint persist_first (lr : reader) (st : store) (q : list pend) : res (reader * store * list pend) :=
  match q with
  | [] => Ok (lr, st, [])
  | p :: r =>
    if p_persisted p then
      do x <- persist_first lr st r ;;
      let '(lr', st', r') := x in Ok (lr', st', p :: r')
    else
      do x <- persist_update lr st (p_ud p) ;;
      let '(lr', st') := x in Ok (lr', st', mkPend (p_ud p) true :: r)
  end.

Definition w_persist (w : world) : res world :=
  do x <- persist_first (w_lr w) (w_st w) (w_queue w) ;;
  let '(lr, st, q) := x in
  Ok (mkW (w_el w) lr st (w_prev w) q (w_limit w)).

(* Peer.Commit of the oldest update, once it has been persisted *)
Definition w_commit (w : world) : res world :=
  match w_queue w with
  | [] => Ok w
  | p :: r =>
    if p_persisted p then
      do el <- el_commit_update (w_el w) (ud_uc (p_ud p)) ;;
      let prev := if ud_commit (p_ud p) =? 0 then w_prev w else ud_commit (p_ud p) in
      Ok (mkW el (w_lr w) (w_st w) prev r (w_limit w))
    else Ok w
  end.

(* node.removeLog: LogReader.Compact (ErrCompacted tolerated), then RemoveEntriesTo *)
Definition w_compact (w : world) (k : N) : res world :=
  match lr_compact (w_lr w) (w_st w) k with
  | Ok lr => Ok (mkW (w_el w) lr (st_remove_to (w_st w) k) (w_prev w) (w_queue w) (w_limit w))
  | Fail ECompacted => Ok (mkW (w_el w) (w_lr w) (st_remove_to (w_st w) k) (w_prev w) (w_queue w) (w_limit w))
  | Fail e => Fail e
  | Panic t => Panic t
  end.

Definition step (w : world) (o : op) : res world :=
  match o with
  | OAppend ents => w_append w ents
  | OReplicate li lt c ents => w_replicate w li lt c ents
  | OCommitTo k => w_commit_to w k
  | OGetUpdate more la => w_get_update w more la
  | OPersist => w_persist w
  | OCommit => w_commit w
  | ORestore i t => w_restore w i t
  | OCompact k => w_compact w k
  end.

(* run: stops at the first error/panic *)
Fixpoint run (w : world) (ops : list op) : res world :=
  match ops with
  | [] => Ok w
  | o :: r => do w' <- step w o ;; run w' r
  end.

(* (re)start: the harness builds the store, replays it into the LogReader the
   way node.replayLog does, creates the entryLog and loads the committed index *)
Definition w_init_opt (skip rlon : bool) (mi mt : N) (ents : list entry) (committed limit : N) : world :=
  let st := st_save (mkSt [] 0 skip) ents in
  let lr0 := if 0 <? mi then mkLR mi mt 1 mi else lr_new in
  let lr := match lr_set_range lr0 (mi + 1) (nlen ents) with Ok l => l | _ => lr0 end in
  let el0 := el_new lr (if rlon then Some 0 else None) in
  let el := mkEL (el_im el0) (N.max (el_committed el0) committed) (el_processed el0) in
  mkW el lr st (el_committed el) [] limit.

Definition w_init_rl := w_init_opt false.
Definition w_init := w_init_rl false.

(* the last update handed out (for the observation line) *)
Definition last_update (w : world) : option update :=
  match rev (w_queue w) with p :: _ => Some (p_ud p) | [] => None end.

(* ocaml/common/util.ml refers to the extracted type [z]; nothing else here uses Z *)
Definition c19_z_anchor : Z := 0%Z.
