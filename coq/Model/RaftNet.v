(* L2: the abstract Raft protocol of internal/raft on a message soup, stage 1
   (fixed voting set V, quorum = |V|/2+1, no log compaction, no membership change).

   Object of the global safety theorems in Props/L2.v.  Definitions only.

   State: every node holds term, voted_for, role, log, commit (+ one ghost field);
   the network is a grow-only list of every message ever sent: loss, duplication,
   delay and reordering are all "any message of the soup may be handled any number
   of times, by anybody, or never".

   Deviations from raft.go -- every one of them makes the model MORE permissive
   (the model includes every stage-1 behaviour of the code):

   D1  One Go handler call = one or several model steps.  onMessageTermNotMatched
       (higher term => becomeFollower(term), vote cleared) is the separate step
       [LHigherTerm i t]; it needs no message at all (a node may jump to any higher
       term).  Every Handle* step then requires message term = node term (the code
       drops lower terms).  campaign() on a single-node quorum = LTimeout;LBecomeLeader.
       appendEntries on a single-node quorum = LPropose;LAdvanceCommit.
   D2  No addressing: RequestVote / Replicate messages have no [to], any node may
       handle any of them (Heartbeat keeps its [to], its commit value is
       per-follower).  Nodes outside V may do everything nodes inside V do; only
       quorums are counted inside V (so non-voting members are included).
       A witness is a member of V that never campaigns, proposes or applies: the code
       sends it entries stripped of their payload (makeMetadataEntries), but everything a
       witness does (match / conflict detection, acknowledgements, votes) reads terms and
       indexes only, so it behaves exactly like the model node that holds the full
       entries; the payloads in a witness log of the model are ghost.
   D3  Responses that carry no information are not sent: vote rejections, Replicate
       rejections, HeartbeatResp, NoOP.  The self-vote of campaign() and the
       leader's own match are put in the soup as ordinary Vote / Ack messages, so every
       quorum is a set of messages.  The leader's own Ack is the separate step
       [LSelfAck i] ("my entries are on my disk"): the code sets remotes[self].match in
       appendEntries, before its own write, but tryCommit can only use it in a later
       step of the same worker, after SaveRaftState (C04: leader_self_ack_after_persist);
       a single-node quorum commits in appendEntries itself, which is
       LPropose;LSelfAck;LAdvanceCommit here and is not acted upon before the write
       (C04: apply_not_before_persist).
   D4  [LTimeout] is enabled in every role (the code never campaigns as leader;
       LStepDown;LTimeout reaches the same state).  The guard "no campaign while
       committed > applied" concerns membership change only (stage 3).
       [LStepDown] (leader/candidate -> follower in the same term, vote kept) covers
       checkQuorum, a quorum of rejections, and candidates receiving
       Replicate/Heartbeat; the Handle* steps also set role := Follower in every role
       (the code has no Replicate/Heartbeat handler for a leader).
   D5  BecomeLeader / AdvanceCommit count *all* matching Vote / Ack messages of the
       soup for the term (the code counts those it received: a subset), with >=
       quorum (the code: == at the moment the quorum-th vote arrives; tryCommit takes
       the quorum-th largest match, i.e. the largest k with >= quorum acks >= k; any
       smaller k > commit with term(k) = term is allowed here as well).
       Acks are not checked for their [ldr] field.
   D6  SendAE: any prev <= last index, any number of following entries and any
       leaderCommit <= commit (the code: prev = next-1 from the flow-control state,
       size-limited, leaderCommit = commit; smaller values are what InstallSnapshot needs
       at stage 2).  SendHB: any commit
       value <= min(commit, some acked match of [to]) (the code: exactly the min with
       remote.match, which is the largest ack it received in this term, or 0).
   D7  Panics of the code are guards here (a panicking node makes no step):
       conflict index <= committed in tryAppend; commitTo beyond lastIndex in
       handleHeartbeatMessage.  Both are proved unreachable (Props/L2.v:
       append_never_conflicts_with_committed, heartbeat_commit_in_range).
   D8  Restart i c m keeps (term, voted_for), any commit value c <= the old one, and
       the first m entries of the log, for any m that covers every acknowledgement the
       node ever sent (Ack messages of the soup, its own LSelfAck included): dragonboat
       sends Replicate messages BEFORE the leader's own write (thesis 10.2.1), so a crash
       can lose a suffix of the leader's log that followers already hold; everything
       else is persisted before it is sent (C04: persist_before_send, crash_cut_safe).
       m >= length log is the plain restart.  role := Follower.
       The guard hcommit <= m reads ghost state: it excludes crash cuts that lose
       entries at or below a commit value the node once held in memory.  Such a cut can
       only lose a commit value together with the Update that carried it (entries and
       State are one atomic write, C10), i.e. the node is then in the state it had
       before that step, which made no message (a follower's commit value is not sent
       anywhere; a leader advances commit only over entries already on its disk).
   D9  PreVote, ReadIndex, leader transfer (= LTimeout at any time), quiesce, rate
       limiting, flow control change none of (term, vote, role, log, commit) other
       than through the steps above and are not modelled.

   Ghost state (no influence on any guard or on the non-ghost fields):
     hcommit of a node   the largest commit value the node ever had (Restart may lower commit)
     vlog in a Vote      the voter's log when it granted the vote
     lead t              who became leader in term t
     llog0 t             that leader's log right after becomeLeader (with its no-op)
     llog t              that leader's log now / when it was last leader in t. *)
From Coq Require Export List Arith PeanoNat Bool Lia.
Export ListNotations.

Definition id := nat.

Record entry := mkE { eterm : nat; epay : nat }.

Inductive role_t := Follower | Candidate | Leader.

Record node := mkNode {
  term : nat;
  voted : option id;
  role : role_t;
  log : list entry;          (* entry k (1-based) = nth_error log (k-1) *)
  commit : nat;
  hcommit : nat              (* ghost *)
}.

Inductive msg :=
| RV (t : nat) (cand : id) (li lt : nat)                      (* RequestVote *)
| Vote (t : nat) (voter cand : id) (vlog : list entry)        (* granted RequestVoteResp; vlog ghost *)
| AE (t : nat) (ldr : id) (prev pt : nat) (ents : list entry) (lc : nat)   (* Replicate *)
| Ack (t : nat) (from ldr : id) (m : nat)                     (* ReplicateResp, not rejected *)
| HB (t : nat) (ldr to : id) (c : nat).                       (* Heartbeat *)

Record net := mkNet {
  nodes : id -> node;
  msgs : list msg;
  lead : nat -> option id;        (* ghost *)
  llog0 : nat -> list entry;      (* ghost *)
  llog : nat -> list entry        (* ghost *)
}.

Inductive label :=
| LTimeout (i : id)
| LHigherTerm (i : id) (t : nat)
| LStepDown (i : id)
| LHandleRV (i : id) (t : nat) (cand : id) (li lt : nat)
| LBecomeLeader (i : id)
| LPropose (i : id) (p : nat)
| LSendAE (i : id) (prev len lc : nat)
| LHandleAE (j : id) (t : nat) (ldr : id) (prev pt : nat) (ents : list entry) (lc : nat)
| LAdvanceCommit (i : id) (k : nat)
| LSendHB (i j : id) (c : nat)
| LHandleHB (j : id) (t : nat) (ldr : id) (c : nat)
| LSelfAck (i : id)
| LRestart (i : id) (c m : nat).

(* ---------------------------------------------------------------- *)
(* logs *)

(* entryLog.term(index): 0 when out of range (and for index 0) *)
Definition term_at (l : list entry) (k : nat) : nat :=
  match k with
  | 0 => 0
  | S j => match nth_error l j with Some e => eterm e | None => 0 end
  end.

Definition last_term (l : list entry) : nat := term_at l (length l).

(* entryLog.upToDate(index, term) *)
Definition up_to_date (li lt : nat) (l : list entry) : bool :=
  (last_term l <? lt) || ((lt =? last_term l) && (length l <=? li)).

(* entryLog.getConflictIndex: first entry whose (index, term) does not match *)
Fixpoint first_conflict (l : list entry) (idx : nat) (ents : list entry) : option nat :=
  match ents with
  | [] => None
  | e :: r => if term_at l idx =? eterm e then first_conflict l (S idx) r else Some idx
  end.

(* entryLog.tryAppend(prev, ents): None = the code panics *)
Definition try_append (l : list entry) (cmt prev : nat) (ents : list entry) : option (list entry) :=
  match first_conflict l (S prev) ents with
  | None => Some l
  | Some ci =>
    if cmt <? ci then Some (firstn (ci - 1) l ++ skipn (ci - prev - 1) ents) else None
  end.

(* ---------------------------------------------------------------- *)
(* counting votes and acks in the soup *)

Definition is_vote (t : nat) (c v : id) (m : msg) : bool :=
  match m with
  | Vote t' v' c' _ => (t' =? t) && (v' =? v) && (c' =? c)
  | _ => false
  end.

Definition is_ack (t k : nat) (v : id) (m : msg) : bool :=
  match m with
  | Ack t' v' _ mi => (t' =? t) && (v' =? v) && (k <=? mi)
  | _ => false
  end.

(* every acknowledgement node i ever sent is for an index <= m *)
Definition acks_le (ms : list msg) (i : id) (m : nat) : bool :=
  forallb (fun x => match x with
                    | Ack _ v _ k => negb (v =? i) || (k <=? m)
                    | _ => true
                    end) ms.

Definition upd (f : id -> node) (i : id) (x : node) : id -> node :=
  fun j => if j =? i then x else f j.

Definition updg {A} (f : nat -> A) (t : nat) (x : A) : nat -> A :=
  fun u => if u =? t then x else f u.

Section Net.
  Variable V : list id.

  Definition quorum : nat := length V / 2 + 1.

  Definition vote_count (ms : list msg) (t : nat) (c : id) : nat :=
    length (filter (fun v => existsb (is_vote t c v) ms) V).

  Definition ack_count (ms : list msg) (t k : nat) : nat :=
    length (filter (fun v => existsb (is_ack t k v) ms) V).

  Definition noop (t : nat) : entry := mkE t 0.

  Definition init_node : node := mkNode 0 None Follower [] 0 0.
  Definition init : net :=
    mkNet (fun _ => init_node) [] (fun _ => None) (fun _ => []) (fun _ => []).

  Inductive step : net -> label -> net -> Prop :=
  | SATimeout n i :
      let x := nodes n i in
      let t := S (term x) in
      step n (LTimeout i)
        (mkNet (upd (nodes n) i (mkNode t (Some i) Candidate (log x) (commit x) (hcommit x)))
               (Vote t i i (log x) :: RV t i (length (log x)) (last_term (log x)) :: msgs n)
               (lead n) (llog0 n) (llog n))
  | SAHigherTerm n i t :
      let x := nodes n i in
      term x < t ->
      step n (LHigherTerm i t)
        (mkNet (upd (nodes n) i (mkNode t None Follower (log x) (commit x) (hcommit x)))
               (msgs n) (lead n) (llog0 n) (llog n))
  | SAStepDown n i :
      let x := nodes n i in
      step n (LStepDown i)
        (mkNet (upd (nodes n) i (mkNode (term x) (voted x) Follower (log x) (commit x) (hcommit x)))
               (msgs n) (lead n) (llog0 n) (llog n))
  | SAHandleRV n i t c li lt :
      let x := nodes n i in
      In (RV t c li lt) (msgs n) ->
      t = term x ->
      (voted x = None \/ voted x = Some c) ->
      up_to_date li lt (log x) = true ->
      step n (LHandleRV i t c li lt)
        (mkNet (upd (nodes n) i (mkNode (term x) (Some c) (role x) (log x) (commit x) (hcommit x)))
               (Vote t i c (log x) :: msgs n)
               (lead n) (llog0 n) (llog n))
  | SABecomeLeader n i :
      let x := nodes n i in
      let t := term x in
      let l' := log x ++ [noop t] in
      role x = Candidate ->
      quorum <= vote_count (msgs n) t i ->
      step n (LBecomeLeader i)
        (mkNet (upd (nodes n) i (mkNode t (voted x) Leader l' (commit x) (hcommit x)))
               (msgs n)
               (updg (lead n) t (Some i)) (updg (llog0 n) t l') (updg (llog n) t l'))
  | SAPropose n i p :
      let x := nodes n i in
      let t := term x in
      let l' := log x ++ [mkE t p] in
      role x = Leader ->
      step n (LPropose i p)
        (mkNet (upd (nodes n) i (mkNode t (voted x) Leader l' (commit x) (hcommit x)))
               (msgs n)
               (lead n) (llog0 n) (updg (llog n) t l'))
  | SASendAE n i prev len lc :
      let x := nodes n i in
      role x = Leader ->
      prev <= length (log x) ->
      lc <= commit x ->
      step n (LSendAE i prev len lc)
        (mkNet (nodes n)
               (AE (term x) i prev (term_at (log x) prev) (firstn len (skipn prev (log x))) lc
                   :: msgs n)
               (lead n) (llog0 n) (llog n))
  | SAHandleAEStale n j t ldr prev pt ents lc :
      (* handleReplicateMessage: m.LogIndex < committed => answer with committed *)
      let x := nodes n j in
      In (AE t ldr prev pt ents lc) (msgs n) ->
      t = term x ->
      prev < commit x ->
      step n (LHandleAE j t ldr prev pt ents lc)
        (mkNet (upd (nodes n) j (mkNode (term x) (voted x) Follower (log x) (commit x) (hcommit x)))
               (Ack t j ldr (commit x) :: msgs n)
               (lead n) (llog0 n) (llog n))
  | SAHandleAE n j t ldr prev pt ents lc l' :
      let x := nodes n j in
      let c' := Nat.max (commit x) (Nat.min lc (prev + length ents)) in
      In (AE t ldr prev pt ents lc) (msgs n) ->
      t = term x ->
      commit x <= prev ->
      term_at (log x) prev = pt ->
      try_append (log x) (commit x) prev ents = Some l' ->
      step n (LHandleAE j t ldr prev pt ents lc)
        (mkNet (upd (nodes n) j (mkNode (term x) (voted x) Follower l' c' (Nat.max (hcommit x) c')))
               (Ack t j ldr (prev + length ents) :: msgs n)
               (lead n) (llog0 n) (llog n))
  | SAAdvanceCommit n i k :
      let x := nodes n i in
      role x = Leader ->
      commit x < k ->
      term_at (log x) k = term x ->
      quorum <= ack_count (msgs n) (term x) k ->
      step n (LAdvanceCommit i k)
        (mkNet (upd (nodes n) i (mkNode (term x) (voted x) Leader (log x) k (Nat.max (hcommit x) k)))
               (msgs n) (lead n) (llog0 n) (llog n))
  | SASendHB n i j c :
      let x := nodes n i in
      role x = Leader ->
      c <= commit x ->
      (c = 0 \/ existsb (is_ack (term x) c j) (msgs n) = true) ->
      step n (LSendHB i j c)
        (mkNet (nodes n) (HB (term x) i j c :: msgs n) (lead n) (llog0 n) (llog n))
  | SAHandleHB n j t ldr c :
      let x := nodes n j in
      let c' := Nat.max (commit x) c in
      In (HB t ldr j c) (msgs n) ->
      t = term x ->
      c <= length (log x) ->
      step n (LHandleHB j t ldr c)
        (mkNet (upd (nodes n) j (mkNode (term x) (voted x) Follower (log x) c' (Nat.max (hcommit x) c')))
               (msgs n) (lead n) (llog0 n) (llog n))
  | SASelfAck n i :
      (* the leader's own match: its entries are on its disk *)
      let x := nodes n i in
      role x = Leader ->
      step n (LSelfAck i)
        (mkNet (nodes n) (Ack (term x) i i (length (log x)) :: msgs n)
               (lead n) (llog0 n) (llog n))
  | SARestart n i c m :
      let x := nodes n i in
      c <= commit x ->
      hcommit x <= m ->                                     (* ghost guard, see D8 *)
      acks_le (msgs n) i m = true ->
      step n (LRestart i c m)
        (mkNet (upd (nodes n) i (mkNode (term x) (voted x) Follower (firstn m (log x)) c (hcommit x)))
               (msgs n) (lead n) (llog0 n) (llog n)).

  Inductive steps : net -> list label -> net -> Prop :=
  | steps_nil n : steps n [] n
  | steps_cons n l n1 ls n2 : step n l n1 -> steps n1 ls n2 -> steps n (l :: ls) n2.

  Definition reachable (n : net) : Prop := exists ls, steps init ls n.

  (* -------------------------------------------------------------- *)
  (* executable side *)

  Definition entry_eqb (a b : entry) : bool :=
    (eterm a =? eterm b) && (epay a =? epay b).

  Fixpoint ents_eqb (a b : list entry) : bool :=
    match a, b with
    | [], [] => true
    | x :: a', y :: b' => entry_eqb x y && ents_eqb a' b'
    | _, _ => false
    end.

  Definition msg_eqb (a b : msg) : bool :=
    match a, b with
    | RV t c li lt, RV t' c' li' lt' => (t =? t') && (c =? c') && (li =? li') && (lt =? lt')
    | Vote t v c l, Vote t' v' c' l' => (t =? t') && (v =? v') && (c =? c') && ents_eqb l l'
    | AE t i p pt es lc, AE t' i' p' pt' es' lc' =>
      (t =? t') && (i =? i') && (p =? p') && (pt =? pt') && ents_eqb es es' && (lc =? lc')
    | Ack t f i m, Ack t' f' i' m' => (t =? t') && (f =? f') && (i =? i') && (m =? m')
    | HB t i j c, HB t' i' j' c' => (t =? t') && (i =? i') && (j =? j') && (c =? c')
    | _, _ => false
    end.

  Definition in_soup (m : msg) (ms : list msg) : bool := existsb (msg_eqb m) ms.

  Definition role_eqb (a b : role_t) : bool :=
    match a, b with
    | Follower, Follower | Candidate, Candidate | Leader, Leader => true
    | _, _ => false
    end.

  Definition vote_free (v : option id) (c : id) : bool :=
    match v with None => true | Some c' => c' =? c end.

  (* the successor state of [n] under label [l], None if [l] is not enabled *)
  Definition step_fn (n : net) (l : label) : option net :=
    match l with
    | LTimeout i =>
      let x := nodes n i in
      let t := S (term x) in
      Some (mkNet (upd (nodes n) i (mkNode t (Some i) Candidate (log x) (commit x) (hcommit x)))
                  (Vote t i i (log x) :: RV t i (length (log x)) (last_term (log x)) :: msgs n)
                  (lead n) (llog0 n) (llog n))
    | LHigherTerm i t =>
      let x := nodes n i in
      if term x <? t then
        Some (mkNet (upd (nodes n) i (mkNode t None Follower (log x) (commit x) (hcommit x)))
                    (msgs n) (lead n) (llog0 n) (llog n))
      else None
    | LStepDown i =>
      let x := nodes n i in
      Some (mkNet (upd (nodes n) i (mkNode (term x) (voted x) Follower (log x) (commit x) (hcommit x)))
                  (msgs n) (lead n) (llog0 n) (llog n))
    | LHandleRV i t c li lt =>
      let x := nodes n i in
      if in_soup (RV t c li lt) (msgs n) && (t =? term x) && vote_free (voted x) c
         && up_to_date li lt (log x) then
        Some (mkNet (upd (nodes n) i (mkNode (term x) (Some c) (role x) (log x) (commit x) (hcommit x)))
                    (Vote t i c (log x) :: msgs n)
                    (lead n) (llog0 n) (llog n))
      else None
    | LBecomeLeader i =>
      let x := nodes n i in
      let t := term x in
      let l' := log x ++ [noop t] in
      if role_eqb (role x) Candidate && (quorum <=? vote_count (msgs n) t i) then
        Some (mkNet (upd (nodes n) i (mkNode t (voted x) Leader l' (commit x) (hcommit x)))
                    (msgs n)
                    (updg (lead n) t (Some i)) (updg (llog0 n) t l') (updg (llog n) t l'))
      else None
    | LPropose i p =>
      let x := nodes n i in
      let t := term x in
      let l' := log x ++ [mkE t p] in
      if role_eqb (role x) Leader then
        Some (mkNet (upd (nodes n) i (mkNode t (voted x) Leader l' (commit x) (hcommit x)))
                    (msgs n)
                    (lead n) (llog0 n) (updg (llog n) t l'))
      else None
    | LSendAE i prev len lc =>
      let x := nodes n i in
      if role_eqb (role x) Leader && (prev <=? length (log x)) && (lc <=? commit x) then
        Some (mkNet (nodes n)
                    (AE (term x) i prev (term_at (log x) prev) (firstn len (skipn prev (log x)))
                        lc :: msgs n)
                    (lead n) (llog0 n) (llog n))
      else None
    | LHandleAE j t ldr prev pt ents lc =>
      let x := nodes n j in
      if in_soup (AE t ldr prev pt ents lc) (msgs n) && (t =? term x) then
        if prev <? commit x then
          Some (mkNet (upd (nodes n) j
                           (mkNode (term x) (voted x) Follower (log x) (commit x) (hcommit x)))
                      (Ack t j ldr (commit x) :: msgs n)
                      (lead n) (llog0 n) (llog n))
        else if term_at (log x) prev =? pt then
          match try_append (log x) (commit x) prev ents with
          | Some l' =>
            let c' := Nat.max (commit x) (Nat.min lc (prev + length ents)) in
            Some (mkNet (upd (nodes n) j
                             (mkNode (term x) (voted x) Follower l' c' (Nat.max (hcommit x) c')))
                        (Ack t j ldr (prev + length ents) :: msgs n)
                        (lead n) (llog0 n) (llog n))
          | None => None
          end
        else None
      else None
    | LAdvanceCommit i k =>
      let x := nodes n i in
      if role_eqb (role x) Leader && (commit x <? k) && (term_at (log x) k =? term x)
         && (quorum <=? ack_count (msgs n) (term x) k) then
        Some (mkNet (upd (nodes n) i
                         (mkNode (term x) (voted x) Leader (log x) k (Nat.max (hcommit x) k)))
                    (msgs n) (lead n) (llog0 n) (llog n))
      else None
    | LSendHB i j c =>
      let x := nodes n i in
      if role_eqb (role x) Leader && (c <=? commit x)
         && ((c =? 0) || existsb (is_ack (term x) c j) (msgs n)) then
        Some (mkNet (nodes n) (HB (term x) i j c :: msgs n) (lead n) (llog0 n) (llog n))
      else None
    | LHandleHB j t ldr c =>
      let x := nodes n j in
      if in_soup (HB t ldr j c) (msgs n) && (t =? term x) && (c <=? length (log x)) then
        let c' := Nat.max (commit x) c in
        Some (mkNet (upd (nodes n) j
                         (mkNode (term x) (voted x) Follower (log x) c' (Nat.max (hcommit x) c')))
                    (msgs n) (lead n) (llog0 n) (llog n))
      else None
    | LSelfAck i =>
      let x := nodes n i in
      if role_eqb (role x) Leader then
        Some (mkNet (nodes n) (Ack (term x) i i (length (log x)) :: msgs n)
                    (lead n) (llog0 n) (llog n))
      else None
    | LRestart i c m =>
      let x := nodes n i in
      if (c <=? commit x) && (hcommit x <=? m) && acks_le (msgs n) i m then
        Some (mkNet (upd (nodes n) i
                         (mkNode (term x) (voted x) Follower (firstn m (log x)) c (hcommit x)))
                    (msgs n) (lead n) (llog0 n) (llog n))
      else None
    end.

  (* run a list of labels *)
  Fixpoint run (n : net) (ls : list label) : option net :=
    match ls with
    | [] => Some n
    | l :: r => match step_fn n l with Some n1 => run n1 r | None => None end
    end.

  (* comparing a computed state with an observed one on the ids of interest
     (non-ghost node fields only, and the soup as a set is left to the caller) *)
  Definition node_obs_eqb (a b : node) : bool :=
    (term a =? term b)
    && (match voted a, voted b with
        | None, None => true | Some x, Some y => x =? y | _, _ => false end)
    && role_eqb (role a) (role b) && ents_eqb (log a) (log b) && (commit a =? commit b).

  Definition nodes_obs_eqb (ids : list id) (a b : net) : bool :=
    forallb (fun i => node_obs_eqb (nodes a i) (nodes b i)) ids.

  (* checker form: label [l] leads from [n] to a state observably equal to [n'] on [ids] *)
  Definition step_ok (ids : list id) (n : net) (l : label) (n' : net) : bool :=
    match step_fn n l with
    | Some n1 => nodes_obs_eqb ids n1 n'
    | None => false
    end.

End Net.
