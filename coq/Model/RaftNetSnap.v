(* L2, stage 2: log compaction and InstallSnapshot on top of Model/RaftNet.v.
   Definitions only.

   A stage-2 node is a stage-1 node plus [first]: the index of its snapshot, i.e. the
   length of the compacted prefix of its log.  What the real node stores is
       (first, term_at log first, skipn first log)           -- snapshot index/term + entries
   and the prefix [firstn first log] is ghost: it is kept in the model so that the
   stage-1 theorems speak about the logical log.  Every handler of the code reads the
   log only at indexes >= first once first <= commit (Props/L2.v: snapshot_is_committed):
   handleReplicateMessage answers with committed when prev < committed, getConflictIndex
   looks above prev, tryCommit above committed, upToDate at the last index (the snapshot
   term when no entry is left); so the stage-1 steps are taken over unchanged
   ([L2Base l]) with two extra guards ([visible]): a leader can only send a Replicate
   whose prev it still has (otherwise the code sends its snapshot), and a restarted node
   has commit >= its snapshot index (entryLog is initialised from the snapshot).

   New steps:
     L2Compact i k       discard entries up to k, first <= k <= commit (the code compacts
                         below applied <= committed)
     L2SendIS i sidx     the leader sends a snapshot at any index 1 <= sidx <= commit
                         (the code: the latest snapshot it has; snapshots are taken at
                         applied indexes)
     L2HandleIS j ...    handleInstallSnapshotMessage / restore:
                           sidx <= committed          -> answer with committed
                           log has (sidx, sterm)      -> commitTo(sidx), answer sidx
                           otherwise                  -> log := snapshot only, committed
                                                         := sidx, answer sidx
                         In the last case the ghost prefix of the node becomes the
                         sender's leader log up to sidx (that is what the snapshot
                         stands for); first := sidx.
   The witness / non-voting conversion panics of restore() concern membership (stage 3). *)
From DB Require Export Model.RaftNet.

Inductive snapmsg := IS (t : nat) (ldr : id) (sidx sterm : nat).

Record net2 := mkNet2 {
  base : net;
  first : id -> nat;
  snaps : list snapmsg
}.

Inductive label2 :=
| L2Base (l : label)
| L2Compact (i : id) (k : nat)
| L2SendIS (i : id) (sidx : nat)
| L2HandleIS (j : id) (t : nat) (ldr : id) (sidx sterm : nat).

Definition updn (f : id -> nat) (i : id) (x : nat) : id -> nat :=
  fun j => if j =? i then x else f j.

(* what a node really stores *)
Definition stored (s : net2) (i : id) : nat * nat * list entry :=
  let x := nodes (base s) i in
  (first s i, term_at (log x) (first s i), skipn (first s i) (log x)).

Section Snap.
  Variable V : list id.

  Definition init2 : net2 := mkNet2 (init) (fun _ => 0) [].

  Definition visible (s : net2) (l : label) : Prop :=
    match l with
    | LSendAE i prev _ _ => first s i <= prev
    | LRestart i c _ => first s i <= c
    | _ => True
    end.

  Inductive step2 : net2 -> label2 -> net2 -> Prop :=
  | S2Base s l b' :
      visible s l -> step V (base s) l b' ->
      step2 s (L2Base l) (mkNet2 b' (first s) (snaps s))
  | S2Compact s i k :
      first s i <= k -> k <= commit (nodes (base s) i) ->
      step2 s (L2Compact i k) (mkNet2 (base s) (updn (first s) i k) (snaps s))
  | S2SendIS s i sidx :
      let x := nodes (base s) i in
      role x = Leader -> 1 <= sidx -> sidx <= commit x ->
      step2 s (L2SendIS i sidx)
        (mkNet2 (base s) (first s) (IS (term x) i sidx (term_at (log x) sidx) :: snaps s))
  | S2HandleISStale s j t ldr sidx sterm :
      let n := base s in
      let x := nodes n j in
      In (IS t ldr sidx sterm) (snaps s) -> t = term x ->
      sidx <= commit x ->
      step2 s (L2HandleIS j t ldr sidx sterm)
        (mkNet2 (mkNet (upd (nodes n) j
                            (mkNode (term x) (voted x) Follower (log x) (commit x) (hcommit x)))
                       (Ack t j ldr (commit x) :: msgs n) (lead n) (llog0 n) (llog n))
                (first s) (snaps s))
  | S2HandleISMatch s j t ldr sidx sterm :
      let n := base s in
      let x := nodes n j in
      In (IS t ldr sidx sterm) (snaps s) -> t = term x ->
      commit x < sidx -> term_at (log x) sidx = sterm ->
      step2 s (L2HandleIS j t ldr sidx sterm)
        (mkNet2 (mkNet (upd (nodes n) j
                            (mkNode (term x) (voted x) Follower (log x) sidx
                                    (Nat.max (hcommit x) sidx)))
                       (Ack t j ldr sidx :: msgs n) (lead n) (llog0 n) (llog n))
                (first s) (snaps s))
  | S2HandleISRestore s j t ldr sidx sterm :
      let n := base s in
      let x := nodes n j in
      In (IS t ldr sidx sterm) (snaps s) -> t = term x ->
      commit x < sidx -> term_at (log x) sidx <> sterm ->
      step2 s (L2HandleIS j t ldr sidx sterm)
        (mkNet2 (mkNet (upd (nodes n) j
                            (mkNode (term x) (voted x) Follower (firstn sidx (llog n t)) sidx
                                    (Nat.max (hcommit x) sidx)))
                       (Ack t j ldr sidx :: msgs n) (lead n) (llog0 n) (llog n))
                (updn (first s) j sidx) (snaps s)).

  (* executable side *)
  Definition visible_b (s : net2) (l : label) : bool :=
    match l with
    | LSendAE i prev _ _ => first s i <=? prev
    | LRestart i c _ => first s i <=? c
    | _ => true
    end.

  Definition snapmsg_eqb (a b : snapmsg) : bool :=
    match a, b with
    | IS t i x y, IS t' i' x' y' => (t =? t') && (i =? i') && (x =? x') && (y =? y')
    end.

  Definition step_fn2 (s : net2) (l : label2) : option net2 :=
    match l with
    | L2Base l0 =>
      if visible_b s l0 then
        match step_fn V (base s) l0 with
        | Some b' => Some (mkNet2 b' (first s) (snaps s))
        | None => None
        end
      else None
    | L2Compact i k =>
      if (first s i <=? k) && (k <=? commit (nodes (base s) i)) then
        Some (mkNet2 (base s) (updn (first s) i k) (snaps s))
      else None
    | L2SendIS i sidx =>
      let x := nodes (base s) i in
      if role_eqb (role x) Leader && (1 <=? sidx) && (sidx <=? commit x) then
        Some (mkNet2 (base s) (first s) (IS (term x) i sidx (term_at (log x) sidx) :: snaps s))
      else None
    | L2HandleIS j t ldr sidx sterm =>
      let n := base s in
      let x := nodes n j in
      if existsb (snapmsg_eqb (IS t ldr sidx sterm)) (snaps s) && (t =? term x) then
        if sidx <=? commit x then
          Some (mkNet2 (mkNet (upd (nodes n) j
                                   (mkNode (term x) (voted x) Follower (log x) (commit x) (hcommit x)))
                              (Ack t j ldr (commit x) :: msgs n) (lead n) (llog0 n) (llog n))
                       (first s) (snaps s))
        else if term_at (log x) sidx =? sterm then
          Some (mkNet2 (mkNet (upd (nodes n) j
                                   (mkNode (term x) (voted x) Follower (log x) sidx
                                           (Nat.max (hcommit x) sidx)))
                              (Ack t j ldr sidx :: msgs n) (lead n) (llog0 n) (llog n))
                       (first s) (snaps s))
        else
          Some (mkNet2 (mkNet (upd (nodes n) j
                                   (mkNode (term x) (voted x) Follower (firstn sidx (llog n t)) sidx
                                           (Nat.max (hcommit x) sidx)))
                              (Ack t j ldr sidx :: msgs n) (lead n) (llog0 n) (llog n))
                       (updn (first s) j sidx) (snaps s))
      else None
    end.

  Fixpoint run2 (s : net2) (ls : list label2) : option net2 :=
    match ls with
    | [] => Some s
    | l :: r => match step_fn2 s l with Some s1 => run2 s1 r | None => None end
    end.

  Inductive steps2 : net2 -> list label2 -> net2 -> Prop :=
  | steps2_nil s : steps2 s [] s
  | steps2_cons s l s1 ls s2 : step2 s l s1 -> steps2 s1 ls s2 -> steps2 s (l :: ls) s2.

  Definition reachable2 (s : net2) : Prop := exists ls, steps2 init2 ls s.

End Snap.
