(* Block writer / reader / streaming validator of internal/rsm/rwv.go and the snapshot
   file level of internal/rsm/snapshotio.go, parametric in the block size [bs] (the
   generated 2 MB constant is one instance). Executable model, no proofs.

   v2 file:  header(1024) | B1 crc(B1) | ... | Bk crc(Bk) | total(8, LE) magic(8)
   with |Bi| = bs for i < k, 0 < |Bk| <= bs, total = sum (|Bi| + 4).
   Panics of the implementation are explicit outcomes. Nothing here recurses over [bs]
   (so the model also runs with bs = 2 MB on small files). *)
From DB Require Import Base.Bytes Base.CRC32 Gen.GenC14 Model.SnapshotHeader.
Open Scope N_scope.

Definition csz : nat := N.to_nat checksum_size.
Definition tsz : nat := N.to_nat tail_size.

(* validateBlock *)
Definition validate_block (blk : bytes) : bool :=
  if (length blk <=? csz)%nat then false
  else let n := (length blk - csz)%nat in
       bytes_eqb (skipn n blk) (crc_bytes (firstn n blk)).

Definition flip_bit (l : bytes) (i : nat) : bytes :=
  firstn (i / 8) l ++
  match skipn (i / 8) l with
  | [] => []
  | b :: r => N.lxor b (2 ^ N.of_nat (i mod 8)) :: r
  end.

(* ------------------------------------------------------------------ *)
(* BlockWriter                                                          *)

Record bw := mkBW {
  bw_block : bytes;             (* bw.block; bw.h is always the hash of exactly these bytes *)
  bw_written : nat;
  bw_next : nat;                (* nextStop *)
  bw_total : N;
  bw_fh : bytes;                (* everything written into bw.fh so far *)
  bw_out : list (bytes * bytes);(* onNewBlock calls so far: (data, crc) *)
  bw_flushed : bool }.

Definition bw_init (bs : nat) : bw := mkBW [] 0 bs 0 [] [] false.

(* processNewBlock *)
Definition bw_emit (st : bw) (data crc : bytes) (total : N) (next : nat) (blk : bytes) (fl : bool) : bw :=
  mkBW blk (bw_written st) next total (bw_fh st ++ crc) (bw_out st ++ [(data, crc)]) fl.

Fixpoint bw_write_loop (fuel : nat) (bs : nat) (st : bw) (data : bytes) : bw :=
  match data with
  | [] => st
  | _ =>
    match fuel with
    | O => st
    | S f =>
      let l := Nat.min (bw_next st - bw_written st) (length data) in
      let blk := bw_block st ++ firstn l data in
      let w := (bw_written st + l)%nat in
      let st1 := mkBW blk w (bw_next st) (bw_total st) (bw_fh st) (bw_out st) (bw_flushed st) in
      let st2 := if (w =? bw_next st)%nat
                 then bw_emit st1 blk (crc_bytes blk) (bw_total st + N.of_nat (length blk) + checksum_size)
                              (bw_next st + bs)%nat [] (bw_flushed st)
                 else st1 in
      bw_write_loop f bs st2 (skipn l data)
    end
  end.

(* None = panic "write called after flush" *)
Definition bw_write (bs : nat) (st : bw) (data : bytes) : option bw :=
  if bw_flushed st then None else Some (bw_write_loop (S (length data)) bs st data).

(* None = panic "flush called again" *)
Definition bw_close (st : bw) : option bw :=
  if bw_flushed st then None else
  let st1 := match bw_block st with
             | [] => mkBW [] (bw_written st) (bw_next st) (bw_total st) (bw_fh st) (bw_out st) true
             | blk => bw_emit st blk (crc_bytes blk) (bw_total st + N.of_nat (length blk) + checksum_size)
                              (bw_next st) blk true
             end in
  Some (bw_emit st1 (le 8 (bw_total st1) ++ block_magic) [] (bw_total st1) (bw_next st1) (bw_block st1) true).

Definition bw_payload_checksum (st : bw) : bytes := crc_bytes (bw_fh st).

(* the v2writer callback writes data ++ crc to the file *)
Definition out_bytes (out : list (bytes * bytes)) : bytes :=
  concat (map (fun dc => fst dc ++ snd dc) out).

Definition bw_write_all (bs : nat) (segs : list bytes) : option bw :=
  fold_left (fun o s => match o with Some st => bw_write bs st s | None => None end) segs (Some (bw_init bs)).

(* body of a v2 file produced by Write(seg) for seg in segs; Close() *)
Definition v2_body_of (bs : nat) (segs : list bytes) : option (bytes * bytes) :=
  match bw_write_all bs segs with
  | Some st => match bw_close st with
               | Some st' => Some (out_bytes (bw_out st'), bw_payload_checksum st')
               | None => None
               end
  | None => None
  end.

(* the closed form the writer is proved to produce *)
Fixpoint chunks (fuel n : nat) (l : bytes) : list bytes :=
  match fuel with
  | O => []
  | S f => match l with
           | [] => []
           | _ => firstn n l :: chunks f n (skipn n l)
           end
  end.
Definition blocks (bs : nat) (p : bytes) : list bytes := chunks (length p) bs p.
Definition enc_block (b : bytes) : bytes := b ++ crc_bytes b.
Definition enc_blocks (bl : list bytes) : bytes := concat (map enc_block bl).
Definition file_tail (total : N) : bytes := le 8 total ++ block_magic.
Definition file_body (bs : nat) (p : bytes) : bytes :=
  let e := enc_blocks (blocks bs p) in e ++ file_tail (nlen e).
Definition payload_checksum (bs : nat) (p : bytes) : bytes :=
  crc_bytes (concat (map crc_bytes (blocks bs p))).

(* [bsn] is the block size as N.
   getV2PayloadSize: uint64(math.Ceil(float64(sz)/float64(bs)))*4 + sz + 16 ; exact for sz < 2^53 *)
Definition v2_payload_size (bsn : N) (sz : N) : N :=
  ((sz + bsn - 1) / bsn) * checksum_size + sz + tail_size.

(* getV2CRCOffsetListFromFileSize *)
Fixpoint crc_offsets_loop (fuel : nat) (bs : N) (offset sz : N) : list N :=
  match fuel with
  | O => []
  | S f =>
    if sz =? 0 then []
    else if bs + checksum_size <=? sz
         then (offset + bs) :: crc_offsets_loop f bs (offset + bs + checksum_size) (sz - (bs + checksum_size))
         else [offset + sz - checksum_size]
  end.
(* None = error "invalid file size" *)
Definition crc_offsets (bsn : N) (fsz : N) : option (list N) :=
  if fsz <=? tail_size + snapshot_header_size then None
  else let sz := fsz - tail_size - snapshot_header_size in
       Some (crc_offsets_loop (S (N.to_nat (sz / (bsn + checksum_size)))) bsn snapshot_header_size sz).

(* GetV2PayloadChecksum on the file bytes (header assumed readable, version 2) *)
Definition file_payload_checksum (bsn : N) (f : bytes) : option bytes :=
  match crc_offsets bsn (nlen f) with
  | None => None
  | Some offs => Some (crc_bytes (concat (map (fun o => firstn csz (skipn (N.to_nat o) f)) offs)))
  end.

(* ------------------------------------------------------------------ *)
(* blockReader                                                          *)

Record br := mkBR { br_rest : bytes; br_block : bytes }.

Inductive rres :=
| RData (d : bytes)        (* (len d, nil) *)
| REof (d : bytes)         (* (len d, io.EOF) *)
| RPanic.

Inductive blk_res := BlkEof | BlkPanic | BlkOk (st : br).

(* readBlock; ct is the header's checksum type (mustGetChecksum panics unless CRC32IEEE) *)
Definition read_block (bs : nat) (ct : N) (rest : bytes) : blk_res :=
  match rest with
  | [] => BlkEof
  | _ => let want := (csz + bs)%nat in
         let blk := firstn want rest in
         if negb (ct =? checksum_crc32ieee) then BlkPanic
         else if validate_block blk then BlkOk (mkBR (skipn want rest) (firstn (length blk - csz) blk))
         else BlkPanic
  end.

Fixpoint br_read_loop (fuel : nat) (bs : nat) (ct : N) (rest : bytes) (acc : bytes) (want : nat)
  : br * rres :=
  match want with
  | O => (mkBR rest [], RData acc)
  | _ =>
    match fuel with
    | O => (mkBR rest [], RPanic)
    | S f =>
      match read_block bs ct rest with
      | BlkEof => (mkBR [] [], REof acc)
      | BlkPanic => (mkBR rest [], RPanic)
      | BlkOk st' =>
        let t := Nat.min want (length (br_block st')) in
        match (want - t)%nat with
        | O => (mkBR (br_rest st') (skipn t (br_block st')), RData (acc ++ firstn t (br_block st')))
        | w' => br_read_loop f bs ct (br_rest st') (acc ++ br_block st') w'
        end
      end
    end
  end.

Definition br_read (bs : nat) (ct : N) (st : br) (want : nat) : br * rres :=
  if (want <=? length (br_block st))%nat
  then (mkBR (br_rest st) (skipn want (br_block st)), RData (firstn want (br_block st)))
  else br_read_loop (S want) bs ct (br_rest st) (br_block st) (want - length (br_block st)).

(* ------------------------------------------------------------------ *)
(* SnapshotReader                                                       *)

Record sreader := mkSR {
  sr_ver : N; sr_ct : N; sr_pcrc : option bytes;
  sr_br : br;                  (* v2: limited reader + current block; v1: rest of the file *)
  sr_seen : bytes }.           (* v1: bytes that went through the tee hash *)

Inductive sopen := SOpenErr | SOpenPanic | SOpenOk (h : header) (r : sreader).

Definition sr_open (f : bytes) : sopen :=
  match open_header f with
  | OpenErr => SOpenErr
  | OpenPanic => SOpenPanic
  | OpenOk h body =>
    if h_ver h =? ss_v2 then
      (* payloadSz = size - HeaderSize - tailSize ; LimitReader with n <= 0 reads nothing *)
      SOpenOk h (mkSR (h_ver h) (h_ctype h) (h_pcrc h) (mkBR (firstn (length body - tsz) body) []) [])
    else if h_ver h =? ss_v1 then
      SOpenOk h (mkSR (h_ver h) (h_ctype h) (h_pcrc h) (mkBR body []) [])
    else SOpenPanic
  end.

Definition sr_read (bs : nat) (r : sreader) (want : nat) : sreader * rres :=
  if sr_ver r =? ss_v2 then
    let '(b, res) := br_read bs (sr_ct r) (sr_br r) want in
    (mkSR (sr_ver r) (sr_ct r) (sr_pcrc r) b (sr_seen r), res)
  else
    (* v1: TeeReader over the file; MemFS returns (0, EOF) at the end, else what is there *)
    match br_rest (sr_br r) with
    | [] => (r, REof [])
    | rest => let d := firstn want rest in
              (mkSR (sr_ver r) (sr_ct r) (sr_pcrc r) (mkBR (skipn want rest) []) (sr_seen r ++ d), RData d)
    end.

(* Close -> validatePayload: true = ok, false = panic "corrupted snapshot payload" *)
Definition sr_close (r : sreader) : bool :=
  if sr_ver r =? ss_v1
  then bytes_eqb (crc_bytes (sr_seen r)) (match sr_pcrc r with Some c => c | None => [] end)
  else true.

(* a whole session: open, the given reads, close *)
Inductive robs := OData (d : bytes) | OEof (d : bytes) | OPanic.

Fixpoint sr_reads (bs : nat) (r : sreader) (reads : list nat) : list robs * option sreader :=
  match reads with
  | [] => ([], Some r)
  | n :: more =>
    match sr_read bs r n with
    | (_, RPanic) => ([OPanic], None)
    | (r', RData d) => let '(o, fin) := sr_reads bs r' more in (OData d :: o, fin)
    | (r', REof d) => let '(o, fin) := sr_reads bs r' more in (OEof d :: o, fin)
    end
  end.

Inductive session :=
| SessErr | SessPanic
| Sess (h : header) (obs : list robs) (closed_ok : bool).   (* closed_ok = false: panic in Close *)

Definition read_session (bs : nat) (f : bytes) (reads : list nat) : session :=
  match sr_open f with
  | SOpenErr => SessErr
  | SOpenPanic => SessPanic
  | SOpenOk h r =>
    match sr_reads bs r reads with
    | (o, Some r') => Sess h o (sr_close r')
    | (o, None) => Sess h o true       (* o ends with OPanic *)
    end
  end.

(* io.ReadFull(reader, buf[n]) *)
Inductive full_res := FullOk (d : bytes) | FullErr | FullPanic.
Definition sr_read_full (bs : nat) (r : sreader) (n : nat) : sreader * full_res :=
  match n with
  | O => (r, FullOk [])
  | _ =>
    match sr_read bs r n with
    | (r', RPanic) => (r', FullPanic)
    | (r', REof d) => (r', FullErr)
    | (r', RData d) =>
      if (length d =? n)%nat then (r', FullOk d)
      else (* only v1 / MemFS returns short without an error; the next Read gives (0, EOF) or more *)
        match sr_read bs r' (n - length d) with
        | (r'', RData d') => if (length d + length d' =? n)%nat then (r'', FullOk (d ++ d')) else (r'', FullErr)
        | (r'', REof _) => (r'', FullErr)
        | (r'', RPanic) => (r'', FullPanic)
        end
    end
  end.

(* ------------------------------------------------------------------ *)
(* SnapshotWriter (v2 = default; v1 through newVersionedSnapshotWriter) *)

Inductive wres := WPanic | WOk (file : bytes) (pcrc : bytes).

Definition write_file_v2 (bs : nat) (ts comp : N) (segs : list bytes) : wres :=
  match v2_body_of bs segs with
  | None => WPanic
  | Some (body, pcrc) =>
    match header_block (header_marshal (writer_header ts pcrc ss_v2 comp)) with
    | None => WPanic
    | Some hb => WOk (hb ++ body) pcrc
    end
  end.

Definition write_file_v1 (ts comp : N) (segs : list bytes) : wres :=
  let p := concat segs in
  let pcrc := crc_bytes p in
  match header_block (header_marshal (writer_header ts pcrc ss_v1 comp)) with
  | None => WPanic
  | Some hb => WOk (hb ++ p) pcrc
  end.

(* ------------------------------------------------------------------ *)
(* shrink                                                               *)

Definition empty_lru_session : bytes := le 8 lru_max_session_count ++ le 8 0.

Inductive shrunk_res := ShrErr | ShrPanic | ShrOk (b : bool).

(* IsShrunkSnapshotFile *)
Definition is_shrunk (bs : nat) (f : bytes) : shrunk_res :=
  match sr_open f with
  | SOpenErr => ShrErr
  | SOpenPanic => ShrPanic
  | SOpenOk _ r =>
    let fin (r' : sreader) (x : shrunk_res) := if sr_close r' then x else ShrPanic in
    match sr_read_full bs r 8 with
    | (_, FullPanic) => ShrPanic
    | (r1, FullErr) => fin r1 ShrErr
    | (r1, FullOk _) =>
      match sr_read_full bs r1 8 with
      | (_, FullPanic) => ShrPanic
      | (r2, FullErr) => fin r2 ShrErr
      | (r2, FullOk sz) =>
        if negb (le_dec sz =? 0) then fin r2 (ShrOk false)
        else match sr_read_full bs r2 1 with
             | (_, FullPanic) => ShrPanic
             | (r3, FullErr) => fin r3 (ShrOk true)
             | (r3, FullOk _) => fin r3 (ShrOk false)
             end
      end
    end
  end.

(* ShrinkSnapshot: opens the source (nothing is read from it), writes the empty session
   table as a new v2 file without compression, closes the source reader *)
Inductive shrink_res := ShrinkErr | ShrinkPanic | ShrinkOk (file : bytes).
Definition shrink (bs : nat) (ts : N) (f : bytes) : shrink_res :=
  match sr_open f with
  | SOpenErr => ShrinkErr
  | SOpenPanic => ShrinkPanic
  | SOpenOk _ r =>
    match write_file_v2 bs ts compression_none [empty_lru_session] with
    | WPanic => ShrinkPanic
    | WOk nf _ => if sr_close r then ShrinkOk nf else ShrinkPanic
    end
  end.

(* ------------------------------------------------------------------ *)
(* SnapshotValidator                                                    *)

Record v2v := mkV2V { vv_block : bytes; vv_total : N }.

Inductive vstate :=
| VNone                                   (* v.v == nil *)
| V1 (h : header) (seen : bytes)
| V2 (s : v2v).

Inductive vres := VPanic | VRes (st : vstate) (ok : bool).

(* the loop of v2validator.AddChunk: while len(block) >= 2*(bs+4) check the first bs+4 bytes *)
Fixpoint vv_drain (fuel : nat) (bs : nat) (blk : bytes) : bytes * bool :=
  match fuel with
  | O => (blk, true)
  | S f =>
    let n := (csz + bs)%nat in
    let rest := skipn n blk in
    if (n <=? length rest)%nat
    then if validate_block (firstn n blk) then vv_drain f bs rest else (rest, false)
    else (blk, true)
  end.

Definition vv_add (bs : nat) (s : v2v) (p : bytes) : v2v * bool :=
  let blk := vv_block s ++ p in
  let '(blk', ok) := vv_drain (length blk) bs blk in
  (mkV2V blk' (vv_total s + nlen p), ok).

(* the loop of v2validator.Validate *)
Fixpoint vv_check (fuel : nat) (bs : nat) (blk : bytes) : bool :=
  match fuel with
  | O => false
  | S f =>
    let n := (csz + bs)%nat in
    if (n <? length blk)%nat
    then validate_block (firstn n blk) && vv_check f bs (skipn n blk)
    else (length blk =? 0)%nat || validate_block blk
  end.

Definition vv_validate (bs : nat) (s : v2v) : bool :=
  let blk := vv_block s in
  if (length blk <? tsz)%nat then false else
  let n := (length blk - tsz)%nat in
  let tail := skipn n blk in
  let body := firstn n blk in
  if negb (bytes_eqb (skipn 8 tail) block_magic) then false
  else if negb (le_dec (firstn 8 tail) =? (vv_total s + 2 ^ 64 - tail_size) mod 2 ^ 64) then false
  else vv_check (S (length body)) bs body.

(* SnapshotValidator.AddChunk(data, chunkID); the slices are taken with cap = len *)
Definition sv_add (bs : nat) (st : vstate) (data : bytes) (chunk_id : N) : vres :=
  let sub (st' : vstate) (p : bytes) : vres :=
    match st' with
    | VNone => VRes st' false
    | V1 h seen => VRes (V1 h (seen ++ p)) true
    | V2 s => let '(s', ok) := vv_add bs s p in VRes (V2 s') ok
    end in
  if chunk_id =? 0 then
    if (length data <? hsz)%nat then VPanic        (* "first chunk is too small" *)
    else
      let sz := le_dec (firstn 8 data) in
      if N.of_nat (hsz - 8) <? sz then VRes st false
      else
        let szn := N.to_nat sz in
        if (length data <? 12 + szn)%nat then VPanic   (* slice bounds out of range *)
        else
          let hd := firstn szn (skipn 8 data) in
          let crc := firstn 4 (skipn (8 + szn) data) in
          match st with
          | VNone =>
            if negb (validate_header hd crc) then VRes st false
            else match header_unmarshal hd with
                 | None => VPanic
                 | Some h =>
                   if h_ver h =? ss_v1 then
                     if h_ctype h =? checksum_crc32ieee then sub (V1 h []) (skipn hsz data) else VPanic
                   else if h_ver h =? ss_v2 then
                     if h_ctype h =? checksum_crc32ieee then sub (V2 (mkV2V [] 0)) (skipn hsz data)
                     else VRes st false
                   else VRes st false
                 end
          | _ => VRes st false
          end
  else
    match st with
    | VNone => VRes st false
    | _ => sub st data
    end.

Definition sv_validate (bs : nat) (st : vstate) : bool :=
  match st with
  | VNone => false
  | V1 h seen => bytes_eqb (crc_bytes seen) (match h_pcrc h with Some c => c | None => [] end)
  | V2 s => vv_validate bs s
  end.

(* a whole stream: chunks numbered 0,1,2,... ; stops at the first refusal *)
Inductive verdict := Accept | Reject | Panic.

Fixpoint sv_run (bs : nat) (st : vstate) (id : N) (chunks : list bytes) : verdict :=
  match chunks with
  | [] => if sv_validate bs st then Accept else Reject
  | c :: more =>
    match sv_add bs st c id with
    | VPanic => Panic
    | VRes _ false => Reject
    | VRes st' true => sv_run bs st' (id + 1) more
    end
  end.

Definition validate_stream (bs : nat) (chunks : list bytes) : verdict := sv_run bs VNone 0 chunks.

(* ------------------------------------------------------------------ *)
(* reference semantics used by the theorems                             *)

(* reading a byte stream [avail] that ends in EOF (bad = false) or in a block that
   fails its checksum (bad = true) *)
Fixpoint spec_reads (avail : bytes) (bad : bool) (reads : list nat) : list robs :=
  match reads with
  | [] => []
  | n :: more =>
    if (n <=? length avail)%nat then OData (firstn n avail) :: spec_reads (skipn n avail) bad more
    else if bad then [OPanic]
    else OEof avail :: spec_reads [] false more
  end.

(* the reader SnapshotReader.getHeader creates for a version 2 file with the given body *)
Definition v2_reader (body : bytes) : sreader :=
  mkSR ss_v2 checksum_crc32ieee None (mkBR (firstn (length body - tsz) body) []) [].

(* l' is l, or a prefix of l followed by a panic: nothing different is ever handed out *)
Definition agree_until_panic (l' l : list robs) : Prop :=
  l' = l \/ exists k, l' = firstn k l ++ [OPanic].

(* the v2 validator over the block region alone: AddChunk for every chunk (stop at the
   first refusal), then Validate *)
Fixpoint vv_run (bs : nat) (s : v2v) (chunks : list bytes) : bool :=
  match chunks with
  | [] => vv_validate bs s
  | c :: more => let '(s', ok) := vv_add bs s c in if ok then vv_run bs s' more else false
  end.

(* ------------------------------------------------------------------ *)
(* pb.Snapshot.Validate (raftpb/raft.go): recorded sizes against the files on disk.
   One entry per file, the main snapshot file first, then the external files:
   (Filepath non-empty, recorded FileSize, actual size or None when the file is missing). *)
Definition pv_file := (bool * N * option N)%type.
Inductive pv_res := PvFalse | PvPanic | PvTrue.

(* None = this file is fine, go on *)
Definition pv_check (f : pv_file) : option pv_res :=
  let '(haspath, recorded, actual) := f in
  if negb haspath || (recorded =? 0) then Some PvFalse
  else match actual with
       | None => Some PvPanic                       (* "failed to access" *)
       | Some a => if recorded =? a then None
                   else if panic_on_size_mismatch then Some PvPanic else None  (* only logged *)
       end.

Fixpoint pv_validate (l : list pv_file) : pv_res :=
  match l with
  | [] => PvTrue
  | f :: r => match pv_check f with Some x => x | None => pv_validate r end
  end.

Definition snapshot_validate (l : list pv_file) : pv_res :=
  match l with [] => PvFalse | _ => pv_validate l end.
