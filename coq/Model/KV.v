(* Base KV model for the Pebble-backed log store (internal/logdb/kv): an ordered map
   with atomic write batches.

   INTERFACE (C09 uses it through Model/LogDBPlain.v and Model/LogDBBatched.v; C10 is
   expected to build crash / error injection on top of it):
     key                      structured key (tag, shard, replica, index); [key_cmp] is the
                              order of the encoded keys of internal/logdb/key.go: 2 header
                              bytes (the tag, regenerated from the source), then shard,
                              replica and index as fixed-width big-endian integers, hence
                              lexicographic on the four components. 20-byte keys (state,
                              max index, bootstrap) carry index 0.
     KEntry KState KMaxIndex KSnapshot KBootstrap KBatch   constructors for the key classes
     value                    what is stored (records, not bytes: the codecs are C13's)
     kv                       list (key * value), strictly ascending in key_cmp
     kv_get kv_put kv_del     point operations
     kv_del_range fk lk       DeleteRange: removes fk <= k < lk   (BulkRemoveEntries)
     kv_range fk lk inc       the bindings with fk <= k < lk (inc: k <= lk) in key order:
                              what IterateValue visits (the callback's early stop is in
                              the callers)
     wop / wb / kv_commit     write batch = list of Put/Delete applied atomically in order
                              (CommitWriteBatch); reads never see an uncommitted batch
   No proofs in this file. *)
From Coq Require Import List NArith Bool.
From DB Require Import Base.Bytes Gen.GenC09 Model.LogStoreSpec.
Import ListNotations.
Open Scope N_scope.

Record key := mkKey { k_tag : N; k_shard : N; k_replica : N; k_index : N }.

Definition lex (c1 c2 : comparison) : comparison := match c1 with Eq => c2 | _ => c1 end.
Definition key_cmp (a b : key) : comparison :=
  lex (k_tag a ?= k_tag b) (lex (k_shard a ?= k_shard b)
    (lex (k_replica a ?= k_replica b) (k_index a ?= k_index b))).
Definition key_ltb (a b : key) : bool := match key_cmp a b with Lt => true | _ => false end.
Definition key_leb (a b : key) : bool := match key_cmp a b with Gt => false | _ => true end.
Definition key_eqb (a b : key) : bool := match key_cmp a b with Eq => true | _ => false end.

Definition KEntry (n : nid) (i : N) : key := mkKey c09_tag_entry (fst n) (snd n) i.
Definition KState (n : nid) : key := mkKey c09_tag_state (fst n) (snd n) 0.
Definition KMaxIndex (n : nid) : key := mkKey c09_tag_max_index (fst n) (snd n) 0.
Definition KSnapshot (n : nid) (i : N) : key := mkKey c09_tag_snapshot (fst n) (snd n) i.
Definition KBootstrap (n : nid) : key := mkKey c09_tag_bootstrap (fst n) (snd n) 0.
Definition KBatch (n : nid) (b : N) : key := mkKey c09_tag_entry_batch (fst n) (snd n) b.

Inductive value :=
| VEntry (e : entry)
| VState (st : hstate)
| VMax (i : N)
| VSnap (ss : snapshot)
| VBoot
| VBatch (es : list entry).

Definition kv := list (key * value).

Fixpoint kv_get (m : kv) (k : key) : option value :=
  match m with
  | [] => None
  | (k', v) :: t =>
    match key_cmp k k' with
    | Eq => Some v
    | Lt => None
    | Gt => kv_get t k
    end
  end.

Fixpoint kv_put (m : kv) (k : key) (v : value) : kv :=
  match m with
  | [] => [(k, v)]
  | (k', v') :: t =>
    match key_cmp k k' with
    | Eq => (k, v) :: t
    | Lt => (k, v) :: m
    | Gt => (k', v') :: kv_put t k v
    end
  end.

Fixpoint kv_del (m : kv) (k : key) : kv :=
  match m with
  | [] => []
  | (k', v') :: t =>
    match key_cmp k k' with
    | Eq => t
    | Lt => m
    | Gt => (k', v') :: kv_del t k
    end
  end.

Definition in_rangeb (fk lk : key) (inc : bool) (k : key) : bool :=
  key_leb fk k && (if inc then key_leb k lk else key_ltb k lk).

Definition kv_del_range (m : kv) (fk lk : key) : kv :=
  filter (fun kv => negb (in_rangeb fk lk false (fst kv))) m.

Definition kv_range (m : kv) (fk lk : key) (inc : bool) : kv :=
  filter (fun kv => in_rangeb fk lk inc (fst kv)) m.

Inductive wop := WPut (k : key) (v : value) | WDel (k : key).
Definition wb := list wop.
Definition kv_apply (m : kv) (w : wop) : kv :=
  match w with WPut k v => kv_put m k v | WDel k => kv_del m k end.
Definition kv_commit (m : kv) (b : wb) : kv := fold_left kv_apply b m.
