(* Executable model of the file system as the snapshot code sees it
   (github.com/lni/vfs MemFS in strict mode, the semantics the crash tests of
   the repository use; internal/fileutil/utils.go SyncDir/Mkdir).

   One snapshot root directory, its sub-directories, their files.  Like the
   strict MemFS (and a POSIX file system) the model is node based: a directory
   entry is a (name -> node) binding that exists in a VOLATILE view (what the
   running process sees) and in a DURABLE view (what survives a crash).
     - a node keeps its own durable state (a directory node: its synced
       children; a file node: its synced data) whatever its current name is;
     - creating / removing / renaming changes only the volatile bindings of the
       parent; Sync on the parent directory copies volatile bindings to durable;
     - Sync on a file copies its volatile data to durable;
     - crash = volatile := durable everywhere; nodes without a durable binding
       are gone.
   Every node is represented by an object carrying both of its names
   ([None] = not bound in that view).  The root directory itself always exists.
   No proofs in this file. *)
From Coq Require Import List NArith Bool.
Import ListNotations.
Open Scope N_scope.

(* path classes: directory names under the snapshot root, file names in them *)
Inductive dname :=
| DFinal (i : N)      (* snapshot-%016X                          *)
| DGen (i : N)        (* snapshot-%016X-<replica>.generating      *)
| DRecv (i : N)       (* snapshot-%016X-<from>.receiving          *)
| DOther (k : N).     (* anything else (not touched by the code)  *)

Inductive fname :=
| FSnap (i : N)       (* snapshot-%016X.gbsnap                    *)
| FFlag               (* dragonboat.snapshot.message              *)
| FMeta               (* snapshot.metadata                        *)
| FShrunk (i : N)     (* snapshot-%016X.shrunk                    *)
| FOther (k : N).

Definition dname_eqb (a b : dname) : bool :=
  match a, b with
  | DFinal i, DFinal j => i =? j
  | DGen i, DGen j => i =? j
  | DRecv i, DRecv j => i =? j
  | DOther i, DOther j => i =? j
  | _, _ => false
  end.

Definition fname_eqb (a b : fname) : bool :=
  match a, b with
  | FSnap i, FSnap j => i =? j
  | FFlag, FFlag => true
  | FMeta, FMeta => true
  | FShrunk i, FShrunk j => i =? j
  | FOther i, FOther j => i =? j
  | _, _ => false
  end.

Definition d_is (o : option dname) (n : dname) : bool :=
  match o with Some m => dname_eqb m n | None => false end.
Definition f_is (o : option fname) (n : fname) : bool :=
  match o with Some m => fname_eqb m n | None => false end.

Definition is_some {A} (o : option A) : bool := match o with Some _ => true | None => false end.

(* file content: a list of abstract tokens (one per Write call class) *)
Definition data := list N.

Record fobj := mkF { f_vn : option fname; f_dn : option fname; f_vd : data; f_dd : data }.
Record dobj := mkD { d_vn : option dname; d_dn : option dname; d_files : list fobj }.
Definition fs := list dobj.

Definition f_alive (o : fobj) : bool := is_some (f_vn o) || is_some (f_dn o).
Definition d_alive (o : dobj) : bool := is_some (d_vn o) || is_some (d_dn o).

(* ---- inside one directory ---- *)

Definition f_unbind (n : fname) (o : fobj) : fobj :=
  if f_is (f_vn o) n then mkF None (f_dn o) (f_vd o) (f_dd o) else o.

Definition fl_has (n : fname) (l : list fobj) : bool := existsb (fun o => f_is (f_vn o) n) l.

(* Create truncates: a NEW node is bound to the name, the old node stays durable
   under that name until the directory is synced *)
Definition fl_create (n : fname) (l : list fobj) : list fobj :=
  mkF (Some n) None [] [] :: filter f_alive (map (f_unbind n) l).

Definition fl_write (n : fname) (d : data) (l : list fobj) : list fobj :=
  map (fun o => if f_is (f_vn o) n then mkF (f_vn o) (f_dn o) (f_vd o ++ d) (f_dd o) else o) l.

Fixpoint overwrite (off : nat) (d : data) (old : data) : data :=
  match off with
  | O => d ++ skipn (length d) old
  | S k => match old with
           | [] => d           (* MemFS panics beyond the end; never reached by the programs *)
           | x :: r => x :: overwrite k d r
           end
  end.

Definition fl_writeat (n : fname) (off : nat) (d : data) (l : list fobj) : list fobj :=
  map (fun o => if f_is (f_vn o) n then mkF (f_vn o) (f_dn o) (overwrite off d (f_vd o)) (f_dd o) else o) l.

Definition fl_syncfile (n : fname) (l : list fobj) : list fobj :=
  map (fun o => if f_is (f_vn o) n then mkF (f_vn o) (f_dn o) (f_vd o) (f_vd o) else o) l.

Definition fl_syncdir (l : list fobj) : list fobj :=
  filter f_alive (map (fun o => mkF (f_vn o) (f_vn o) (f_vd o) (f_dd o)) l).

Definition fl_rename (a b : fname) (l : list fobj) : list fobj :=
  filter f_alive
    (map (fun o => if f_is (f_vn o) a then mkF (Some b) (f_dn o) (f_vd o) (f_dd o)
                   else f_unbind b o) l).

Definition fl_remove (n : fname) (l : list fobj) : list fobj :=
  filter f_alive (map (f_unbind n) l).

Definition fl_crash (l : list fobj) : list fobj :=
  map (fun o => mkF (f_dn o) (f_dn o) (f_dd o) (f_dd o)) (filter (fun o => is_some (f_dn o)) l).

(* ---- the root directory ---- *)

Definition d_unbind (n : dname) (o : dobj) : dobj :=
  if d_is (d_vn o) n then mkD None (d_dn o) (d_files o) else o.

Definition has_dir (n : dname) (s : fs) : bool := existsb (fun o => d_is (d_vn o) n) s.

Definition in_dir (n : dname) (g : list fobj -> list fobj) (s : fs) : fs :=
  map (fun o => if d_is (d_vn o) n then mkD (d_vn o) (d_dn o) (g (d_files o)) else o) s.

(* volatile lookup of a file in a directory *)
Definition has_file (n : dname) (f : fname) (s : fs) : bool :=
  existsb (fun o => d_is (d_vn o) n && fl_has f (d_files o)) s.

(* MkdirAll: nothing happens when the directory exists *)
Definition fs_mkdir (n : dname) (s : fs) : fs :=
  if has_dir n s then s else mkD (Some n) None [] :: s.

Definition fs_syncroot (s : fs) : fs :=
  filter d_alive (map (fun o => mkD (d_vn o) (d_vn o) (d_files o)) s).

Definition fs_renamedir (a b : dname) (s : fs) : fs :=
  filter d_alive
    (map (fun o => if d_is (d_vn o) a then mkD (Some b) (d_dn o) (d_files o)
                   else d_unbind b o) s).

Definition fs_removeall (n : dname) (s : fs) : fs :=
  filter d_alive (map (d_unbind n) s).

Definition fs_crash (s : fs) : fs :=
  map (fun o => mkD (d_dn o) (d_dn o) (fl_crash (d_files o))) (filter (fun o => is_some (d_dn o)) s).

(* ---- operations (the mutating / syncing calls of vfs.FS the code makes) ---- *)

Inductive fsop :=
| FMkdir (d : dname)                       (* MkdirAll *)
| FSyncRoot                                (* OpenDir(root).Sync *)
| FCreate (d : dname) (f : fname)          (* Create *)
| FWrite (d : dname) (f : fname) (x : data)            (* File.Write *)
| FWriteAt (d : dname) (f : fname) (off : nat) (x : data)  (* File.WriteAt *)
| FSyncFile (d : dname) (f : fname)        (* File.Sync *)
| FSyncDir (d : dname)                     (* OpenDir(dir).Sync *)
| FRenameDir (a b : dname)                 (* Rename of a directory in the root *)
| FRenameFile (d : dname) (a b : fname)    (* Rename of a file inside a directory *)
| FRemove (d : dname) (f : fname)          (* Remove *)
| FRemoveAll (d : dname).                  (* RemoveAll *)

(* [None] = the call returns an error (ErrNotExist); the state is unchanged *)
Definition fs_step (s : fs) (o : fsop) : option fs :=
  match o with
  | FMkdir d => Some (fs_mkdir d s)
  | FSyncRoot => Some (fs_syncroot s)
  | FCreate d f => if has_dir d s then Some (in_dir d (fl_create f) s) else None
  | FWrite d f x => Some (in_dir d (fl_write f x) s)
  | FWriteAt d f off x => Some (in_dir d (fl_writeat f off x) s)
  | FSyncFile d f => Some (in_dir d (fl_syncfile f) s)
  | FSyncDir d => if has_dir d s then Some (in_dir d fl_syncdir s) else None
  | FRenameDir a b => if has_dir a s then Some (fs_renamedir a b s) else None
  | FRenameFile d a b => if has_file d a s then Some (in_dir d (fl_rename a b) s) else None
  | FRemove d f => if has_file d f s then Some (in_dir d (fl_remove f) s) else None
  | FRemoveAll d => Some (fs_removeall d s)
  end.

(* ---- observation: the volatile tree, as a listing ---- *)

Definition vfiles (l : list fobj) : list (fname * data) :=
  flat_map (fun o => match f_vn o with Some n => [(n, f_vd o)] | None => [] end) l.

Definition vtree (s : fs) : list (dname * list (fname * data)) :=
  flat_map (fun o => match d_vn o with Some n => [(n, vfiles (d_files o))] | None => [] end) s.

Definition vnames (s : fs) : list dname :=
  flat_map (fun o => match d_vn o with Some n => [n] | None => [] end) s.
