(* Executable model of the TCP transport frame of internal/transport/tcp.go:
   requestHeader.encode / decode, writeMessage, readMagicNumber + readMessage
   (as sequenced by serveConn).  A connection is modelled by the byte stream
   that is still to be read.  No proofs in this file.

   Go code                                    model
   requestHeader{method,size,crc}             header
   h.encode(buf)                              encode_header
   h.decode(buf)                              decode_header
   writeMessage(conn, h, buf, _, encrypted)   write_message   (bytes put on the wire)
   readMagicNumber ; readMessage              read_frame      (verdict + remaining stream)

   The chunked read/write loops (recvBufSize) move the same bytes in several
   calls; the model moves them at once (the harness varies recvBufSize).
   Deadlines are not modelled; a stream that ends early = io error. *)
From DB Require Export Base.Bytes Base.CRC32 Gen.GenC13.
Open Scope N_scope.

Record header := mkHeader { h_method : N; h_size : N; h_crc : N }.

Definition wf_header (h : header) : Prop :=
  h_method h < 2 ^ 16 /\ h_size h < 2 ^ 64 /\ h_crc h < 2 ^ 32.

Definition magic : bytes := [magic0; magic1].
Definition poison : bytes := [poison0; poison1].
Definition hdr_len : nat := N.to_nat request_header_size.

(* layout written by encode: PutUint16(buf, method); PutUint64(buf[2:], size);
   PutUint32(buf[10:], <header crc>); PutUint32(buf[14:], crc) *)
Definition header_bytes (method size hcrc crc : N) : bytes :=
  be 2 method ++ be 8 size ++ be 4 hcrc ++ be 4 crc.

(* encode: the checksum is taken over the 18 bytes with the checksum field = 0 *)
Definition encode_header (h : header) : bytes :=
  let v := crc32 (header_bytes (h_method h) (h_size h) 0 (h_crc h)) in
  header_bytes (h_method h) (h_size h) v (h_crc h).

Definition slice (off len : nat) (l : bytes) : bytes := firstn len (skipn off l).
Definition off_method := N.to_nat hdr_off_method.
Definition off_size := N.to_nat hdr_off_size.
Definition off_hcrc := N.to_nat hdr_off_hcrc.
Definition off_crc := N.to_nat hdr_off_crc.

(* PutUint32(buf[10:], 0) on the received bytes *)
Definition zero_hcrc (b : bytes) : bytes :=
  firstn off_hcrc b ++ [0; 0; 0; 0] ++ skipn (off_hcrc + 4) b.

Definition method_ok (m : N) : bool := (m =? raft_type) || (m =? snapshot_type).

Definition decode_header (buf : bytes) : option header :=
  if (length buf <? hdr_len)%nat then None else
  let b := firstn hdr_len buf in
  let incoming := be_dec (slice off_hcrc 4 b) in
  let expected := crc32 (zero_hcrc b) in
  if negb (incoming =? expected) then None else
  let method := be_dec (slice off_method 2 b) in
  if negb (method_ok method) then None else
  Some (mkHeader method (be_dec (slice off_size 8 b)) (be_dec (slice off_crc 4 b))).

(* writeMessage: header.size = len(buf); header.crc = crc32(buf) unless encrypted
   (then the caller's value, 0 at every call site, is kept) *)
Definition write_header (h : header) (payload : bytes) (encrypted : bool) : header :=
  mkHeader (h_method h) (nlen payload mod 2 ^ 64)
           (if encrypted then h_crc h else crc32 payload).

Definition write_message (h : header) (payload : bytes) (encrypted : bool) : bytes :=
  magic ++ encode_header (write_header h payload encrypted) ++ payload.

Inductive verdict :=
| Delivered (h : header) (payload rest : bytes)
| Poison                 (* errPoisonReceived *)
| Bad                    (* ErrBadMessage: magic, header, zero size or payload crc *)
| IOErr.                 (* stream ended inside the magic / header / payload *)

Fixpoint bytes_eqb (a b : bytes) : bool :=
  match a, b with
  | [], [] => true
  | x :: a', y :: b' => (x =? y) && bytes_eqb a' b'
  | _, _ => false
  end.

Definition read_magic (s : bytes) : option verdict (* None = go on *) :=
  if (length s <? 2)%nat then Some IOErr
  else
    let m := firstn 2 s in
    if bytes_eqb m poison then Some Poison
    else if negb (bytes_eqb m magic) then Some Bad
    else None.

Definition read_message (encrypted : bool) (s : bytes) : verdict :=
  if (length s <? hdr_len)%nat then IOErr else
  match decode_header (firstn hdr_len s) with
  | None => Bad
  | Some h =>
    if h_size h =? 0 then Bad else
    let body := skipn hdr_len s in
    if nlen body <? h_size h then IOErr else
    let n := N.to_nat (h_size h) in
    let buf := firstn n body in
    if negb encrypted && negb (crc32 buf =? h_crc h) then Bad
    else Delivered h buf (skipn n body)
  end.

Definition read_frame (encrypted : bool) (s : bytes) : verdict :=
  match read_magic s with
  | Some v => v
  | None => read_message encrypted (skipn 2 s)
  end.

(* ---- the configuration dimension ----
   NewTCPTransport derives the flag `encrypted` (payload checksum off on both
   sides) from the NodeHostConfig; GetConnection / GetSnapshotConnection /
   serveConn pass t.encrypted on.  The source of the flag is a regenerated fact:
   when it is not `nhConfig.MutualTLS` the model assumes the worst (checksum off
   whatever the configuration says). *)
Record tcfg := mkCfg { c_mutual_tls : bool; c_cafile : bool; c_certfile : bool; c_keyfile : bool }.

Definition transport_encrypted (c : tcfg) : bool :=
  if encrypted_is_mutual_tls && frame_calls_pass_encrypted then c_mutual_tls c else true.

Definition read_frame_cfg (c : tcfg) (s : bytes) : verdict := read_frame (transport_encrypted c) s.
Definition write_message_cfg (c : tcfg) (h : header) (payload : bytes) : bytes :=
  write_message h payload (transport_encrypted c).

(* ---- the per-connection loop serveConn (tcp.go) ----
   for { readMagicNumber; readMessage; Unmarshal (MessageBatch | Chunk); handler }.
   Any failure returns from the loop, and the connection worker in Start then
   closes the connection: nothing after the first bad frame is looked at.  A
   poison magic is acknowledged (two zero bytes) before returning.  Timeouts are
   not modelled (a stream that ends = io error = return). *)

(* the reader once more, with the number of bytes left unread on the connection
   (io.ReadFull consumes whatever is there before failing) *)
Definition read_frame_ex (enc : bool) (s : bytes) : verdict * N :=
  if (length s <? 2)%nat then (IOErr, 0)
  else
    let m := firstn 2 s in
    let r := skipn 2 s in
    if bytes_eqb m poison then (Poison, nlen r)
    else if negb (bytes_eqb m magic) then (Bad, nlen r)
    else if (length r <? hdr_len)%nat then (IOErr, 0)
    else match decode_header (firstn hdr_len r) with
         | None => (Bad, nlen r - request_header_size)
         | Some h =>
           let body := skipn hdr_len r in
           if h_size h =? 0 then (Bad, nlen body)
           else if nlen body <? h_size h then (IOErr, 0)
           else let n := N.to_nat (h_size h) in
                let buf := firstn n body in
                if negb enc && negb (crc32 buf =? h_crc h) then (Bad, nlen body - h_size h)
                else (Delivered h buf (skipn n body), nlen body - h_size h)
         end.

(* what happens to a delivered frame: payload does not unmarshal (return, nothing
   handed over) / handed to the handler (continue) / handler refuses (chunks only:
   handed over, then return) *)
Inductive dispo := Undecodable | Accepted | Refused.

Fixpoint serve (fuel : nat) (enc : bool) (handle : header -> bytes -> dispo) (s : bytes)
  : list (header * bytes) * N * bool (* handed over, unread bytes, poison ack sent *) :=
  match fuel with
  | O => ([], nlen s, false)
  | S f =>
    match read_frame_ex enc s with
    | (Delivered h p rest, _) =>
      match handle h p with
      | Undecodable => ([], nlen rest, false)
      | Refused => ([(h, p)], nlen rest, false)
      | Accepted => let '(d, u, a) := serve f enc handle rest in ((h, p) :: d, u, a)
      end
    | (Poison, u) => ([], u, true)
    | (_, u) => ([], u, false)
    end
  end.

Definition serve_conn (enc : bool) (handle : header -> bytes -> dispo) (s : bytes) :=
  serve (S (length s)) enc handle s.

Definition stream_of (enc : bool) (frames : list (header * bytes)) : bytes :=
  flat_map (fun f => write_message (fst f) (snd f) enc) frames.
