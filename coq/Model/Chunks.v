(* Executable model of snapshot chunk transfer.

   Sender (file mode):  internal/transport/snapshot.go splitBySnapshotFile,
     getChunks, loadChunkData; internal/transport/job.go sendChunks.
   Sender (stream mode): internal/rsm/chunkwriter.go (shape of the chunk
     sequence only: ids, counts, the empty tail chunk).
   Receiver: internal/transport/chunk.go Add / record / addLocked / save /
     finalize / gc / Tick / Close and internal/server/snapshotenv.go
     FinalizeSnapshot, over an abstract directory tree
       temps  : (shard, replica, index, from) -> file name -> data
       finals : (shard, replica, index)       -> files + flag file.

   Chunk payloads and file contents are an abstract type [D] with
   concatenation, length and slicing (instantiated with [bytes] in
   Proofs/Chunks.v and with OCaml strings in the extracted driver, so that
   multi-megabyte snapshots can be run through the model).  The snapshot
   validator (internal/rsm SnapshotValidator, property C14) is an abstract
   incremental state machine [vinit / vadd / vfinal].

   The two booleans [fix_mid] and [fix_first] select between the code before
   and after the repair of defect F5; they are regenerated from chunk.go on
   every run (Gen.GenC15 drop_stream_on_invalid_chunk,
   first_chunk_validated_before_discard).

   No proofs in this file. *)
From DB Require Export Base.Bytes Gen.GenC15.
Open Scope N_scope.

(* ---------- association lists with a boolean key equality ---------- *)
Section Assoc.
  Context {K A : Type} (eqb : K -> K -> bool).
  Fixpoint alookup (k : K) (l : list (K * A)) : option A :=
    match l with
    | [] => None
    | (k', a) :: r => if eqb k k' then Some a else alookup k r
    end.
  Fixpoint adel (k : K) (l : list (K * A)) : list (K * A) :=
    match l with
    | [] => []
    | (k', a) :: r => if eqb k k' then adel k r else (k', a) :: adel k r
    end.
  Fixpoint aset (k : K) (a : A) (l : list (K * A)) : list (K * A) :=
    match l with
    | [] => [(k, a)]
    | (k', a') :: r => if eqb k k' then (k, a) :: r else (k', a') :: aset k a r
    end.
End Assoc.

Fixpoint bytes_eqb (a b : bytes) : bool :=
  match a, b with
  | [], [] => true
  | x :: a', y :: b' => (x =? y) && bytes_eqb a' b'
  | _, _ => false
  end.

Definition key := (N * N * N)%type.        (* shard, replica, index *)
Definition tkey := (N * N * N * N)%type.   (* shard, replica, index, from *)
Definition key_eqb (a b : key) : bool :=
  let '(a1, a2, a3) := a in let '(b1, b2, b3) := b in
  (a1 =? b1) && (a2 =? b2) && (a3 =? b3).
Definition tkey_eqb (a b : tkey) : bool :=
  let '(a1, a2, a3, a4) := a in let '(b1, b2, b3, b4) := b in
  (a1 =? b1) && (a2 =? b2) && (a3 =? b3) && (a4 =? b4).
Definition node_eqb (a b : N * N) : bool := (fst a =? fst b) && (snd a =? snd b).

(* ---------- Go's path.Base, on byte strings ---------- *)
Definition slash : N := 47.
Definition dot : N := 46.
Fixpoint drop_slashes (l : bytes) : bytes :=
  match l with
  | c :: r => if c =? slash then drop_slashes r else l
  | [] => []
  end.
Fixpoint take_elem (l : bytes) : bytes :=
  match l with
  | c :: r => if c =? slash then [] else c :: take_elem r
  | [] => []
  end.
(* "" -> "."; strip trailing slashes; keep what follows the last slash;
   nothing left -> "/" *)
Definition path_base (p : bytes) : bytes :=
  match p with
  | [] => [dot]
  | _ => match rev (take_elem (drop_slashes (rev p))) with
         | [] => [slash]
         | e => e
         end
  end.
(* PathJoin(dir, name) is a direct child of dir unless name is ".", ".." or
   "/" (then it denotes dir itself or its parent: a directory, so that
   creating / opening it as a file fails) *)
Definition bad_name (n : bytes) : bool :=
  bytes_eqb n [dot] || bytes_eqb n [dot; dot] || bytes_eqb n [slash].

(* ---------- records ---------- *)
Record sfile := mkSFile { sf_path : bytes; sf_size : N; sf_id : N; sf_meta : bytes }.
Definition sfile0 := mkSFile [] 0 0 [].

(* pb.Chunk without Data and Membership *)
Record cmeta := mkCMeta {
  c_shard : N; c_replica : N; c_from : N;
  c_id : N; c_size : N; c_count : N;
  c_index : N; c_term : N; c_path : bytes; c_fsize : N; c_did : N;
  c_fcid : N; c_fccount : N; c_hasfi : bool; c_fi : sfile;
  c_binver : N; c_odi : N; c_witness : bool }.

Definition key_of (m : cmeta) : key := (c_shard m, c_replica m, c_index m).
Definition tkey_of (m : cmeta) : tkey := (c_shard m, c_replica m, c_index m, c_from m).
Definition node_of (m : cmeta) : N * N := (c_shard m, c_replica m).

(* IsLastChunk. ChunkId + 1 cannot wrap for an accepted chunk: its id equals
   the number of chunks accepted before it *)
Definition is_last (m : cmeta) : bool :=
  (c_count m =? last_chunk_count) || (c_count m =? c_id m + 1).

(* the InstallSnapshot message built by toMessage(first, files) *)
Record notif := mkNotif {
  n_shard : N; n_to : N; n_from : N; n_index : N; n_term : N; n_odi : N;
  n_name : bytes;            (* file name below the final directory *)
  n_fsize : N; n_witness : bool;
  n_files : list sfile;      (* Filepath := finalDir/external-file-<FileId>, printed by id *)
  n_binver : N; n_did : N }.

Definition to_message (first : cmeta) (files : list sfile) : notif :=
  mkNotif (c_shard first) (c_replica first) (c_from first) (c_index first) (c_term first)
          (c_odi first) (path_base (c_path first)) (c_fsize first) (c_witness first)
          (map (fun f => mkSFile [] (sf_size f) (sf_id f) (sf_meta f)) files)
          (c_binver first) (c_did first).

(* snapshot message handed to the sender *)
Record ssmsg := mkSSMsg {
  m_shard : N; m_to : N; m_from : N; m_index : N; m_term : N; m_odi : N;
  m_path : bytes; m_fsize : N; m_files : list sfile; m_witness : bool }.

(* keeps the type [z] in the extracted code (ocaml/common/util.ml mentions it) *)
Definition util_z (x : N) : Z := Z.of_N x.

Definition nseq (n : N) : list N := map N.of_nat (seq 0 (N.to_nat n)).

(* ---------- sender, file mode ---------- *)
Section Sender.
  Variable cs : N.   (* snapshotChunkSize *)

  Definition chunk_count (fsize : N) : N := (fsize - 1) / cs + 1.

  Definition split_file (msg : ssmsg) (path : bytes) (fsize start : N)
             (sf : option sfile) : list cmeta :=
    let cc := chunk_count fsize in
    map (fun i =>
           mkCMeta (m_shard msg) (m_to msg) (m_from msg)
                   (start + i)
                   (if i =? cc - 1 then fsize - (cc - 1) * cs else cs)
                   0
                   (m_index msg) (m_term msg) path fsize 0
                   i cc
                   (match sf with Some _ => true | None => false end)
                   (match sf with Some f => f | None => sfile0 end)
                   transport_bin_version (m_odi msg) (m_witness msg))
        (nseq cc).

  Definition set_count (n : N) (m : cmeta) : cmeta :=
    mkCMeta (c_shard m) (c_replica m) (c_from m) (c_id m) (c_size m) n
            (c_index m) (c_term m) (c_path m) (c_fsize m) (c_did m)
            (c_fcid m) (c_fccount m) (c_hasfi m) (c_fi m)
            (c_binver m) (c_odi m) (c_witness m).
  Definition set_did (d : N) (m : cmeta) : cmeta :=
    mkCMeta (c_shard m) (c_replica m) (c_from m) (c_id m) (c_size m) (c_count m)
            (c_index m) (c_term m) (c_path m) (c_fsize m) d
            (c_fcid m) (c_fccount m) (c_hasfi m) (c_fi m)
            (c_binver m) (c_odi m) (c_witness m).

  Fixpoint split_files (msg : ssmsg) (files : list sfile) (start : N) : list cmeta :=
    match files with
    | [] => []
    | f :: r =>
      let l := split_file msg (sf_path f) (sf_size f) start (Some f) in
      l ++ split_files msg r (start + nlen l)
    end.

  (* getChunks; None = panic("empty file") *)
  Definition get_chunks (msg : ssmsg) : option (list cmeta) :=
    if (m_fsize msg =? 0) || existsb (fun f => sf_size f =? 0) (m_files msg) then None
    else
      let main := split_file msg (m_path msg) (m_fsize msg) 0 None in
      let all := main ++ split_files msg (m_files msg) (nlen main) in
      Some (map (set_count (nlen all)) all).
End Sender.

Section Data.
  Variable D : Type.
  Variable dempty : D.
  Variable dapp : D -> D -> D.
  Variable dlen : D -> N.
  Variable dsub : D -> N -> N -> D.   (* dsub d off n : n bytes from offset off *)

  Definition chunk := (cmeta * D)%type.
  Definition dir := list (bytes * D).

  (* loadChunkData: ReadAt(ChunkSize bytes, FileChunkId * chunk size); a missing
     file or a short read is an error (panicNow in sendChunks) *)
  Definition load_chunk (cs : N) (src : dir) (m : cmeta) : option D :=
    match alookup bytes_eqb (c_path m) src with
    | None => None
    | Some f =>
      let off := c_fcid m * cs in
      if off + c_size m <=? dlen f then Some (dsub f off (c_size m)) else None
    end.

  Fixpoint load_all (cs : N) (src : dir) (did : N) (l : list cmeta) : option (list chunk) :=
    match l with
    | [] => Some []
    | m :: r =>
      match load_chunk cs src m, load_all cs src did r with
      | Some d, Some r' => Some ((set_did did m, d) :: r')
      | _, _ => None
      end
    end.

  (* splitSnapshotMessage (non-witness) + sendChunks; None = panic *)
  Definition send_snapshot (cs did : N) (src : dir) (msg : ssmsg) : option (list chunk) :=
    match get_chunks cs msg with
    | None => None
    | Some l => load_all cs src did l
    end.

  (* getWitnessChunk + sendChunks: a witness snapshot travels as ONE chunk that carries the
     whole witness snapshot file [data] (rsm.GetWitnessSnapshot); no file is read *)
  Definition witness_chunk (msg : ssmsg) (did : N) (data : D) : chunk :=
    (mkCMeta (m_shard msg) (m_to msg) (m_from msg) 0 (dlen data) 1
             (m_index msg) (m_term msg) witness_snapshot_filename (dlen data) did
             0 1 false sfile0 transport_bin_version 0 true, data).
  (* splitSnapshotMessage + sendChunks for either kind of message *)
  Definition send_message (cs did : N) (src : dir) (wdata : D) (msg : ssmsg) : option (list chunk) :=
    if m_witness msg then Some [witness_chunk msg did wdata] else send_snapshot cs did src msg.

  (* stream mode (rsm.ChunkWriter through a streaming job): one chunk per
     emitted block, ChunkId = FileChunkId = position, ChunkCount 0, then an
     empty chunk carrying LastChunkCount *)
  Definition stream_meta (msg : ssmsg) (did i cnt sz : N) : cmeta :=
    mkCMeta (m_shard msg) (m_to msg) (m_from msg) i sz cnt
            (m_index msg) (m_term msg) (m_path msg) 0 did
            i cnt false sfile0 transport_bin_version (m_odi msg) false.
  Fixpoint stream_chunks_from (msg : ssmsg) (did i : N) (blocks : list D) : list chunk :=
    match blocks with
    | [] => [(stream_meta msg did i last_chunk_count 0, dempty)]
    | b :: r => (stream_meta msg did i 0 (dlen b), b) :: stream_chunks_from msg did (i + 1) r
    end.
  Definition stream_chunks (msg : ssmsg) (did : N) (blocks : list D) : list chunk :=
    stream_chunks_from msg did 0 blocks.

  (* rsm.BlockWriter under rsm.ChunkWriter: the payload is cut into blocks of bs bytes (the
     last one may be shorter; no block at all for an empty payload; a payload of exactly
     k*bs bytes gives k full blocks), every block is followed by its checksum [crc b], chunk
     0 additionally starts with the 1 KB header, and after the last block comes the tail
     (total length of blocks+checksums, magic) as a chunk of its own *)
  Definition block_count (bs n : N) : N := (n + bs - 1) / bs.
  Definition block_ranges (bs n : N) : list (N * N) :=
    map (fun i => (i * bs, if i =? block_count bs n - 1 then n - i * bs else bs))
        (nseq (block_count bs n)).
  Definition stream_blocks (crc : D -> D) (bs : N) (payload : D) : list D :=
    map (fun r => let b := dsub payload (fst r) (snd r) in dapp b (crc b))
        (block_ranges bs (dlen payload)).
  Definition stream_datas (crc : D -> D) (hdr : D) (tail : N -> D) (bs : N) (payload : D) : list D :=
    let bl := stream_blocks crc bs payload in
    let total := fold_right (fun b acc => dlen b + acc) 0 bl in
    match bl ++ [tail total] with
    | d :: r => dapp hdr d :: r
    | [] => []
    end.
  Definition stream_snapshot (crc : D -> D) (hdr : D) (tail : N -> D) (bs : N)
             (msg : ssmsg) (did : N) (payload : D) : list chunk :=
    stream_chunks msg did (stream_datas crc hdr tail bs payload).

  (* ---------- receiver ---------- *)
  Variable V : Type.
  Inductive vres := VOk (v : V) | VBad (v : V) | VPanic.
  Variable vinit : V.
  Variable vadd : V -> D -> N -> vres.   (* SnapshotValidator.AddChunk(data, chunkID) *)
  Variable vfinal : V -> bool.           (* SnapshotValidator.Validate() *)

  Variable fix_mid : bool.     (* addLocked drops the stream when vadd refuses *)
  Variable fix_first : bool.   (* record validates chunk 0 before discarding the old stream *)
  Variable my_did : N.         (* Chunk.did *)
  Variable gc_tick : N.        (* Chunk.gcTick *)
  Variable timeout : N.        (* Chunk.timeout *)
  Variable max_slots : N.      (* maxConcurrentSlot *)

  Record tracked := mkTracked {
    t_first : cmeta; t_v : V; t_files : list sfile; t_tick : N; t_next : N }.

  Record fdir := mkFDir { fd_files : dir; fd_flag : notif }.

  Record state := mkState {
    s_tick : N;
    s_tracked : list (key * tracked);
    s_temps : list (tkey * dir);
    s_finals : list (key * fdir);
    s_removed : list (N * N * unit);   (* replicas whose root dir is marked deleted *)
    s_out : list notif                 (* onReceive + confirm calls, newest first *)
  }.

  Definition init : state := mkState 0 [] [] [] [] [].

  Definition set_tracked st x := mkState (s_tick st) x (s_temps st) (s_finals st) (s_removed st) (s_out st).
  Definition set_temps st x := mkState (s_tick st) (s_tracked st) x (s_finals st) (s_removed st) (s_out st).

  Definition remove_temp (tk : tkey) (st : state) : state :=
    set_temps st (adel tkey_eqb tk (s_temps st)).
  Definition untrack (k : key) (st : state) : state :=
    set_tracked st (adel key_eqb k (s_tracked st)).
  Definition track (k : key) (td : tracked) (st : state) : state :=
    set_tracked st (aset key_eqb k td (s_tracked st)).

  Definition is_removed (st : state) (n : N * N) : bool :=
    match alookup node_eqb n (s_removed st) with Some _ => true | None => false end.

  Definition full (st : state) : bool := max_slots <=? nlen (s_tracked st).

  Inductive rec_result :=
  | RIgnore (st : state)               (* record returned nil *)
  | RTracked (st : state) (td : tracked)
  | RPanic.

  Definition add_fileinfo (m : cmeta) (files : list sfile) : list sfile :=
    if (c_fcid m =? 0) && c_hasfi m then files ++ [c_fi m] else files.

  (* Chunk.record *)
  Definition record (st : state) (c : chunk) : rec_result :=
    let '(m, d) := c in
    let k := key_of m in
    let old := alookup key_eqb k (s_tracked st) in
    if c_id m =? 0 then
      let discard (s : state) :=
          match old with Some td => remove_temp (tkey_of (t_first td)) s | None => s end in
      let is_full := match old with Some _ => false | None => full st end in
      let start (s : state) (v : V) :=
          let td := mkTracked m v (add_fileinfo m []) (s_tick s) 1 in
          RTracked (track k td s) td in
      if fix_first then
        (* repaired order: validate, then discard / slot check *)
        if c_hasfi m then
          if is_full then RIgnore st else start (discard st) vinit
        else
          match vadd vinit d 0 with
          | VPanic => RPanic
          | VBad _ => RIgnore st
          | VOk v => if is_full then RIgnore st else start (discard st) v
          end
      else
        (* original order: discard the old stream / slot check, then validate *)
        if is_full then RIgnore st
        else
          let st1 := discard st in
          if c_hasfi m then start st1 vinit
          else
            match vadd vinit d 0 with
            | VPanic => RPanic
            | VBad _ => RIgnore st1
            | VOk v => start st1 v
            end
    else
      match old with
      | None => RIgnore st
      | Some td =>
        if negb (t_next td =? c_id m) then RIgnore st
        else if negb (c_from (t_first td) =? c_from m) then RIgnore st
        else
          let td' := mkTracked (t_first td) (t_v td) (add_fileinfo m (t_files td))
                               (s_tick st) (c_id m + 1) in
          RTracked (track k td' st) td'
      end.

  Definition fset (n : bytes) (d : D) (files : dir) : dir := aset bytes_eqb n d files.

  (* Chunk.save; None = error (removeTempDir + panic) *)
  Definition save (st : state) (c : chunk) : option state :=
    let '(m, d) := c in
    let tk := tkey_of m in
    let st1 :=
        if c_id m =? 0 then
          match alookup tkey_eqb tk (s_temps st) with
          | Some _ => st                                (* MkdirAll on an existing dir *)
          | None => set_temps st (aset tkey_eqb tk [] (s_temps st))
          end
        else st in
    match alookup tkey_eqb tk (s_temps st1) with
    | None => None
    | Some files =>
      let fn := path_base (c_path m) in
      if bad_name fn then None
      else if c_fcid m =? 0 then
        Some (set_temps st1 (aset tkey_eqb tk (fset fn d files) (s_temps st1)))
      else
        match alookup bytes_eqb fn files with
        | None => None
        | Some old =>
          Some (set_temps st1 (aset tkey_eqb tk (fset fn (dapp old d) files) (s_temps st1)))
        end
    end.

  Inductive outcome := Done (st : state) (ok : bool) | Panic.

  (* the last-chunk part of addLocked: Validate, FinalizeSnapshot, notify *)
  Definition finish (st : state) (m : cmeta) (td : tracked) : outcome :=
    let k := key_of m in
    let tk := tkey_of m in
    let st0 := untrack k st in                       (* defer c.reset(key) *)
    if negb (vfinal (t_v td)) then Done (remove_temp tk st0) false
    else
      match alookup tkey_eqb tk (s_temps st0) with
      | None => Panic                                 (* createFlagFile fails *)
      | Some files =>
        let msg := to_message (t_first td) (t_files td) in
        match alookup key_eqb k (s_finals st0) with
        | Some _ => Done (remove_temp tk st0) false   (* ErrSnapshotOutOfDate *)
        | None =>
          let fd := mkFDir (adel bytes_eqb snapshot_flag_filename files) msg in
          Done (mkState (s_tick st0) (s_tracked st0)
                        (adel tkey_eqb tk (s_temps st0))
                        (aset key_eqb k fd (s_finals st0))
                        (s_removed st0) (msg :: s_out st0)) true
        end
      end.

  Definition set_v (td : tracked) (v : V) : tracked :=
    mkTracked (t_first td) v (t_files td) (t_tick td) (t_next td).

  (* Chunk.addLocked *)
  Definition add_locked (st : state) (c : chunk) : outcome :=
    let '(m, d) := c in
    let k := key_of m in
    match record st c with
    | RPanic => Panic
    | RIgnore st' => Done st' false
    | RTracked st1 td =>
      if is_removed st1 (node_of m) then Done (remove_temp (tkey_of m) st1) false
      else
        let validated :=
            if negb (c_hasfi m) && negb (c_id m =? 0) then vadd (t_v td) d (c_id m)
            else VOk (t_v td) in
        match validated with
        | VPanic => Panic
        | VBad v' =>
          if fix_mid then Done (untrack k (remove_temp (tkey_of m) st1)) false
          else Done (track k (set_v td v') st1) false
        | VOk v' =>
          let td' := set_v td v' in
          let st2 := track k td' st1 in
          match save st2 c with
          | None => Panic
          | Some st3 => if is_last m then finish st3 m td' else Done st3 true
          end
        end
    end.

  (* Chunk.Add *)
  Definition add (st : state) (c : chunk) : outcome :=
    let m := fst c in
    if negb (c_did m =? my_did) || negb (c_binver m =? transport_bin_version)
    then Done st false
    else add_locked st c.

  (* Chunk.gc *)
  Fixpoint gc_list (l : list (key * tracked)) (st : state) : state :=
    match l with
    | [] => st
    | (k, td) :: r =>
      let st' := if timeout <=? s_tick st - t_tick td
                 then untrack k (remove_temp (tkey_of (t_first td)) st) else st in
      gc_list r st'
    end.
  Definition gc (st : state) : state := gc_list (s_tracked st) st.

  (* Chunk.Tick *)
  Definition tick (st : state) : state :=
    let st' := mkState (s_tick st + 1) (s_tracked st) (s_temps st) (s_finals st)
                       (s_removed st) (s_out st) in
    if (s_tick st + 1) mod gc_tick =? 0 then gc st' else st'.

  (* Chunk.Close *)
  Fixpoint close_list (l : list (key * tracked)) (st : state) : state :=
    match l with
    | [] => st
    | (k, td) :: r => close_list r (untrack k (remove_temp (tkey_of (t_first td)) st))
    end.
  Definition close (st : state) : state := close_list (s_tracked st) st.

  (* fileutil.MarkDirAsDeleted on the replica's snapshot root (environment) *)
  Definition mark_removed (st : state) (n : N * N) : state :=
    mkState (s_tick st) (s_tracked st) (s_temps st) (s_finals st)
            (aset node_eqb n tt (s_removed st)) (s_out st).

  Inductive op :=
  | OAdd (c : chunk)
  | OTick
  | ORemoved (shard replica : N)
  | OClose.

  (* a run; a panic of the receiver ends it *)
  Definition step (st : state) (o : op) : outcome :=
    match o with
    | OAdd c => add st c
    | OTick => Done (tick st) true
    | ORemoved s r => Done (mark_removed st (s, r)) true
    | OClose => Done (close st) true
    end.

  Fixpoint run (st : state) (ops : list op) : option state :=
    match ops with
    | [] => Some st
    | o :: r => match step st o with
                | Done st' _ => run st' r
                | Panic => None
                end
    end.
End Data.
