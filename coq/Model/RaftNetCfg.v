(* L2, stage 3: single-server membership change on top of Model/RaftNet.v.
   Definitions only.

   dragonboat (like etcd raft) treats a membership change as a normal log entry that
   takes effect when it is APPLIED (committed first, by the old quorum), with two guards:
     - a leader has at most one config change entry in its log that it has not applied
       (pendingConfigChange: set when one is proposed or found uncommitted on promotion,
       cleared when the node applies a config change or rejects it; a second one is
       replaced by an empty entry in handleLeaderPropose),
     - a node does not campaign while committed > applied (hasConfigChangeToApply).

   A stage-3 node is a stage-1 node plus [applied] (how many entries of its log have been
   delivered to the state machine, membership included) and [pending] (the flag above).
   The voters a node counts are a function of the applied prefix of its log:
       cfg s i = cfg_of (firstn (applied s i) (log i))
   [cfg_of] is an argument of the model: the membership the replicated state machine computes from a
   log prefix (internal/rsm/membership.go, C07: identical on all replicas because it is
   a function of the applied entries only, rejected changes included); [is_cc] tells
   config change entries from others.  The proofs need (Proofs/RaftNetCfg.v):
       an entry that is no config change does not change cfg_of,
       quorums of cfg_of l and cfg_of (l ++ [e]) intersect  (true for adding or removing
                                    one voter: quorum_intersect_adjacent),
       cfg_of l has no duplicates, the leader's no-op is no config change.

   Every stage-1 label is taken over with the acting node's CURRENT configuration as the
   voter set ([L3Base l] = [step (cfg s i) (base3 s) l]) and these extra guards:
     LTimeout i        applied = commit                      (hasConfigChangeToApply)
     LPropose i p      a config change only if not pending   (handleLeaderPropose)
     LSendAE ...       at most one config change above leaderCommit among the entries
                       up to the last one sent (the code sends leaderCommit = commit, for
                       which this always holds: one_cc_above_commit; smaller values are
                       what InstallSnapshot stands for, stage 2)
     LBecomeLeader i   at most one config change above commit (else the code panics in
                       preLeaderPromotionHandleConfigChange; proved unreachable)
   LRestart is replaced by [L3Crash i c m a]: as LRestart i c m, the applied index
   restarts at any a <= min (old applied, c) (the state machine is rebuilt from a snapshot
   and the log), and the surviving (log, commit) pair must have at most one config change
   above commit: it is a pair the node held at an Update boundary (entries and State are
   one atomic write, C10).
   New step [L3Apply i]: applied < commit -> applied + 1; applying a config change
   clears [pending].
   Not modelled at this stage: non-voting members and witnesses as separate kinds (a
   node outside every configuration is a non-voting member), compaction (stage 2).

   Ghost: lcfg t / lapp t = configuration / applied index with which the leader of term t
   was elected; cevents = (t, k, a) for every AdvanceCommit to k by the leader of term t
   whose applied index was a (newest first). *)
From DB Require Export Model.RaftNet.

Record net3 := mkNet3 {
  base3 : net;
  applied : id -> nat;
  pending : id -> bool;
  lcfg : nat -> list id;                  (* ghost *)
  lapp : nat -> nat;                      (* ghost *)
  cevents : list (nat * nat * nat)        (* ghost *)
}.

Inductive label3 :=
| L3Base (l : label)
| L3Apply (i : id)
| L3Crash (i : id) (c m a : nat).

Definition updn3 (f : id -> nat) (i : id) (x : nat) : id -> nat :=
  fun j => if j =? i then x else f j.
Definition updb3 (f : id -> bool) (i : id) (x : bool) : id -> bool :=
  fun j => if j =? i then x else f j.

Definition actor (l : label) : id :=
  match l with
  | LTimeout i | LHigherTerm i _ | LStepDown i | LHandleRV i _ _ _ _ | LBecomeLeader i
  | LPropose i _ | LSendAE i _ _ _ | LHandleAE i _ _ _ _ _ _ | LAdvanceCommit i _
  | LSendHB i _ _ | LHandleHB i _ _ _ | LSelfAck i | LRestart i _ _ => i
  end.

Section Cfg.
  Variable cfg_of : list entry -> list id.
  Variable is_cc : entry -> bool.

  (* number of config change entries of l above index c *)
  Definition ccs (l : list entry) (c : nat) : nat := length (filter is_cc (skipn c l)).

  Definition cfg (s : net3) (i : id) : list id :=
    cfg_of (firstn (applied s i) (log (nodes (base3 s) i))).

  Definition init3 : net3 :=
    mkNet3 (init) (fun _ => 0) (fun _ => false) (fun _ => []) (fun _ => 0) [].

  Definition guard3 (s : net3) (l : label) : Prop :=
    let n := base3 s in
    match l with
    | LTimeout i => applied s i = commit (nodes n i)
    | LPropose i p => is_cc (mkE (term (nodes n i)) p) = true -> pending s i = false
    | LSendAE i prev len lc => ccs (firstn (prev + len) (log (nodes n i))) lc <= 1
    | LBecomeLeader i => ccs (log (nodes n i)) (commit (nodes n i)) <= 1
    | LRestart _ _ _ => False
    | _ => True
    end.

  Definition pending' (s : net3) (l : label) : id -> bool :=
    let n := base3 s in
    match l with
    | LBecomeLeader i =>
      updb3 (pending s) i (ccs (log (nodes n i)) (commit (nodes n i)) =? 1)
    | LPropose i p =>
      if is_cc (mkE (term (nodes n i)) p) then updb3 (pending s) i true else pending s
    | _ => pending s
    end.

  Definition lcfg' (s : net3) (l : label) : nat -> list id :=
    match l with
    | LBecomeLeader i => updg (lcfg s) (term (nodes (base3 s) i)) (cfg s i)
    | _ => lcfg s
    end.

  Definition lapp' (s : net3) (l : label) : nat -> nat :=
    match l with
    | LBecomeLeader i => updg (lapp s) (term (nodes (base3 s) i)) (applied s i)
    | _ => lapp s
    end.

  Definition cevents' (s : net3) (l : label) : list (nat * nat * nat) :=
    match l with
    | LAdvanceCommit i k => (term (nodes (base3 s) i), k, applied s i) :: cevents s
    | _ => cevents s
    end.

  Inductive step3 : net3 -> label3 -> net3 -> Prop :=
  | S3Base s l b' :
      guard3 s l -> step (cfg s (actor l)) (base3 s) l b' ->
      step3 s (L3Base l)
        (mkNet3 b' (applied s) (pending' s l) (lcfg' s l) (lapp' s l) (cevents' s l))
  | S3Apply s i :
      let x := nodes (base3 s) i in
      applied s i < commit x ->
      step3 s (L3Apply i)
        (mkNet3 (base3 s) (updn3 (applied s) i (S (applied s i)))
                (match nth_error (log x) (applied s i) with
                 | Some e => if is_cc e then updb3 (pending s) i false else pending s
                 | None => pending s
                 end)
                (lcfg s) (lapp s) (cevents s))
  | S3Crash s i c m a b' :
      let x := nodes (base3 s) i in
      step (cfg s i) (base3 s) (LRestart i c m) b' ->
      a <= applied s i -> a <= c ->
      ccs (firstn m (log x)) c <= 1 ->
      step3 s (L3Crash i c m a)
        (mkNet3 b' (updn3 (applied s) i a) (updb3 (pending s) i false)
                (lcfg s) (lapp s) (cevents s)).

  Inductive steps3 : net3 -> list label3 -> net3 -> Prop :=
  | steps3_nil s : steps3 s [] s
  | steps3_cons s l s1 ls s2 : step3 s l s1 -> steps3 s1 ls s2 -> steps3 s (l :: ls) s2.

  Definition reachable3 (s : net3) : Prop := exists ls, steps3 init3 ls s.

  (* executable side *)
  Definition guard3_b (s : net3) (l : label) : bool :=
    let n := base3 s in
    match l with
    | LTimeout i => applied s i =? commit (nodes n i)
    | LPropose i p => negb (is_cc (mkE (term (nodes n i)) p)) || negb (pending s i)
    | LSendAE i prev len lc => ccs (firstn (prev + len) (log (nodes n i))) lc <=? 1
    | LBecomeLeader i => ccs (log (nodes n i)) (commit (nodes n i)) <=? 1
    | LRestart _ _ _ => false
    | _ => true
    end.

  Definition step_fn3 (s : net3) (l : label3) : option net3 :=
    match l with
    | L3Base l0 =>
      if guard3_b s l0 then
        match step_fn (cfg s (actor l0)) (base3 s) l0 with
        | Some b' => Some (mkNet3 b' (applied s) (pending' s l0) (lcfg' s l0) (lapp' s l0)
                                  (cevents' s l0))
        | None => None
        end
      else None
    | L3Apply i =>
      let x := nodes (base3 s) i in
      if applied s i <? commit x then
        Some (mkNet3 (base3 s) (updn3 (applied s) i (S (applied s i)))
                     (match nth_error (log x) (applied s i) with
                      | Some e => if is_cc e then updb3 (pending s) i false else pending s
                      | None => pending s
                      end)
                     (lcfg s) (lapp s) (cevents s))
      else None
    | L3Crash i c m a =>
      let x := nodes (base3 s) i in
      if (a <=? applied s i) && (a <=? c) && (ccs (firstn m (log x)) c <=? 1) then
        match step_fn (cfg s i) (base3 s) (LRestart i c m) with
        | Some b' => Some (mkNet3 b' (updn3 (applied s) i a) (updb3 (pending s) i false)
                                  (lcfg s) (lapp s) (cevents s))
        | None => None
        end
      else None
    end.

  Fixpoint run3 (s : net3) (ls : list label3) : option net3 :=
    match ls with
    | [] => Some s
    | l :: r => match step_fn3 s l with Some s1 => run3 s1 r | None => None end
    end.

End Cfg.
