(* Model of internal/server/message.go MessageQueue (the per-replica receive queue of the
   engine): bounded double buffer for ordinary messages, unbounded no-drop list, delayed
   list for snapshot status reports (due by tick). Rate limiting off. No proofs here. *)
From Coq Require Export List NArith Bool.
Export ListNotations.
Open Scope N_scope.

Record mq := mkMQ {
  q_tick : N; q_size : N;
  q_items : list N;              (* accepted ordinary messages not yet handed out *)
  q_nodrop : list N;
  q_delayed : list (N * N);      (* message id, due tick *)
  q_stopped : bool }.

Inductive mqop :=
| MTick | MAdd (id : N) | MMustAdd (id : N) | MAddDelayed (id delay : N) | MGet | MClose.

Inductive mqout :=
| OAdd (added stopped : bool) | OBool (b : bool) | OGet (ids : list N) | ONone.

(* getDelayed: records with due tick < now are handed out, the others kept, both in order *)
Definition get_delayed (now : N) (d : list (N * N)) : list N * list (N * N) :=
  (map fst (filter (fun r => snd r <? now) d), filter (fun r => negb (snd r <? now)) d).

Definition mq_step (q : mq) (o : mqop) : mq * mqout :=
  match o with
  | MTick => (mkMQ (q_tick q + 1) (q_size q) (q_items q) (q_nodrop q) (q_delayed q) (q_stopped q), ONone)
  | MAdd id =>
    if q_size q <=? N.of_nat (length (q_items q)) then (q, OAdd false (q_stopped q))
    else if q_stopped q then (q, OAdd false true)
    else (mkMQ (q_tick q) (q_size q) (q_items q ++ [id]) (q_nodrop q) (q_delayed q) false, OAdd true false)
  | MMustAdd id =>
    if q_stopped q then (q, OBool false)
    else (mkMQ (q_tick q) (q_size q) (q_items q) (q_nodrop q ++ [id]) (q_delayed q) false, OBool true)
  | MAddDelayed id delay =>
    if q_stopped q then (q, OBool false)
    else (mkMQ (q_tick q) (q_size q) (q_items q) (q_nodrop q) (q_delayed q ++ [(id, delay + q_tick q)]) false, OBool true)
  | MGet =>
    let '(due, rest) := get_delayed (q_tick q) (q_delayed q) in
    (mkMQ (q_tick q) (q_size q) [] [] rest (q_stopped q), OGet (q_nodrop q ++ due ++ q_items q))
  | MClose => (mkMQ (q_tick q) (q_size q) (q_items q) (q_nodrop q) (q_delayed q) true, ONone)
  end.

Fixpoint mq_run (q : mq) (ops : list mqop) : mq * list mqout :=
  match ops with
  | [] => (q, [])
  | o :: rest => let '(q1, out) := mq_step q o in let '(q2, outs) := mq_run q1 rest in (q2, out :: outs)
  end.

Definition mq_init (size : N) : mq := mkMQ 0 size [] [] [] false.

Definition mq_unused_z : BinNums.Z := BinNums.Z0.
