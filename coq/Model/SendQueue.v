(* Model of the per-target send queue of internal/transport Transport.send: a queue is
   registered in t.mu.queues together with ONE worker goroutine (connectAndProcess) that
   drains it; the worker ends on a connection failure, on the idle timeout, or at shutdown.
   [unreg] is the regenerated fact "the worker unregisters the queue on every exit".
   No proofs here. *)
From Coq Require Export List NArith Bool.
Export ListNotations.
Open Scope N_scope.

Record sq := mkSQ {
  sq_registered : bool;      (* key present in t.mu.queues *)
  sq_worker : bool;          (* its worker goroutine is alive *)
  sq_queue : list N;
  sq_delivered : list N;     (* handed to the connection, in order *)
  sq_lost : list N;          (* dropped with a failed connection (message loss, reported Unreachable) *)
  sq_unreachable : N }.

Definition sq_init : sq := mkSQ false false [] [] [] 0.

Inductive sqop :=
| SSend (id : N)     (* Transport.send, queue not full *)
| SDeliver           (* the worker takes the next message and writes it *)
| SFail              (* the connection fails under the worker *)
| SIdle.             (* nothing to send for idleTimeout: the worker ends gracefully *)

Definition sq_step (unreg : bool) (s : sq) (o : sqop) : sq :=
  match o with
  | SSend id =>
    if sq_registered s then
      mkSQ true (sq_worker s) (sq_queue s ++ [id]) (sq_delivered s) (sq_lost s) (sq_unreachable s)
    else mkSQ true true [id] (sq_delivered s) (sq_lost s) (sq_unreachable s)
  | SDeliver =>
    if sq_worker s then
      match sq_queue s with
      | m :: rest => mkSQ (sq_registered s) true rest (sq_delivered s ++ [m]) (sq_lost s) (sq_unreachable s)
      | [] => s
      end
    else s
  | SFail =>
    if sq_worker s then
      (* notifyUnreachable ; shutdownQueue: the queue object is dropped with its content *)
      mkSQ false false [] (sq_delivered s) (sq_lost s ++ sq_queue s) (sq_unreachable s + 1)
    else s
  | SIdle =>
    if sq_worker s && match sq_queue s with [] => true | _ => false end then
      mkSQ (negb unreg) false [] (sq_delivered s) (sq_lost s) (sq_unreachable s)
    else s
  end.

Definition sq_run (unreg : bool) (ops : list sqop) : sq := fold_left (sq_step unreg) ops sq_init.

(* a registered queue nobody drains: Send keeps reporting success, nothing is delivered and
   nothing is reported unreachable *)
Definition orphaned (s : sq) : bool := sq_registered s && negb (sq_worker s).

Definition sq_unused_z : BinNums.Z := BinNums.Z0.
Definition sq_unused_nat (n : nat) : nat := S n.
