(* Model of the pending-request tables of /repo/request.go (+ the two request
   queues of queue.go they share state with), at critical-section granularity:
   every [op] below is one region executed under one mutex (or one channel
   operation / atomic store) of the Go code.  No proofs in this file.

   Objects ([obj]) are RequestState values; they are pooled and reused
   (sync.Pool: the choice of the pooled object is the oracle argument [pick]).
   Requests ([req]) are the logical requests of the clients; [r_got] is the
   ghost list of everything that was ever pushed into the channels of the
   object while the request owned it.  A table slot holds the object pointer
   ([so]) and, as ghost, the request it was inserted for ([sr]); no function
   below branches on [sr].

   A panic of the Go code (plog.Panicf / panic) is [h_err <> 0]: the step that
   panics is rolled back and only records the error; every later step is the
   identity.  [h_broken] records that the environment broke an assumption the
   theorems state explicitly (key collision with a pending or in-flight proposal, close called twice,
   an entry reported committed twice). *)
From Coq Require Import NArith ZArith List Bool.
From DB Require Import Gen.GenC12.
Import ListNotations.
Open Scope N_scope.

Definition u64mod : N := 18446744073709551616.
Definition add64 (a b : N) : N := (a + b) mod u64mod.
Definition sub64 (a b : N) : N := (a + u64mod - b) mod u64mod.

Definition cTimeout := code_requestTimeout.
Definition cCompleted := code_requestCompleted.
Definition cTerminated := code_requestTerminated.
Definition cRejected := code_requestRejected.
Definition cDropped := code_requestDropped.
Definition cAborted := code_requestAborted.
Definition cCommitted := code_requestCommitted.
Definition cOutOfRange := code_requestOutOfRange.
Definition gc_tick := default_gc_tick.

(* result: code, value (sm.Result.Value / snapshot index / first index), second value *)
Record res := mkRes { rc : N; rv : N; rw : N }.

(* ghost: which code path produced a notification *)
Inductive src :=
| SApplied (cid sid key v : N) (rej : bool)
| SReadApplied (applied idx now dl : N)
| SGc (now dl : N)
| SClose
| SDrop
| SCommit
| SOther.

Record ev := mkEv { e_res : res; e_to : N; e_src : src }.
Record slot := mkSlot { so : N; sr : N }.

Record obj := mkObj {
  o_key : N; o_cid : N; o_sid : N; o_dl : N; o_nc : bool;
  o_comp : list res;     (* CompletedC, capacity 1 *)
  o_comm : list res;     (* committedC, capacity 1 *)
  o_hascomm : bool;      (* committedC != nil *)
  o_rtr : bool;          (* readyToRelease *)
  o_owner : N }.         (* ghost: request currently using the object *)

Record req := mkReq {
  r_kind : N;            (* 0 proposal 1 read 2 config change 3 snapshot 4 log query *)
  r_obj : N; r_key : N; r_cid : N; r_sid : N; r_dl : N; r_nc : bool;
  r_status : N;          (* 0 in flight (propose between its two critical sections) 1 accepted 2 refused *)
  r_rel : bool;          (* Release() took effect *)
  r_got : list ev;       (* ghost: everything delivered *)
  r_left : list res;     (* content of the old CompletedC when reuse() replaced it *)
  r_leftc : list res }.

Record heap := mkHeap {
  h_err : N; h_broken : bool; h_clock : N;
  h_objs : N -> obj; h_nobj : N;
  h_reqs : N -> req; h_nreq : N;
  h_pool : list N }.

Definition set_err h e := mkHeap e (h_broken h) (h_clock h) (h_objs h) (h_nobj h) (h_reqs h) (h_nreq h) (h_pool h).
Definition set_broken h := mkHeap (h_err h) true (h_clock h) (h_objs h) (h_nobj h) (h_reqs h) (h_nreq h) (h_pool h).
Definition set_clock h t := mkHeap (h_err h) (h_broken h) t (h_objs h) (h_nobj h) (h_reqs h) (h_nreq h) (h_pool h).
Definition set_objs h f := mkHeap (h_err h) (h_broken h) (h_clock h) f (h_nobj h) (h_reqs h) (h_nreq h) (h_pool h).
Definition set_nobj h n := mkHeap (h_err h) (h_broken h) (h_clock h) (h_objs h) n (h_reqs h) (h_nreq h) (h_pool h).
Definition set_reqs h f := mkHeap (h_err h) (h_broken h) (h_clock h) (h_objs h) (h_nobj h) f (h_nreq h) (h_pool h).
Definition set_nreq h n := mkHeap (h_err h) (h_broken h) (h_clock h) (h_objs h) (h_nobj h) (h_reqs h) n (h_pool h).
Definition set_pool h p := mkHeap (h_err h) (h_broken h) (h_clock h) (h_objs h) (h_nobj h) (h_reqs h) (h_nreq h) p.

Definition updO (h : heap) (o : N) (f : obj -> obj) : heap :=
  set_objs h (fun x => if x =? o then f (h_objs h o) else h_objs h x).
Definition updR (h : heap) (r : N) (f : req -> req) : heap :=
  set_reqs h (fun x => if x =? r then f (h_reqs h r) else h_reqs h x).

Definition o_notified (o : obj) (r : res) : obj :=
  mkObj (o_key o) (o_cid o) (o_sid o) (o_dl o) (o_nc o) [r] (o_comm o) (o_hascomm o) true (o_owner o).
Definition o_committed (o : obj) (r : res) : obj :=
  mkObj (o_key o) (o_cid o) (o_sid o) (o_dl o) (o_nc o) (o_comp o) [r] (o_hascomm o) (o_rtr o) (o_owner o).
Definition o_drained (o : obj) : obj :=
  mkObj (o_key o) (o_cid o) (o_sid o) (o_dl o) (o_nc o) [] [] (o_hascomm o) (o_rtr o) (o_owner o).
(* RequestState.Release: the field resets *)
Definition o_released (o : obj) : obj :=
  mkObj 0 0 0 0 false (o_comp o) (o_comm o) (o_hascomm o) false (o_owner o).

Definition r_add_got (q : req) (e : ev) : req :=
  mkReq (r_kind q) (r_obj q) (r_key q) (r_cid q) (r_sid q) (r_dl q) (r_nc q) (r_status q) (r_rel q)
        (r_got q ++ [e]) (r_left q) (r_leftc q).
Definition r_set_left (q : req) (l lc : list res) : req :=
  mkReq (r_kind q) (r_obj q) (r_key q) (r_cid q) (r_sid q) (r_dl q) (r_nc q) (r_status q) (r_rel q)
        (r_got q) l lc.
Definition r_set_status (q : req) (st : N) : req :=
  mkReq (r_kind q) (r_obj q) (r_key q) (r_cid q) (r_sid q) (r_dl q) (r_nc q) st (r_rel q)
        (r_got q) (r_left q) (r_leftc q).
Definition r_set_rel (q : req) : req :=
  mkReq (r_kind q) (r_obj q) (r_key q) (r_cid q) (r_sid q) (r_dl q) (r_nc q) (r_status q) true
        (r_got q) (r_left q) (r_leftc q).

Definition E_COMP : N := 1.     (* RequestState.CompletedC is full *)
Definition E_COMM : N := 2.     (* RequestState.committedC is full *)
Definition E_NC : N := 3.       (* notify commit not allowed *)
Definition E_COMMNIL : N := 4.  (* committedC is nil *)
Definition E_CTX : N := 5.      (* same system ctx added again *)
Definition E_LQ : N := 6.       (* no pending raft log query *)
Definition E_SS : N := 7.       (* ignored && aborted *)

(* RequestState.notify with the result computed from the object (deadline checks) *)
Definition notifyf (sc : obj -> src) (f : obj -> res) (h : heap) (sl : slot) : heap :=
  if negb (h_err h =? 0) then h else
  let o := h_objs h (so sl) in
  match o_comp o with
  | _ :: _ => set_err h E_COMP
  | [] => updR (updO h (so sl) (fun o => o_notified o (f o))) (o_owner o)
               (fun q => r_add_got q (mkEv (f o) (sr sl) (sc o)))
  end.
Definition notify (sc : src) (r : res) : heap -> slot -> heap := notifyf (fun _ => sc) (fun _ => r).
Definition notify_all (sc : src) (r : res) (h : heap) (l : list slot) : heap := fold_left (notify sc r) l h.
Definition notifyf_all sc f (h : heap) (l : list slot) : heap := fold_left (notifyf sc f) l h.

(* RequestState.committed *)
Definition has_committed (l : list ev) : bool := existsb (fun e => rc (e_res e) =? cCommitted) l.
Definition notify_commit (h : heap) (sl : slot) : heap :=
  if negb (h_err h =? 0) then h else
  let o := h_objs h (so sl) in
  if negb (o_nc o) then set_err h E_NC else
  if negb (o_hascomm o) then set_err h E_COMMNIL else
  match o_comm o with
  | _ :: _ => set_err h E_COMM
  | [] =>
    let h0 := if has_committed (r_got (h_reqs h (o_owner o))) then set_broken h else h in
    let r := mkRes cCommitted 0 0 in
    updR (updO h0 (so sl) (fun o => o_committed o r)) (o_owner o)
         (fun q => r_add_got q (mkEv r (sr sl) SCommit))
  end.

Definition remove_nth {A} (n : nat) (l : list A) : list A := firstn n l ++ skipn (S n) l.

(* pool.Get() followed by reuse(ncf) and the field assignments of the caller;
   a fresh object comes from pool.New *)
Definition get_obj (pick : N) (ncf : bool) (rid key cid sid dl : N) (h : heap) : heap * N :=
  match nth_error (h_pool h) (N.to_nat pick) with
  | Some o =>
    let ob := h_objs h o in
    let h1 := updR h (o_owner ob) (fun q => r_set_left q (o_comp ob) (o_comm ob)) in
    let h2 := set_pool h1 (remove_nth (N.to_nat pick) (h_pool h)) in
    (updO h2 o (fun _ => mkObj key cid sid dl ncf [] [] ncf (o_rtr ob) rid), o)
  | None =>
    let o := h_nobj h in
    (set_nobj (updO h o (fun _ => mkObj key cid sid dl ncf [] [] ncf false rid)) (o + 1), o)
  end.
(* &RequestState{...} of the tables that do not use the pool *)
Definition new_obj (ncf : bool) (rid key dl : N) (h : heap) : heap * N :=
  let o := h_nobj h in
  (set_nobj (updO h o (fun _ => mkObj key 0 0 dl ncf [] [] ncf false rid)) (o + 1), o).
Definition add_req (h : heap) (q : req) : heap :=
  set_nreq (updR h (h_nreq h) (fun _ => q)) (h_nreq h + 1).

(* ---- tables ---- *)
Record ptab := mkP {
  pend : list (N * slot);        (* pending maps of all shards; shard of an entry = key mod ps *)
  p_stop : N -> bool; p_lastgc : N -> N; p_expn : N -> N;
  ap_now : option (N * N);       (* apply worker inside applied(): (shard, now) *)
  cm_b : option slot;            (* commit worker between borrowProposal and committed() *)
  q_cnt : N; q_size : N; q_paused : bool; q_stop : bool }.  (* entryQueue *)
Record rtab := mkR {
  rq : list slot; rq_size : N; rq_stop : bool;   (* readIndexQueue *)
  taken : list slot;                             (* step worker between get() and add() *)
  batches : list ((N * N) * (N * list slot));    (* ctx -> (index, requests) *)
  rd_stop : bool; rd_lastgc : N }.
Record otab := mkO { x_pend : option slot; x_open : bool; x_chan : N; x_lastgc : N }.
Record st := mkSt {
  cps : N; cnc : bool; H : heap; P : ptab; R : rtab; C : otab; S : otab;
  lq_pend : option slot; lq_stop : bool }.

Definition setH s h := mkSt (cps s) (cnc s) h (P s) (R s) (C s) (S s) (lq_pend s) (lq_stop s).
Definition setHP s h p := mkSt (cps s) (cnc s) h p (R s) (C s) (S s) (lq_pend s) (lq_stop s).
Definition setHR s h r := mkSt (cps s) (cnc s) h (P s) r (C s) (S s) (lq_pend s) (lq_stop s).
Definition setHC s h c := mkSt (cps s) (cnc s) h (P s) (R s) c (S s) (lq_pend s) (lq_stop s).
Definition setHS s h c := mkSt (cps s) (cnc s) h (P s) (R s) (C s) c (lq_pend s) (lq_stop s).
Definition setHL s h l b := mkSt (cps s) (cnc s) h (P s) (R s) (C s) (S s) l b.

Definition p_set_pend p l := mkP l (p_stop p) (p_lastgc p) (p_expn p) (ap_now p) (cm_b p) (q_cnt p) (q_size p) (q_paused p) (q_stop p).
Definition p_set_q p c pa := mkP (pend p) (p_stop p) (p_lastgc p) (p_expn p) (ap_now p) (cm_b p) c (q_size p) pa (q_stop p).
Definition p_set_ap p a := mkP (pend p) (p_stop p) (p_lastgc p) (p_expn p) a (cm_b p) (q_cnt p) (q_size p) (q_paused p) (q_stop p).
Definition p_set_cm p a := mkP (pend p) (p_stop p) (p_lastgc p) (p_expn p) (ap_now p) a (q_cnt p) (q_size p) (q_paused p) (q_stop p).
Definition p_set_gc p l g := mkP l (p_stop p) g (p_expn p) (ap_now p) (cm_b p) (q_cnt p) (q_size p) (q_paused p) (q_stop p).
Definition p_set_expn p e := mkP (pend p) (p_stop p) (p_lastgc p) e (ap_now p) (cm_b p) (q_cnt p) (q_size p) (q_paused p) (q_stop p).
Definition p_set_stop p f := mkP (pend p) f (p_lastgc p) (p_expn p) (ap_now p) (cm_b p) (q_cnt p) (q_size p) (q_paused p) true.
Definition fupd {A} (f : N -> A) (k : N) (v : A) : N -> A := fun x => if x =? k then v else f x.

Definition shard (s : st) (key : N) : N := key mod (cps s).
Definition remove_key (key : N) (l : list (N * slot)) := filter (fun kv => negb (fst kv =? key)) l.
Definition find_key (key : N) (l : list (N * slot)) : option slot :=
  match find (fun kv => fst kv =? key) l with Some kv => Some (snd kv) | None => None end.

(* proposalShard.takeProposal *)
Definition take (s : st) (cid sid key now : N) : option slot :=
  if p_stop (P s) (shard s key) then None else
  match find_key key (pend (P s)) with
  | Some sl =>
    let o := h_objs (H s) (so sl) in
    if (now <=? o_dl o) && (o_cid o =? cid) && (o_sid o =? sid) then Some sl else None
  | None => None
  end.

(* proposalShard.gcAt *)
Definition gc_at (s : st) (k now : N) : st :=
  let p := P s in
  if p_stop p k then s else
  if sub64 now (p_lastgc p k) <? gc_tick then s else
  let expired kv := (fst kv mod cps s =? k) && (o_dl (h_objs (H s) (so (snd kv))) <? now) in
  let ex := filter expired (pend p) in
  let h := notifyf_all (fun o => SGc now (o_dl o)) (fun _ => mkRes cTimeout 0 0) (H s) (map snd ex) in
  setHP s h (p_set_gc p (filter (fun kv => negb (expired kv)) (pend p)) (fupd (p_lastgc p) k now)).

Definition r_set_rq r q := mkR q (rq_size r) (rq_stop r) (taken r) (batches r) (rd_stop r) (rd_lastgc r).
Definition r_set_take r q t := mkR q (rq_size r) (rq_stop r) t (batches r) (rd_stop r) (rd_lastgc r).
Definition r_set_tb r t b := mkR (rq r) (rq_size r) (rq_stop r) t b (rd_stop r) (rd_lastgc r).
Definition r_set_b r b := mkR (rq r) (rq_size r) (rq_stop r) (taken r) b (rd_stop r) (rd_lastgc r).
Definition r_set_bg r b g := mkR (rq r) (rq_size r) (rq_stop r) (taken r) b (rd_stop r) g.
Definition r_closed r := mkR [] (rq_size r) true (taken r) (batches r) true (rd_lastgc r).

Definition ctx_eqb (a b : N * N) : bool := (fst a =? fst b) && (snd a =? snd b).
Definition batch_slots (l : list ((N * N) * (N * list slot))) : list slot := flat_map (fun b => snd (snd b)) l.

(* pendingReadIndex.gc *)
Definition reads_gc (h : heap) (bs : list ((N * N) * (N * list slot))) (now : N) :=
  let expired sl := o_dl (h_objs h (so sl)) <? now in
  let h1 := notifyf_all (fun o => SGc now (o_dl o)) (fun _ => mkRes cTimeout 0 0) h (filter expired (batch_slots bs)) in
  let bs1 := map (fun b => (fst b, (fst (snd b), filter (fun sl => negb (expired sl)) (snd (snd b))))) bs in
  let bs2 := filter (fun b => negb ((snd (fst b) <? now) && match snd (snd b) with [] => true | _ => false end)) bs1 in
  (h1, bs2).

(* pendingReadIndex.applied *)
Definition reads_applied (s : st) (a : N) : st :=
  let r := R s in
  if rd_stop r || match batches r with [] => true | _ => false end then s else
  let now := h_clock (H s) in
  let ready b := (0 <? fst (snd b)) && (fst (snd b) <=? a) in
  let h1 := fold_left (fun h b =>
              notifyf_all (fun o => SReadApplied a (fst (snd b)) now (o_dl o))
                          (fun o => if now <? o_dl o then mkRes cCompleted 0 0 else mkRes cTimeout 0 0)
                          h (snd (snd b)))
              (filter ready (batches r)) (H s) in
  let bs1 := filter (fun b => negb (ready b)) (batches r) in
  if sub64 now (rd_lastgc r) <? gc_tick then setHR s h1 (r_set_b r bs1) else
  let '(h2, bs2) := reads_gc h1 bs1 now in
  setHR s h2 (r_set_bg r bs2 now).

Definition x_set_pend x p := mkO p (x_open x) (x_chan x) (x_lastgc x).
Definition x_gc (h : heap) (x : otab) : heap * otab :=
  match x_pend x with
  | None => (h, x)
  | Some sl =>
    let now := h_clock h in
    if sub64 now (x_lastgc x) <? gc_tick then (h, x) else
    if o_dl (h_objs h (so sl)) <? now
    then (notifyf (fun o => SGc now (o_dl o)) (fun _ => mkRes cTimeout 0 0) h sl, mkO None (x_open x) (x_chan x) now)
    else (h, mkO (Some sl) (x_open x) (x_chan x) now)
  end.
Definition x_match (h : heap) (x : otab) (key : N) : option slot :=
  match x_pend x with
  | Some sl => if o_key (h_objs h (so sl)) =? key then Some sl else None
  | None => None
  end.
Definition x_close (h : heap) (x : otab) : heap * otab :=
  match x_pend x with
  | Some sl => (notify SClose (mkRes cTerminated 0 0) h sl, mkO None false (x_chan x) (x_lastgc x))
  | None => (h, mkO None false (x_chan x) (x_lastgc x))
  end.
(* request() of pendingConfigChange / pendingSnapshot: 0 ok 1 closed 2 busy 3 timeout too small *)
Definition x_outcome (x : otab) (to : N) : N :=
  if to =? 0 then 3 else
  match x_pend x with
  | Some _ => 2
  | None => if negb (x_open x) then 1 else if 1 <=? x_chan x then 2 else 0
  end.
Definition x_request (ncf : bool) (kind : N) (h : heap) (x : otab) (key to : N) : heap * otab :=
  if x_outcome x to =? 0 then
    let rid := h_nreq h in
    let dl := add64 (h_clock h) to in
    let '(h1, o) := new_obj ncf rid key dl h in
    let h2 := add_req h1 (mkReq kind o key 0 0 dl ncf 1 false [] [] []) in
    (h2, mkO (Some (mkSlot o rid)) true 1 (x_lastgc x))
  else (h, x).

(* outcome of the client calls: 0 accepted 1 ErrShardClosed 2 ErrSystemBusy 3 ErrTimeoutTooSmall *)
Definition proposeB_outcome (s : st) : N :=
  let p := P s in
  if q_paused p || (q_size p <=? q_cnt p) then (if q_stop p then 1 else 2)
  else if q_stop p then 1 else 0.
Definition read_outcome (s : st) (to : N) : N :=
  if to =? 0 then 3 else
  let r := R s in
  if rq_size r <=? N.of_nat (length (rq r)) then (if rq_stop r then 1 else 2)
  else if rq_stop r then 1 else 0.
Definition lq_outcome (s : st) : N :=
  if logquery_add_refuses_when_stopped && lq_stop s then 1 else
  match lq_pend s with
  | Some _ => 2
  | None => 0
  end.
Definition cc_outcome (s : st) (to : N) : N := x_outcome (C s) to.
Definition ss_outcome (s : st) (to : N) : N := x_outcome (S s) to.

(* fresh_key, the part about proposals between their two critical sections: a request
   that is still in flight (pending[key] = req done, proposals.add not yet) deletes
   pending[key] when the queue refuses it - whatever is stored there *)
Definition N_below (n : N) : list N := map N.of_nat (seq 0 (N.to_nat n)).
Definition key_in_flight (h : heap) (key : N) : bool :=
  existsb (fun r => (r_status (h_reqs h r) =? 0) && (r_key (h_reqs h r) =? key)) (N_below (h_nreq h)).

Inductive op :=
(* clients *)
| ProposeA (cid sid key to pick : N)   (* propose: pool.Get, reuse, pending[key] = req *)
| ProposeB (i : N)                     (* propose: proposals.add(entry), delete on refusal *)
| Read (to pick : N)
| ReqCC (key to : N) | ReqSS (key to : N) | ReqLQ
| Drain (i : N) | Release (i : N)
(* step worker *)
| TakeProps (paused : bool) | TakeReads | AddReads (lo hi : N) | AddReady (lo hi idx : N)
| ReadsApplied (a : N) | ReadsDropped (lo hi : N) | Tick (t : N)
| GcP (k : N) | GcC | GcS | DropP (cid sid key : N) | DropC (key : N)
| TakeCC | TakeSS | LQReturned (oor : bool) (a b : N)
(* apply worker *)
| AppliedTake (cid sid key v : N) (rej : bool) | AppliedGc
| CCApply (key : N) (rej : bool) | SSApply (key : N) (ign abo : bool) (idx : N)
(* commit worker *)
| CommitP (cid sid key : N) | CommitBorrow (cid sid key : N) | CommitFire | CommitC (key : N)
(* node.close() *)
| CloseR | CloseP (k : N) | CloseC | CloseS | CloseL.

Definition terminated := mkRes cTerminated 0 0.

Definition step0 (s : st) (o : op) : st :=
  let h := H s in
  match o with
  | ProposeA cid sid key to pick =>
    if to =? 0 then s else
    let rid := h_nreq h in
    let dl := add64 (h_clock h) to in
    let '(h1, ob) := get_obj pick (cnc s) rid key cid sid dl h in
    let h2 := add_req h1 (mkReq 0 ob key cid sid dl (cnc s) 0 false [] [] []) in
    let h3 := match find_key key (pend (P s)) with
              | Some _ => set_broken h2
              | None => if key_in_flight h key then set_broken h2 else h2
              end in
    setHP s h3 (p_set_pend (P s) ((key, mkSlot ob rid) :: remove_key key (pend (P s))))
  | ProposeB i =>
    let q := h_reqs h i in
    if (i <? h_nreq h) && (r_kind q =? 0) && (r_status q =? 0) then
      let p := P s in
      if proposeB_outcome s =? 0
      then setHP s (updR h i (fun q => r_set_status q 1)) (p_set_q p (q_cnt p + 1) (q_paused p))
      else setHP s (updR h i (fun q => r_set_status q 2)) (p_set_pend p (remove_key (r_key q) (pend p)))
    else s
  | Read to pick =>
    if to =? 0 then s else
    let rid := h_nreq h in
    let dl := add64 (h_clock h) to in
    let '(h1, ob) := get_obj pick false rid 0 0 0 dl h in
    let r := R s in
    if read_outcome s to =? 0
    then setHR s (add_req h1 (mkReq 1 ob 0 0 0 dl false 1 false [] [] [])) (r_set_rq r (rq r ++ [mkSlot ob rid]))
    else setH s (add_req h1 (mkReq 1 ob 0 0 0 dl false 2 false [] [] []))
  | ReqCC key to => let '(h1, x) := x_request (cnc s) 2 h (C s) key to in setHC s h1 x
  | ReqSS key to => let '(h1, x) := x_request false 3 h (S s) key to in setHS s h1 x
  | ReqLQ =>
    if lq_outcome s =? 0 then
      let rid := h_nreq h in
      let '(h1, ob) := new_obj false rid 0 0 h in
      setHL s (add_req h1 (mkReq 4 ob 0 0 0 0 false 1 false [] [] [])) (Some (mkSlot ob rid)) (lq_stop s)
    else s
  | Drain i =>
    let q := h_reqs h i in
    if (i <? h_nreq h) && (r_status q =? 1) then
      if o_owner (h_objs h (r_obj q)) =? i
      then setH s (updO h (r_obj q) o_drained)
      else setH s (updR h i (fun q => r_set_left q [] []))
    else s
  | Release i =>
    let q := h_reqs h i in
    if (i <? h_nreq h) && (r_status q =? 1) && (r_kind q <=? 1) && negb (r_rel q) && o_rtr (h_objs h (r_obj q))
    then setH s (set_pool (updR (updO h (r_obj q) o_released) i r_set_rel) (r_obj q :: h_pool h))
    else s
  | TakeProps paused => setHP s h (p_set_q (P s) 0 paused)
  | TakeReads =>
    match taken (R s) with
    | [] => setHR s h (r_set_take (R s) [] (rq (R s)))
    | _ => s
    end
  | AddReads lo hi =>
    let r := R s in
    match taken r with
    | [] => s
    | tk =>
      if rd_stop r then
        if read_add_terminates_when_stopped
        then setHR s (notify_all SClose terminated h tk) (r_set_tb r [] (batches r))
        else setHR s h (r_set_tb r [] (batches r))
      else if existsb (fun b => ctx_eqb (fst b) (lo, hi)) (batches r) then setH s (set_err h E_CTX)
      else setHR s h (r_set_tb r [] (((lo, hi), (0, tk)) :: batches r))
    end
  | AddReady lo hi idx =>
    let r := R s in
    setHR s h (r_set_b r (map (fun b => if ctx_eqb (fst b) (lo, hi) then (fst b, (idx, snd (snd b))) else b) (batches r)))
  | ReadsApplied a => reads_applied s a
  | ReadsDropped lo hi =>
    let r := R s in
    if rd_stop r then s else
    let hit b := ctx_eqb (fst b) (lo, hi) in
    setHR s (notify_all SDrop (mkRes cDropped 0 0) h (batch_slots (filter hit (batches r))))
          (r_set_b r (filter (fun b => negb (hit b)) (batches r)))
  | Tick t => setH s (set_clock h t)
  | GcP k => gc_at s (k mod cps s) (h_clock h)
  | GcC => let '(h1, x) := x_gc h (C s) in setHC s h1 x
  | GcS => let '(h1, x) := x_gc h (S s) in setHS s h1 x
  | DropP cid sid key =>
    match take s cid sid key (h_clock h) with
    | Some sl => setHP s (notify SDrop (mkRes cDropped 0 0) h sl) (p_set_pend (P s) (remove_key key (pend (P s))))
    | None => s
    end
  | DropC key =>
    match x_match h (C s) key with
    | Some sl => setHC s (notify SDrop (mkRes cDropped 0 0) h sl) (x_set_pend (C s) None)
    | None => s
    end
  | TakeCC => setHC s h (mkO (x_pend (C s)) (x_open (C s)) 0 (x_lastgc (C s)))
  | TakeSS => setHS s h (mkO (x_pend (S s)) (x_open (S s)) 0 (x_lastgc (S s)))
  | LQReturned oor a b =>
    match lq_pend s with
    | None => if logquery_returned_ignored_when_stopped && lq_stop s then s else setH s (set_err h E_LQ)
    | Some sl =>
      setHL s (notify SOther (mkRes (if oor then cOutOfRange else cCompleted) a b) h sl) None (lq_stop s)
    end
  | AppliedTake cid sid key v rej =>
    let now := h_clock h in
    let p1 := p_set_ap (P s) (Some (shard s key, now)) in
    match take s cid sid key now with
    | Some sl =>
      setHP s (notify (SApplied cid sid key v rej) (mkRes (if rej then cRejected else cCompleted) v 0) h sl)
            (p_set_pend p1 (remove_key key (pend p1)))
    | None => setHP s h p1
    end
  | AppliedGc =>
    match ap_now (P s) with
    | Some (k, now) =>
      let s1 := setHP s h (p_set_ap (P s) None) in
      if now =? p_expn (P s) k then s1 else
      let s2 := gc_at s1 k now in
      setHP s2 (H s2) (p_set_expn (P s2) (fupd (p_expn (P s2)) k now))
    | None => s
    end
  | CCApply key rej =>
    match x_match h (C s) key with
    | Some sl => setHC s (notify SOther (mkRes (if rej then cRejected else cCompleted) 0 0) h sl) (x_set_pend (C s) None)
    | None => s
    end
  | SSApply key ign abo idx =>
    if ign && abo then setH s (set_err h E_SS) else
    match x_match h (S s) key with
    | Some sl =>
      let r := if ign then mkRes cRejected 0 0 else if abo then mkRes cAborted 0 0 else mkRes cCompleted idx 0 in
      setHS s (notify SOther r h sl) (x_set_pend (S s) None)
    | None => s
    end
  | CommitP cid sid key =>
    match take s cid sid key (h_clock h) with
    | Some sl => setH s (notify_commit h sl)
    | None => s
    end
  | CommitBorrow cid sid key =>
    if proposal_committed_under_lock then s else
    setHP s h (p_set_cm (P s) (take s cid sid key (h_clock h)))
  | CommitFire =>
    if proposal_committed_under_lock then s else
    match cm_b (P s) with
    | Some sl => setHP s (notify_commit h sl) (p_set_cm (P s) None)
    | None => s
    end
  | CommitC key =>
    match x_match h (C s) key with
    | Some sl => setH s (notify_commit h sl)
    | None => s
    end
  | CloseR =>
    let r := R s in
    let h0 := if rd_stop r then set_broken h else h in
    setHR s (notify_all SClose terminated (notify_all SClose terminated h0 (rq r)) (batch_slots (batches r))) (r_closed r)
  | CloseP k0 =>
    let k := k0 mod cps s in
    let p := P s in
    let h0 := if p_stop p k then set_broken h else h in
    setHP s (notify_all SClose terminated h0 (map snd (filter (fun kv => fst kv mod cps s =? k) (pend p))))
          (p_set_stop p (fupd (p_stop p) k true))
  | CloseC =>
    if x_open (C s) then let '(h1, x) := x_close h (C s) in setHC s h1 x else s
  | CloseS => let '(h1, x) := x_close h (S s) in setHS s h1 x
  | CloseL =>
    match lq_pend s with
    | Some sl => setHL s (notify SClose terminated h sl) None true
    | None => setHL s h None true
    end
  end.

(* a step that panics is rolled back: only the error is recorded; after an
   error every step is the identity (the process is gone) *)
Definition step (s : st) (o : op) : st :=
  if negb (h_err (H s) =? 0) then s else
  let s' := step0 s o in
  if h_err (H s') =? 0 then s' else setH s (set_err (H s) (h_err (H s'))).

Definition run (ops : list op) (s : st) : st := fold_left step ops s.

Definition dflt_obj := mkObj 0 0 0 0 false [] [] false false 0.
Definition dflt_req := mkReq 0 0 0 0 0 0 false 2 false [] [] [].
Definition init (ps : N) (nc : bool) (pqsize rqsize : N) : st :=
  mkSt (if ps =? 0 then 1 else ps) nc
       (mkHeap 0 false 0 (fun _ => dflt_obj) 0 (fun _ => dflt_req) 0 [])
       (mkP [] (fun _ => false) (fun _ => 0) (fun _ => 0) None None 0 pqsize false false)
       (mkR [] rqsize false [] [] false 0)
       (mkO None true 0 0) (mkO None true 0 0) None false.

(* ---- what the harness prints: computed by the driver from these views ---- *)
Definition drain_view (s : st) (i : N) : list res * list res :=   (* committedC, CompletedC *)
  let h := H s in let q := h_reqs h i in
  if (i <? h_nreq h) && (r_status q =? 1) then
    let o := h_objs h (r_obj q) in
    if o_owner o =? i then (o_comm o, o_comp o) else (r_leftc q, r_left q)
  else ([], []).
Definition sizes (s : st) : list N :=
  [ N.of_nat (length (pend (P s))); q_cnt (P s); N.of_nat (length (rq (R s)));
    N.of_nat (length (batches (R s))); N.of_nat (length (batch_slots (batches (R s))));
    match x_pend (C s) with Some _ => 1 | None => 0 end;
    match x_pend (S s) with Some _ => 1 | None => 0 end;
    match lq_pend s with Some _ => 1 | None => 0 end;
    N.of_nat (length (taken (R s))) ].
Definition req_status (s : st) (i : N) : N := r_status (h_reqs (H s) i).
Definition req_released (s : st) (i : N) : bool := r_rel (h_reqs (H s) i).
Definition nreqs (s : st) : N := h_nreq (H s).
Definition errcode (s : st) : N := h_err (H s).
Definition q_closed (s : st) : bool := q_stop (P s).
Definition rq_closed (s : st) : bool := rq_stop (R s).
Definition clock_of (s : st) : N := h_clock (H s).
Definition shards_of (s : st) : N := cps s.
Definition cc_open (s : st) : bool := x_open (C s).
Definition ss_open (s : st) : bool := x_open (S s).

(* ocaml/common/util.ml mentions the extracted type of Z *)
Definition requests_unused_z (x : Z) : Z := x.
