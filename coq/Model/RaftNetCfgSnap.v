(* L2, stages 2 and 3 together: log compaction and InstallSnapshot on top of the model
   with membership change (Model/RaftNetCfg.v), exactly as Model/RaftNetSnap.v does on
   top of stage 1.  Definitions only.

   A node is a stage-3 node plus [first4]: the index of its snapshot.  Its log in the
   model is the logical log (the compacted prefix is ghost), so its configuration
   [cfg_of (first (applied) entries)] is what the snapshot records as membership.
   Restoring a snapshot replaces log and commit index; the applied index (and with it
   the configuration: restoreRemotes runs when the state machine has recovered the
   snapshot) catches up afterwards through L3Apply steps -- until then commit > applied
   and the node cannot campaign, as in the code. *)
From DB Require Export Model.RaftNetCfg Model.RaftNetSnap.

Record net4 := mkNet4 {
  base4 : net3;
  first4 : id -> nat;
  snaps4 : list snapmsg
}.

Inductive label4 :=
| L4Base (l : label3)
| L4Compact (i : id) (k : nat)
| L4SendIS (i : id) (sidx : nat)
| L4HandleIS (j : id) (t : nat) (ldr : id) (sidx sterm : nat).

Definition set_base (s : net3) (b : net) : net3 :=
  mkNet3 b (applied s) (pending s) (lcfg s) (lapp s) (cevents s).

Section CfgSnap.
  Variable cfg_of : list entry -> list id.
  Variable is_cc : entry -> bool.

  Definition init4 : net4 := mkNet4 (init3) (fun _ => 0) [].

  Definition visible4 (s : net4) (l : label3) : Prop :=
    match l with
    | L3Base (LSendAE i prev _ _) => first4 s i <= prev
    | L3Crash i c _ _ => first4 s i <= c
    | _ => True
    end.

  Inductive step4 : net4 -> label4 -> net4 -> Prop :=
  | S4Base s l b' :
      visible4 s l -> step3 cfg_of is_cc (base4 s) l b' ->
      step4 s (L4Base l) (mkNet4 b' (first4 s) (snaps4 s))
  | S4Compact s i k :
      first4 s i <= k -> k <= commit (nodes (base3 (base4 s)) i) ->
      step4 s (L4Compact i k) (mkNet4 (base4 s) (updn (first4 s) i k) (snaps4 s))
  | S4SendIS s i sidx :
      let x := nodes (base3 (base4 s)) i in
      role x = Leader -> 1 <= sidx -> sidx <= commit x ->
      step4 s (L4SendIS i sidx)
        (mkNet4 (base4 s) (first4 s) (IS (term x) i sidx (term_at (log x) sidx) :: snaps4 s))
  | S4HandleISStale s j t ldr sidx sterm :
      let n := base3 (base4 s) in
      let x := nodes n j in
      In (IS t ldr sidx sterm) (snaps4 s) -> t = term x ->
      sidx <= commit x ->
      step4 s (L4HandleIS j t ldr sidx sterm)
        (mkNet4 (set_base (base4 s)
                   (mkNet (upd (nodes n) j
                               (mkNode (term x) (voted x) Follower (log x) (commit x) (hcommit x)))
                          (Ack t j ldr (commit x) :: msgs n) (lead n) (llog0 n) (llog n)))
                (first4 s) (snaps4 s))
  | S4HandleISMatch s j t ldr sidx sterm :
      let n := base3 (base4 s) in
      let x := nodes n j in
      In (IS t ldr sidx sterm) (snaps4 s) -> t = term x ->
      commit x < sidx -> term_at (log x) sidx = sterm ->
      step4 s (L4HandleIS j t ldr sidx sterm)
        (mkNet4 (set_base (base4 s)
                   (mkNet (upd (nodes n) j
                               (mkNode (term x) (voted x) Follower (log x) sidx
                                       (Nat.max (hcommit x) sidx)))
                          (Ack t j ldr sidx :: msgs n) (lead n) (llog0 n) (llog n)))
                (first4 s) (snaps4 s))
  | S4HandleISRestore s j t ldr sidx sterm :
      let n := base3 (base4 s) in
      let x := nodes n j in
      In (IS t ldr sidx sterm) (snaps4 s) -> t = term x ->
      commit x < sidx -> term_at (log x) sidx <> sterm ->
      step4 s (L4HandleIS j t ldr sidx sterm)
        (mkNet4 (set_base (base4 s)
                   (mkNet (upd (nodes n) j
                               (mkNode (term x) (voted x) Follower (firstn sidx (llog n t)) sidx
                                       (Nat.max (hcommit x) sidx)))
                          (Ack t j ldr sidx :: msgs n) (lead n) (llog0 n) (llog n)))
                (updn (first4 s) j sidx) (snaps4 s)).

  Inductive steps4 : net4 -> list label4 -> net4 -> Prop :=
  | steps4_nil s : steps4 s [] s
  | steps4_cons s l s1 ls s2 : step4 s l s1 -> steps4 s1 ls s2 -> steps4 s (l :: ls) s2.

  Definition reachable4 (s : net4) : Prop := exists ls, steps4 init4 ls s.

End CfgSnap.
