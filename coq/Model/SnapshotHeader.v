(* The 1 KB header of a snapshot file (internal/rsm/snapshotio.go) and the protobuf
   codec of raftpb.SnapshotHeader (raftpb/snapshotheader.go, raftpb/common.go skipRaft).
   Executable model, no proofs.

   File layout:  len(8, LE) | data(len) | crc(4) | zero padding   (1024 bytes in total)
   - SnapshotWriter.saveHeader: data = Marshal(header with HeaderChecksum =
     CRC32(Marshal(header without HeaderChecksum))), followed by CRC32(data)
     (the 4 bytes validateHeader compares; ChunkWriter.getHeader writes the same layout).
   - validateHeader: a stored CRC of 00 00 00 00 disables the check (files written by
     versions that did not store it) - the escape is part of the model. *)
From DB Require Import Base.Bytes Base.CRC32 Gen.GenC14.
Open Scope N_scope.

Definition crc_bytes (l : bytes) : bytes := be 4 (crc32 l).   (* hash.Sum(nil): big endian *)
Definition hsz : nat := N.to_nat snapshot_header_size.
Definition zeros (n : nat) : bytes := repeat 0 n.

Fixpoint bytes_eqb (a b : bytes) : bool :=
  match a, b with
  | [], [] => true
  | x :: a', y :: b' => (x =? y) && bytes_eqb a' b'
  | _, _ => false
  end.

Record header := mkHeader {
  h_ss : N; h_ds : N; h_time : N; h_git : bytes;
  h_hcrc : option bytes; h_pcrc : option bytes;
  h_ctype : N;      (* ChecksumType, int32 bit pattern *)
  h_ver : N;
  h_comp : N }.     (* CompressionType, int32 bit pattern *)

Definition empty_header : header := mkHeader 0 0 0 [] None None 0 0 0.

(* uint64(int32) sign extension used by MarshalTo for the enum fields *)
Definition sext32 (x : N) : N := if x <? 2 ^ 31 then x else x + (2 ^ 64 - 2 ^ 32).

Definition pb_bytes_field (tag : N) (o : option bytes) : bytes :=
  match o with None => [] | Some c => tag :: uvarint (nlen c) ++ c end.

Definition header_marshal (h : header) : bytes :=
  8 :: uvarint (h_ss h) ++ 16 :: uvarint (h_ds h) ++ 24 :: uvarint (h_time h) ++
  34 :: uvarint (nlen (h_git h)) ++ h_git h ++
  pb_bytes_field 42 (h_hcrc h) ++ pb_bytes_field 50 (h_pcrc h) ++
  56 :: uvarint (sext32 (h_ctype h)) ++ 64 :: uvarint (h_ver h) ++ 72 :: uvarint (sext32 (h_comp h)).

(* ---- Unmarshal ---- *)

(* for shift := 0; ; shift += 7 { if shift >= 64 -> err; if idx >= l -> err; acc |= (b&0x7f)<<shift; if b < 0x80 break } *)
Fixpoint rv (fuel : nat) (shift acc : N) (l : bytes) : option (N * bytes) :=
  match fuel with
  | O => None
  | S f => match l with
           | [] => None
           | b :: r => let acc' := N.lor acc (N.shiftl (N.land b 127) shift mod 2 ^ 64) in
                       if b <? 128 then Some (acc', r) else rv f (shift + 7) acc' r
           end
  end.
Definition read_varint (l : bytes) : option (N * bytes) := rv 10 0 0 l.

(* a length-delimited value: the length is a Go int (negative -> error), must fit *)
Definition take_len (len : N) (l : bytes) : option (bytes * bytes) :=
  if 2 ^ 63 <=? len then None
  else if nlen l <? len then None
  else Some (firstn (N.to_nat len) l, skipn (N.to_nat len) l).

(* skipRaft: the rest after one field (tag included in l); None = any error, including
   running past the end (which the caller turns into io.ErrUnexpectedEOF) *)
Fixpoint skip_field (fuel : nat) (l : bytes) : option bytes :=
  match fuel with
  | O => None
  | S f =>
    match read_varint l with
    | None => None
    | Some (wire, r) =>
      match wire mod 8 with
      | 0 => match read_varint r with Some (_, r') => Some r' | None => None end
      | 1 => match take_len 8 r with Some (_, r') => Some r' | None => None end
      | 2 => match read_varint r with
             | Some (len, r') => match take_len len r' with Some (_, r'') => Some r'' | None => None end
             | None => None
             end
      | 3 => (fix grp (g : nat) (cur : bytes) {struct g} : option bytes :=
                match g with
                | O => None
                | S g' =>
                  match read_varint cur with
                  | None => None
                  | Some (iw, r') =>
                    if iw mod 8 =? 4 then Some r'
                    else match skip_field f cur with
                         | None => None
                         | Some cur' => grp g' cur'
                         end
                  end
                end) (S (length r)) r
      | 4 => Some r
      | 5 => match take_len 4 r with Some (_, r') => Some r' | None => None end
      | _ => None
      end
    end
  end.

Definition set_field (h : header) (fnum v : N) : header :=
  match fnum with
  | 1 => mkHeader v (h_ds h) (h_time h) (h_git h) (h_hcrc h) (h_pcrc h) (h_ctype h) (h_ver h) (h_comp h)
  | 2 => mkHeader (h_ss h) v (h_time h) (h_git h) (h_hcrc h) (h_pcrc h) (h_ctype h) (h_ver h) (h_comp h)
  | 3 => mkHeader (h_ss h) (h_ds h) v (h_git h) (h_hcrc h) (h_pcrc h) (h_ctype h) (h_ver h) (h_comp h)
  | 7 => mkHeader (h_ss h) (h_ds h) (h_time h) (h_git h) (h_hcrc h) (h_pcrc h) (v mod 2 ^ 32) (h_ver h) (h_comp h)
  | 8 => mkHeader (h_ss h) (h_ds h) (h_time h) (h_git h) (h_hcrc h) (h_pcrc h) (h_ctype h) v (h_comp h)
  | 9 => mkHeader (h_ss h) (h_ds h) (h_time h) (h_git h) (h_hcrc h) (h_pcrc h) (h_ctype h) (h_ver h) (v mod 2 ^ 32)
  | _ => h
  end.

Definition set_bytes_field (h : header) (fnum : N) (v : bytes) : header :=
  match fnum with
  | 4 => mkHeader (h_ss h) (h_ds h) (h_time h) v (h_hcrc h) (h_pcrc h) (h_ctype h) (h_ver h) (h_comp h)
  | 5 => mkHeader (h_ss h) (h_ds h) (h_time h) (h_git h) (Some v) (h_pcrc h) (h_ctype h) (h_ver h) (h_comp h)
  | 6 => mkHeader (h_ss h) (h_ds h) (h_time h) (h_git h) (h_hcrc h) (Some v) (h_ctype h) (h_ver h) (h_comp h)
  | _ => h
  end.

Definition is_varint_field (fnum : N) : bool :=
  (fnum =? 1) || (fnum =? 2) || (fnum =? 3) || (fnum =? 7) || (fnum =? 8) || (fnum =? 9).
Definition is_bytes_field (fnum : N) : bool := (fnum =? 4) || (fnum =? 5) || (fnum =? 6).

Fixpoint unmarshal_loop (fuel : nat) (h : header) (l : bytes) : option header :=
  match l with
  | [] => Some h
  | _ =>
    match fuel with
    | O => None
    | S f =>
      match read_varint l with
      | None => None
      | Some (wire, r) =>
        let fnum := (wire / 8) mod 2 ^ 32 in      (* int32(wire >> 3) *)
        let wt := wire mod 8 in
        if wt =? 4 then None
        else if (fnum =? 0) || (2 ^ 31 <=? fnum) then None
        else if is_varint_field fnum then
          if wt =? 0 then
            match read_varint r with
            | Some (v, r') => unmarshal_loop f (set_field h fnum v) r'
            | None => None
            end
          else None
        else if is_bytes_field fnum then
          if wt =? 2 then
            match read_varint r with
            | Some (len, r') =>
              match take_len len r' with
              | Some (v, r'') => unmarshal_loop f (set_bytes_field h fnum v) r''
              | None => None
              end
            | None => None
            end
          else None
        else
          match skip_field (S (length l)) l with
          | Some r' => unmarshal_loop f h r'
          | None => None
          end
      end
    end
  end.

Definition header_unmarshal (data : bytes) : option header :=
  unmarshal_loop (S (length data)) empty_header data.

(* ---- the 1 KB block ---- *)

(* what saveHeader marshals: first without, then with the HeaderChecksum field *)
Definition writer_header (ts : N) (pcrc : bytes) (ver comp : N) : header :=
  let h0 := mkHeader 0 0 ts [] None (Some pcrc) default_checksum_type ver comp in
  mkHeader 0 0 ts [] (Some (crc_bytes (header_marshal h0))) (Some pcrc) default_checksum_type ver comp.

(* None = panic "snapshot header is too large" *)
Definition header_block (data : bytes) : option bytes :=
  if (hsz - 12 <? length data)%nat then None
  else Some (le 8 (nlen data) ++ data ++ crc_bytes data ++ zeros (hsz - 12 - length data)).

Definition validate_header (data crc : bytes) : bool :=
  if bytes_eqb crc [0; 0; 0; 0] then true else bytes_eqb (crc_bytes data) crc.

(* SnapshotReader.getHeader up to the point where the versioned reader is created *)
Inductive open_result :=
| OpenErr                                   (* an error is returned (short file) *)
| OpenPanic                                 (* the implementation panics *)
| OpenOk (h : header) (body : bytes).       (* body = everything after the first 1024 bytes *)

Definition open_header (f : bytes) : open_result :=
  if (length f <? 8)%nat then OpenErr else
  let sz := le_dec (firstn 8 f) in
  if N.of_nat (hsz - 8) <? sz then OpenPanic else
  let szn := N.to_nat sz in
  let r1 := skipn 8 f in
  if (length r1 <? szn)%nat then OpenErr else
  let data := firstn szn r1 in
  let r2 := skipn szn r1 in
  match header_unmarshal data with
  | None => OpenPanic
  | Some h =>
    if (length r2 <? 4)%nat then OpenErr else
    let crc := firstn 4 r2 in
    let r3 := skipn 4 r2 in
    if negb (validate_header data crc) then OpenPanic
    else if (hsz - 12 <? szn)%nat then OpenPanic      (* make([]byte, HeaderSize-8-sz-4) wraps *)
    else let bl := (hsz - 12 - szn)%nat in
         if (length r3 <? bl)%nat then OpenErr else OpenOk h (skipn bl r3)
  end.
