(* R21 - role restrictions at the NodeHost API level (C18).
   Executable image of the refusal logic in front of the request tables of a node:
     nodehost.go  propose / ProposeSession / readIndex / StaleRead / RequestSnapshot /
                  RequestLeaderTransfer / queryRaftLog / Request{Add,Delete}* / RequestCompaction
     node.go      propose / proposeSession / read / requestLeaderTransfer / requestSnapshot /
                  queryRaftLog / requestConfigChange
   as a function from (kind of the local replica, state of host and shard, request) to the
   verdict the caller gets and the request table that receives the request. Whether a guard
   stands where the model puts it is a regenerated fact (Gen/GenR21.v, tools/genmodel
   facts_r21.go); a guard that is not there is modelled as absent (the request falls through
   to the next check), so that the model keeps describing the code when a guard is dropped.
   Also: what config validation refuses when a replica is started, and what a witness
   persists of the entries a leader has for it (metadata conversion of Model/RaftCore.v).
   Not modelled: ErrSystemBusy (a table that is already occupied / a full queue),
   ErrPayloadTooBig, ErrInvalidSession (the session is valid for the shard), time-outs of the
   Sync* variants, on-disk state machines. No proofs in this file. *)
From Coq Require Export List NArith Bool.
From DB Require Export Gen.GenR21 Model.RaftCore.
Export ListNotations.
Open Scope N_scope.

Inductive role := Voter | NonVoting | Witness.

(* state of the host / of the shard on it, as far as the guards look at it *)
Inductive hstate :=
| HClosed        (* NodeHost.Close was called *)
| HNoShard       (* the shard is not (or no longer) started on this host *)
| HNotReady      (* started, the replica has not finished its start-up (node.initialized() false) *)
| HReady.

Inductive api :=
| Propose (noop : bool)          (* Propose / SyncPropose / INodeUser.Propose; NoOP or registered session *)
| ProposeSession                 (* ProposeSession / SyncGetSession / SyncCloseSession *)
| ReadIndex                      (* ReadIndex / SyncRead / SyncGetShardMembership / INodeUser.ReadIndex *)
| StaleRead
| Snapshot (opt_ok exported dir_ok : bool)   (* RequestSnapshot / SyncRequestSnapshot *)
| LeaderTransfer (target_ok : bool)
| QueryLog (range_ok : bool)
| ConfigChange (remove addr_ok : bool)       (* Request{Add,AddNonVoting,AddWitness,Delete}Replica and Sync* *)
| Compaction.

Inductive verdict :=
| Accepted
| ErrClosed | ErrShardNotFound | ErrShardNotReady | ErrShardNotInitialized
| ErrInvalidOperation
| ErrInvalidOption | ErrInvalidRange | ErrInvalidAddress | ErrInvalidTarget | ErrDirNotExist
| Panics          (* the call panics in the caller's goroutine *)
| Free.           (* no role restriction and no request table: RequestCompaction *)

Inductive table := TProposals | TReads | TConfigChange | TSnapshot | TLogQuery | TLeaderTransfer.

(* where the source has its witness guards (all true on the checked tree) *)
Record guards := mkGuards {
  g_propose : bool; g_propose_session : bool; g_read : bool; g_leader_transfer : bool;
  g_snapshot : bool; g_query_log : bool; g_config_change : bool;
  g_nh_propose_session : bool; g_nh_stale_read : bool;
  g_nh_session_check : bool          (* nodehost.go propose: panic for a registered session on a node without session support *)
}.

Definition src_guards : guards :=
  mkGuards src_guard_propose src_guard_propose_session src_guard_read src_guard_leader_transfer
           src_guard_snapshot src_guard_query_log src_guard_config_change
           src_guard_nh_propose_session src_guard_nh_stale_read
           (src_nh_propose_session_check && src_session_support_excludes_witness).

Definition is_witness (r : role) : bool := match r with Witness => true | _ => false end.

(* node.go: `if !n.initialized() { ErrShardNotReady }; if n.isWitness() { ErrInvalidOperation }` *)
Definition node_prefix (guard : bool) (r : role) (st : hstate) (rest : verdict) : verdict :=
  match st with
  | HNotReady => ErrShardNotReady
  | _ => if guard && is_witness r then ErrInvalidOperation else rest
  end.

(* nodehost.go: `if closed { ErrClosed }; getShard -> ErrShardNotFound` *)
Definition host_prefix (checks_closed : bool) (st : hstate) (rest : verdict) : verdict :=
  match st with
  | HClosed => if checks_closed then ErrClosed else ErrShardNotFound   (* Close stops and unloads every shard *)
  | HNoShard => ErrShardNotFound
  | _ => rest
  end.

Definition api_verdict (g : guards) (r : role) (st : hstate) (a : api) : verdict :=
  match a with
  | Propose noop =>
    host_prefix true st
      (if g_nh_session_check g && is_witness r && negb noop then Panics
       else node_prefix (g_propose g) r st Accepted)
  | ProposeSession =>
    host_prefix false st
      (if g_nh_propose_session g && is_witness r then ErrInvalidOperation
       else node_prefix (g_propose_session g) r st Accepted)
  | ReadIndex => host_prefix true st (node_prefix (g_read g) r st Accepted)
  | StaleRead =>
    host_prefix true st
      match st with
      | HNotReady => ErrShardNotInitialized
      | _ => if g_nh_stale_read g && is_witness r then ErrInvalidOperation else Accepted
      end
  | Snapshot opt_ok exported dir_ok =>
    host_prefix true st
      (if negb opt_ok then ErrInvalidOption
       else node_prefix (g_snapshot g) r st
              (if exported && negb dir_ok then ErrDirNotExist else Accepted))
  | LeaderTransfer target_ok =>
    host_prefix true st
      (node_prefix (g_leader_transfer g) r st (if target_ok then Accepted else ErrInvalidTarget))
  | QueryLog range_ok =>
    host_prefix true st
      (if negb range_ok then ErrInvalidRange else node_prefix (g_query_log g) r st Accepted)
  | ConfigChange remove addr_ok =>
    host_prefix true st
      (node_prefix (g_config_change g) r st
         (if negb remove && negb addr_ok then ErrInvalidAddress else Accepted))
  | Compaction => match st with HClosed => ErrClosed | _ => Free end
  end.

Definition table_of (a : api) : option table :=
  match a with
  | Propose _ | ProposeSession => Some TProposals
  | ReadIndex => Some TReads
  | StaleRead | Compaction => None
  | Snapshot _ _ _ => Some TSnapshot
  | LeaderTransfer _ => Some TLeaderTransfer
  | QueryLog _ => Some TLogQuery
  | ConfigChange _ _ => Some TConfigChange
  end.

(* a request enters a table only when the call is accepted *)
Definition api_enqueues (g : guards) (r : role) (st : hstate) (a : api) : option table :=
  match api_verdict g r st a with Accepted => table_of a | _ => None end.

(* the call reaches the user state machine from the API goroutine (StaleRead's Lookup) *)
Definition api_calls_lookup (g : guards) (r : role) (st : hstate) (a : api) : bool :=
  match a, api_verdict g r st a with StaleRead, Accepted => true | _, _ => false end.

(* ---- starting a replica: config.Config.Validate as reached from StartReplica ---- *)
Record start_cfg := mkStartCfg { sc_witness : bool; sc_nonvoting : bool; sc_snapshot_entries : N }.

Inductive start_verdict := Started | StartRefused.

Definition start_replica (check_snapshot check_nonvoting validates : bool) (c : start_cfg) : start_verdict :=
  if validates &&
     ((check_snapshot && sc_witness c && (0 <? sc_snapshot_entries c)) ||
      (check_nonvoting && sc_witness c && sc_nonvoting c))
  then StartRefused else Started.

Definition src_start_replica : start_cfg -> start_verdict :=
  start_replica src_validate_witness_no_snapshot src_validate_witness_not_nonvoting src_new_raft_validates.

(* a witness never starts a snapshot on its own: node.saveSnapshotRequired is false when
   SnapshotEntries = 0, which validation enforces for every witness that runs *)
Definition auto_snapshot_possible (c : start_cfg) : bool := 0 <? sc_snapshot_entries c.

(* ---- what a witness persists ---- *)
(* the log store keeps what the raft log hands it: a batch replaces everything from its
   first index on *)
Definition store_save (st ents : list entry) : list entry :=
  match ents with
  | [] => st
  | e :: _ => filter (fun x => e_index x <? e_index e) st ++ ents
  end.

(* one Replicate message from a leader whose log has [leader_ents] for the witness *)
Definition witness_receive (st leader_ents : list entry) : list entry :=
  store_save st (make_metadata_entries leader_ents).

Definition witness_store (batches : list (list entry)) : list entry :=
  fold_left witness_receive batches [].

Definition carries_payload (e : entry) : bool :=
  negb (e_type e =? et_ConfigChangeEntry) &&
  negb ((e_type e =? et_MetadataEntry) && match e_cmd e with [] => true | _ => false end &&
        (e_key e =? 0) && (e_client e =? 0) && (e_series e =? 0) && (e_resp e =? 0)).

Definition payload_entries (l : list entry) : N := N.of_nat (length (filter carries_payload l)).

Definition role_unused_z : BinNums.Z := BinNums.Z0.
Definition role_unused_nat (n : nat) : nat := S n.

(* ---- the table the harness's monitor encodes for a running witness ---- *)
Definition args_ok (a : api) : bool :=
  match a with
  | Snapshot opt_ok exported dir_ok => opt_ok && (negb exported || dir_ok)
  | LeaderTransfer target_ok => target_ok
  | QueryLog range_ok => range_ok
  | ConfigChange remove addr_ok => remove || addr_ok
  | _ => true
  end.

Definition witness_expected (a : api) : verdict :=
  match a with
  | Propose false => Panics
  | Snapshot false _ _ => ErrInvalidOption
  | QueryLog false => ErrInvalidRange
  | Compaction => Free
  | _ => ErrInvalidOperation
  end.

Definition no_guards : guards := mkGuards false false false false false false false false false false.
