(* Executable model of the Tan record form of raftpb.Update (raftpb/update.go:
   MarshalTo, Unmarshal, SizeUpperLimit) and of GetEntrySliceSize.
   No proofs in this file.

   layout: uvarint ShardID, uvarint ReplicaID,
           0 | 1 le32(len) State,
           le32(count) { le32(len) Entry }*,
           0 | 1 le32(len) Snapshot
   Only the fields MarshalTo writes are part of the model record.
   Unmarshal indexes the buffer without bounds checks: running off the end is a
   Go panic = UPanic. *)
From DB Require Export Base.Bytes Gen.GenC13 Model.CodecEntry Model.CodecProto.
Open Scope N_scope.

Record update := mkUpdate {
  u_shard : N; u_replica : N; u_state : state; u_entries : list entry; u_snapshot : snapshot }.

Definition is_empty_state (s : state) : bool :=
  (st_term s =? 0) && (st_vote s =? 0) && (st_commit s =? 0).
Definition is_empty_snapshot (s : snapshot) : bool := sn_index s =? 0.

Definition le32 (x : N) : bytes := le 4 (x mod 2 ^ 32).       (* PutUint32(uint32(n)) *)

Definition framed (b : bytes) : bytes := le32 (nlen b) ++ b.

Definition update_encode (u : update) : bytes :=
  uvarint (u_shard u) ++ uvarint (u_replica u) ++
  (if is_empty_state (u_state u) then [0] else 1 :: framed (state_encode (u_state u))) ++
  le32 (nlen (u_entries u)) ++ flat_map (fun e => framed (encode e)) (u_entries u) ++
  (if is_empty_snapshot (u_snapshot u) then [0] else 1 :: framed (sn_encode (u_snapshot u))).

(* SizeUpperLimit *)
Definition entry_slice_size (es : list entry) : N := sum_map size_upper_limit es.
Definition update_size_upper (u : update) : N :=
  update_upper_head + entry_slice_size (u_entries u) + state_size_upper +
  (if is_empty_snapshot (u_snapshot u) then update_upper_nosnapshot else sn_size (u_snapshot u)).

(* binary.ReadUvarint: at most 10 bytes, the 10th must be 0 or 1 *)
Fixpoint read_uvarint (i : nat) (shift acc : N) (d : bytes) : option (N * bytes) :=
  match d with
  | [] => None
  | b :: r =>
    if b <? 128 then
      if (i =? 0)%nat && (1 <? b) then None else Some (acc + b * 2 ^ shift, r)
    else
      match i with
      | O => None
      | S i' => read_uvarint i' (shift + 7) (acc + (b mod 128) * 2 ^ shift) r
      end
  end.
Definition std_uvarint (d : bytes) := read_uvarint 9 0 0 d.

Inductive ures := UOk (u : update) | UErr | UPanic.

(* buf[off:off+4] little endian, panics when short *)
Definition rd_le32 (d : bytes) : option (N * bytes) :=
  if (length d <? 4)%nat then None else Some (le_dec (firstn 4 d), skipn 4 d).

(* le32 length followed by that many bytes *)
Definition rd_framed (d : bytes) : option (bytes * bytes) :=
  match rd_le32 d with
  | None => None
  | Some (l, r) => if nlen r <? l then None
                   else Some (firstn (N.to_nat l) r, skipn (N.to_nat l) r)
  end.

(* the entry loop; every iteration consumes at least the 4 length bytes, so the
   fuel |d|+1 never runs out.  None = panic, Some None = error *)
Fixpoint rd_entries (fuel : nat) (count : N) (d : bytes) (acc : list entry)
  : option (option (list entry * bytes)) :=
  if count =? 0 then Some (Some (acc, d)) else
  match fuel with
  | O => None
  | S f =>
    match rd_framed d with
    | None => None
    | Some (b, r) =>
      match entry_decode_exact b with
      | None => Some None
      | Some e => rd_entries f (count - 1) r (acc ++ [e])
      end
    end
  end.

Definition update_decode (buf : bytes) : ures :=
  match std_uvarint buf with None => UErr | Some (shard, r1) =>
  match std_uvarint r1 with None => UErr | Some (replica, r2) =>
  match r2 with [] => UPanic | flag :: r3 =>
  let st_res :=
    if flag =? 0 then Some (Some (state_zero, r3))
    else match rd_framed r3 with
         | None => None
         | Some (b, r) => match state_decode b with None => Some None | Some s => Some (Some (s, r)) end
         end in
  match st_res with None => UPanic | Some None => UErr | Some (Some (st, r4)) =>
  match rd_le32 r4 with None => UPanic | Some (count, r5) =>
  match rd_entries (S (length r5)) count r5 [] with None => UPanic | Some None => UErr | Some (Some (es, r6)) =>
  match r6 with [] => UPanic | sflag :: r7 =>
  if sflag =? 1 then
    match rd_framed r7 with
    | None => UPanic
    | Some (b, _) => match sn_decode b with
                     | None => UErr
                     | Some sn => UOk (mkUpdate shard replica st es sn)
                     end
    end
  else UOk (mkUpdate shard replica st es sn_zero)
  end end end end end end end.

Definition wf_update (u : update) : Prop :=
  u64 (u_shard u) /\ u64 (u_replica u) /\ wf_state (u_state u) /\
  Forall wf_entry (u_entries u) /\ nlen (u_entries u) < 2 ^ 32 /\
  Forall (fun e => size e < 2 ^ 32) (u_entries u) /\
  wf_sn (u_snapshot u) /\ sn_size (u_snapshot u) < 2 ^ 32 /\
  (* a snapshot with Index = 0 is written as "no snapshot" *)
  (sn_index (u_snapshot u) = 0 -> u_snapshot u = sn_zero).
