(* Executable model of /repo/tools/import.go (tools.ImportSnapshot, the
   quorum-loss repair tool) and of the effect of logdb.ImportSnapshot on the
   log store (internal/logdb/db.go importSnapshot; internal/tan installSnapshot).
   No proofs in this file.

   Faithful to the Go code:
   - Go maps map[uint64]string are association lists ([alookup] = first match;
     a Go map has unique keys, the drivers only build such lists). Results that
     the code builds by iterating a map are produced in canonical form (sorted
     by key) and the harness sorts the implementation's output the same way.
   - checkMembers iterates the member map in Go's random order and returns the
     first error; which error is reported for a list with several bad members is
     therefore not determined. [check_member] is the exact per-member
     classification (order of the tests as in the code), [check_members] the
     verdict for the list in list order; Proofs/ImportTool.v shows that the
     accept/refuse verdict does not depend on the order.
   - The steps of ImportSnapshot are the list [import_prog], ordered by the
     positions tools/genmodel extracts from the body of ImportSnapshot
     (Gen.GenC20: pos_NAME and guard_NAME): a step moved in the source moves in the
     model. Environment failures (I/O errors of a step) are an oracle
     ([in_env_fail]).
   - panics = explicit outcomes ([RMetaPanic], [LPanic]). *)
From DB Require Import Base.Bytes Base.CRC32 Gen.GenC20.
Open Scope N_scope.

Definition addr := bytes.

Fixpoint bytes_eqb (a b : bytes) : bool :=
  match a, b with
  | [], [] => true
  | x :: a', y :: b' => (x =? y) && bytes_eqb a' b'
  | _, _ => false
  end.

(* ---- map[uint64]string ---- *)
Definition amap := list (N * addr).

Fixpoint alookup (k : N) (m : amap) : option addr :=
  match m with
  | [] => None
  | (k', v) :: r => if k' =? k then Some v else alookup k r
  end.
Definition amem (k : N) (m : amap) : bool :=
  match alookup k m with Some _ => true | None => false end.
Definition akeys (m : amap) : list N := map fst m.

(* canonical (sorted by key, unique) form of a map *)
Fixpoint minsert (k : N) (v : addr) (m : amap) : amap :=
  match m with
  | [] => [(k, v)]
  | (k', v') :: r =>
    if k <? k' then (k, v) :: m
    else if k =? k' then (k, v) :: r
    else (k', v') :: minsert k v r
  end.
(* the first binding of a key wins, as in [alookup] *)
Definition mnorm (m : amap) : amap := fold_right (fun kv acc => minsert (fst kv) (snd kv) acc) [] m.

(* ---- map[uint64]bool used as a set (Removed); only presence is tested ---- *)
Definition nset := list N.
Definition smem (k : N) (s : nset) : bool := existsb (N.eqb k) s.
Fixpoint sinsert (k : N) (s : nset) : nset :=
  match s with
  | [] => [k]
  | x :: r => if k <? x then k :: s else if k =? x then s else x :: sinsert k r
  end.
Definition sadd_all (ks : list N) (s : nset) : nset := fold_left (fun acc k => sinsert k acc) ks s.

(* ---- pb.Membership ---- *)
Record membership := mkM {
  m_ccid : N;
  m_addresses : amap;
  m_nonvotings : amap;
  m_witnesses : amap;
  m_removed : nset
}.

(* ---- pb.SnapshotFile, pb.Snapshot ---- *)
Record sfile := mkSF { sf_path : bytes; sf_size : N; sf_id : N; sf_meta : bytes }.

Record snapshot := mkSS {
  s_filepath : bytes;
  s_filesize : N;
  s_index : N;
  s_term : N;
  s_membership : membership;
  s_files : list sfile;
  s_checksum : bytes;
  s_dummy : bool;
  s_shard : N;
  s_type : N;
  s_imported : bool;
  s_ondisk : N;
  s_witness : bool
}.

(* ================================================================== *)
(* checkImportSettings                                                  *)

Inductive settings_verdict := SettingsOk | SettingsNotListed | SettingsAddrMismatch.

(* both refusals are ErrInvalidMembers *)
Definition check_import_settings (raft_address : addr) (members : amap) (replica : N) : settings_verdict :=
  match alookup replica members with
  | None => SettingsNotListed
  | Some a => if bytes_eqb raft_address a then SettingsOk else SettingsAddrMismatch
  end.

(* ================================================================== *)
(* checkMembers                                                         *)

Inductive member_err :=
| EAddrChanged          (* "node address changed" *)
| ENonVotingAsRegular   (* "adding an nonVoting as regular node" *)
| EWitnessAsRegular     (* "adding a witness as regular node" *)
| EAddingRemoved.       (* "adding a removed node" *)

(* one iteration of the loop body; the test on Addresses falls through to the
   other tests when the address is unchanged, as in the code *)
Definition check_member_rest (old : membership) (id : N) (a : addr) : option member_err :=
  match alookup id (m_nonvotings old) with
  | Some v => if negb (bytes_eqb v a) then Some EAddrChanged else Some ENonVotingAsRegular
  | None =>
    match alookup id (m_witnesses old) with
    | Some v => if negb (bytes_eqb v a) then Some EAddrChanged else Some EWitnessAsRegular
    | None => if smem id (m_removed old) then Some EAddingRemoved else None
    end
  end.

Definition check_member (old : membership) (id : N) (a : addr) : option member_err :=
  match alookup id (m_addresses old) with
  | Some v => if negb (bytes_eqb v a) then Some EAddrChanged else check_member_rest old id a
  | None => check_member_rest old id a
  end.

Fixpoint check_members (old : membership) (members : amap) : option member_err :=
  match members with
  | [] => None
  | (id, a) :: r =>
    match check_member old id a with
    | Some e => Some e
    | None => check_members old r
    end
  end.

(* ================================================================== *)
(* getSnapshotFilepath / getSnapshotFilenames                           *)

Fixpoint has_suffix_rev (rs rn : bytes) : bool :=
  match rs with
  | [] => true
  | x :: rs' => match rn with [] => false | y :: rn' => (x =? y) && has_suffix_rev rs' rn' end
  end.
(* strings.HasSuffix *)
Definition has_suffix (name suffix : bytes) : bool := has_suffix_rev (rev suffix) (rev name).

(* a directory listing: (name, is a directory, size) *)
Record dirent := mkDE { de_name : bytes; de_isdir : bool; de_size : N }.

Definition snapshot_files (entries : list dirent) : list bytes :=
  map de_name (filter (fun e => negb (de_isdir e) && has_suffix (de_name e) snapshot_file_suffix) entries).

Inductive locate_result := LocOk (name : bytes) | LocPathNotExist | LocIncomplete.

Definition locate_snapshot_file (src_exists : bool) (entries : list dirent) : locate_result :=
  if negb src_exists then LocPathNotExist
  else match snapshot_files entries with
       | [f] => LocOk f
       | _ => LocIncomplete
       end.

(* ================================================================== *)
(* isCompleteSnapshotImage = rsm.GetV2PayloadChecksum vs recorded       *)

(* getV2CRCOffsetListFromFileSize: offsets of the 4-byte CRC that ends each
   block of the payload area [header, size - tail). [fuel] bounds the loop
   (one iteration per block); [crc_offsets] supplies enough. The last, partial
   block of fewer than 4 bytes makes the Go subtraction wrap (uint64). *)
Fixpoint crc_offsets_loop (fuel : nat) (offset sz : N) : list N :=
  match fuel with
  | O => []
  | S f =>
    if sz =? 0 then []
    else if ss_block_size + ss_checksum_size <=? sz
    then (offset + ss_block_size) :: crc_offsets_loop f (offset + ss_block_size + ss_checksum_size)
                                                      (sz - (ss_block_size + ss_checksum_size))
    else [(offset + sz + 2 ^ 64 - ss_checksum_size) mod 2 ^ 64]
  end.

Definition crc_offsets (file_size : N) : option (list N) :=
  if file_size <=? ss_tail_size + rsm_header_size then None   (* "invalid file size" *)
  else let sz := file_size - ss_tail_size - rsm_header_size in
       Some (crc_offsets_loop (S (N.to_nat (sz / (ss_block_size + ss_checksum_size)))) rsm_header_size sz).

(* f.ReadAt(buf[4], off): all four bytes or an error *)
Definition read_at4 (file : bytes) (off : N) : option bytes :=
  if off + 4 <=? nlen file then Some (firstn 4 (skipn (N.to_nat off) file)) else None.

Fixpoint read_crcs (file : bytes) (offs : list N) : option bytes :=
  match offs with
  | [] => Some []
  | o :: r =>
    match read_at4 file o, read_crcs file r with
    | Some c, Some rest => Some (c ++ rest)
    | _, _ => None
    end
  end.

Inductive checksum_result := CkOk (sum : bytes) | CkBadSize | CkReadErr.

(* the file is given whole; its header is taken to be a valid v2 header with the
   default checksum type CRC32IEEE (what the exporter writes; header parsing
   and validation belong to C14). h.Sum(nil) of crc32 = 4 bytes big endian. *)
Definition payload_checksum (file : bytes) : checksum_result :=
  match crc_offsets (nlen file) with
  | None => CkBadSize
  | Some offs =>
    match read_crcs file offs with
    | None => CkReadErr
    | Some crcs => CkOk (be 4 (crc32 crcs))
    end
  end.

Inductive complete_result := ImageComplete | ImageIncomplete | ImageErr.

Definition is_complete_image (file : bytes) (recorded : bytes) : complete_result :=
  match payload_checksum file with
  | CkOk sum => if bytes_eqb sum recorded then ImageComplete else ImageIncomplete
  | _ => ImageErr
  end.

(* ================================================================== *)
(* paths                                                                *)

Definition slash : N := 47.

Fixpoint strip_trailing_slashes_rev (r : bytes) : bytes :=
  match r with
  | x :: r' => if x =? slash then strip_trailing_slashes_rev r' else r
  | [] => []
  end.
Fixpoint take_until_slash (r : bytes) : bytes :=
  match r with
  | x :: r' => if x =? slash then [] else x :: take_until_slash r'
  | [] => []
  end.
(* filepath.Base (unix) *)
Definition path_base (p : bytes) : bytes :=
  match p with
  | [] => [46]
  | _ => match strip_trailing_slashes_rev (rev p) with
         | [] => [slash]
         | r => rev (take_until_slash r)
         end
  end.
(* filepath.Join dir name for a clean [dir] (not "/", not empty) and a plain
   file name (what path_base returns for a path that is not empty, not all
   slashes and does not end in "." or ".."); the generators keep to these *)
Definition path_join (dir name : bytes) : bytes := dir ++ [slash] ++ name.

(* ================================================================== *)
(* hasAllExternalFiles: every external file of the record is in srcDir, is
   not a directory and has the recorded size                            *)

Definition ext_file_present (entries : list dirent) (f : sfile) : bool :=
  existsb (fun e => bytes_eqb (de_name e) (path_base (sf_path f)) && negb (de_isdir e) &&
                    (de_size e =? sf_size f)) entries.

Definition has_all_external_files (files : list sfile) (entries : list dirent) : bool :=
  forallb (ext_file_present entries) files.

(* ================================================================== *)
(* getProcessedSnapshotRecord                                           *)

Definition not_listed (members : amap) (ids : list N) : list N :=
  filter (fun id => negb (amem id members)) ids.

Definition processed_removed (old : membership) (members : amap) : nset :=
  sadd_all (m_removed old)
    (sadd_all (not_listed members (akeys (m_witnesses old)))
      (sadd_all (not_listed members (akeys (m_nonvotings old)))
        (sadd_all (not_listed members (akeys (m_addresses old))) []))).

Definition processed_membership (old : snapshot) (members : amap) : membership :=
  mkM (if processed_ccid_is_index then s_index old else m_ccid (s_membership old))
      (mnorm members) [] []
      (processed_removed (s_membership old) members).

Definition get_processed (dst : bytes) (old : snapshot) (members : amap) : snapshot :=
  mkSS (path_join dst (path_base (s_filepath old)))
       (s_filesize old) (s_index old) (s_term old)
       (processed_membership old members)
       (* old.Files holds pointers: the loop rewrites the paths in place *)
       (map (fun f => mkSF (path_join dst (path_base (sf_path f))) (sf_size f) (sf_id f) (sf_meta f)) (s_files old))
       (s_checksum old) (s_dummy old) (s_shard old) (s_type old)
       processed_imported_flag
       0       (* OnDiskIndex is not copied *)
       false.  (* Witness is not copied *)

(* ================================================================== *)
(* the steps of ImportSnapshot                                          *)

Inductive op :=
| OCheckSettings      (* checkImportSettings *)
| OLocate             (* getSnapshotFilepath *)
| OReadMeta           (* getSnapshotRecord *)
| OCheckComplete      (* isCompleteSnapshotImage *)
| OCheckExtFiles      (* hasAllExternalFiles *)
| OCheckMembers       (* checkMembers *)
| ONewEnv             (* server.NewEnv: computes directory names, reads the host name *)
| OCreateNodeHostDir  (* env.CreateNodeHostDir: MkdirAll *)
| OOpenLogDB          (* getLogDB: opens (and thereby writes to) the log store *)
| OCheckNodeHostDir   (* env.CheckNodeHostDir: creates the flag file when missing *)
| OCleanup            (* cleanupSnapshotDir: removes every snapshot directory of the replica *)
| OCreateSSDir        (* env.CreateSnapshotDir *)
| OCreateTemp         (* ssEnv.CreateTempDir *)
| OProcess            (* getProcessedSnapshotRecord (pure) *)
| OCopy               (* copySnapshot *)
| OFinalize           (* ssEnv.FinalizeSnapshot: flag file + rename *)
| OLogDBImport.       (* logdb.ImportSnapshot *)

Definition op_code (o : op) : N :=
  match o with
  | OCheckSettings => 0 | OLocate => 1 | OReadMeta => 2 | OCheckComplete => 3
  | OCheckMembers => 4 | ONewEnv => 5 | OCreateNodeHostDir => 6 | OOpenLogDB => 7
  | OCheckNodeHostDir => 8 | OCleanup => 9 | OCreateSSDir => 10 | OCreateTemp => 11
  | OProcess => 12 | OCopy => 13 | OFinalize => 14 | OLogDBImport => 15
  | OCheckExtFiles => 16
  end.
Definition op_eqb (a b : op) : bool := op_code a =? op_code b.

(* does the step write to the target NodeHost directory / log store? *)
Definition mutating (o : op) : bool :=
  match o with
  | OCreateNodeHostDir | OOpenLogDB | OCheckNodeHostDir | OCleanup | OCreateSSDir
  | OCreateTemp | OCopy | OFinalize | OLogDBImport => true
  | _ => false
  end.

(* position of the call in the body of ImportSnapshot / its error is returned *)
Definition op_pos (o : op) : N :=
  match o with
  | OCheckSettings => pos_checkImportSettings | OLocate => pos_getSnapshotFilepath
  | OReadMeta => pos_getSnapshotRecord | OCheckComplete => pos_isCompleteSnapshotImage
  | OCheckExtFiles => pos_hasAllExternalFiles
  | OCheckMembers => pos_checkMembers | ONewEnv => pos_NewEnv
  | OCreateNodeHostDir => pos_CreateNodeHostDir | OOpenLogDB => pos_getLogDB
  | OCheckNodeHostDir => pos_CheckNodeHostDir | OCleanup => pos_cleanupSnapshotDir
  | OCreateSSDir => pos_CreateSnapshotDir | OCreateTemp => pos_CreateTempDir
  | OProcess => pos_getProcessedSnapshotRecord | OCopy => pos_copySnapshot
  | OFinalize => pos_FinalizeSnapshot | OLogDBImport => pos_ImportSnapshot
  end.
Definition op_guard (o : op) : bool :=
  match o with
  | OCheckSettings => guard_checkImportSettings | OLocate => guard_getSnapshotFilepath
  | OReadMeta => guard_getSnapshotRecord | OCheckComplete => guard_isCompleteSnapshotImage
  | OCheckExtFiles => guard_hasAllExternalFiles
  | OCheckMembers => guard_checkMembers | ONewEnv => guard_NewEnv
  | OCreateNodeHostDir => guard_CreateNodeHostDir | OOpenLogDB => guard_getLogDB
  | OCheckNodeHostDir => guard_CheckNodeHostDir | OCleanup => guard_cleanupSnapshotDir
  | OCreateSSDir => guard_CreateSnapshotDir | OCreateTemp => guard_CreateTempDir
  | OProcess => guard_getProcessedSnapshotRecord | OCopy => guard_copySnapshot
  | OFinalize => guard_FinalizeSnapshot | OLogDBImport => guard_ImportSnapshot
  end.

Definition all_ops : list op :=
  [OCheckSettings; OLocate; OReadMeta; OCheckComplete; OCheckExtFiles; OCheckMembers; ONewEnv;
   OCreateNodeHostDir; OOpenLogDB; OCheckNodeHostDir; OCleanup; OCreateSSDir;
   OCreateTemp; OProcess; OCopy; OFinalize; OLogDBImport].

Fixpoint insert_by_pos (o : op) (l : list op) : list op :=
  match l with
  | [] => [o]
  | x :: r => if op_pos o <? op_pos x then o :: l else x :: insert_by_pos o r
  end.
(* the program: the steps in the order in which the source calls them *)
Definition import_prog : list op := fold_right insert_by_pos [] all_ops.

(* what ImportSnapshot is called with / finds *)
Inductive meta_result :=
| MetaOk (ss : snapshot)
| MetaErr      (* the metadata file cannot be opened / read *)
| MetaPanic.   (* GetFlagFileContent: too short or its hash does not match *)

Record input := mkIn {
  in_raft_address : addr;          (* nhConfig.RaftAddress *)
  in_members : amap;               (* memberNodes *)
  in_replica : N;                  (* replicaID *)
  in_src_exists : bool;            (* srcDir exists *)
  in_entries : list dirent;        (* listing of srcDir *)
  in_meta : meta_result;           (* srcDir/snapshot.metadata *)
  in_file : bytes;                 (* the snapshot file found by OLocate *)
  in_ssdir_exists : bool;          (* the replica's snapshot directory already exists *)
  in_final_dir : bytes;            (* ssEnv.GetFinalDir() *)
  in_env_fail : list op            (* oracle: steps whose I/O fails *)
}.

Inductive refusal :=
| RInvalidMembers (v : settings_verdict)   (* ErrInvalidMembers *)
| RPathNotExist                            (* ErrPathNotExist *)
| RIncompleteFiles                         (* ErrIncompleteSnapshot: not exactly one snapshot file *)
| RMetaErr
| RMetaPanic
| RImageErr                                (* GetV2PayloadChecksum failed *)
| RIncompleteImage                         (* ErrIncompleteSnapshot: checksum differs *)
| RIncompleteExt                           (* ErrIncompleteSnapshot: an external file is missing / has another size *)
| RMembers (e : member_err)
| REnv (o : op)                            (* an I/O error of step o *)
| RBadProgram.                             (* a step ran before the step that provides its argument *)

Inductive outcome :=
| Imported (ss : snapshot)   (* logdb.ImportSnapshot(ss, replicaID) returned nil *)
| Refused (r : refusal)
| Fell.                      (* ran off the end of the program without the final step: never for import_prog *)

Record state := mkSt {
  st_trace : list op;            (* executed steps, most recent first *)
  st_old : option snapshot;      (* oldss *)
  st_processed : option snapshot (* ss *)
}.

Definition env_fails (inp : input) (o : op) : bool := existsb (op_eqb o) (in_env_fail inp).

Definition push (o : op) (st : state) : state := mkSt (o :: st_trace st) (st_old st) (st_processed st).

(* one step: new state, refusal if the step fails; [None] state = the step is
   not executed on this path (the two branches of `if exist`) *)
Definition exec_op (inp : input) (st : state) (o : op) : state * option refusal :=
  let st1 := push o st in
  let env := if env_fails inp o then Some (REnv o) else None in
  match o with
  | OCheckSettings =>
    match check_import_settings (in_raft_address inp) (in_members inp) (in_replica inp) with
    | SettingsOk => (st1, None)
    | v => (st1, Some (RInvalidMembers v))
    end
  | OLocate =>
    match locate_snapshot_file (in_src_exists inp) (in_entries inp) with
    | LocOk _ => (st1, env)
    | LocPathNotExist => (st1, Some RPathNotExist)
    | LocIncomplete => (st1, Some RIncompleteFiles)
    end
  | OReadMeta =>
    match in_meta inp with
    | MetaOk ss => (mkSt (st_trace st1) (Some ss) (st_processed st1), None)
    | MetaErr => (st1, Some RMetaErr)
    | MetaPanic => (st1, Some RMetaPanic)
    end
  | OCheckComplete =>
    match st_old st with
    | None => (st1, Some RBadProgram)
    | Some old =>
      match is_complete_image (in_file inp) (s_checksum old) with
      | ImageComplete => (st1, None)
      | ImageIncomplete => (st1, Some RIncompleteImage)
      | ImageErr => (st1, Some RImageErr)
      end
    end
  | OCheckExtFiles =>
    match st_old st with
    | None => (st1, Some RBadProgram)
    | Some old =>
      if has_all_external_files (s_files old) (in_entries inp) then (st1, env)
      else (st1, Some RIncompleteExt)
    end
  | OCheckMembers =>
    match st_old st with
    | None => (st1, Some RBadProgram)
    | Some old =>
      match check_members (s_membership old) (in_members inp) with
      | None => (st1, None)
      | Some e => (st1, Some (RMembers e))
      end
    end
  | OCleanup =>
    if eqb (in_ssdir_exists inp) cleanup_when_dir_exists then (st1, env) else (st, None)
  | OCreateSSDir =>
    if eqb (in_ssdir_exists inp) cleanup_when_dir_exists then (st, None) else (st1, env)
  | OProcess =>
    match st_old st with
    | None => (st1, Some RBadProgram)
    | Some old => (mkSt (st_trace st1) (st_old st1)
                        (Some (get_processed (in_final_dir inp) old (in_members inp))), None)
    end
  | OFinalize | OLogDBImport =>
    match st_processed st with
    | None => (st1, Some RBadProgram)
    | Some _ => (st1, env)
    end
  | ONewEnv | OCreateNodeHostDir | OOpenLogDB | OCheckNodeHostDir | OCreateTemp | OCopy => (st1, env)
  end.

Fixpoint run_ops (inp : input) (st : state) (prog : list op) : state * outcome :=
  match prog with
  | [] => (st, Fell)
  | o :: r =>
    match exec_op inp st o with
    | (st', Some rf) => if op_guard o then (st', Refused rf) else run_ops inp st' r
    | (st', None) =>
      match o, st_processed st' with
      | OLogDBImport, Some ss => (st', Imported ss)
      | _, _ => run_ops inp st' r
      end
    end
  end.

Definition init_state : state := mkSt [] None None.

(* executed steps in execution order, and the result of ImportSnapshot *)
Definition import_run (inp : input) : list op * outcome :=
  let (st, out) := run_ops inp init_state import_prog in (rev (st_trace st), out).

(* ================================================================== *)
(* crash points: what the executed steps leave on the host.  The replica's
   snapshot directory holds its older images, possibly a temporary directory
   being filled and possibly the finalised directory of the imported image; the
   log store either records the imported snapshot or it does not.  A power
   failure after any number of steps leaves [host_after (firstn k trace)]
   (copy = partial content of the temporary directory; FinalizeSnapshot = flag
   file + atomic rename, refused when the final directory exists;
   logdb.ImportSnapshot = one atomic write).                            *)

Record hstate := mkH {
  h_old_images : bool;       (* snapshot directories of the replica's own snapshots *)
  h_temp : bool;             (* the temporary directory exists *)
  h_temp_complete : bool;    (* ... and holds the complete image *)
  h_final : bool;            (* the finalised directory of the imported image (complete, flagged) *)
  h_record_imported : bool   (* the log store records the imported snapshot *)
}.

Definition host_step (st : hstate) (o : op) : hstate :=
  match o with
  | OCleanup => mkH false false false false (h_record_imported st)
  | OCreateTemp => mkH (h_old_images st) true false (h_final st) (h_record_imported st)
  | OCopy => mkH (h_old_images st) (h_temp st) (h_temp st) (h_final st) (h_record_imported st)
  | OFinalize =>
    if h_temp st && h_temp_complete st && negb (h_final st)
    then mkH (h_old_images st) false false true (h_record_imported st)
    else st
  | OLogDBImport => mkH (h_old_images st) (h_temp st) (h_temp_complete st) (h_final st) true
  | _ => st
  end.

Definition host_after (tr : list op) (st : hstate) : hstate := fold_left host_step tr st.

(* the steps of a run in which every check passes and no I/O fails *)
Definition success_trace (ssdir_exists : bool) : list op :=
  [OCheckSettings; OLocate; OReadMeta; OCheckComplete; OCheckExtFiles; OCheckMembers; ONewEnv;
   OCreateNodeHostDir; OOpenLogDB; OCheckNodeHostDir;
   if ssdir_exists then OCleanup else OCreateSSDir;
   OCreateTemp; OProcess; OCopy; OFinalize; OLogDBImport].

(* a half imported host: the log store names the imported image, the image is not there *)
Definition half_imported (st : hstate) : bool := h_record_imported st && negb (h_final st).

(* ================================================================== *)
(* the log store                                                        *)

Record hardstate := mkHS { hs_term : N; hs_vote : N; hs_commit : N }.
Record bootstrap := mkBS { bs_join : bool; bs_type : N; bs_addresses : amap }.

(* the records of one (shard, replica) in the key-value log store; snapshot
   records are keyed by index (sorted, unique); entries as (index, term) *)
Record logstore := mkLS {
  ls_state : option hardstate;
  ls_bootstrap : option bootstrap;
  ls_maxindex : option N;
  ls_snapshots : list snapshot;
  ls_entries : list (N * N)
}.

Inductive key := KState | KBootstrap | KMaxIndex | KSnapshot (i : N).
Inductive wop :=
| WDelete (k : key)
| WPutState (h : hardstate)
| WPutBootstrap (b : bootstrap)
| WPutMaxIndex (i : N)
| WPutSnapshot (s : snapshot).

Definition snap_delete (i : N) (l : list snapshot) : list snapshot :=
  filter (fun s => negb (s_index s =? i)) l.
Fixpoint snap_put (s : snapshot) (l : list snapshot) : list snapshot :=
  match l with
  | [] => [s]
  | x :: r =>
    if s_index s <? s_index x then s :: l
    else if s_index s =? s_index x then s :: r
    else x :: snap_put s r
  end.

Definition apply_wop (ls : logstore) (w : wop) : logstore :=
  match w with
  | WDelete KState => mkLS None (ls_bootstrap ls) (ls_maxindex ls) (ls_snapshots ls) (ls_entries ls)
  | WDelete KBootstrap => mkLS (ls_state ls) None (ls_maxindex ls) (ls_snapshots ls) (ls_entries ls)
  | WDelete KMaxIndex => mkLS (ls_state ls) (ls_bootstrap ls) None (ls_snapshots ls) (ls_entries ls)
  | WDelete (KSnapshot i) =>
    mkLS (ls_state ls) (ls_bootstrap ls) (ls_maxindex ls) (snap_delete i (ls_snapshots ls)) (ls_entries ls)
  | WPutState h => mkLS (Some h) (ls_bootstrap ls) (ls_maxindex ls) (ls_snapshots ls) (ls_entries ls)
  | WPutBootstrap b => mkLS (ls_state ls) (Some b) (ls_maxindex ls) (ls_snapshots ls) (ls_entries ls)
  | WPutMaxIndex i => mkLS (ls_state ls) (ls_bootstrap ls) (Some i) (ls_snapshots ls) (ls_entries ls)
  | WPutSnapshot s =>
    mkLS (ls_state ls) (ls_bootstrap ls) (ls_maxindex ls) (snap_put s (ls_snapshots ls)) (ls_entries ls)
  end.

(* a write batch is applied atomically, in order *)
Definition apply_wb (wb : list wop) (ls : logstore) : logstore := fold_left apply_wop wb ls.

(* db.saveSnapshot: records older than the new one (as listed from the store,
   not from the batch) are deleted, then the record is put *)
Definition save_snapshot_wb (ls : logstore) (ss : snapshot) : list wop :=
  if s_index ss =? 0 then []   (* pb.IsEmptySnapshot *)
  else map (fun c => WDelete (KSnapshot (s_index c)))
           (filter (fun c => s_index c <? s_index ss) (ls_snapshots ls))
       ++ [WPutSnapshot ss].

(* db.importSnapshot (Pebble-backed sharded log store): the write batch *)
Definition import_wb (ls : logstore) (ss : snapshot) : list wop :=
  let selected := filter (fun c => s_index ss <=? s_index c) (ls_snapshots ls) in
  (* saveRemoveNodeData *)
  [WDelete KState; WDelete KBootstrap; WDelete KMaxIndex]
  ++ map (fun c => WDelete (KSnapshot (s_index c))) selected
  (* saveBootstrap, saveStateAllocs *)
  ++ [WPutBootstrap (mkBS logdb_bootstrap_join (s_type ss) []);
      WPutState (if logdb_state_is_term_commit_index then mkHS (s_term ss) 0 (s_index ss) else mkHS 0 0 0)]
  ++ save_snapshot_wb ls ss
  ++ [WPutMaxIndex (s_index ss)].

Inductive logdb_result := LOk (ls : logstore) | LPanic.

Definition logdb_import (ls : logstore) (ss : snapshot) : logdb_result :=
  if s_type ss =? sm_unknown then LPanic   (* "Unknown state machine type" *)
  else LOk (apply_wb (import_wb ls ss) ls).

(* tan: saveBootstrap, then installSnapshot = removeAll (a new log file, every
   older file deleted) + one update carrying State{Commit, Term} and the snapshot *)
Definition tan_import (ls : logstore) (ss : snapshot) : logstore :=
  mkLS (Some (mkHS (s_term ss) 0 (s_index ss)))
       (Some (mkBS tan_bootstrap_join (s_type ss) []))
       (Some (s_index ss))
       (if s_index ss =? 0 then [] else [ss])
       [].

(* ---- what a restarting replica reads (raftio.ILogDB) ---- *)
(* GetSnapshot: the record with the largest index *)
Definition ls_get_snapshot (ls : logstore) : option snapshot := last (map Some (ls_snapshots ls)) None.
(* entries visible to IterateEntries / ReadRaftState above [lo]: bounded by the max index *)
Definition ls_visible_entries (ls : logstore) (lo : N) : list (N * N) :=
  match ls_maxindex ls with
  | None => []
  | Some mx => filter (fun e => (lo <? fst e) && (fst e <=? mx)) (ls_entries ls)
  end.

(* ================================================================== *)
(* restart: StateMachine.doRecover on the record found in the log store
   (internal/rsm/statemachine.go). [shrunk] = the result of isShrunkSnapshot
   (disk I/O), [last_applied] = GetLastApplied(), [ondisk_init] / [ondisk] =
   s.onDiskInitIndex / s.onDiskIndex (what the on-disk state machine's Open
   returned). snapshotter.Load = "state := the image" is C08 / C14.     *)

Inductive recover_outcome :=
| RcLoaded      (* snapshotter.Load ran: the state machine holds the image's state *)
| RcSkipped     (* nothing loaded *)
| RcOutOfDate   (* raft.ErrSnapshotOutOfDate *)
| RcPanic.

Definition recover_required (ss : snapshot) (init : bool) (ondisk_init ondisk : N) : bool :=
  if init then
    if recover_required_imported_first && s_imported ss then true
    else ondisk_init <? s_ondisk ss
  else ondisk <? s_ondisk ss.

(* checkRecoverOnDiskSM: false = panics *)
Definition check_recover_on_disk (ss : snapshot) (init : bool) (ondisk_init ondisk : N) : bool :=
  if check_recover_exempts_imported && s_imported ss && init then true
  else negb (s_ondisk ss <=? ondisk_init) && negb (s_ondisk ss <=? ondisk).

(* checkPartialSnapshotApplyOnDiskSM: false = panics *)
Definition check_partial_on_disk (ss : snapshot) (init : bool) (ondisk_init ondisk : N) : bool :=
  if init then negb (ondisk_init <? s_ondisk ss) else negb (ondisk <? s_ondisk ss).

(* isShrunkSnapshot: [image_shrunk] = snapshotter.Shrunk(ss), i.e. the image on
   disk is the shrunk (empty) one an on-disk state machine leaves behind after
   it has recovered from a snapshot and synced *)
Definition is_shrunk_snapshot (on_disk_sm image_shrunk : bool) (ss : snapshot) : bool :=
  if negb on_disk_sm then false
  else if s_witness ss || s_dummy ss then false
  else if shrunk_check_inspects_imported then image_shrunk
  else false.  (* some records are not inspected: taken as not shrunk *)

Definition do_recover (on_disk_sm shrunk : bool) (last_applied ondisk_init ondisk : N)
           (ss : snapshot) (init : bool) : recover_outcome :=
  if s_index ss <=? last_applied then RcOutOfDate
  else if s_witness ss || s_dummy ss || shrunk then
    if on_disk_sm && negb (check_partial_on_disk ss init ondisk_init ondisk) then RcPanic else RcSkipped
  else if negb on_disk_sm then RcLoaded
  else if recover_required ss init ondisk_init ondisk then
    if check_recover_on_disk ss init ondisk_init ondisk then RcLoaded else RcPanic
  else RcSkipped.

(* one start of a repaired replica: what happens to the record in the log store *)
Definition restart_recover (on_disk_sm image_shrunk : bool) (ondisk_init : N) (ss : snapshot) : recover_outcome :=
  do_recover on_disk_sm (is_shrunk_snapshot on_disk_sm image_shrunk ss) 0 ondisk_init ondisk_init ss true.

(* ================================================================== *)
(* observations for the differential check                              *)

Definition observe_membership (m : membership) : membership :=
  mkM (m_ccid m) (mnorm (m_addresses m)) (mnorm (m_nonvotings m)) (mnorm (m_witnesses m))
      (sadd_all (m_removed m) []).

(* the history operations the log store harness applies before the import *)
Inductive lsop :=
| LSaveState (h : hardstate)
| LSaveSnapshot (s : snapshot)            (* ILogDB.SaveSnapshots, index above every record saved before *)
| LSaveEntries (first count term : N)     (* contiguous entries first .. first+count-1 *)
| LSaveBootstrap (b : bootstrap)
| LCompact (upto : N).                    (* ILogDB.RemoveEntriesTo: log compaction *)

Fixpoint mk_entries (fuel : nat) (first term : N) : list (N * N) :=
  match fuel with
  | O => []
  | S f => (first, term) :: mk_entries f (first + 1) term
  end.

Definition max_opt (a : option N) (b : N) : option N :=
  match a with None => Some b | Some x => Some (N.max x b) end.

Definition apply_lsop (ls : logstore) (o : lsop) : logstore :=
  match o with
  | LSaveState h => apply_wop ls (WPutState h)
  | LSaveSnapshot s => apply_wb (save_snapshot_wb ls s) ls
  | LSaveEntries first count term =>
    if count =? 0 then ls else
    let keep := filter (fun e => fst e <? first) (ls_entries ls) in
    mkLS (ls_state ls) (ls_bootstrap ls) (Some (first + count - 1)) (ls_snapshots ls)
         (keep ++ mk_entries (N.to_nat count) first term)
  | LSaveBootstrap b => apply_wop ls (WPutBootstrap b)
  | LCompact upto =>
    (* Pebble: the entries up to [upto] are deleted *)
    mkLS (ls_state ls) (ls_bootstrap ls) (ls_maxindex ls) (ls_snapshots ls)
         (filter (fun e => upto <? fst e) (ls_entries ls))
  end.

(* Tan keeps, per replica, a compaction point in its index: entries at or below
   it are never returned. nodeIndex.removeAll (ImportSnapshot) forgets it. *)
Record tstore := mkTS { ts_ls : logstore; ts_compacted : N }.

Definition apply_tsop (t : tstore) (o : lsop) : tstore :=
  match o with
  | LCompact upto => mkTS (ts_ls t) (N.max (ts_compacted t) upto)
  | _ => mkTS (apply_lsop (ts_ls t) o) (ts_compacted t)
  end.

Definition tan_import_t (t : tstore) (ss : snapshot) : tstore :=
  mkTS (tan_import (ts_ls t) ss)
       (if tan_remove_all_resets_compaction then 0 else ts_compacted t).

Definition ts_visible_entries (t : tstore) (lo : N) : list (N * N) :=
  filter (fun e => ts_compacted t <? fst e) (ls_visible_entries (ts_ls t) lo).

Definition empty_tstore : tstore := mkTS (mkLS None None None [] []) 0.

(* ---- where the log store lives: env.GetLogDBDirs / CreateNodeHostDir give
   (data dir, low latency dir); the low latency dir is the data dir unless
   NodeHostConfig.WALDir is set. The tool (tools.getLogDB) and NewNodeHost
   (NodeHost.createLogDB) hand the pair to the LogDB factory. ---- *)
Definition get_logdb_dirs (nhdir waldir : bytes) : bytes * bytes :=
  match waldir with
  | [] => (nhdir, nhdir)
  | _ => (nhdir, waldir)
  end.
Definition tool_store_dirs (nhdir waldir : bytes) : bytes * bytes :=
  let (d, w) := get_logdb_dirs nhdir waldir in
  if getlogdb_passes_wal_dirs then (d, w) else (d, d).
Definition nodehost_store_dirs (nhdir waldir : bytes) : bytes * bytes :=
  let (d, w) := get_logdb_dirs nhdir waldir in
  if nodehost_passes_wal_dirs then (d, w) else (d, d).
Definition same_dirs (a b : bytes * bytes) : bool :=
  bytes_eqb (fst a) (fst b) && bytes_eqb (snd a) (snd b).

Definition empty_logstore : logstore := mkLS None None None [] [].

(* ocaml/common/util.ml needs the extracted type of Z *)
Definition z_of_n (x : N) : Z := Z.of_N x.
