(* C11 — the sequential apply path and the call-log checker. No proofs here.

   Part 1 ([handle_tasks]): rsm.StateMachine.Handle/handle/handleEntry/
   handleBatch restricted to what decides WHICH entries reach the user state
   machine's Update and with which index:
     - tasks are taken from the task queue in FIFO order; a snapshot task is a
       barrier (Handle returns it; the apply worker does nothing else for the
       shard until the snapshot worker is done when it is a recover, or a save
       of a non-concurrent state machine);
     - pb.EntriesToApply drops the prefix of a batch at or below s.index and
       panics on a hole;
     - setApplied panics unless the index is exactly s.index+1 — after the entry was handed
       to Update (it is deferred in update());
     - an update entry at or below onDiskInitIndex (the value returned by Open,
       or the OnDiskIndex of an imported snapshot) is turned into a no-op;
     - session duplicates / unknown sessions / register / unregister / config
       changes / empty entries advance the index without an Update (the session
       rules themselves are C05: here the classification is an input [KSkip]).
   A recover task sets the index to the snapshot's index (StateMachine.apply). A stream task is
   refused while the replica has not caught up with its on-disk state (ReadyToStream);
   otherwise the image is labelled with the current index.

   Part 2 ([calls_ok]): the checker applied to call logs recorded from
   instrumented state machines on a live NodeHost (tie D) — index order,
   exactly-once, the overlap matrix and "nothing after Close". *)
From Coq Require Import NArith List Bool.
From DB Require Import Gen.GenC11 Model.SMThreads.
Import ListNotations.
Open Scope N_scope.

(* ---------------- Part 1 ---------------- *)
Inductive ekind := KUpdate | KSkip.
Record entry := mkEntry { e_index : N; e_kind : ekind; e_payload : N }.

Inductive task :=
| TEntries (l : list entry)
| TSync
| TSave
| TRecover (ss_index : N)
| TStream.

Record astate := mkA {
  a_index : N;           (* StateMachine.index *)
  a_init : N;            (* onDiskInitIndex *)
  a_disk : bool;
  a_calls : list (N * N);(* Update calls (index, payload), most recent first *)
  a_err : N;             (* 0 ok, 1 entry hole, 2 setApplied gap *)
  a_guard : bool;        (* ReadyToStream refuses while applied < onDiskInitIndex (GENERATED fact) *)
  a_streams : list (option (N * N))
                         (* stream tasks, most recent first: refused, or (label = SSMeta.Index,
                            SSMeta.OnDiskIndex = what the streamed image contains) *)
}.

Definition last_index (l : list entry) : N :=
  match rev l with [] => 0 | e :: _ => e_index e end.

(* pb.EntriesToApply(entries, applied, false) *)
Definition entries_to_apply (l : list entry) (applied : N) : option (list entry) :=
  match l with
  | [] => Some []
  | first :: _ =>
    if last_index l <=? applied then Some []
    else if applied + 1 <? e_index first then None
    else Some (skipn (N.to_nat (applied + 1 - e_index first)) l)   (* uint64: applied-first+1, no wrap since first <= applied+1 *)
  end.

Definition handle_entry (st : astate) (e : entry) : astate :=
  if negb (a_err st =? 0) then st
  else
    let deliver :=
      match e_kind e with
      | KUpdate => negb (a_disk st && (e_index e <=? a_init st))
      | KSkip => false
      end in
    let calls := if deliver then (e_index e, e_payload e) :: a_calls st else a_calls st in
    (* setApplied runs (deferred) AFTER the user's Update: on a gap the entry has already been
       handed to the state machine when the apply path panics *)
    if negb (a_index st + 1 =? e_index e) then mkA (a_index st) (a_init st) (a_disk st) calls 2 (a_guard st) (a_streams st)
    else mkA (e_index e) (a_init st) (a_disk st) calls 0 (a_guard st) (a_streams st).

Definition handle_task (st : astate) (t : task) : astate :=
  if negb (a_err st =? 0) then st
  else match t with
  | TEntries l =>
    match entries_to_apply l (a_index st) with
    | None => mkA (a_index st) (a_init st) (a_disk st) (a_calls st) 1 (a_guard st) (a_streams st)
    | Some l' => fold_left handle_entry l' st
    end
  | TSync | TSave => st
  | TRecover ssi =>
    if ssi <=? a_index st then st   (* ErrSnapshotOutOfDate: ignored *)
    else mkA ssi (a_init st) (a_disk st) (a_calls st) 0 (a_guard st) (a_streams st)
  | TStream =>
    (* node.canStream: StateMachine.ReadyToStream(); then StateMachine.stream: the image is taken
       and labelled with (s.index, s.onDiskIndex) under one hold of the mutex *)
    let ready := negb (a_disk st) || negb (a_guard st) || (a_init st <=? a_index st) in
    let od := if a_disk st then N.max (a_init st) (match a_calls st with [] => 0 | c :: _ => fst c end) else 0 in
    mkA (a_index st) (a_init st) (a_disk st) (a_calls st) 0 (a_guard st)
        ((if ready then Some (a_index st, od) else None) :: a_streams st)
  end.

Definition handle_tasks (st : astate) (q : list task) : astate := fold_left handle_task q st.

Definition a_start_g (g : bool) (applied init : N) (disk : bool) : astate := mkA applied init disk [] 0 g [].
Definition a_start (applied init : N) (disk : bool) : astate := a_start_g ready_to_stream_checks_applied applied init disk.
Definition streams_of (st : astate) : list (option (N * N)) := rev (a_streams st).

(* the user-visible call sequence in call order *)
Definition calls_of (st : astate) : list (N * N) := rev (a_calls st).

(* ---------------- Part 2 ---------------- *)
Inductive cev :=
| CEnter (inc : N) (m : meth) (ents : list (N * N))   (* Update: (index, payload) of the batch *)
| CExit (inc : N) (m : meth) (v : N)                  (* Open: returned index; Recover: index stored in the snapshot *)
| CAck (inc : N) (p : N).                              (* the proposal with payload p was acknowledged to its client *)

Record istate := mkI {
  i_active : list meth;
  i_closed : bool;
  i_last : N;
  i_floor : N;
  i_deliv : list (N * N)      (* (payload, index) delivered in this incarnation *)
}.
Definition i_new : istate := mkI [] false 0 0 [].

Record cstate := mkC {
  cs_incs : list (N * istate);
  cs_index_of : list (N * N);   (* payload -> index of its first delivery *)
  cs_acked : list (N * N);      (* (payload, index) acknowledged so far *)
  cs_nupd : N;
  cs_err : N
}.
Definition c_new : cstate := mkC [] [] [] 0 0.

Fixpoint lookupN {A} (k : N) (l : list (N * A)) : option A :=
  match l with
  | [] => None
  | (k', v) :: r => if k =? k' then Some v else lookupN k r
  end.
Fixpoint setN {A} (k : N) (v : A) (l : list (N * A)) : list (N * A) :=
  match l with
  | [] => [(k, v)]
  | (k', v') :: r => if k =? k' then (k, v) :: r else (k', v') :: setN k v r
  end.

Definition is_plain (k : kind) : bool := match k with Plain => true | _ => false end.

(* may two calls be in progress at the same time? (the property's matrix) *)
Definition may_overlap (k : kind) (a b : meth) : bool :=
  if core a && core b then false
  else if meth_eqb a MOpen || meth_eqb b MOpen then false
  else if is_plain k && ((plain_rw a && plain_excl b) || (plain_rw b && plain_excl a)) then false
  else true.

(* may this method be entered after Close was entered? *)
Definition after_close_ok (k : kind) (m : meth) : bool :=
  negb (core m || meth_eqb m MOpen || (is_plain k && plain_rw m)).

Fixpoint remove_one (m : meth) (l : list meth) : list meth :=
  match l with
  | [] => []
  | x :: r => if meth_eqb x m then r else x :: remove_one m r
  end.

Definition get_inc (c : cstate) (inc : N) : istate :=
  match lookupN inc (cs_incs c) with Some i => i | None => i_new end.

(* one Update entry: 5 at or below the floor, 3 index order, 4 duplicate payload,
   8 payload delivered earlier with another index *)
Definition check_entry (acc : istate * list (N * N) * N * N) (e : N * N) : istate * list (N * N) * N * N :=
  match acc with
  | (i, idxof, n, err) =>
    if negb (err =? 0) then acc
    else
      let (idx, p) := e in
      if idx <=? i_floor i then (i, idxof, n, 5)
      else if idx <=? i_last i then (i, idxof, n, 3)
      else match lookupN p (i_deliv i) with
           | Some _ => (i, idxof, n, 4)
           | None =>
             match lookupN p idxof with
             | Some idx' => if idx' =? idx
                            then (mkI (i_active i) (i_closed i) idx (i_floor i) ((p, idx) :: i_deliv i), idxof, n + 1, 0)
                            else (i, idxof, n, 8)
             | None => (mkI (i_active i) (i_closed i) idx (i_floor i) ((p, idx) :: i_deliv i), (p, idx) :: idxof, n + 1, 0)
             end
           end
  end.

Definition cstep (k : kind) (c : cstate) (e : cev) : cstate :=
  if negb (cs_err c =? 0) then c
  else match e with
  | CEnter inc m ents =>
    let i := get_inc c inc in
    if i_closed i && negb (after_close_ok k m) then mkC (cs_incs c) (cs_index_of c) (cs_acked c) (cs_nupd c) 2
    else if negb (forallb (may_overlap k m) (i_active i)) then mkC (cs_incs c) (cs_index_of c) (cs_acked c) (cs_nupd c) 1
    else
      let i1 := mkI (m :: i_active i) (i_closed i || meth_eqb m MClose) (i_last i) (i_floor i) (i_deliv i) in
      match fold_left check_entry (match m with MUpdate => ents | _ => [] end) (i1, cs_index_of c, cs_nupd c, 0) with
      | (i2, idxof, n, err) => mkC (setN inc i2 (cs_incs c)) idxof (cs_acked c) n err
      end
  | CExit inc m v =>
    let i := get_inc c inc in
    let i1 :=
      match m with
      | MOpen | MRecover => mkI (remove_one m (i_active i)) (i_closed i) (N.max (i_last i) v) v (i_deliv i)
      | _ => mkI (remove_one m (i_active i)) (i_closed i) (i_last i) (i_floor i) (i_deliv i)
      end in
    mkC (setN inc i1 (cs_incs c)) (cs_index_of c) (cs_acked c) (cs_nupd c) 0
  | CAck inc p =>
    let i := get_inc c inc in
    match lookupN p (i_deliv i) with
    | None => mkC (cs_incs c) (cs_index_of c) (cs_acked c) (cs_nupd c) 6
    | Some x =>
      if forallb (fun qa => let (q, y) := (qa : N * N) in
                            negb ((i_floor i <? y) && (y <? x))
                            || match lookupN q (i_deliv i) with Some _ => true | None => false end)
                 (cs_acked c)
      then mkC (cs_incs c) (cs_index_of c) ((p, x) :: cs_acked c) (cs_nupd c) 0
      else mkC (cs_incs c) (cs_index_of c) (cs_acked c) (cs_nupd c) 7
    end
  end.

Definition calls_run (k : kind) (l : list cev) : cstate := fold_left (cstep k) l c_new.
(* (error code, number of delivered update entries, number of incarnations) *)
Definition calls_ok (k : kind) (l : list cev) : N * N * N :=
  let c := calls_run k l in (cs_err c, cs_nupd c, N.of_nat (List.length (cs_incs c))).

(* the log an incarnation produces when its Update calls are exactly [calls]
   (one entry per call, each returned before the next) *)
Definition log_of_calls (inc : N) (calls : list (N * N)) : list cev :=
  flat_map (fun ip => [CEnter inc MUpdate [ip]; CExit inc MUpdate 0]) calls.
