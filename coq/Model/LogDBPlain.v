(* Faithful model of one Pebble-backed log db in the PLAIN entry format:
   internal/logdb/db.go + plain.go + cache.go + key.go (one `db` = one shard of ShardedDB;
   the routing of ShardedDB by partition is not modelled).

   INTERFACE (C10 is expected to reuse it):
     cnode / cache             the in-memory cache of cache.go, per replica; part of the state
     pdb := { p_kv; p_cache }  the db
     pdb_init                  empty store
     p_save_raft_state         saveRaftState  : pdb -> list update -> option pdb (None = panic);
                               all Put/Delete of one call go into ONE write batch
                               (save_wb returns it, p_save_raft_state commits it)
     p_save_snapshots          saveSnapshots
     p_remove_entries_to       removeEntriesTo (compact() has no logical effect)
     p_remove_node_data        removeNodeData
     p_import_snapshot         importSnapshot (no cache access, as in the code)
     p_reopen                  close + open: the cache is dropped
     p_iterate / p_read_raft_state / p_get_snapshot   the read side (getSnapshot updates
                               the cache, hence queries return a new pdb)
     plain_step : pdb -> op -> option pdb ; plain_query : pdb -> query -> ranswer * pdb
   Panics of the Go code are explicit outcomes (None / RPanic).
   No proofs in this file. *)
From Coq Require Import List NArith Bool.
From DB Require Import Base.Bytes Gen.GenC09 Model.LogStoreSpec Model.KV.
Import ListNotations.
Open Scope N_scope.

Record cnode := mkC {
  c_state : option hstate;        (* cache.ps *)
  c_max : option N;               (* cache.maxIndex *)
  c_snap : option N;              (* cache.snapshotIndex *)
  c_batch : option (list entry)   (* cache.lastEntryBatch (batched format only) *)
}.
Definition cnode_empty : cnode := mkC None None None None.
Definition cache := nid -> cnode.
Definition cache_empty : cache := fun _ => cnode_empty.
Definition cupd (c : cache) (n : nid) (v : cnode) : cache :=
  fun m => if nid_eqb m n then v else c m.

Record pdb := mkDB { p_kv : kv; p_cache : cache }.
Definition pdb_init : pdb := mkDB [] cache_empty.

(* raw answers of the read side *)
Inductive ranswer :=
| RIter (es : list entry) (size : N)
| RState (st : hstate) (first count : N)
| RNoSavedLog
| RSnap (ss : option snapshot)
| RPanic.

(* cache.go *)
Definition cs_set_state (c : cache) (n : nid) (st : hstate) : cache * bool :=
  match c_state (c n) with
  | Some v => if st_eqb v st then (c, false)
              else (cupd c n (mkC (Some st) (c_max (c n)) (c_snap (c n)) (c_batch (c n))), true)
  | None => (cupd c n (mkC (Some st) (c_max (c n)) (c_snap (c n)) (c_batch (c n))), true)
  end.
Definition cs_try_save_snapshot (c : cache) (n : nid) (idx : N) : cache * bool :=
  match c_snap (c n) with
  | None => (cupd c n (mkC (c_state (c n)) (c_max (c n)) (Some idx) (c_batch (c n))), true)
  | Some v => (c, v <? idx)
  end.
Definition cs_set_snapshot_index (c : cache) (n : nid) (idx : N) : cache :=
  cupd c n (mkC (c_state (c n)) (c_max (c n)) (Some idx) (c_batch (c n))).
Definition cs_set_max_index (c : cache) (n : nid) (idx : N) : cache :=
  cupd c n (mkC (c_state (c n)) (Some idx) (c_snap (c n)) (c_batch (c n))).
Definition cs_remove_node_data (c : cache) (n : nid) : cache :=
  cupd c n (mkC None (c_max (c n)) None None).

(* db.listSnapshots(shard, replica, MaxUint64): all snapshot records of the node, ascending *)
Definition u64max : N := 2 ^ 64 - 1.
Definition list_snapshots (m : kv) (n : nid) : option (list snapshot) :=
  fold_right (fun kv acc =>
      match acc, snd kv with
      | Some l, VSnap ss => Some (ss :: l)
      | _, _ => None
      end) (Some []) (kv_range m (KSnapshot n 0) (KSnapshot n u64max) true).

(* db.saveSnapshot: delete the records with a smaller index, put the new one *)
Definition save_snapshot_wb (m : kv) (n : nid) (ss : snapshot) : option wb :=
  if ss_emptyb ss then Some []
  else match list_snapshots m n with
       | None => None
       | Some l =>
         Some (map (fun old => WDel (KSnapshot n (ss_index old)))
                   (filter (fun old => ss_index old <? ss_index ss) l)
               ++ [WPut (KSnapshot n (ss_index ss)) (VSnap ss)])
       end.

Fixpoint last_index (es : list entry) : N :=
  match es with [] => 0 | [e] => e_index e | _ :: t => last_index t end.
Fixpoint max_entry_index (acc : N) (es : list entry) : N :=
  match es with [] => acc | e :: t => max_entry_index (if acc <? e_index e then e_index e else acc) t end.

(* plainEntries.record *)
Definition plain_record (n : nid) (es : list entry) : wb * N :=
  (map (fun e => WPut (KEntry n (e_index e)) (VEntry e)) es, max_entry_index 0 es).

(* the first loop of saveRaftState for one update: state, snapshot (+ max index) *)
Definition save_head (m : kv) (c : cache) (u : update) : option (cache * wb) :=
  let n := u_node u in
  let '(c1, w1) :=
    if st_emptyb (u_st u) then (c, [])
    else let (c', changed) := cs_set_state c n (u_st u) in
         (c', if changed then [WPut (KState n) (VState (u_st u))] else []) in
  if ss_emptyb (u_ss u) then Some (c1, w1)
  else
    let (c2, ok) := cs_try_save_snapshot c1 n (ss_index (u_ss u)) in
    if ok then
      if negb (match u_ents u with [] => true | _ => false end)
         && (last_index (u_ents u) <? ss_index (u_ss u))
      then None (* plog.Panicf("max index not handled") *)
      else match save_snapshot_wb m n (u_ss u) with
           | None => None
           | Some w2 =>
             Some (cs_set_max_index c2 n (ss_index (u_ss u)),
                   w1 ++ w2 ++ [WPut (KMaxIndex n) (VMax (ss_index (u_ss u)))])
           end
    else Some (c2, w1).

(* the second loop (saveEntries) for one update *)
Definition save_tail (record : nid -> list entry -> wb * N) (c : cache) (u : update) : cache * wb :=
  match u_ents u with
  | [] => (c, [])
  | es =>
    let (w, mi) := record (u_node u) es in
    if 0 <? mi then (cs_set_max_index c (u_node u) mi, w ++ [WPut (KMaxIndex (u_node u)) (VMax mi)])
    else (c, w)
  end.

Fixpoint save_heads (m : kv) (c : cache) (us : list update) : option (cache * wb) :=
  match us with
  | [] => Some (c, [])
  | u :: t =>
    match save_head m c u with
    | None => None
    | Some (c1, w1) =>
      match save_heads m c1 t with
      | None => None
      | Some (c2, w2) => Some (c2, w1 ++ w2)
      end
    end
  end.
Fixpoint save_tails (record : nid -> list entry -> wb * N) (c : cache) (us : list update) : cache * wb :=
  match us with
  | [] => (c, [])
  | u :: t => let (c1, w1) := save_tail record c u in
              let (c2, w2) := save_tails record c1 t in (c2, w1 ++ w2)
  end.

(* saveRaftState: the cache after the call and THE write batch *)
Definition save_wb (d : pdb) (us : list update) : option (cache * wb) :=
  match save_heads (p_kv d) (p_cache d) us with
  | None => None
  | Some (c1, w1) => let (c2, w2) := save_tails plain_record c1 us in Some (c2, w1 ++ w2)
  end.
Definition p_save_raft_state (d : pdb) (us : list update) : option pdb :=
  match save_wb d us with
  | None => None
  | Some (c, w) => Some (mkDB (kv_commit (p_kv d) w) c)
  end.

(* saveSnapshots *)
Fixpoint save_snapshots_wb (m : kv) (c : cache) (us : list update) : option (cache * wb) :=
  match us with
  | [] => Some (c, [])
  | u :: t =>
    if ss_emptyb (u_ss u) then save_snapshots_wb m c t
    else let (c1, ok) := cs_try_save_snapshot c (u_node u) (ss_index (u_ss u)) in
         if ok then
           match save_snapshot_wb m (u_node u) (u_ss u) with
           | None => None
           | Some w1 =>
             match save_snapshots_wb m c1 t with
             | None => None
             | Some (c2, w2) => Some (c2, w1 ++ w2)
             end
           end
         else save_snapshots_wb m c1 t
  end.
Definition p_save_snapshots (d : pdb) (us : list update) : option pdb :=
  match save_snapshots_wb (p_kv d) (p_cache d) us with
  | None => None
  | Some (c, w) => Some (mkDB (kv_commit (p_kv d) w) c)
  end.

(* removeEntriesTo: BulkRemoveEntries [entry key 0, entry key idx) *)
Definition p_remove_entries_to (d : pdb) (n : nid) (idx : N) : pdb :=
  mkDB (kv_del_range (p_kv d) (KEntry n 0) (KEntry n idx)) (p_cache d).

(* removeNodeData *)
Definition remove_node_wb (n : nid) (snaps : list snapshot) : wb :=
  [WDel (KState n); WDel (KBootstrap n); WDel (KMaxIndex n)]
  ++ map (fun ss => WDel (KSnapshot n (ss_index ss))) snaps.
Definition p_remove_node_data (d : pdb) (n : nid) : option pdb :=
  match list_snapshots (p_kv d) n with
  | None => None
  | Some l =>
    let m1 := kv_commit (p_kv d) (remove_node_wb n l) in
    let c1 := cs_remove_node_data (cs_set_max_index (p_cache d) n 0) n in
    Some (p_remove_entries_to (mkDB m1 c1) n u64max)
  end.

(* importSnapshot *)
Definition p_import_snapshot (d : pdb) (n : nid) (ss : snapshot) : option pdb :=
  match list_snapshots (p_kv d) n with
  | None => None
  | Some l =>
    let selected := filter (fun cur => ss_index ss <=? ss_index cur) l in
    let w1 := remove_node_wb n selected
              ++ [WPut (KBootstrap n) VBoot;
                  WPut (KState n) (VState (mkSt (ss_term ss) 0 (ss_index ss)))] in
    match save_snapshot_wb (p_kv d) n ss with
    | None => None
    | Some w2 =>
      Some (mkDB (kv_commit (p_kv d) (w1 ++ w2 ++ [WPut (KMaxIndex n) (VMax (ss_index ss))])) (p_cache d))
    end
  end.

Definition p_reopen (d : pdb) : pdb := mkDB (p_kv d) cache_empty.

(* ---- read side ---- *)

(* db.getMaxIndex: None = ErrNoSavedLog *)
Definition get_max_index (d : pdb) (n : nid) : option (option N) :=
  match c_max (p_cache d n) with
  | Some v => Some (Some v)
  | None =>
    match kv_get (p_kv d) (KMaxIndex n) with
    | None => Some None
    | Some (VMax v) => Some (Some v)
    | Some _ => None (* cannot decode: panic *)
    end
  end.

(* the callback of plainEntries.iterate over the visited bindings *)
Fixpoint plain_scan (l : kv) (expected size maxsz : N) : option (list entry * N) :=
  match l with
  | [] => Some ([], size)
  | (_, VEntry e) :: t =>
    if e_index e =? expected then
      let size' := size + esize e in
      if maxsz <? size' then Some ([e], size')
      else match plain_scan t (expected + 1) size' maxsz with
           | Some (r, sz) => Some (e :: r, sz)
           | None => None
           end
    else Some ([], size)
  | _ :: _ => None
  end.

Definition plain_iterate (m : kv) (n : nid) (maxidx low high maxsz : N) : ranswer :=
  if (low + 1 =? high) && (low <=? maxidx) then
    match kv_get m (KEntry n low) with
    | Some (VEntry e) => RIter [e] (esize e)
    | _ => RPanic (* MustUnmarshal of an empty value *)
    end
  else
    let high' := if maxidx + 1 <? high then maxidx + 1 else high in
    match plain_scan (kv_range m (KEntry n low) (KEntry n high') false) low 0 maxsz with
    | Some (es, sz) => RIter es sz
    | None => RPanic
    end.

Definition p_iterate_with (iter : kv -> nid -> N -> N -> N -> N -> ranswer)
    (d : pdb) (n : nid) (low high maxsz : N) : ranswer :=
  match get_max_index d n with
  | None => RPanic
  | Some None => RIter [] 0
  | Some (Some maxidx) => iter (p_kv d) n maxidx low high maxsz
  end.
Definition p_iterate := p_iterate_with plain_iterate.

(* plainEntries.getRange: Some (first, length) or None = panic *)
Definition plain_get_range (m : kv) (n : nid) (snapidx maxidx : N) : option (N * N) :=
  match kv_range m (KEntry n snapidx) (KEntry n maxidx) true with
  | [] => if negb (maxidx =? 0) then None else Some (0, 0)
  | (_, VEntry e) :: _ =>
    let first := e_index e in
    if first =? 0 then (if negb (maxidx =? 0) then None else Some (0, 0))
    else Some (first, maxidx - first + 1)
  | _ :: _ => None
  end.

Definition get_state (m : kv) (n : nid) : option (option hstate) :=
  match kv_get m (KState n) with
  | None => Some None
  | Some (VState st) => Some (Some st)
  | Some _ => None
  end.

Definition p_read_raft_state_with (get_range : kv -> nid -> N -> N -> option (N * N))
    (d : pdb) (n : nid) (arg : N) : ranswer :=
  let range :=
    match get_max_index d n with
    | None => None
    | Some None => Some (arg, 0)
    | Some (Some maxidx) =>
      if arg =? maxidx then Some (arg, 0) else get_range (p_kv d) n arg maxidx
    end in
  match range with
  | None => RPanic
  | Some (first, count) =>
    match get_state (p_kv d) n with
    | None => RPanic
    | Some None => RNoSavedLog
    | Some (Some st) => RState st first count
    end
  end.
Definition p_read_raft_state := p_read_raft_state_with plain_get_range.

Fixpoint last_opt {A} (l : list A) : option A :=
  match l with [] => None | [a] => Some a | _ :: t => last_opt t end.

(* getSnapshot: the record with the largest index; remembers its index in the cache *)
Definition p_get_snapshot (d : pdb) (n : nid) : ranswer * pdb :=
  match list_snapshots (p_kv d) n with
  | None => (RPanic, d)
  | Some l =>
    match last_opt l with
    | None => (RSnap None, d)
    | Some ss => (RSnap (Some ss), mkDB (p_kv d) (cs_set_snapshot_index (p_cache d) n (ss_index ss)))
    end
  end.

Definition mk_snap_update (n : nid) (ss : snapshot) : update := mkUp n (mkSt 0 0 0) ss [].

Definition plain_step (d : pdb) (o : op) : option pdb :=
  match o with
  | OSave us => p_save_raft_state d us
  | OSnap n ss => p_save_snapshots d [mk_snap_update n ss]
  | ORemTo n idx => Some (p_remove_entries_to d n idx)
  | ORemNode n => p_remove_node_data d n
  | OImport n ss =>
    match p_import_snapshot (p_reopen d) n ss with
    | None => None
    | Some d' => Some (p_reopen d')
    end
  | OReopen => Some (p_reopen d)
  end.

Definition plain_query (d : pdb) (q : query) : ranswer * pdb :=
  match q with
  | QIter n low high maxsz => (p_iterate d n low high maxsz, d)
  | QState n arg => (p_read_raft_state d n arg, d)
  | QSnap n => p_get_snapshot d n
  end.

(* canonical form of a raw answer (what the harness prints for every store kind) *)
Definition canon (q : query) (r : ranswer) : answer :=
  match r with
  | RIter es sz => AIter es sz
  | RNoSavedLog => AState None 0 0
  | RSnap ss => ASnap ss
  | RPanic => APanic
  | RState st first count =>
    match q with
    | QState _ arg =>
      if (0 <? count) && (first <? arg + 1) then
        let cut := arg + 1 - first in
        if count <=? cut then AState (Some st) 0 0 else AState (Some st) (arg + 1) (count - cut)
      else if count =? 0 then AState (Some st) 0 0 else AState (Some st) first count
    | _ => APanic
    end
  end.

(* ---- runs: mutations interleaved with queries (GetSnapshot updates the cache) ---- *)
Inductive pop := PMut (o : op) | PQry (q : query).

Definition plain_pstep (d : option pdb) (p : pop) : option pdb :=
  match d with
  | None => None
  | Some d =>
    match p with
    | PMut o => plain_step d o
    | PQry q => Some (snd (plain_query d q))
    end
  end.
Definition plain_prun (l : list pop) : option pdb := fold_left plain_pstep l (Some pdb_init).
Definition muts (l : list pop) : list op :=
  flat_map (fun p => match p with PMut o => [o] | PQry _ => [] end) l.
Definition plain_observe (d : pdb) (q : query) : answer := canon q (fst (plain_query d q)).
