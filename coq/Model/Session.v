(* Model/Session.v — the client-session table of internal/rsm and the session part
   of StateMachine.handleEntry/update (internal/rsm/statemachine.go).

   INTERFACE (what other models, e.g. C08's RsmApply, may rely on)
   ---------------------------------------------------------------
   Everything is parametric in the user state machine (Section variables):
     S, result : Type            user state, user result (sm.Result)
     sm_update : S -> bytes -> S * result        IStateMachine.Update on an entry's Cmd
     sm_save   : S -> bytes, sm_recover : bytes -> option S      SaveSnapshot / RecoverFromSnapshot
   Data:
     session  = { s_client; s_responded; s_history : list (series * result) }     rsm.Session
     table    = { t_cap; t_list : list session }   head of t_list = most recently used  (rsm.lrusession)
     entry    = { e_client; e_series; e_responded; e_cmd }     the session fields of pb.Entry (not a config change)
     state    = { st_tab : table; st_sm : S }
     outcome  = what StateMachine.handleEntry reports to node.ApplyUpdate (see [outcome])
   Functions:
     empty_table cap, init_state cap s0
     step  : state -> entry -> state * outcome          handleEntry for one non-config-change entry
     run   : state -> list entry -> state * list outcome
     save  : table -> option (saved * table)            lrusession.save (None = its panic), returns the table after the walk
     load  : saved -> option table                      lrusession.load (None = newLRUSession's panic on size 0)
     snapshot : state -> option (snap * state),  restore : snap -> option state
     load_into : table -> saved -> option table, install : state -> snap -> option state
                                                        snapshot installed on a LIVE replica (old table discarded)
   The capacity is a field of the table ([t_cap]); a fresh SessionManager uses the
   generated [lru_max_session_count] (rsm.LRUMaxSessionCount), a loaded one the size
   stored in the snapshot — exactly as the Go code does.

   No proofs in this file (Proofs/Session.v). *)
From DB Require Import Base.Bytes Gen.GenC05.
Open Scope N_scope.

Section Session.
Context {S result : Type}.
Variable sm_update : S -> bytes -> S * result.
Variable sm_save : S -> bytes.
Variable sm_recover : bytes -> option S.

(* ---- rsm.Session (session.go) ------------------------------------------- *)

Record session := mkSession {
  s_client : N;                       (* ClientID *)
  s_responded : N;                    (* RespondedUpTo *)
  s_history : list (N * result)       (* History map[RaftSeriesID]sm.Result; a Go map: order irrelevant, keys unique *)
}.

Definition new_session (c : N) : session := mkSession c 0 [].

Fixpoint hist_get (k : N) (h : list (N * result)) : option result :=
  match h with
  | [] => None
  | (k', r) :: t => if k' =? k then Some r else hist_get k t
  end.

(* delete(s.History, k) *)
Definition hist_del (k : N) (h : list (N * result)) : list (N * result) :=
  filter (fun p => negb (fst p =? k)) h.

(* for k := range s.History { if k <= to { delete } } *)
Definition hist_clear (to : N) (h : list (N * result)) : list (N * result) :=
  filter (fun p => to <? fst p) h.

(* Session.clearTo.  [s.RespondedUpTo+1] cannot wrap where it is evaluated:
   the first test has already established RespondedUpTo < to <= 2^64-1. *)
Definition clear_to (s : session) (to : N) : session :=
  if to <=? s_responded s then s
  else if to =? s_responded s + 1
       then mkSession (s_client s) to (hist_del to (s_history s))
       else mkSession (s_client s) to (hist_clear to (s_history s)).

(* Session.hasResponded *)
Definition has_responded (s : session) (k : N) : bool := k <=? s_responded s.

(* Session.addResponse: panics ("adding a duplicated response") when the key exists *)
Definition add_response (s : session) (k : N) (r : result) : option session :=
  match hist_get k (s_history s) with
  | Some _ => None
  | None => Some (mkSession (s_client s) (s_responded s) ((k, r) :: s_history s))
  end.

(* ---- rsm.lrusession over goutils cache.OrderedCache (lrusession.go) ------ *)

Record table := mkTable {
  t_cap : N;                          (* lrusession.size *)
  t_list : list session               (* the cache's entry list, front (most recently used) first *)
}.

Definition empty_table (cap : N) : table := mkTable cap [].

(* store lookup + unlink: the entry with key c and the list without it *)
Fixpoint lru_find (c : N) (l : list session) : option (session * list session) :=
  match l with
  | [] => None
  | s :: r =>
    if s_client s =? c then Some (s, r)
    else match lru_find c r with
         | Some (x, r') => Some (x, s :: r')
         | None => None
         end
  end.

Fixpoint takeN {A} (n : N) (l : list A) : list A :=
  match l with
  | [] => []
  | x :: r => if n =? 0 then [] else x :: takeN (N.pred n) r
  end.

(* getSessionLocked -> OrderedCache.Get: a hit moves the entry to the front (CacheLRU) *)
Definition lru_get (c : N) (t : table) : option (session * table) :=
  match lru_find c (t_list t) with
  | Some (s, rest) => Some (s, mkTable (t_cap t) (s :: rest))
  | None => None
  end.

(* addSessionLocked -> baseCache.add: existing key = move to front and replace the
   value; otherwise push front and evict from the back while length > size *)
Definition lru_add (s : session) (t : table) : table :=
  match lru_find (s_client s) (t_list t) with
  | Some (_, rest) => mkTable (t_cap t) (s :: rest)
  | None => mkTable (t_cap t) (takeN (t_cap t) (s :: t_list t))
  end.

(* delSession *)
Definition lru_del (c : N) (t : table) : table :=
  match lru_find c (t_list t) with
  | Some (_, rest) => mkTable (t_cap t) rest
  | None => t
  end.

(* lrusession.save: the ids are collected with OrderedDo (from the BACK of the
   list = least recently used first); every session is then fetched again with
   getSessionLocked — which moves it to the front — and written.
   Result: (size, sessions in the order written) and the list after the walk.
   None = panic("bad state"). *)
Definition saved : Type := N * list session.

Fixpoint save_walk (ids : list N) (l : list session) (out : list session)
  : option (list session * list session) :=
  match ids with
  | [] => Some (out, l)
  | c :: ids' =>
    match lru_find c l with
    | Some (s, rest) => save_walk ids' (s :: rest) (out ++ [s])
    | None => None
    end
  end.

Definition save (t : table) : option (saved * table) :=
  match save_walk (map s_client (rev (t_list t))) (t_list t) [] with
  | Some (out, l) => Some ((t_cap t, out), mkTable (t_cap t) l)
  | None => None
  end.

(* lrusession.load: newLRUSession(sz) (panics when sz = 0), then addSessionLocked
   for every session in file order *)
Definition load (sv : saved) : option table :=
  if fst sv =? 0 then None
  else Some (fold_left (fun t s => lru_add s t) (snd sv) (empty_table (fst sv))).

(* lrusession.load as a method of an EXISTING (possibly non-empty) table — the
   case of a snapshot installed on a running replica (StateMachine.Recover on the
   live object). The Go code builds a brand-new cache (newLRUSession(sz)),
   assigns rec.sessions = newRec.sessions and rec.size = sz, and only then adds
   the sessions of the image: nothing of the previous table survives. *)
Definition load_into (t_old : table) (sv : saved) : option table := load sv.

(* ---- SessionManager (sessionmanager.go) + StateMachine.handleEntry/update - *)

Record entry := mkEntry {
  e_client : N;       (* ClientID *)
  e_series : N;       (* SeriesID *)
  e_responded : N;    (* RespondedTo *)
  e_cmd : bytes       (* Cmd (ApplicationEntry: payload = Cmd) *)
}.

Inductive kind := KNoop | KBadUnmanaged | KRegister | KUnregister | KNoopSession | KUpdate.

Definition is_empty (b : bytes) : bool := match b with [] => true | _ => false end.

(* raftpb.Entry.IsSessionManaged / IsEmpty / IsNewSessionRequest /
   IsEndOfSessionRequest / IsNoOPSession, in the order handleEntry and update test them *)
Definition classify (e : entry) : kind :=
  if e_client e =? not_session_managed_client_id then
    (if is_empty (e_cmd e) then KNoop else KBadUnmanaged)
  else if is_empty (e_cmd e) && (e_series e =? series_id_for_register) then KRegister
  else if is_empty (e_cmd e) && (e_series e =? series_id_for_unregister) then KUnregister
  else if e_series e =? noop_series_id then KNoopSession
  else KUpdate.

(* what handleEntry hands to node.ApplyUpdate(entry, result, rejected, ignored, _) *)
Inductive outcome :=
| ONoop                      (* ApplyUpdate(e, {}, false, true): empty non-session entry *)
| OPanic                     (* panic("not session managed, not empty") / internal assertion *)
| ORegistered (c : N)        (* Result{Value: clientID}, rejected = false *)
| ORegisterRejected          (* Result{}, rejected = true: client id already registered *)
| OUnregistered (c : N)      (* Result{Value: clientID}, rejected = false *)
| OUnregisterRejected        (* Result{}, rejected = true: no such session *)
| OApplied (r : result)      (* user Update called, its result reported (and cached when session managed) *)
| OCached (r : result)       (* user Update NOT called, the cached result reported again *)
| ORejected                  (* Result{}, rejected = true: session unknown; user Update not called *)
| OIgnored.                  (* no ApplyUpdate call at all: series id already acknowledged *)

Record state := mkState { st_tab : table; st_sm : S }.

Definition init_state (cap : N) (s0 : S) : state := mkState (empty_table cap) s0.

(* SessionManager.RegisterClientID *)
Definition register (c : N) (t : table) : table * outcome :=
  match lru_get c t with
  | Some (_, t') => (t', ORegisterRejected)
  | None => (lru_add (new_session c) t, ORegistered c)
  end.

(* SessionManager.UnregisterClientID *)
Definition unregister (c : N) (t : table) : table * outcome :=
  match lru_get c t with
  | Some (_, t') => (lru_del c t', OUnregistered c)
  | None => (t, OUnregisterRejected)
  end.

(* replace the front element (the session object just returned by lru_get is
   mutated in place by the Go code) *)
Definition set_front (s : session) (t : table) : table :=
  match t_list t with
  | [] => t
  | _ :: r => mkTable (t_cap t) (s :: r)
  end.

(* StateMachine.update for a session-managed, non-NoOP entry *)
Definition update_session (st : state) (e : entry) : state * outcome :=
  match lru_get (e_client e) (st_tab st) with
  | None => (st, ORejected)
  | Some (s0, t1) =>
    let s1 := clear_to s0 (e_responded e) in            (* UpdateRespondedTo *)
    if has_responded s1 (e_series e) then                (* UpdateRequired: responded *)
      (mkState (set_front s1 t1) (st_sm st), OIgnored)
    else match hist_get (e_series e) (s_history s1) with
         | Some r => (mkState (set_front s1 t1) (st_sm st), OCached r)
         | None =>
           let (sm', r) := sm_update (st_sm st) (e_cmd e) in
           match add_response s1 (e_series e) r with
           | Some s2 => (mkState (set_front s2 t1) sm', OApplied r)
           | None => (mkState (set_front s1 t1) sm', OPanic)
           end
         end
  end.

(* StateMachine.handleEntry for an entry that is not a config change, regular
   (in-memory) user state machine *)
Definition step (st : state) (e : entry) : state * outcome :=
  match classify e with
  | KNoop => (st, ONoop)
  | KBadUnmanaged => (st, OPanic)
  | KRegister =>
    let (t', o) := register (e_client e) (st_tab st) in (mkState t' (st_sm st), o)
  | KUnregister =>
    let (t', o) := unregister (e_client e) (st_tab st) in (mkState t' (st_sm st), o)
  | KNoopSession =>
    let (sm', r) := sm_update (st_sm st) (e_cmd e) in (mkState (st_tab st) sm', OApplied r)
  | KUpdate => update_session st e
  end.

Fixpoint run (st : state) (es : list entry) : state * list outcome :=
  match es with
  | [] => (st, [])
  | e :: r =>
    let (st1, o) := step st e in
    let (st2, os) := run st1 r in
    (st2, o :: os)
  end.

Definition run_state (st : state) (es : list entry) : state := fst (run st es).

(* ---- snapshot of the replicated state machine (sessions first, then user SM) *)

Definition snap : Type := saved * bytes.

(* StateMachine.save -> getSSMeta (SaveSessions) + user SaveSnapshot; returns the
   state after the call (the walk touches the LRU list) *)
Definition snapshot (st : state) : option (snap * state) :=
  match save (st_tab st) with
  | Some (sv, t') => Some ((sv, sm_save (st_sm st)), mkState t' (st_sm st))
  | None => None
  end.

(* snapshotter.Load: LoadSessions, then the user Recover *)
Definition restore (sn : snap) : option state :=
  match load (fst sn) with
  | Some t => match sm_recover (snd sn) with
              | Some s => Some (mkState t s)
              | None => None
              end
  | None => None
  end.

(* StateMachine.Recover on a live replica: snapshotter.Load(ss, s.sessions, s.sm)
   = LoadSessions into the existing session manager, then the user Recover
   (which, by its contract, replaces the user state) *)
Definition install (st_old : state) (sn : snap) : option state :=
  match load_into (st_tab st_old) (fst sn) with
  | Some t => match sm_recover (snd sn) with
              | Some s => Some (mkState t s)
              | None => None
              end
  | None => None
  end.

End Session.

(* ---- an executable user state machine for extraction ---------------------- *)
(* state: a 64-bit accumulator; Update folds the command into it and returns
   (Value := new accumulator, Data := the first two bytes of the command) or one
   of the boundary result shapes below. The
   result depends on the state, so one application too many or too few changes
   every later result. The Go harness implements the same machine. *)

Definition two64 : N := 18446744073709551616.

Definition acc_hash (cmd : bytes) : N :=
  fold_left (fun h b => (h * 257 + b + 1) mod two64) cmd 7.

Definition acc_result : Type := N * bytes.

(* The first command byte selects the SHAPE of the result, so that the boundary
   results are part of the compared domain:
     0xE0  the zero sm.Result (Value 0, nil Data)
     0xE1  Value 0, empty non-nil Data   (same observation as 0xE0: Data is compared as a byte string)
     0xE2  Value <> 0, nil Data
     0xE3  Value 0, non-empty Data
     else  Value = accumulator, Data = first two command bytes
   The accumulator is updated in every case: an application with an empty result
   is still an application. *)
Definition acc_update (s : N) (cmd : bytes) : N * acc_result :=
  let s' := (s * 31 + acc_hash cmd) mod two64 in
  match cmd with
  | b :: _ =>
    if (b =? 224) || (b =? 225) then (s', (0, []))
    else if b =? 226 then (s', (s', []))
    else if b =? 227 then (s', (0, firstn 2 cmd))
    else (s', (s', firstn 2 cmd))
  | [] => (s', (s', []))
  end.

Definition acc_save (s : N) : bytes := le 8 s.
Definition acc_recover (b : bytes) : option N :=
  if N.of_nat (length b) =? 8 then Some (le_dec b) else None.

Definition acc_step := @step N acc_result acc_update.
Definition acc_snapshot := @snapshot N acc_result acc_save.
Definition acc_restore := @restore N acc_result acc_recover.
Definition acc_install := @install N acc_result acc_recover.
Definition acc_init (cap : N) : @state N acc_result := init_state cap 0.
Definition acc_save_table := @save acc_result.
Definition default_cap : N := lru_max_session_count.

(* the shared OCaml helpers (ocaml/common/util.ml) need the extracted type of Z *)
Definition session_unused_z : Z := 0%Z.
