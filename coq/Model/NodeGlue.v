(* R22 - the glue of node.go around the two small state machines of Model/RateQuiesce.v, and the
   outcome classes of requests on a shard under faults.

   1. node level: which events of the step loop (node.handleEvents) are recorded as activity
      by quiesceState, where the rate limiter is polled and where a rate limited proposal is
      refused (entryQueue.paused -> ErrSystemBusy). Every guard the code has is a regenerated
      fact of Gen/GenR22.v (tools/genmodel/facts_r22.go): when the source changes a guard, the
      model changes with it.
   2. shard level: replicas (voter / non-voting / witness) that are up or down, cut off or not,
      their node level states, a known or unknown leader; the rule that decides the outcome
      class of a request (with a connected quorum: Completed; without: Dropped/Timeout; while
      messages are lost: some terminal result) and its effect on the quiesce states.
   No proofs here. *)
From Coq Require Export List NArith Bool.
From DB Require Export Model.RateQuiesce.
From DB Require Import Gen.GenR22.
Export ListNotations.
Open Scope N_scope.

(* ------------------------------------------------------------------ node level *)
Definition memN (x : N) (l : list N) : bool := existsb (N.eqb x) l.
(* node.handleMessage returns done = true: not recorded, not handed to raft *)
Definition handled_by_node (t : N) : bool := memN t node_handled_types.
Definition is_heartbeat_type (t : N) : bool := memN t quiesce_heartbeat_types.
(* node.recordMessage *)
Definition recorded_type (t hint : N) : N :=
  if record_hint_as_read && is_heartbeat_type t && (0 <? hint) then mt_read_index else t.

Record nnode := mkNode {
  n_q : qstate;
  n_rl : rlim;
  n_limited : bool;      (* node.rateLimited *)
  n_paused : bool;       (* entryQueue.paused *)
  n_queue : list N }.    (* sizes of the proposals waiting in incomingProposals *)

Definition node_new (quiesce : bool) (ertt maxmem : N) : nnode :=
  mkNode (q_new quiesce (ertt * node_quiesce_election_factor)) (rl_new maxmem) false false [].

Definition q_do (q : qstate) (o : qop) : qstate := fst (q_step q o).
Definition record_if (b : bool) (q : qstate) (hb : bool) : qstate := if b then q_do q (QRecord hb) else q.
Definition set_q (n : nnode) (q : qstate) : nnode := mkNode q (n_rl n) (n_limited n) (n_paused n) (n_queue n).
Definition set_rl (n : nnode) (r : rlim) : nnode := mkNode (n_q n) r (n_limited n) (n_paused n) (n_queue n).
Definition rl_do (r : rlim) (o : rlop) : rlim := fst (rl_step r o).

Inductive nev :=
| EvTick                        (* LocalTick *)
| EvMsg (t hint : N)            (* a message from another replica *)
| EvRead                        (* handleReadIndex found requests *)
| EvConfigChange                (* handleConfigChange found a request *)
| EvSnapshotReq                 (* handleSnapshot found a request *)
| EvApiPropose (sz : N)         (* NodeHost.Propose -> entryQueue.add *)
| EvProposals                   (* handleProposals: poll the limiter, pause / unpause the queue, hand what was queued to raft *)
| EvAppended (sz : N)           (* a follower appends replicated entries: inMemory.merge *)
| EvApplied (sz : N)            (* entries applied: inMemory.appliedLogTo *)
| EvDrained                     (* everything in the in-memory log has been applied *)
| EvRlTick                      (* a raft tick on which timeForRateLimitCheck holds *)
| EvFollowerReport (id sz : N). (* the leader handles a RateLimit message *)

(* answers: EvTick -> the quiesced tick was used; EvApiPropose -> accepted; EvProposals -> limited *)
Definition node_step (n : nnode) (e : nev) : nnode * option bool :=
  match e with
  | EvTick =>
    let '(q, a) := q_step (n_q n) QTick in
    (set_q n q, if tick_uses_quiesced_tick then a else Some false)
  | EvMsg t hint =>
    if handled_by_node t then
      if (t =? mt_quiesce) && quiesce_message_tries_enter then (set_q n (q_do (n_q n) QTryEnter), None)
      else (n, None)
    else (set_q n (record_if record_before_handle (n_q n) (is_heartbeat_type (recorded_type t hint))), None)
  | EvRead => (set_q n (record_if read_index_records_quiesce (n_q n) false), None)
  | EvConfigChange => (set_q n (record_if config_change_records_quiesce (n_q n) false), None)
  | EvSnapshotReq => (set_q n (record_if snapshot_request_records_quiesce (n_q n) false), None)
  | EvApiPropose sz =>
    if queue_refuses_when_paused && n_paused n then (n, Some false)
    else (mkNode (n_q n) (n_rl n) (n_limited n) (n_paused n) (n_queue n ++ [sz]), Some true)
  | EvProposals =>
    let '(rl1, a) := rl_step (n_rl n) RLimited in
    let lim := match a with Some true => true | _ => false end in
    let rl2 := fold_left (fun r sz => rl_do r (RIncrease sz)) (n_queue n) rl1 in
    let q := match n_queue n with [] => n_q n | _ => record_if proposals_record_quiesce (n_q n) false end in
    (mkNode q rl2 lim (proposals_paused_by_rate_limit && lim) [], Some lim)
  | EvAppended sz => (set_rl n (rl_do (n_rl n) (RIncrease sz)), None)
  | EvApplied sz => (set_rl n (rl_do (n_rl n) (RDecrease sz)), None)
  | EvDrained => (set_rl n (rl_do (n_rl n) (RSet 0)), None)
  | EvRlTick => (set_rl n (rl_do (n_rl n) RTick), None)
  | EvFollowerReport id sz => (set_rl n (rl_do (n_rl n) (RFollower id sz)), None)
  end.

Definition node_do (n : nnode) (e : nev) : nnode := fst (node_step n e).
Definition node_run (n : nnode) (es : list nev) : nnode := fold_left node_do es n.

Definition n_quiesced (n : nnode) : bool := q_quiesced (n_q n).

(* the follower side of the RateLimit report (raft.sendRateLimitMessage): the poll, and the hint
   sent to the leader - the in-memory size when limited, 0 when not *)
Definition follower_report (n : nnode) : nnode * N :=
  let '(rl1, a) := rl_step (n_rl n) RLimited in
  (set_rl n rl1, match a with Some true => rl_size rl1 | _ => 0 end).

(* proposals offered one at a time to a node whose state machine does not apply anything *)
Fixpoint burst_node (fuel : nat) (n : nnode) (sz : N) (busy : bool) : nnode * bool :=
  match fuel with
  | O => (n, busy)
  | S f =>
    let '(n1, a) := node_step n (EvApiPropose sz) in
    burst_node f (node_do n1 EvProposals) sz (busy || match a with Some false => true | _ => false end)
  end.

(* the burst stopped, every state machine resumed: the log drains, the clocks run *)
Definition rl_quiet_ticks : nat := 12.
Definition drain_events : list nev := EvDrained :: repeat EvRlTick rl_quiet_ticks ++ [EvProposals].

(* ------------------------------------------------------------------ shard level *)
Definition k_voter : N := 1.
Definition k_nonvoting : N := 2.
Definition k_witness : N := 3.
Definition k_removed : N := 4.

Record rep := mkRep {
  rp_id : N; rp_kind : N; rp_up : bool; rp_iso : bool; rp_gate : bool;
  rp_applied : N;           (* how much of the shard's log it has applied *)
  rp_node : nnode }.

Record shard := mkShard {
  sh_reps : list rep;
  sh_leader : N;            (* 0: not pinned - some live replica leads or one will be elected by the replicas that tick *)
  sh_loss : bool;
  sh_quiesce : bool; sh_ertt : N; sh_max : N;
  sh_log : N }.             (* completed updates *)

Definition fresh_node (s : shard) : nnode := node_new (sh_quiesce s) (sh_ertt s) (sh_max s).

Definition shard_init (quiesce : bool) (ertt maxmem : N) (voters : nat) : shard :=
  mkShard (map (fun i => mkRep (N.of_nat i) k_voter true false false 0 (node_new quiesce ertt maxmem)) (seq 1 voters))
          0 false quiesce ertt maxmem 0.

Definition set_reps (s : shard) (l : list rep) : shard :=
  mkShard l (sh_leader s) (sh_loss s) (sh_quiesce s) (sh_ertt s) (sh_max s) (sh_log s).
Definition set_leader (s : shard) (l : N) : shard :=
  mkShard (sh_reps s) l (sh_loss s) (sh_quiesce s) (sh_ertt s) (sh_max s) (sh_log s).
Definition set_loss (s : shard) (b : bool) : shard :=
  mkShard (sh_reps s) (sh_leader s) b (sh_quiesce s) (sh_ertt s) (sh_max s) (sh_log s).
Definition set_log (s : shard) (n : N) : shard :=
  mkShard (sh_reps s) (sh_leader s) (sh_loss s) (sh_quiesce s) (sh_ertt s) (sh_max s) n.

Definition find_rep (s : shard) (h : N) : option rep := find (fun r => rp_id r =? h) (sh_reps s).
Definition is_member (r : rep) : bool := (rp_kind r =? k_voter) || (rp_kind r =? k_nonvoting) || (rp_kind r =? k_witness).
Definition is_voting (r : rep) : bool := (rp_kind r =? k_voter) || (rp_kind r =? k_witness).
Definition is_full (r : rep) : bool := rp_kind r =? k_voter.

Definition iso_of (s : shard) (h : N) : bool := match find_rep s h with Some r => rp_iso r | None => false end.
(* the running member replicas host h can exchange messages with (h itself included) *)
Definition in_component (s : shard) (h : N) (r : rep) : bool :=
  rp_up r && is_member r && (if iso_of s h then rp_id r =? h else negb (rp_iso r)).

Definition countb {A} (f : A -> bool) (l : list A) : N := N.of_nat (length (filter f l)).

Definition quorum_at (s : shard) (h : N) : bool :=
  match find_rep s h with
  | Some r0 =>
    rp_up r0 && ((rp_kind r0 =? k_voter) || (rp_kind r0 =? k_nonvoting)) &&
    (countb is_voting (sh_reps s) <? 2 * countb (fun r => in_component s h r && is_voting r) (sh_reps s)) &&
    (0 <? countb (fun r => in_component s h r && is_full r) (sh_reps s))
  | None => false
  end.

Inductive rkind := KP | KR | KCC.
Inductive oclass := OC | OF | OT.

Definition wakes_origin (k : rkind) : bool :=
  match k with
  | KP => proposals_record_quiesce
  | KR => read_index_records_quiesce
  | KCC => config_change_records_quiesce
  end.

Definition leader_live (s : shard) (h : N) : bool :=
  if sh_leader s =? 0 then true
  else match find_rep s (sh_leader s) with Some r => in_component s h r | None => false end.

Definition some_awake_voter (s : shard) (h : N) : bool :=
  existsb (fun r => in_component s h r && is_full r && negb (n_quiesced (rp_node r))) (sh_reps s).

Definition origin_is_voter (s : shard) (h : N) : bool :=
  match find_rep s h with Some r => is_full r | None => false end.

(* a leader can be reached, or one gets elected: by a voter that ticks, or by the origin when the
   request itself wakes it *)
Definition progress_possible (s : shard) (h : N) (k : rkind) : bool :=
  leader_live s h || some_awake_voter s h || (wakes_origin k && origin_is_voter s h).

(* the request-outcome rule *)
Definition request_class (s : shard) (h : N) (k : rkind) : oclass :=
  if sh_loss s then OT
  else if negb (quorum_at s h) then OF
  else if progress_possible s h k then OC else OF.

Definition grace_ticks (s : shard) : nat := N.to_nat (sh_ertt s * node_quiesce_election_factor).

(* what a completed request of kind k issued on host h makes the replica r of its component see *)
Definition path_events (s : shard) (h : N) (k : rkind) (r : rep) : list nev :=
  if rp_id r =? h then
    match k with
    | KP => [EvApiPropose 16; EvProposals; EvMsg mt_replicate 0; EvApplied 16]
    | KR => [EvRead; EvMsg mt_heartbeat 1]
    | KCC => [EvConfigChange; EvMsg mt_replicate 0]
    end
  else
    match k with
    | KR =>
      if rp_id r =? sh_leader s then [EvMsg mt_read_index 0; EvMsg mt_heartbeat_resp 1]
      else if is_voting r then [EvMsg mt_heartbeat 1]
      else (* not part of the confirmation round: the periodic heartbeat of the woken leader,
              counted as activity once the grace period after entering quiesce is over *)
        repeat EvTick (grace_ticks s) ++ [EvMsg mt_heartbeat 0]
    | _ => if rp_id r =? sh_leader s then [EvMsg mt_propose 0; EvMsg mt_replicate 0] else [EvMsg mt_replicate 0]
    end.

Definition map_reps (s : shard) (f : rep -> rep) : shard := set_reps s (map f (sh_reps s)).
Definition set_node (r : rep) (n : nnode) : rep :=
  mkRep (rp_id r) (rp_kind r) (rp_up r) (rp_iso r) (rp_gate r) (rp_applied r) n.
Definition set_applied (r : rep) (a : N) : rep :=
  mkRep (rp_id r) (rp_kind r) (rp_up r) (rp_iso r) (rp_gate r) a (rp_node r).

(* effect of a completed request: the replicas of the component see the messages of its path;
   proposals and membership changes add an update that the replicas of the component apply
   (a gated one only when its gate opens); a leader that was out of reach has been replaced *)
Definition complete_rep (s : shard) (h : N) (k : rkind) (log' : N) (r : rep) : rep :=
  if in_component s h r then
    let r1 := set_node r (node_run (rp_node r) (path_events s h k r)) in
    if rp_gate r then r1 else set_applied r1 log'
  else r.

Definition next_log (s : shard) (k : rkind) : N := match k with KR => sh_log s | _ => sh_log s + 1 end.

Definition complete_request (s : shard) (h : N) (k : rkind) : shard :=
  let s1 := map_reps s (complete_rep s h k (next_log s k)) in
  set_log (if leader_live s h then s1 else set_leader s1 0) (next_log s k).

Definition apply_request (s : shard) (h : N) (k : rkind) : shard * oclass :=
  let c := request_class s h k in
  (match c with OC => complete_request s h k | _ => s end, c).

(* k proposals one after the other; the harness stops at the first that does not complete *)
Fixpoint proposals (fuel : nat) (s : shard) (h : N) : shard * oclass * N :=
  match fuel with
  | O => (s, OC, 0)
  | S f =>
    let '(s1, c) := apply_request s h KP in
    match c with
    | OC => let '(s2, c2, n) := proposals f s1 h in
            match c2 with OC => (s2, OC, n + 1) | _ => (s2, c2, n) end
    | _ => (s1, c, 0)
    end
  end.

(* membership *)
Definition add_rep (s : shard) (id kind : N) : shard :=
  match find_rep s id with
  | Some _ => map_reps s (fun r => if rp_id r =? id then
                mkRep id (if rp_kind r =? k_removed then k_removed else kind) (rp_up r) (rp_iso r) (rp_gate r) (rp_applied r) (rp_node r) else r)
  | None => set_reps s (sh_reps s ++ [mkRep id kind true false false 0 (fresh_node s)])
  end.
Definition del_rep (s : shard) (id : N) : shard :=
  map_reps s (fun r => if rp_id r =? id then mkRep id k_removed false false false (rp_applied r) (rp_node r) else r).

Inductive sop :=
| SP (h : N) (k : nat) | SR (h : N)
| SAdd (via who kind : N) | SDel (via who : N)
| SSnap (h : N) | SXfer (h : N) | SXferQ (h : N) | SBg (h k : N)
| SPart (h : N) | SHeal | SLoss | SStop (h : N) | SStart (h : N) | SWait
| SGate (h : N) (on : bool) | SBurst (h : N) (k : nat) (sz : N) | SDrain
| SQuiesce | SAwake | SFair
| SLag (h : N).   (* an idle period without any request, then: is the replica on host h behind? *)

Inductive oline :=
| LReq (q : bool) (c : oclass) (n : N)
| LSnap (up : bool) | LXfer (ok : bool) | LBg (n : N)
| LBurst (busy lim : bool) | LDrain (lim : bool)
| LQuiesce (q : bool) | LAwake (w : bool) | LFair (c : oclass) | LPlain | LLag (behind : bool).

Definition done1 (c : oclass) : N := match c with OC => 1 | _ => 0 end.

Definition clean_quorum (s : shard) (h : N) : bool := negb (sh_loss s) && quorum_at s h.

Definition wake_component (s : shard) (h : N) : shard :=
  map_reps s (fun r => if in_component s h r then set_node r (node_do (rp_node r) (EvMsg mt_request_vote 0)) else r).

Definition quiesce_ticks (s : shard) : nat :=
  S (N.to_nat (sh_ertt s * node_quiesce_election_factor * quiesce_threshold_factor)).

Definition reachable_member (r : rep) : bool := rp_up r && is_member r && negb (rp_iso r).

Definition all_quiesced (s : shard) : bool :=
  forallb (fun r => negb (reachable_member r) || n_quiesced (rp_node r)) (sh_reps s).
Definition all_awake (s : shard) : bool :=
  forallb (fun r => negb (reachable_member r) || negb (n_quiesced (rp_node r))) (sh_reps s).
Definition any_limited (s : shard) : bool :=
  existsb (fun r => rp_up r && is_member r && n_limited (rp_node r)) (sh_reps s).

Definition heal (s : shard) : shard :=
  set_loss (map_reps s (fun r => mkRep (rp_id r) (rp_kind r) (rp_up r) false (rp_gate r) (rp_applied r) (rp_node r))) false.

Definition first_voter (s : shard) : N :=
  match find (fun r => rp_kind r =? k_voter) (sh_reps s) with Some r => rp_id r | None => 0 end.

(* the fault-free period: network whole, every member runs, every state machine applies *)
Definition fair (s : shard) : shard * oclass :=
  let s1 := heal s in
  let s2 := map_reps s1 (fun r =>
    if is_member r then mkRep (rp_id r) (rp_kind r) true false false (rp_applied r) (if rp_up r then rp_node r else fresh_node s) else r) in
  let '(s3, c, _) := proposals 1 s2 (first_voter s2) in
  (match c with OC => map_reps s3 (fun r => if is_member r then set_applied r (sh_log s3) else r) | _ => s3 end, c).

Definition same_state (s : shard) : bool :=
  forallb (fun r => negb (rp_up r && is_member r) || (rp_applied r =? sh_log s)) (sh_reps s).

(* the burst: proposals offered to host [at] while the state machines behind a gate do not apply.
   Refusals come from the node's own in-memory log when its own state machine is stopped, and on
   the leader from the RateLimit report of a follower whose state machine is stopped. *)
Fixpoint burst_rounds (fuel : nat) (leader follower : nnode) (fid sz : N) (busy : bool) : nnode * nnode * bool :=
  match fuel with
  | O => (leader, follower, busy)
  | S f =>
    let '(l1, b1) := burst_node 8 leader sz false in
    (* what the leader accepted reaches the follower; the leader itself applies it *)
    let accepted := if b1 then 0 else 8 in
    let f1 := node_do (node_do follower (EvAppended (sz * accepted))) EvRlTick in
    let '(f2, hint) := follower_report f1 in
    let f3 := node_do f2 EvProposals in
    let l2 := node_do (node_do (node_do (node_do l1 EvDrained) EvRlTick) (EvFollowerReport fid hint)) EvProposals in
    burst_rounds f l2 f3 fid sz (busy || b1)
  end.

Definition gated_follower (s : shard) (at_ : N) : option rep :=
  find (fun r => in_component s at_ r && rp_gate r && negb (rp_id r =? at_)) (sh_reps s).

Definition burst (s : shard) (at_ : N) (k : nat) (sz : N) : shard * bool :=
  match find_rep s at_ with
  | None => (s, false)
  | Some r0 =>
    if negb (rp_up r0) then (s, false)
    else if rp_gate r0 then
      let '(n1, busy) := burst_node k (rp_node r0) sz false in
      (map_reps s (fun r => if rp_id r =? at_ then set_node r n1 else r), busy)
    else if (sh_leader s =? at_) then
      match gated_follower s at_ with
      | Some g =>
        let '(l1, f1, busy) := burst_rounds (Nat.div k 8) (rp_node r0) (rp_node g) (rp_id g) sz false in
        (map_reps s (fun r => if rp_id r =? at_ then set_node r l1 else if rp_id r =? rp_id g then set_node r f1 else r), busy)
      | None => (s, false)
      end
    else (s, false)
  end.

(* every running member: drained, quiet for a while, polled; the leader is then told 0 by the
   followers, is quiet for a while and polled again *)
Definition drain (s : shard) : shard :=
  let ids := map rp_id (filter (fun r => rp_up r && is_member r) (sh_reps s)) in
  map_reps s (fun r =>
    if rp_up r && is_member r then
      let n1 := node_run (rp_node r) drain_events in
      let n2 := node_run n1 (map (fun id => EvFollowerReport id 0) ids ++ repeat EvRlTick rl_quiet_ticks ++ [EvProposals]) in
      mkRep (rp_id r) (rp_kind r) (rp_up r) (rp_iso r) false (sh_log s) n2
    else r).

(* every other running reachable member sleeps: nobody sends anything *)
Definition others_quiesced (s : shard) (h : N) : bool :=
  forallb (fun r => (rp_id r =? h) || negb (reachable_member r) || n_quiesced (rp_node r)) (sh_reps s).

(* an idle period. A running member that lacks updates gets them from the leader's periodic
   messages when somebody is awake; a voter that hears nothing times out, campaigns and so wakes
   the others; a non-voting replica or witness never campaigns: in a sleeping shard it stays behind *)
Definition lag (s : shard) (h : N) : shard * bool :=
  match find_rep s h with
  | Some r =>
    if reachable_member r && (rp_applied r <? sh_log s) then
      if is_full r || negb (others_quiesced s h) then
        (map_reps (if is_full r then wake_component s h else s) (fun x => if rp_id x =? h then set_applied x (sh_log s) else x), false)
      else (s, true)
    else (s, false)
  | None => (s, false)
  end.

Definition shard_step (s : shard) (o : sop) : shard * oline :=
  match o with
  | SP h k =>
    let q := clean_quorum s h in
    let '(s1, c, n) := proposals k s h in (s1, LReq q c n)
  | SR h =>
    let q := clean_quorum s h in
    let '(s1, c) := apply_request s h KR in (s1, LReq q c (done1 c))
  | SAdd via who kind =>
    let q := clean_quorum s via in
    let '(s1, c) := apply_request s via KCC in
    (match c with OC => add_rep s1 who kind | _ => s1 end, LReq q c (done1 c))
  | SDel via who =>
    let q := clean_quorum s via in
    (* the harness moves leadership away from a replica that is to be removed *)
    let s0 := if (sh_leader s =? who) && clean_quorum s via then set_leader (wake_component s via) 0 else s in
    let '(s1, c) := apply_request s0 via KCC in
    (match c with OC => del_rep s1 who | _ => s1 end, LReq q c (done1 c))
  | SSnap h =>
    match find_rep s h with
    | Some r => if rp_up r
                then (map_reps s (fun x => if rp_id x =? h then set_node x (node_do (rp_node x) EvSnapshotReq) else x), LSnap true)
                else (s, LSnap false)
    | None => (s, LSnap false)
    end
  | SXfer h =>
    if clean_quorum s h && origin_is_voter s h then
      ((if sh_leader s =? h then s else set_leader (wake_component s h) h), LXfer true)
    else (s, LXfer false)
  | SXferQ h => (set_leader (wake_component s h) 0, LPlain)
  | SBg h k =>
    let s1 := match request_class s h KP with OC => complete_request s h KP | _ => s end in
    (s1, LBg (k + 1))
  | SPart h => (map_reps s (fun r => if rp_id r =? h then mkRep (rp_id r) (rp_kind r) (rp_up r) true (rp_gate r) (rp_applied r) (rp_node r) else r), LPlain)
  | SHeal => (heal s, LPlain)
  | SLoss => (set_loss s true, LPlain)
  | SStop h => (map_reps s (fun r => if rp_id r =? h then mkRep (rp_id r) (rp_kind r) false (rp_iso r) false (rp_applied r) (rp_node r) else r), LPlain)
  | SStart h => (map_reps s (fun r => if (rp_id r =? h) && is_member r && negb (rp_up r)
                                       then mkRep (rp_id r) (rp_kind r) true (rp_iso r) false (rp_applied r) (fresh_node s) else r), LPlain)
  | SWait => (s, LPlain)
  | SGate h on => (map_reps s (fun r => if (rp_id r =? h) && rp_up r then mkRep (rp_id r) (rp_kind r) (rp_up r) (rp_iso r) on (rp_applied r) (rp_node r) else r), LPlain)
  | SBurst h k sz => let '(s1, busy) := burst s h k sz in (s1, LBurst busy (any_limited s1))
  | SDrain => let s1 := drain s in (s1, LDrain (any_limited s1))
  | SQuiesce =>
    let s1 := map_reps s (fun r => if reachable_member r then set_node r (node_run (rp_node r) (repeat EvTick (quiesce_ticks s))) else r) in
    (s1, LQuiesce (sh_quiesce s && all_quiesced s1))
  | SAwake => (s, LAwake (all_awake s))
  | SFair => let '(s1, c) := fair s in (s1, LFair c)
  | SLag h => let '(s1, b) := lag s h in (s1, LLag b)
  end.

Fixpoint shard_run (s : shard) (ops : list sop) : shard * list oline :=
  match ops with
  | [] => (s, [])
  | o :: t => let '(s1, l) := shard_step s o in let '(s2, ls) := shard_run s1 t in (s2, l :: ls)
  end.

Definition shard_state (s : shard) (ops : list sop) : shard := fst (shard_run s ops).

(* the implicit end of every history *)
Definition shard_end (s : shard) : oclass * bool :=
  let '(s1, c) := fair s in (c, same_state s1).

Definition ng_unused_z : BinNums.Z := BinNums.Z0.
