(* Model/Linearizability.v — client histories of one shard, the sequential
   specification of the user state machine used by the C01 harness (a versioned
   KV register map), the definition of a linearizable history exactly as
   property C01 words it, and an executable certificate checker.

   INTERFACE
   ---------
   Data
     opid                       client chosen unique operation id (N)
     op       = OpWrite k v | OpRead k
     res      = (value, version)        what Update / Lookup report
     outcome  = Completed r | Timeout | Dropped | Terminated | Refused
                (Refused = the API refused the request synchronously, or the
                 result code was Rejected/Aborted: such an operation must have
                 no effect.  outcome_of_code maps the numeric RequestResultCode
                 of request.go, regenerated in Gen/GenC01.v)
     event    = Inv id op | Resp id outcome
     history  = list event      real-time order = list order; the position of
                                an event is its index in the list
   Sequential specification (faithful to harness/cmd/c01/sm.go, a plain
   sm.IStateMachine):
     kv_init, kv_get, kv_set, kv_step : kv -> op -> kv * res
       write k v : returns (previous value, new version), version := version+1
       read  k   : returns (value, version); (0,0) when the key was never written
   Definition of the property
     wf_hist h            ids are invoked once, answered at most once, after the invocation
     linearizes h lin     lin = the operations that take effect, in effect order:
                          no duplicates; every Completed operation is in it; Refused
                          ones are not; there are effect points pt (positions in h:
                          "pt = p" means the gap just before event p) with
                          invocation < pt, pt <= Completed response, non-decreasing
                          along lin; every Completed result is the one the sequential
                          specification yields at that place
     linearizable_hist h  wf_hist h /\ exists lin, linearizes h lin
   Checker
     check_witness h order : bool         linear passes + list lookups (quadratic)
   Witness from the replicated log
     weave h log obs      "log order with each completed read inserted after the
                          prefix it observed": reads that observed k applied
                          entries go, in invocation order, between log[k-1] and log[k]
     check_log h log obs  = check_witness h (weave h log obs)

   No proofs in this file (Proofs/Linearizability.v). *)
From Coq Require Import List NArith ZArith Arith Bool.
From DB Require Import Gen.GenC01.
Import ListNotations.
Local Open Scope nat_scope.

Definition opid := N.

Inductive op :=
| OpWrite (k v : N)
| OpRead (k : N).

Definition res := (N * N)%type.

Inductive outcome :=
| Completed (r : res)
| Timeout
| Dropped
| Terminated
| Refused.

Inductive event :=
| Inv (id : opid) (o : op)
| Resp (id : opid) (oc : outcome).

Definition history := list event.

(* RequestResultCode -> outcome.  Codes other than the four the property names
   (Rejected, Aborted, Committed, or the harness' "refused by the API" code) are
   Refused: such an operation must never take effect. *)
Definition outcome_of_code (c : N) (r : res) : outcome :=
  if N.eqb c c01_code_requestCompleted then Completed r
  else if N.eqb c c01_code_requestTimeout then Timeout
  else if N.eqb c c01_code_requestDropped then Dropped
  else if N.eqb c c01_code_requestTerminated then Terminated
  else Refused.

(* ---- sequential specification: versioned KV register map ---------------- *)

Definition kv := list (N * (N * N)).
Definition kv_init : kv := [].

Fixpoint kv_get (s : kv) (k : N) : N * N :=
  match s with
  | [] => (0, 0)%N
  | (k', x) :: t => if N.eqb k' k then x else kv_get t k
  end.

Fixpoint kv_set (s : kv) (k : N) (x : N * N) : kv :=
  match s with
  | [] => [(k, x)]
  | (k', y) :: t => if N.eqb k' k then (k, x) :: t else (k', y) :: kv_set t k x
  end.

Definition kv_step (s : kv) (o : op) : kv * res :=
  match o with
  | OpWrite k v =>
    let pv := kv_get s k in
    (kv_set s k (v, N.succ (snd pv)), (fst pv, N.succ (snd pv)))
  | OpRead k => (s, kv_get s k)
  end.

(* ---- positions of the events of an operation ---------------------------- *)

Definition shift {A} (x : option (nat * A)) : option (nat * A) :=
  match x with
  | Some (n, a) => Some (S n, a)
  | None => None
  end.

(* first invocation of id: position and operation *)
Fixpoint find_inv (h : history) (id : opid) : option (nat * op) :=
  match h with
  | [] => None
  | Inv i o :: t => if N.eqb i id then Some (O, o) else shift (find_inv t id)
  | Resp _ _ :: t => shift (find_inv t id)
  end.

(* first response to id: position and outcome *)
Fixpoint find_resp (h : history) (id : opid) : option (nat * outcome) :=
  match h with
  | [] => None
  | Resp i oc :: t => if N.eqb i id then Some (O, oc) else shift (find_resp t id)
  | Inv _ _ :: t => shift (find_resp t id)
  end.

Definition op_of (h : history) (id : opid) : option op :=
  match find_inv h id with Some (_, o) => Some o | None => None end.

Definition inv_pos (h : history) (id : opid) : nat :=
  match find_inv h id with Some (i, _) => i | None => O end.

(* position and result of the Completed response of id *)
Definition find_comp (h : history) (id : opid) : option (nat * res) :=
  match find_resp h id with
  | Some (j, Completed r) => Some (j, r)
  | _ => None
  end.

Definition refused (h : history) (id : opid) : bool :=
  match find_resp h id with
  | Some (_, Refused) => true
  | _ => false
  end.

Fixpoint inv_ids (h : history) : list opid :=
  match h with
  | [] => []
  | Inv i _ :: t => i :: inv_ids t
  | Resp _ _ :: t => inv_ids t
  end.

Fixpoint resp_ids (h : history) : list opid :=
  match h with
  | [] => []
  | Resp i _ :: t => i :: resp_ids t
  | Inv _ _ :: t => resp_ids t
  end.

(* ---- well-formed histories ---------------------------------------------- *)

Definition wf_hist (h : history) : Prop :=
  NoDup (inv_ids h) /\
  NoDup (resp_ids h) /\
  (forall h1 id oc h2, h = h1 ++ Resp id oc :: h2 -> In id (inv_ids h1)).

Definition memN (x : N) (l : list N) : bool := existsb (N.eqb x) l.

Fixpoint nodupb (l : list N) : bool :=
  match l with
  | [] => true
  | x :: t => negb (memN x t) && nodupb t
  end.

Fixpoint resp_after_inv (seen : list opid) (h : history) : bool :=
  match h with
  | [] => true
  | Inv i _ :: t => resp_after_inv (i :: seen) t
  | Resp i _ :: t => memN i seen && resp_after_inv seen t
  end.

Definition wf_histb (h : history) : bool :=
  nodupb (inv_ids h) && nodupb (resp_ids h) && resp_after_inv [] h.

(* ---- running the sequential specification along a linearization ---------- *)

Fixpoint lin_results (h : history) (s : kv) (lin : list opid) : list (opid * res) :=
  match lin with
  | [] => []
  | id :: t =>
    match op_of h id with
    | None => lin_results h s t
    | Some o => (id, snd (kv_step s o)) :: lin_results h (fst (kv_step s o)) t
    end
  end.

Fixpoint lin_state (h : history) (s : kv) (lin : list opid) : kv :=
  match lin with
  | [] => s
  | id :: t =>
    match op_of h id with
    | None => lin_state h s t
    | Some o => lin_state h (fst (kv_step s o)) t
    end
  end.

(* ---- the property -------------------------------------------------------- *)

(* pt is a list of effect points for lin (pt[x] belongs to lin[x]; "pt = p" means
   the gap just before event p of the history): after the invocation, not after
   the Completed response, non-decreasing along lin *)
Definition pts_ok (h : history) (lin : list opid) (pt : list nat) : Prop :=
  length pt = length lin /\
  (forall x id p, nth_error lin x = Some id -> nth_error pt x = Some p ->
      exists i o, find_inv h id = Some (i, o) /\ i < p) /\
  (forall x id p j r, nth_error lin x = Some id -> nth_error pt x = Some p ->
      find_comp h id = Some (j, r) -> p <= j) /\
  (forall x y p q, x < y -> nth_error pt x = Some p -> nth_error pt y = Some q -> p <= q).

Definition linearizes (h : history) (lin : list opid) : Prop :=
  (* takes effect at most once *)
  NoDup lin /\
  (* a completed operation takes effect (hence exactly once) *)
  (forall id j r, find_comp h id = Some (j, r) -> In id lin) /\
  (* an operation the system refused has no effect *)
  (forall id, In id lin -> refused h id = false) /\
  (* single effect points, after the invocation, before the Completed response,
     in the order of lin *)
  (exists pt : list nat, pts_ok h lin pt) /\
  (* every completed operation returned what the sequential specification
     yields at its place *)
  (forall id j r, find_comp h id = Some (j, r) -> In (id, r) (lin_results h kv_init lin)).

Definition linearizable_hist (h : history) : Prop :=
  wf_hist h /\ exists lin, linearizes h lin.

(* ---- certificate checker ------------------------------------------------- *)

(* effect points chosen greedily: just after the latest invocation seen so far
   (m = largest invocation position among the operations already placed) *)
Fixpoint prec_ok (h : history) (m : nat) (lin : list opid) : bool :=
  match lin with
  | [] => true
  | id :: t =>
    match find_inv h id with
    | None => false
    | Some (i, _) =>
      let m' := Nat.max m i in
      match find_comp h id with
      | Some (j, _) => Nat.ltb m' j && prec_ok h m' t
      | None => prec_ok h m' t
      end
    end
  end.

Definition res_eqb (a b : res) : bool := N.eqb (fst a) (fst b) && N.eqb (snd a) (snd b).

Fixpoint assoc_res (id : opid) (l : list (opid * res)) : option res :=
  match l with
  | [] => None
  | (i, r) :: t => if N.eqb i id then Some r else assoc_res id t
  end.

(* every Completed response of h is in order, with the specification's result *)
Definition completed_ok (h : history) (order : list opid) (results : list (opid * res)) : bool :=
  forallb (fun e =>
    match e with
    | Resp id (Completed r) =>
      memN id order &&
      match assoc_res id results with Some r' => res_eqb r r' | None => false end
    | _ => true
    end) h.

Definition check_witness (h : history) (order : list opid) : bool :=
  wf_histb h &&
  nodupb order &&
  forallb (fun id => negb (refused h id)) order &&
  prec_ok h 0 order &&
  completed_ok h order (lin_results h kv_init order).

(* ---- the witness built from the replicated log --------------------------- *)

Definition is_read (h : history) (id : opid) : bool :=
  match op_of h id with Some (OpRead _) => true | _ => false end.

Definition is_write (h : history) (id : opid) : bool :=
  match op_of h id with Some (OpWrite _ _) => true | _ => false end.

Definition is_completed (h : history) (id : opid) : bool :=
  match find_comp h id with Some _ => true | None => false end.

(* completed reads in invocation order *)
Definition completed_reads (h : history) : list opid :=
  filter (fun id => is_read h id && is_completed h id) (inv_ids h).

Definition reads_at (cr : list opid) (obs : opid -> nat) (k : nat) : list opid :=
  filter (fun id => Nat.eqb (obs id) k) cr.

Fixpoint weave_from (rds : nat -> list opid) (k : nat) (log : list opid) : list opid :=
  match log with
  | [] => rds k
  | w :: t => rds k ++ w :: weave_from rds (S k) t
  end.

Definition weave (h : history) (log : list opid) (obs : opid -> nat) : list opid :=
  let cr := completed_reads h in weave_from (reads_at cr obs) 0 log.

(* obs given as an association list (what the driver has) *)
Fixpoint assoc_nat (id : opid) (l : list (opid * nat)) : nat :=
  match l with
  | [] => O
  | (i, n) :: t => if N.eqb i id then n else assoc_nat id t
  end.

Definition check_log (h : history) (log : list opid) (obs : list (opid * nat)) : bool :=
  check_witness h (weave h log (fun id => assoc_nat id obs)).

(* ocaml/common/util.ml needs the extracted type z *)
Definition lin_unused_z : Z := 0%Z.

(* final state of the specification after the writes of the log *)
Definition log_state (h : history) (log : list opid) : kv := lin_state h kv_init log.

(* ---- hypotheses of the composition theorem ---------------------------------
   The protocol-level facts the linearizability argument composes, each named
   after the property it comes from.  [log] is the agreed sequence of client
   write entries (their operation ids, in index order), [obs rd] the number of
   log entries the replica had applied when the Lookup of read rd ran, and
   [cmt p] (ghost) the number of log entries committed in the shard when event p
   of the history happened. *)

(* C05 at_most_once / unique entry ids: an operation has at most one entry, and
   every entry is the write of a client operation of the history *)
Definition C05_at_most_once (h : history) (log : list opid) : Prop :=
  NoDup log /\ forall w, In w log -> is_write h w = true.

(* C02 state_machine_safety: there is one log; what is committed stays committed
   (cmt only grows, within log); every replica computes its state and results by
   applying a prefix of that log in order *)
Definition C02_state_machine_safety (h : history) (log : list opid)
           (obs : opid -> nat) (cmt : nat -> nat) : Prop :=
  (forall p q, p <= q -> cmt p <= cmt q) /\
  (forall p, cmt p <= length log) /\
  (forall w j r, find_comp h w = Some (j, r) -> is_write h w = true ->
      In (w, r) (lin_results h kv_init log)) /\
  (forall rd j r k, find_comp h rd = Some (j, r) -> op_of h rd = Some (OpRead k) ->
      r = kv_get (lin_state h kv_init (firstn (obs rd) log)) k).

(* C03 leader_completeness: an entry created after index i was committed lands above i *)
Definition C03_leader_completeness (h : history) (log : list opid) (cmt : nat -> nat) : Prop :=
  forall w idx, nth_error log idx = Some w -> cmt (inv_pos h w) <= idx.

(* C12 completed_after_local_apply: Completed is signalled only from the apply
   path, after the entry was applied locally (hence committed); a refused
   request was never handed to raft *)
Definition C12_completed_after_local_apply (h : history) (log : list opid) (cmt : nat -> nat) : Prop :=
  (forall w j r, find_comp h w = Some (j, r) -> is_write h w = true ->
      exists idx, nth_error log idx = Some w /\ idx < cmt j) /\
  (forall w, In w log -> refused h w = false).

(* C06 read_index_not_stale: the read index is at least the commit index at the
   time of the invocation; the Lookup ran on an applied (hence committed) prefix *)
Definition C06_read_index_not_stale (h : history) (obs : opid -> nat) (cmt : nat -> nat) : Prop :=
  forall rd j r, find_comp h rd = Some (j, r) -> is_read h rd = true ->
      cmt (inv_pos h rd) <= obs rd /\ obs rd <= cmt j.
