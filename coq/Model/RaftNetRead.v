(* L2: the ReadIndex protocol on top of Model/RaftNet.v (stage 1).  Definitions only.

   handleLeaderReadIndex: a leader that has committed an entry of its own term
   (hasCommittedEntryAtCurrentTerm) records (ctx, index := committed) and broadcasts a
   heartbeat carrying ctx; it counts itself as confirmed.  Followers answer a heartbeat
   of their current term with a HeartbeatResp that echoes ctx.  When a quorum has
   confirmed ctx, handleReadIndexLeaderConfirmation releases the read at the recorded
   index.  The heartbeat itself (commit value) is the LSendHB / LHandleHB pair of stage 1;
   here only the confirmation matters:
     LRRequest i ctx     leader i, guard as above, ctx not used before
     LRRespond w t ctx   node w in term t confirms a read of term t with that ctx
                         (more permissive than the code: no heartbeat has to be
                         delivered first, any node may confirm)
   A read is released when a quorum of V confirmed it: that is the hypothesis of the
   theorem (Props/L2.v: read_index_not_stale), no step is needed for it.

   Ghost: every read record keeps the state in which it was requested; lcommit t is the
   highest commit index the leader of term t reached by counting acknowledgements. *)
From DB Require Export Model.RaftNet.

Record readrec := mkRead {
  r_ctx : nat;
  r_term : nat;
  r_ldr : id;
  r_index : nat;
  r_snap : net;               (* ghost *)
  r_snapl : nat -> nat        (* ghost *)
}.

Record netR := mkNetR {
  baseR : net;
  lcommit : nat -> nat;                  (* ghost *)
  reads : list readrec;
  hbrs : list (nat * id * nat)           (* HeartbeatResp: term, from, ctx *)
}.

Inductive labelR :=
| LRBase (l : label)
| LRRequest (i : id) (ctx : nat)
| LRRespond (w : id) (t ctx : nat).

Section Read.
  Variable V : list id.

  Definition initR : netR := mkNetR (init) (fun _ => 0) [] [].

  Definition lcommit' (s : netR) (l : label) : nat -> nat :=
    match l with
    | LAdvanceCommit i k => updg (lcommit s) (term (nodes (baseR s) i)) k
    | _ => lcommit s
    end.

  Inductive stepR : netR -> labelR -> netR -> Prop :=
  | SRBase s l b' :
      step V (baseR s) l b' ->
      stepR s (LRBase l) (mkNetR b' (lcommit' s l) (reads s) (hbrs s))
  | SRRequest s i ctx :
      let x := nodes (baseR s) i in
      role x = Leader ->
      term_at (log x) (commit x) = term x ->
      (forall r, In r (reads s) -> r_ctx r <> ctx) ->
      stepR s (LRRequest i ctx)
        (mkNetR (baseR s) (lcommit s)
                (mkRead ctx (term x) i (commit x) (baseR s) (lcommit s) :: reads s)
                ((term x, i, ctx) :: hbrs s))
  | SRRespond s w t ctx :
      (exists r, In r (reads s) /\ r_ctx r = ctx /\ r_term r = t) ->
      term (nodes (baseR s) w) = t ->
      stepR s (LRRespond w t ctx)
        (mkNetR (baseR s) (lcommit s) (reads s) ((t, w, ctx) :: hbrs s)).

  Inductive stepsR : netR -> list labelR -> netR -> Prop :=
  | stepsR_nil s : stepsR s [] s
  | stepsR_cons s l s1 ls s2 : stepR s l s1 -> stepsR s1 ls s2 -> stepsR s (l :: ls) s2.

  Definition reachableR (s : netR) : Prop := exists ls, stepsR initR ls s.

  (* a quorum of V confirmed the read *)
  Definition confirmed (s : netR) (r : readrec) : Prop :=
    exists Q, incl Q V /\ NoDup Q /\ quorum V <= length Q /\
              forall w, In w Q -> In (r_term r, w, r_ctx r) (hbrs s).

  (* executable side *)
  Definition hbr_eqb (a b : nat * id * nat) : bool :=
    let '(t, w, c) := a in let '(t', w', c') := b in (t =? t') && (w =? w') && (c =? c').

  Definition step_fnR (s : netR) (l : labelR) : option netR :=
    match l with
    | LRBase l0 =>
      match step_fn V (baseR s) l0 with
      | Some b' => Some (mkNetR b' (lcommit' s l0) (reads s) (hbrs s))
      | None => None
      end
    | LRRequest i ctx =>
      let x := nodes (baseR s) i in
      if role_eqb (role x) Leader && (term_at (log x) (commit x) =? term x)
         && forallb (fun r => negb (r_ctx r =? ctx)) (reads s) then
        Some (mkNetR (baseR s) (lcommit s)
                     (mkRead ctx (term x) i (commit x) (baseR s) (lcommit s) :: reads s)
                     ((term x, i, ctx) :: hbrs s))
      else None
    | LRRespond w t ctx =>
      if existsb (fun r => (r_ctx r =? ctx) && (r_term r =? t)) (reads s)
         && (term (nodes (baseR s) w) =? t) then
        Some (mkNetR (baseR s) (lcommit s) (reads s) ((t, w, ctx) :: hbrs s))
      else None
    end.

  Fixpoint runR (s : netR) (ls : list labelR) : option netR :=
    match ls with
    | [] => Some s
    | l :: r => match step_fnR s l with Some s1 => runR s1 r | None => None end
    end.

  Definition confirmed_b (s : netR) (r : readrec) : bool :=
    quorum V <=? length (filter (fun w => existsb (hbr_eqb (r_term r, w, r_ctx r)) (hbrs s)) V).

End Read.
