(* C04 — Model/Engine.v: the order of effects of the step pipeline
     engine.processSteps (engine.go) / node.processRaftUpdate / node.commitRaftUpdate /
     node.sendMessages / node.sendReplicateMessages (node.go), the fast-apply rule
     raft.setFastApply + validateUpdate (internal/raft/peer.go), the durable image a
     replica's log store holds after a prefix of those effects (crash model), what an
     outgoing message claims about that image, and the executable trace checker
     [trace_ok] that the harness runs on event orders recorded from real NodeHosts.

   The stage order is NOT written here: [process_step] interprets the list
   [process_steps_stages] that tools/genmodel re-reads from engine.go/node.go on every
   run (Gen/GenC04.v), and the free-order predicate is Gen/GenRaft.v's
   [is_free_order_message] (node.go isFreeOrderMessage).

   Granularity: one effect = one call that is visible outside the step worker
   (message handed to the transport, one update made durable, task pushed to the apply
   queue, flag file removed, LogReader.Append, Peer.Commit). SaveRaftState(batch) is
   modelled as one [Persist u] per update, in batch order: exact for Tan (one write per
   update) and a refinement of Pebble's single write batch (fewer crash cuts there).
   Entry payloads are irrelevant to ordering/durability claims: an entry is (index, term).
   Client notifications (processReadyToRead, dropped entries, ...) are C12's; log
   compaction (removeLog) and snapshot requests are C08's: no effect here.
   No proofs in this file. *)
From Coq Require Export List NArith Bool.
From DB Require Export Gen.GenRaft Gen.GenC04.
Export ListNotations.
Open Scope N_scope.

(* ------------------------------------------------------------------ *)
(* data *)

Record ent := mkEnt { e_index : N; e_term : N }.

Record msg := mkMsg {
  m_type : N; m_to : N; m_from : N; m_term : N; m_logterm : N; m_logindex : N;
  m_commit : N; m_reject : bool; m_ents : list ent }.

(* pb.State; pb.IsEmptyState = all three zero *)
Record hstate := mkHS { hs_term : N; hs_vote : N; hs_commit : N }.
Definition is_empty_state (s : hstate) : bool :=
  (hs_term s =? 0) && (hs_vote s =? 0) && (hs_commit s =? 0).

(* the part of pb.Update the pipeline looks at. Snapshot = (index, term); index 0 = empty
   (pb.IsEmptySnapshot) *)
Record update := mkUpd {
  u_shard : N; u_replica : N;
  u_state : hstate;
  u_save : list ent;          (* EntriesToSave *)
  u_committed : list ent;     (* CommittedEntries *)
  u_snap_index : N; u_snap_term : N;
  u_msgs : list msg;
  u_fast : bool }.            (* FastApply *)

Definition key := (N * N)%type.   (* (shard, replica) *)
Definition ukey (u : update) : key := (u_shard u, u_replica u).
Definition key_eqb (a b : key) : bool := (fst a =? fst b) && (snd a =? snd b).

Definition ent0 := mkEnt 0 0.
Definition first_index (es : list ent) : N := e_index (hd ent0 es).
Definition last_index (es : list ent) : N := e_index (last es ent0).

(* ------------------------------------------------------------------ *)
(* internal/raft/peer.go: validateUpdate and setFastApply *)

(* validateUpdate: true = no panic *)
Definition validate_update (commit : N) (committed save : list ent) : bool :=
  negb (match committed with
        | _ :: _ => (0 <? commit) && (commit <? last_index committed)
        | [] => false end) &&
  negb (match committed, save with
        | _ :: _, _ :: _ => last_index save <? last_index committed
        | _, _ => false end).

(* setFastApply: the FastApply flag of the update *)
Definition set_fast_apply (snap_index : N) (committed save : list ent) : bool :=
  if negb (snap_index =? 0) then false
  else match committed, save with
       | _ :: _, _ :: _ =>
         let la := last_index committed in
         negb ((first_index save <=? la) && (la <=? last_index save))
       | _, _ => true
       end.

(* entries are handed over as contiguous ascending index ranges *)
Fixpoint contig_from (i : N) (es : list ent) : bool :=
  match es with
  | [] => true
  | e :: r => (e_index e =? i) && contig_from (i + 1) r
  end.
Definition contig (es : list ent) : bool := contig_from (first_index es) es.

(* what Peer.GetUpdate guarantees about the update it hands to the engine *)
Definition wf_update (u : update) : bool :=
  contig (u_save u) && contig (u_committed u) &&
  validate_update (hs_commit (u_state u)) (u_committed u) (u_save u) &&
  Bool.eqb (u_fast u) (set_fast_apply (u_snap_index u) (u_committed u) (u_save u)).

Definition ranges_overlap (a b : list ent) : bool :=
  existsb (fun x => existsb (fun y => e_index x =? e_index y) b) a.

(* ------------------------------------------------------------------ *)
(* effects *)

Inductive effect :=
| StepNodes                                   (* the stepNode loop: inbound messages consumed, updates formed *)
| PushSnapshot (k : key) (index : N)          (* processSnapshot: LogReader.ApplySnapshot + pushSnapshot *)
| PushApply (k : key) (es : list ent)         (* applyRaftUpdates -> pushEntries: handed to the apply worker *)
| Send (k : key) (m : msg)                    (* n.sendRaftMessage(m): handed to the transport *)
| Persist (u : update)                        (* the update's State/EntriesToSave/Snapshot are durable *)
| RemoveFlag (k : key) (index : N)            (* onSnapshotSaved: removeSnapshotFlagFile *)
| LogAppend (k : key) (es : list ent)         (* LogReader.Append(ud.EntriesToSave) *)
| CommitBack (u : update).                    (* Peer.Commit(ud): savedTo/processed advance, msgs cleared *)

Definition is_free (m : msg) : bool := is_free_order_message (m_type m).

Definition aact_effects (u : update) (a : aact) : list effect :=
  match a with
  | AaPushSnapshot => if u_snap_index u =? 0 then [] else [PushSnapshot (ukey u) (u_snap_index u)]
  | AaPushEntries => match u_committed u with [] => [] | es => [PushApply (ukey u) es] end
  end.

(* engine.applySnapshotAndUpdate(updates, nodes, fast) *)
Definition apply_effects (fast : bool) (u : update) : list effect :=
  if Bool.eqb (u_fast u) fast then flat_map (aact_effects u) apply_stage_acts else [].

Definition uact_effects (u : update) (a : uact) : list effect :=
  match a with
  | UaSendFree => map (Send (ukey u)) (filter (fun m => send_replicate_selects (is_free m)) (u_msgs u))
  | UaSendRest => map (Send (ukey u)) (filter (fun m => send_messages_selects (is_free m)) (u_msgs u))
  | UaLogAppend => [LogAppend (ukey u) (u_save u)]
  | UaCommitBack => [CommitBack u]
  end.

Definition stage_effects (us : list update) (s : stage) : list effect :=
  match s with
  | SgStepNodes => [StepNodes]
  | SgApply b => flat_map (apply_effects b) us
  | SgEach acts => flat_map (fun u => flat_map (uact_effects u) acts) us
  | SgSave => map Persist us
  | SgSnapshotSaved =>
    if snapshot_saved_removes_flag
    then flat_map (fun u => if u_snap_index u =? 0 then [] else [RemoveFlag (ukey u) (u_snap_index u)]) us
    else []
  | SgReset => []
  end.

Definition process_step_with (stages : list stage) (us : list update) : list effect :=
  flat_map (stage_effects us) stages.

(* engine.processSteps for the batch [us] of updates produced by its stepNode loop *)
Definition process_step (us : list update) : list effect :=
  process_step_with process_steps_stages us.

(* stepWorkerMain: one goroutine runs processSteps sequentially *)
Definition worker_loop (batches : list (list update)) : list effect :=
  flat_map process_step batches.

(* ------------------------------------------------------------------ *)
(* durable image of one replica and the crash model *)

Record image := mkImg {
  i_term : N; i_vote : N; i_commit : N;
  i_snap_index : N; i_snap_term : N;
  i_log : list ent }.
Definition image0 := mkImg 0 0 0 0 0 [].

(* logdb saveRaftState for one update: State when not empty; snapshot record when newer;
   entries replace everything from their first index on *)
Definition persist_update (img : image) (u : update) : image :=
  let st := u_state u in
  let e := is_empty_state st in
  let newer := i_snap_index img <? u_snap_index u in
  mkImg (if e then i_term img else hs_term st)
        (if e then i_vote img else hs_vote st)
        (if e then i_commit img else hs_commit st)
        (if newer then u_snap_index u else i_snap_index img)
        (if newer then u_snap_term u else i_snap_term img)
        (match u_save u with
         | [] => i_log img
         | f :: _ => filter (fun x => e_index x <? e_index f) (i_log img) ++ u_save u
         end).

Definition last_durable (img : image) : N := N.max (i_snap_index img) (last_index (i_log img)).

Definition apply_effect (k : key) (img : image) (e : effect) : image :=
  match e with
  | Persist u => if key_eqb (ukey u) k then persist_update img u else img
  | _ => img
  end.
Definition durable (k : key) (effs : list effect) (img : image) : image :=
  fold_left (apply_effect k) effs img.

(* crash after the first n effects: what replica k finds in its log store on restart *)
Definition crash (n : nat) (effs : list effect) (k : key) (img : image) : image :=
  durable k (firstn n effs) img.

(* node.replayLog / newRaft on restart: term, vote, commit from the State record; the log
   reader is positioned on the snapshot record and the saved entry range *)
Definition restart_term (img : image) : N := i_term img.
Definition restart_vote (img : image) : N := i_vote img.
Definition restart_last_index (img : image) : N := last_durable img.

(* ------------------------------------------------------------------ *)
(* what a message tells the outside world *)

(* the vote of term t went to c: still true once the term has moved on *)
Definition vote_ok (img : image) (t c : N) : bool :=
  (t <? i_term img) || ((i_term img =? t) && (i_vote img =? c) && negb (c =? 0)).
(* the log up to i was acknowledged in term t *)
Definition ack_ok (img : image) (t i : N) : bool :=
  (t <? i_term img) || (i <=? last_durable img).

Definition is_ack (m : msg) : bool := (m_type m =? mt_ReplicateResp) && negb (m_reject m).
Definition is_grant (m : msg) : bool := (m_type m =? mt_RequestVoteResp) && negb (m_reject m).
Definition is_vote_request (m : msg) : bool := m_type m =? mt_RequestVote.

(* messages whose Term field is the sender's own current term (raft.finalizeMessageTerm):
   everything except free-order messages (exempt, thesis 10.2.1), pre-vote traffic (carries
   term+1 / the requester's term by design) and forwarded requests (term 0) *)
Definition claims_term (m : msg) : bool :=
  negb (is_free m) && negb (is_prevote_message (m_type m)) && negb (is_request_message (m_type m)).

(* 0 = covered; 1 = term not durable; 2 = vote not durable; 3 = acknowledged entries not durable *)
Definition covers_code (img : image) (m : msg) : N :=
  if negb (claims_term m) then 0
  else if negb (m_term m <=? i_term img) then 1
  else if is_vote_request m && negb (vote_ok img (m_term m) (m_from m)) then 2
  else if is_grant m && negb (vote_ok img (m_term m) (m_to m)) then 2
  else if is_ack m && negb (ack_ok img (m_term m) (m_logindex m)) then 3
  else 0.
Definition covers (img : image) (m : msg) : bool := covers_code img m =? 0.

(* update_covers: every message of the update is covered by what is durable once the same
   update has been saved (State / EntriesToSave / Snapshot of the update, or older) *)
Definition update_covers (img : image) (u : update) : bool :=
  forallb (covers (persist_update img u)) (u_msgs u).

(* ------------------------------------------------------------------ *)
(* recorded traces of one replica: decision form of persist_before_send + update_covers *)

Inductive tev :=
| TSend (m : msg)          (* a message of this replica reached the transport *)
| TPersist (u : update)    (* SaveRaftState returned success for this update *)
| TApply (index : N)       (* the state machine was handed entry [index] *)
| TRecover (r : image)     (* after a crash the restarted replica read this image back from its log store *)
| TLost.                   (* a proposal reported Completed was not visible to a read after a full restart *)

Record tstate := mkTS {
  ts_img : image;          (* the durable shadow *)
  ts_ack_term : N;         (* highest term in which an acknowledgement was sent ... *)
  ts_ack_index : N }.      (* ... and the highest index acknowledged in that term *)
Definition tstate0 (img : image) := mkTS img 0 0.

(* codes 1-3 as covers_code; 4 = durable term went backwards; 5 = durable vote changed
   within a term; 6 = a save cut the log below an index acknowledged in the current term;
   7 = entry handed to the state machine before it was durable; 10 = an entry of the shadow is
   missing from the image read back after a crash; 11 = a completed proposal was lost *)
Definition persist_code (st : tstate) (img' : image) : N :=
  let img := ts_img st in
  if i_term img' <? i_term img then 4
  else if (i_term img' =? i_term img) && negb (i_vote img =? 0) && negb (i_vote img' =? i_vote img) then 5
  else if (i_term img' =? ts_ack_term st) && negb (ts_ack_index st <=? last_durable img') then 6
  else 0.

Definition note_ack (st : tstate) (m : msg) : tstate :=
  if is_ack m && claims_term m then
    if ts_ack_term st <? m_term m then mkTS (ts_img st) (m_term m) (m_logindex m)
    else if ts_ack_term st =? m_term m then mkTS (ts_img st) (ts_ack_term st) (N.max (ts_ack_index st) (m_logindex m))
    else st
  else st.

(* every entry of the shadow is in the recovered log (same index and term) or below the
   recovered snapshot *)
Definition entries_recovered (img r : image) : bool :=
  forallb (fun e => (e_index e <=? i_snap_index r) ||
                    existsb (fun e' => (e_index e' =? e_index e) && (e_term e' =? e_term e)) (i_log r))
          (i_log img).
Definition recover_code (st : tstate) (r : image) : N :=
  let c := persist_code st r in
  if negb (c =? 0) then c
  else if negb (entries_recovered (ts_img st) r) then 10 else 0.

(* one event: (new state, 0) or (_, violation code) *)
Definition trace_step (st : tstate) (e : tev) : tstate * N :=
  match e with
  | TSend m => (note_ack st m, covers_code (ts_img st) m)
  | TPersist u =>
    let img' := persist_update (ts_img st) u in
    (mkTS img' (ts_ack_term st) (ts_ack_index st), persist_code st img')
  | TApply i => (st, if i <=? last_durable (ts_img st) then 0 else 7)
  | TRecover r => (mkTS r (ts_ack_term st) (ts_ack_index st), recover_code st r)
  | TLost => (st, 11)
  end.

(* (final state, position of the first violation (from 0), its code); code 0 = accepted *)
Fixpoint trace_run (st : tstate) (pos : N) (evs : list tev) : tstate * N * N :=
  match evs with
  | [] => (st, pos, 0)
  | e :: r =>
    let '(st', c) := trace_step st e in
    if c =? 0 then trace_run st' (pos + 1) r else (st, pos, c)
  end.

Definition trace_ok (img : image) (evs : list tev) : bool :=
  let '(_, _, c) := trace_run (tstate0 img) 0 evs in c =? 0.

(* the durable shadow after a prefix of a trace *)
Definition tev_image (img : image) (e : tev) : image :=
  match e with TPersist u => persist_update img u | TRecover r => r | _ => img end.
Definition trace_image (img : image) (evs : list tev) : image := fold_left tev_image evs img.

(* the per-replica trace an effect sequence shows to an observer of replica k *)
Definition project (k : key) (e : effect) : list tev :=
  match e with
  | Send k' m => if key_eqb k' k then [TSend m] else []
  | Persist u => if key_eqb (ukey u) k then [TPersist u] else []
  | PushApply k' es => if key_eqb k' k then map (fun x => TApply (e_index x)) es else []
  | _ => []
  end.
Definition project_all (k : key) (effs : list effect) : list tev := flat_map (project k) effs.

(* ------------------------------------------------------------------ *)
(* observation helpers for the driver (Send/Persist skeleton of a step) *)

Definition is_send_or_persist (e : effect) : bool :=
  match e with Send _ _ | Persist _ => true | _ => false end.
Definition step_skeleton (us : list update) : list effect :=
  filter is_send_or_persist (process_step us).

(* ocaml/common/util.ml mentions the extracted type [z] *)
Definition engine_unused_z : BinNums.Z := BinNums.Z0.

(* ------------------------------------------------------------------ *)
(* what SaveRaftState must make durable: the fsync decision of the two stores.
   Tan (internal/tan/db.go db.write): the record is always written, the log file is fsynced
   only when the update carries a snapshot, entries, or a State that differs from the last
   WRITTEN State in one of the GENERATED fields [tan_sync_fields]. A record that was written
   but not fsynced is lost by a power cut (until a later fsync of the same file). Pebble
   (internal/logdb/kv/pebble): every write batch is committed with the GENERATED option
   [pebble_write_sync]. *)

Definition sfield_get (f : sfield) (s : hstate) : N :=
  match f with SfTerm => hs_term s | SfVote => hs_vote s | SfCommit => hs_commit s end.
Definition state_sync_change (fields : list sfield) (a b : hstate) : bool :=
  existsb (fun f => negb (sfield_get f a =? sfield_get f b)) fields.
Definition hstate_eqb (a b : hstate) : bool :=
  (hs_term a =? hs_term b) && (hs_vote a =? hs_vote b) && (hs_commit a =? hs_commit b).

Record tan_db := mkTan {
  td_cache : hstate;       (* nodeStates: the State of the last written update (may be empty) *)
  td_written : image;      (* what the log file holds, page cache included *)
  td_synced : image }.     (* what survives a power cut now *)

Definition tan_sync_needed (st : hstate) (u : update) : bool :=
  (tan_sync_on_snapshot && negb (u_snap_index u =? 0)) ||
  (tan_sync_on_entries && match u_save u with [] => false | _ => true end) ||
  (tan_sync_on_state_change && state_sync_change tan_sync_fields (u_state u) st).

(* db.write + the sync SaveRaftState issues before it returns; result: new db, synced? *)
Definition tan_write (d : tan_db) (u : update) : tan_db * bool :=
  let st := td_cache d in
  if hstate_eqb (u_state u) st && (u_snap_index u =? 0) &&
     match u_save u with [] => true | _ => false end
  then (d, false)
  else
    let sync := tan_sync_needed st u in
    let w := persist_update (td_written d) u in
    (mkTan (u_state u) w (if sync then w else td_synced d), sync).

Definition tan_run (d : tan_db) (us : list update) : tan_db :=
  fold_left (fun d u => fst (tan_write d u)) us d.

Definition tan_open (img : image) : tan_db :=
  mkTan (mkHS (i_term img) (i_vote img) (i_commit img)) img img.

(* a State the raft core hands out is empty or has a term (terms start at 1) *)
Definition state_wf (u : update) : bool :=
  is_empty_state (u_state u) || negb (hs_term (u_state u) =? 0).

(* the parts of an image a message can make a claim about *)
Definition same_claims (a b : image) : Prop :=
  i_term a = i_term b /\ i_vote a = i_vote b /\ i_log a = i_log b /\
  i_snap_index a = i_snap_index b /\ i_snap_term a = i_snap_term b.

(* ------------------------------------------------------------------ *)
(* SaveRaftState of Tan over a BATCH of updates (internal/tan/logdb.go).
   db.write alone appends the record and says whether an fsync is needed; the fsync itself is
   issued by SaveRaftState: with multiplexed logs ONCE after the loop over the batch, when the
   decisions carried over the loop say so (GENERATED: [tan_mux_sync_accumulates] = the
   decisions are OR-ed, [tan_mux_sync_after_batch]); in the regular mode per update
   (GENERATED: [tan_seq_sync_each]). An fsync of the shared log file makes every record
   written so far durable, whichever replica it belongs to. *)

Definition tan_append (d : tan_db) (u : update) : tan_db * bool :=
  let st := td_cache d in
  if hstate_eqb (u_state u) st && (u_snap_index u =? 0) &&
     match u_save u with [] => true | _ => false end
  then (d, false)
  else (mkTan (u_state u) (persist_update (td_written d) u) (td_synced d), tan_sync_needed st u).

Definition tan_fsync (d : tan_db) : tan_db := mkTan (td_cache d) (td_written d) (td_written d).

(* the replicas whose records share one tan db (one log file) *)
Definition mdb := key -> tan_db.
Definition mupd (m : mdb) (k : key) (d : tan_db) : mdb :=
  fun k' => if key_eqb k' k then d else m k'.

Definition sync_combine (acc s : bool) : bool :=
  if tan_mux_sync_accumulates then acc || s else s.

Fixpoint tan_mux_appends (m : mdb) (flag : bool) (us : list update) : mdb * bool :=
  match us with
  | [] => (m, flag)
  | u :: r =>
    let '(d', s) := tan_append (m (ukey u)) u in
    tan_mux_appends (mupd m (ukey u) d') (sync_combine flag s) r
  end.

(* concurrentSaveState: result = the db after the call returned, and whether it fsynced *)
Definition tan_mux_save (m : mdb) (us : list update) : mdb * bool :=
  let '(m', flag) := tan_mux_appends m false us in
  let synced := flag && tan_mux_sync_after_batch in
  (if synced then (fun k => tan_fsync (m' k)) else m', synced).

(* sequentialSaveState: one db per replica, fsynced per update *)
Fixpoint tan_seq_save (m : mdb) (us : list update) : mdb :=
  match us with
  | [] => m
  | u :: r =>
    let d := m (ukey u) in
    let d' := if tan_seq_sync_each then fst (tan_write d u) else fst (tan_append d u) in
    tan_seq_save (mupd m (ukey u) d') r
  end.

Definition tan_mux_run (m : mdb) (batches : list (list update)) : mdb :=
  fold_left (fun m us => fst (tan_mux_save m us)) batches m.
Definition tan_seq_run (m : mdb) (batches : list (list update)) : mdb :=
  fold_left tan_seq_save batches m.

(* ------------------------------------------------------------------ *)
(* tan's rebuildLog (internal/tan/open.go): a log whose tail record is torn is copied record by
   record into a new file that then replaces the broken one. The epilogue of the function is
   GENERATED ([tan_rebuild_log_steps]). Abstract state of the replacement: is its content
   fsynced, has it taken the place of the log (rename issued; a rename may reach the disk at
   any time after it was issued). The repaired log is never written again (tan switches to a
   fresh log), so nothing later fsyncs it. *)
Record rebuild_state := mkRS { rs_content_synced : bool; rs_renamed : bool }.
Definition rebuild_step (s : rebuild_state) (x : rstep) : rebuild_state :=
  match x with
  | RsSyncFile => mkRS true (rs_renamed s)
  | RsRename => mkRS (rs_content_synced s) true
  | RsCloseFile | RsSyncDir => s
  end.
Definition rebuild_run (steps : list rstep) : rebuild_state :=
  fold_left rebuild_step steps (mkRS false false).
(* a power cut at this instant keeps every acknowledged record of the log *)
Definition rebuild_safe (s : rebuild_state) : bool := negb (rs_renamed s) || rs_content_synced s.

(* ------------------------------------------------------------------ *)
(* restart: node.replayLog reads the snapshot record and the raft state from the log store and
   hands them to the LogReader, from which raft.Launch / newRaft take term, vote, commit and
   the entry range. The ways out of replayLog BEFORE that hand-over are GENERATED
   ([replay_log_guards]): the store holds nothing at all for the replica (ErrNoSavedLog: a new
   node) and a read error (no restart). *)
Definition store_empty (img : image) : bool :=
  (i_term img =? 0) && (i_vote img =? 0) && (i_commit img =? 0) && (i_snap_index img =? 0) && (i_snap_term img =? 0) &&
  match i_log img with [] => true | _ => false end.
Definition guard_fires (img : image) (g : rguard) : bool :=
  match g with
  | RgNoSavedLog => store_empty img     (* logdb ReadRaftState: nothing saved *)
  | RgReadError => false                (* I/O errors are not part of this model *)
  | RgUnknownReturn => true             (* a return the extractor does not know: assume the worst *)
  end.
(* what the launched raft peer starts from *)
Definition restart_image (img : image) : image :=
  if existsb (guard_fires img) replay_log_guards then image0 else img.

(* ------------------------------------------------------------------ *)
(* Tan's obsolete-file rule (internal/tan/index.go nodeIndex.fileInUse, GENERATED): a log file
   may be deleted only if no replica of the db still needs it. What a replica needs: the file
   with its latest snapshot record, the file with its latest STATE record (term, vote,
   commit), the files with its entry records. *)
Record node_files := mkNF { nf_snapshot : N; nf_state : N; nf_entries : list N }.
Definition fuse_holds (nf : node_files) (fn : N) (f : fuse) : bool :=
  match f with
  | FuSnapshot => nf_snapshot nf =? fn
  | FuState => nf_state nf =? fn
  | FuEntries => existsb (N.eqb fn) (nf_entries nf)
  end.
Definition file_in_use (nf : node_files) (fn : N) : bool :=
  existsb (fuse_holds nf fn) tan_file_in_use_fields.
(* multiplexed log: the file is obsolete only if no replica uses it *)
Definition file_obsolete (nodes : list node_files) (fn : N) : bool :=
  negb (existsb (fun nf => file_in_use nf fn) nodes).

(* ------------------------------------------------------------------ *)
(* node.doSave (snapshot of the state machine), step order GENERATED ([do_save_steps]).
   An exported snapshot goes to the user's directory and is NOT recorded in the replica's
   LogReader / log store; log compaction may be scheduled only below a RECORDED snapshot. *)
Inductive seffect := EfSaved | EfCommitted | EfRecorded | EfCompactionScheduled.
Fixpoint do_save_run (exported : bool) (steps : list sstep) : list seffect :=
  match steps with
  | [] => []
  | SsSave :: r => EfSaved :: do_save_run exported r
  | SsCommit :: r => EfCommitted :: do_save_run exported r
  | SsExportedReturn :: r => if exported then [] else do_save_run exported r
  | SsRecord :: r => EfRecorded :: do_save_run exported r
  | SsCompactLog :: r => EfCompactionScheduled :: do_save_run exported r
  | SsSetIndex :: r => do_save_run exported r
  end.
Fixpoint compaction_after_record (recorded : bool) (effs : list seffect) : bool :=
  match effs with
  | [] => true
  | EfRecorded :: r => compaction_after_record true r
  | EfCompactionScheduled :: r => recorded && compaction_after_record recorded r
  | _ :: r => compaction_after_record recorded r
  end.

(* ------------------------------------------------------------------ *)
(* on-disk state machines: the durability chain
     snapshot recorded at i  =>  user state machine synced up to >= i  =>  log may be compacted <= i
   rsm.StateMachine.sync() / concurrentSave() (GENERATED: the returns of sync() that precede
   the user Sync(), the order prepare / sync / doSave). The user state machine keeps in-core
   and synced state apart; a power cut keeps the synced state only. *)
Definition sguard_fires (g : sguard) : bool :=
  match g with
  | SgNotOnDisk => false      (* this is an on-disk replica *)
  | SgUnknown => true         (* a return the extractor does not know: Sync() may be skipped *)
  end.
(* sync(): what is durable afterwards, given the in-core index at that time *)
Definition rsm_sync (incore synced : N) : N :=
  if existsb sguard_fires rsm_sync_guards then synced else N.max synced incore.
(* concurrentSave: (synced index, recorded snapshot index) afterwards; the snapshot index is
   the applied index seen by prepare(), the in-core index can only have grown by the time of
   sync() *)
Fixpoint concurrent_save (steps : list csstep) (incore_prepare incore_sync : N)
         (synced : N) (meta recorded : option N) : N * option N :=
  match steps with
  | [] => (synced, recorded)
  | CsPrepare :: r => concurrent_save r incore_prepare incore_sync synced (Some incore_prepare) recorded
  | CsSync :: r => concurrent_save r incore_prepare incore_sync (rsm_sync incore_sync synced) meta recorded
  | CsDoSave :: r => concurrent_save r incore_prepare incore_sync synced meta meta
  end.

(* recorded runs of the real rsm.StateMachine over an instrumented on-disk state machine *)
Inductive oev :=
| OApply (i : N)     (* entry i applied and reported to the node (a proposal completes here) *)
| OSync (i : N)      (* user Sync() with the in-core state at index i *)
| OSnap (i : N)      (* a snapshot with index i was recorded *)
| OCut (r : N)       (* power cut; the user state machine reopens at index r *)
| OFail.             (* the reopened replica cannot recover *)
Record ostate := mkOS { os_synced : N; os_snap : N }.
(* 12 = snapshot recorded before the state machine was synced up to it; 13 = restart below
   the recorded snapshot (entries reported applied and covered by the snapshot are lost);
   15 = restart fails *)
Definition odsm_step (st : ostate) (e : oev) : ostate * N :=
  match e with
  | OApply _ => (st, 0)
  | OSync i => (mkOS (N.max (os_synced st) i) (os_snap st), 0)
  | OSnap i => if os_synced st <? i then (st, 12)
               else (mkOS (os_synced st) (N.max (os_snap st) i), 0)
  | OCut r => if r <? os_snap st then (st, 13) else (mkOS r (os_snap st), 0)
  | OFail => (st, 15)
  end.
Fixpoint odsm_run (st : ostate) (pos : N) (evs : list oev) : ostate * N * N :=
  match evs with
  | [] => (st, pos, 0)
  | e :: r =>
    let '(st', c) := odsm_step st e in
    if c =? 0 then odsm_run st' (pos + 1) r else (st, pos, c)
  end.
Definition odsm_ok (evs : list oev) : bool :=
  let '(_, _, c) := odsm_run (mkOS 0 0) 0 evs in c =? 0.
