(* C11 — small-step interleaving model of the goroutines that call the user
   state machine of ONE replica (one incarnation), at call-site granularity.
   No proofs in this file.

   What is modelled and where it comes from:
   * every call of a user state machine method is a [site]; the sites, the
     mutexes (StateMachine.mu = "S", NativeSM.mu = "D") held at the call and the
     destroyed/aborted tests on the way come from the GENERATED lock table
     (Gen/GenC11.v, extracted from internal/rsm on every run);
   * threads: index 0 = the apply worker of the shard's partition
     (engine.applyWorkerMain -> processApplies -> StateMachine.Handle),
     index 1 = the close worker handling this shard (closeWorkerPool allows one
     per shard: processing map), indexes 2..2+nsnap-1 = snapshot workers
     (ssWorker), the rest = client goroutines in ReadLocalNode / StaleRead /
     NAReadLocalNode / SyncRead, which keep their *node reference for ever;
   * a thread executes a job = list of sites; per site the phases are
       P0 acquire S   P1 acquire D   P2 test flags   P3 enter the user method
       P4 return from it   P5 post write (destroyed, when it is written inside
       the same critical section as Close)   P6 release both, next site
     the lock state is a FUNCTION of the threads' phases ([holdsS]/[holdsD]),
     acquisition is guarded by reader/writer compatibility with all others
     (writer preference of sync.RWMutex only removes interleavings);
   * engine structure (engine.go / node.go / nodehost.go, hand-modelled):
     - the offload counter (rsm/offload.go): NodeHost holds one reference from
       start to stopNode; the apply worker and the snapshot pool hold one while
       the node is in their map; every scheduled snapshot job holds one from
       workerPool.start to workerPool.completed; when the counter reaches 0
       the node is handed to the close worker (setCloseReady), which calls
       Close unless DestroyedC is already closed;
     - loading a node: the worker sees the node in NodeHost's shard map under
       NodeHost.mu.RLock (impossible after stopNode, which deletes it under
       NodeHost.mu.Lock) and increments the counter; whether the increment
       happens under that lock or later is a GENERATED fact
       ([load_atomic_*]); when it is later, the state [Seen] exists;
     - the apply worker tests node.stopped() at the start of an iteration and
       only then handles tasks; it reloads its node map only between
       iterations;
     - the snapshot pool reloads its node map (workerPool.loadNodes) directly
       before it schedules jobs ([APoolCheck], GENERATED fact), so a node that was
       stopped in the meantime is dropped instead of being given a job;
     - pool shutdown ([APoolShutdown], NodeHost.Close): the ORDER of
       workerStopper.Stop() and unloadNodes() in workerPoolMain is a GENERATED
       fact; only when the workers are stopped first do the busy references
       outlive the running jobs;
     - snapshot requests are dispatched by the apply worker ([ADispatch]) and wait
       ([pend]) until the pool schedules them on a free worker ([ASchedule]); the pool
       drops a waiting job whose shard left its node map ([ADiscard]); whether
       scheduleWorker makes that test is a GENERATED fact;
     - snapshot pool admission (workerPool.canSchedule): save/recover need no
       job in progress for the shard, stream needs no save/recover; a second
       stream task is refused by node.canStream while node.ss.streaming() (set on
       dispatch, cleared by the apply worker after the stream job reported
       completion); whether canStream makes that test is a GENERATED fact.
   Over-approximations (more behaviours than the code, so the positive
   theorems remain valid): the task queue content is arbitrary (any Handle site
   may run next; the order/index discipline is Model/ApplyOrder.v), snapshot
   jobs may be scheduled whenever the pool still has the node, the step and
   commit workers (which never call the state machine and would only keep the
   counter positive for longer) and the saving/recovering flags (implied by
   the pool admission rule) are left out, the aborted flag is never set. *)
From Coq Require Import NArith List Bool String Arith.
From DB Require Import Gen.GenC11.
Import ListNotations.
Open Scope nat_scope.

Inductive meth := MUpdate | MLookup | MNALookup | MSync | MPrepare | MSave | MRecover
                | MClose | MOpen | MSetDestroyed | MOther.
Inductive lmode := LNone | LRead | LWrite.
Inductive kind := Plain | Conc | Disk.

Definition meth_eqb (a b : meth) : bool :=
  match a, b with
  | MUpdate, MUpdate | MLookup, MLookup | MNALookup, MNALookup | MSync, MSync
  | MPrepare, MPrepare | MSave, MSave | MRecover, MRecover | MClose, MClose
  | MOpen, MOpen | MSetDestroyed, MSetDestroyed | MOther, MOther => true
  | _, _ => false
  end.

Record site := mkSite {
  s_root : string; s_meth : meth; s_smu : lmode; s_dmu : lmode;
  s_chk_ab : bool; s_chk_de : bool; s_conc : N; s_disk : N;
  s_ssec : N; s_dsec : N;
  s_post : bool   (* destroyed is written after the call inside the same critical section *)
}.

Definition meth_of_string (s : string) : meth :=
  if String.eqb s "Update"%string then MUpdate else if String.eqb s "Lookup"%string then MLookup
  else if String.eqb s "NALookup"%string then MNALookup else if String.eqb s "Sync"%string then MSync
  else if String.eqb s "PrepareSnapshot"%string then MPrepare else if String.eqb s "SaveSnapshot"%string then MSave
  else if String.eqb s "RecoverFromSnapshot"%string then MRecover else if String.eqb s "Close"%string then MClose
  else if String.eqb s "Open"%string then MOpen else if String.eqb s "SetDestroyed"%string then MSetDestroyed
  else MOther.

Definition lmode_of_N (n : N) : lmode :=
  match n with 0%N => LNone | 1%N => LRead | _ => LWrite end.

Definition decode_row (r : string * string * (N * N) * (bool * bool) * (N * N) * (N * N)) : site :=
  match r with
  | (root, m, (a, b), (ca, cd), (c, d), (ss, ds)) =>
    mkSite root (meth_of_string m) (lmode_of_N a) (lmode_of_N b) ca cd c d ss ds false
  end.

(* the write of destroyed directly after Close inside the same critical section
   of either mutex is folded into the Close site ([s_post]); otherwise it stays
   a separate pseudo site *)
Definition same_section (a b : site) : bool :=
  (negb (N.eqb (s_ssec a) 0) && N.eqb (s_ssec a) (s_ssec b))
  || (negb (N.eqb (s_dsec a) 0) && N.eqb (s_dsec a) (s_dsec b)).

Fixpoint fold_post (l : list site) : list site :=
  match l with
  | a :: ((b :: rest) as tl) =>
    if meth_eqb (s_meth a) MClose && meth_eqb (s_meth b) MSetDestroyed
       && String.eqb (s_root a) (s_root b) && same_section a b
    then mkSite (s_root a) (s_meth a) (s_smu a) (s_dmu a) (s_chk_ab a) (s_chk_de a)
                (s_conc a) (s_disk a) (s_ssec a) (s_dsec a) true :: fold_post rest
    else a :: fold_post tl
  | _ => l
  end.

Definition sites_of_table (t : list (string * string * (N * N) * (bool * bool) * (N * N) * (N * N))) : list site :=
  fold_post (map decode_row t).

Definition is_conc (k : kind) : bool := match k with Plain => false | _ => true end.
Definition is_disk (k : kind) : bool := match k with Disk => true | _ => false end.
Definition tri_ok (t : N) (b : bool) : bool :=
  match t with 0%N => true | 1%N => negb b | _ => b end.
Definition applies (k : kind) (s : site) : bool :=
  tri_ok (s_conc s) (is_conc k) && tri_ok (s_disk s) (is_disk k).

Record cfg := mkCfg {
  c_sites : list site;
  c_kind : kind;
  c_nsnap : nat;
  c_load_atomic_engine : bool;   (* engine.loadBucketNodes increments under NodeHost.mu *)
  c_load_atomic_pool : bool;     (* workerPool.loadNodes increments under NodeHost.mu *)
  c_apply_checks_stopped : bool; (* processApplies tests node.stopped() first *)
  c_pool_rechecks : bool;        (* workerPoolMain reloads the node map directly before scheduling *)
  c_pool_stop_before_unload : bool; (* pool shutdown: workerStopper.Stop() (waits for running jobs) before unloadNodes() *)
  c_sched_checks_loaded : bool;    (* scheduleWorker drops a pending job whose shard is not in the pool's node map *)
  c_stream_checks_flag : bool;     (* node.canStream refuses a stream task while node.ss.streaming() *)
  c_close_checks_destroyed : bool; (* closeWorker.handle skips a node whose DestroyedC is closed *)
  c_book_atomic : bool;            (* update/handleBatch: setApplied/setOnDiskIndex in the critical section of the Update call *)
  c_pool_blocks : list (string * list string)
                                   (* workerPool.canSchedule: task kind -> in-progress maps that keep it waiting *)
}.

Definition root_sites (c : cfg) (root : string) : list site :=
  filter (fun s => String.eqb (s_root s) root && applies (c_kind c) s) (c_sites c).

Inductive jobkind := JSave | JStream | JRecover | JRecoverInit.

Definition job_sites (c : cfg) (j : jobkind) : list site :=
  match j with
  | JSave => root_sites c "Save"%string
  | JStream => if is_disk (c_kind c) then root_sites c "Stream"%string else []   (* only on-disk state machines stream *)
  | JRecover => root_sites c "Recover"%string ++ (if is_disk (c_kind c) then root_sites c "Sync"%string else [])
  | JRecoverInit =>
      (if is_disk (c_kind c) then root_sites c "OpenOnDiskStateMachine"%string else [])
      ++ root_sites c "Recover"%string ++ (if is_disk (c_kind c) then root_sites c "Sync"%string else [])
  end.

Definition job_allowed (c : cfg) (j : jobkind) : bool :=
  match j with JStream => is_disk (c_kind c) | _ => true end.

Definition apply_sites (c : cfg) : list site := root_sites c "Handle"%string.
Definition reader_sites (c : cfg) : list site := root_sites c "Lookup"%string ++ root_sites c "NALookup"%string.
Definition close_sites (c : cfg) : list site := root_sites c "Close"%string.

Definition jk_eqb (a b : jobkind) : bool :=
  match a, b with
  | JSave, JSave | JStream, JStream | JRecover, JRecover | JRecoverInit, JRecoverInit => true
  | _, _ => false
  end.

Inductive phase := P0 | P1 | P2 | P3 | P4 | P5 | P6.

Record thread := mkThr {
  t_job : list site;            (* head = current site *)
  t_ph : phase;
  t_busy : option jobkind       (* snapshot workers: in the pool's busy map *)
}.
Definition idle_thread : thread := mkThr [] P0 None.

Inductive ref := NotLoaded | Seen | Loaded | Gone.

Record state := mkState {
  thr : list thread;
  destroyed : bool;       (* OffloadedStatus.destroyed / DestroyedC closed *)
  closed : bool;          (* ghost: the user Close has been entered *)
  nclose : nat;           (* ghost: how many times *)
  stopped : bool;         (* node removed from NodeHost's map, stopC closed *)
  cnt : nat;              (* OffloadedStatus.loadedCount *)
  ap_ref : ref; ap_chk : bool;
  pool_ref : ref; pool_chk : bool;
  close_ready : bool;
  ss_streaming : bool; stream_done : bool;
  pend : jobkind -> bool; (* snapshot requests dispatched by the apply worker and not yet scheduled:
                             node.ss.*Ready slots and workerPool.pending *)
  dirty : bool;           (* ghost: the user state machine holds an update that s.index/s.onDiskIndex do not yet reflect *)
  snap_bad : bool         (* ghost: a snapshot image was taken and labelled while [dirty] *)
}.

Definition init (nthreads : nat) : state :=
  mkState (repeat idle_thread nthreads) false false 0 false 1 NotLoaded false NotLoaded false false false false (fun _ => false) false false.

Definition holds_s (p : phase) : bool := match p with P0 => false | _ => true end.
Definition holds_d (p : phase) : bool := match p with P0 | P1 => false | _ => true end.

Definition holdsS (t : thread) : lmode :=
  match t_job t with [] => LNone | s :: _ => if holds_s (t_ph t) then s_smu s else LNone end.
Definition holdsD (t : thread) : lmode :=
  match t_job t with [] => LNone | s :: _ => if holds_d (t_ph t) then s_dmu s else LNone end.

Definition compat (a b : lmode) : bool :=
  match a, b with
  | LNone, _ | _, LNone => true
  | LRead, LRead => true
  | _, _ => false
  end.

(* compatibility of mode [m] with what every thread except [skip] holds *)
Fixpoint others_ok (f : thread -> lmode) (m : lmode) (skip : option nat) (l : list thread) : bool :=
  match l with
  | [] => true
  | t :: r =>
    match skip with
    | Some 0 => others_ok f m None r
    | Some (S k) => compat m (f t) && others_ok f m (Some k) r
    | None => compat m (f t) && others_ok f m None r
    end
  end.

Fixpoint upd {A} (i : nat) (v : A) (l : list A) : list A :=
  match l, i with
  | [], _ => []
  | _ :: r, 0 => v :: r
  | a :: r, S k => a :: upd k v r
  end.

Definition getT (st : state) (i : nat) : thread := nth i (thr st) idle_thread.

Definition is_idle (t : thread) : bool := match t_job t with [] => true | _ => false end.
Definition in_call (t : thread) : option meth :=
  match t_job t, t_ph t with
  | s :: _, P4 => Some (s_meth s)
  | _, _ => None
  end.

Inductive role := RApply | RClose | RSnap | RReader.
Definition role_of (c : cfg) (i : nat) : role :=
  match i with
  | 0 => RApply
  | 1 => RClose
  | S (S k) => if k <? c_nsnap c then RSnap else RReader
  end.

Definition set_thr (st : state) (l : list thread) : state :=
  mkState l (destroyed st) (closed st) (nclose st) (stopped st) (cnt st) (ap_ref st) (ap_chk st)
          (pool_ref st) (pool_chk st) (close_ready st) (ss_streaming st) (stream_done st) (pend st) (dirty st) (snap_bad st).

(* decrement of the offload counter; reaching 0 hands the node to the close pool *)
Definition offload (st : state) : state :=
  mkState (thr st) (destroyed st) (closed st) (nclose st) (stopped st) (pred (cnt st)) (ap_ref st) (ap_chk st)
          (pool_ref st) (pool_chk st) (close_ready st || (pred (cnt st) =? 0)) (ss_streaming st) (stream_done st) (pend st) (dirty st) (snap_bad st).
Definition load (st : state) : state :=
  mkState (thr st) (destroyed st) (closed st) (nclose st) (stopped st) (S (cnt st)) (ap_ref st) (ap_chk st)
          (pool_ref st) (pool_chk st) (close_ready st) (ss_streaming st) (stream_done st) (pend st) (dirty st) (snap_bad st).

Definition job_conflict (new old : jobkind) : bool :=
  match new, old with
  | JStream, JStream => false
  | _, _ => true
  end.
(* the admission rule as the source has it (GENERATED table [c_pool_blocks]): a job of kind
   [new] waits while a job of kind [old] of the same shard is in the pool's
   saving / recovering / streaming map *)
Definition task_name (j : jobkind) : string :=
  match j with JSave => "Save" | JStream => "Stream" | JRecover | JRecoverInit => "Recover" end%string.
Definition progress_map (j : jobkind) : string :=
  match j with JSave => "saving" | JStream => "streaming" | JRecover | JRecoverInit => "recovering" end%string.
Fixpoint blocks_of (t : list (string * list string)) (k : string) : list string :=
  match t with
  | [] => []
  | (k', l) :: r => if String.eqb k k' then l else blocks_of r k
  end.
Definition admit_conflict (c : cfg) (new old : jobkind) : bool :=
  existsb (String.eqb (progress_map old)) (blocks_of (c_pool_blocks c) (task_name new)).
Definition pool_admits (c : cfg) (j : jobkind) (l : list thread) : bool :=
  forallb (fun t => match t_busy t with None => true | Some o => negb (admit_conflict c j o) end) l.
(* table condition: the generated rule is "everything excludes everything except stream/stream" *)
Definition all_jobkinds : list jobkind := [JSave; JStream; JRecover; JRecoverInit].
Definition pool_blocks_ok (c : cfg) : bool :=
  forallb (fun a => forallb (fun b => Bool.eqb (admit_conflict c a b) (job_conflict a b)) all_jobkinds) all_jobkinds.

(* workerPool.unloadNodes drops the busy reference of every worker *)
Definition is_busy_t (t : thread) : bool := match t_busy t with None => false | Some _ => true end.
Definition clear_busy (t : thread) : thread := if is_busy_t t then mkThr (t_job t) (t_ph t) None else t.
Definition count_busy (l : list thread) : nat := List.length (filter is_busy_t l).

Inductive action :=
| AStop
| AApLoad | AApIncr | AApCheck | AApStart (n : nat) | AApOffload | AApClearStream | AApBook
| APoolLoad | APoolIncr | APoolCheck | APoolOffload | APoolShutdown
| ADispatch (j : jobkind) | ADiscard (j : jobkind)
| ASchedule (w : nat) (j : jobkind) | ACompleted (w : nat)
| AReaderStart (r : nat) (n : nat)
| ACloseStart
| AThr (i : nat).

(* one phase step of thread i; [None] = not enabled *)
Definition thr_step (c : cfg) (st : state) (i : nat) : option state :=
  let t := getT st i in
  match t_job t with
  | [] => None
  | s :: rest =>
    let setph p := set_thr st (upd i (mkThr (t_job t) p (t_busy t)) (thr st)) in
    match t_ph t with
    | P0 => if others_ok holdsS (s_smu s) (Some i) (thr st) then Some (setph P1) else None
    | P1 => if others_ok holdsD (s_dmu s) (Some i) (thr st) then Some (setph P2) else None
    | P2 => if (s_chk_de s && destroyed st)
            then Some (set_thr st (upd i (mkThr [s] P6 (t_busy t)) (thr st)))   (* ErrShardClosed: give up the job *)
            else Some (setph P3)
    | P3 =>
      let st1 := setph P4 in
      match s_meth s with
      | MClose => Some (mkState (thr st1) (destroyed st1) true (S (nclose st1)) (stopped st1) (cnt st1) (ap_ref st1)
                                (ap_chk st1) (pool_ref st1) (pool_chk st1) (close_ready st1) (ss_streaming st1) (stream_done st1) (pend st1) (dirty st1) (snap_bad st1))
      | MSetDestroyed => Some (mkState (thr st1) true (closed st1) (nclose st1) (stopped st1) (cnt st1) (ap_ref st1)
                                (ap_chk st1) (pool_ref st1) (pool_chk st1) (close_ready st1) (ss_streaming st1) (stream_done st1) (pend st1) (dirty st1) (snap_bad st1))
      | _ => Some st1
      end
    | P4 => Some (setph P5)
    | P5 =>
      let st1 := setph P6 in
      if s_post s
      then Some (mkState (thr st1) true (closed st1) (nclose st1) (stopped st1) (cnt st1) (ap_ref st1)
                         (ap_chk st1) (pool_ref st1) (pool_chk st1) (close_ready st1) (ss_streaming st1) (stream_done st1) (pend st1) (dirty st1) (snap_bad st1))
      else Some st1
    | P6 =>
      let st1 := set_thr st (upd i (mkThr rest P0 (t_busy t)) (thr st)) in
      match rest, t_busy t with
      | [], Some JStream =>   (* node.streamDone: streamCompleted set *)
        Some (mkState (thr st1) (destroyed st1) (closed st1) (nclose st1) (stopped st1) (cnt st1) (ap_ref st1)
                      (ap_chk st1) (pool_ref st1) (pool_chk st1) (close_ready st1) (ss_streaming st1) true (pend st1) (dirty st1) (snap_bad st1))
      | _, _ => Some st1
      end
    end
  end.

Definition set_ap (st : state) (r : ref) (chk : bool) : state :=
  mkState (thr st) (destroyed st) (closed st) (nclose st) (stopped st) (cnt st) r chk
          (pool_ref st) (pool_chk st) (close_ready st) (ss_streaming st) (stream_done st) (pend st) (dirty st) (snap_bad st).
Definition set_pool (st : state) (r : ref) : state :=
  mkState (thr st) (destroyed st) (closed st) (nclose st) (stopped st) (cnt st) (ap_ref st) (ap_chk st)
          r false (close_ready st) (ss_streaming st) (stream_done st) (pend st) (dirty st) (snap_bad st).

Definition set_ghost (st : state) (d b : bool) : state :=
  mkState (thr st) (destroyed st) (closed st) (nclose st) (stopped st) (cnt st) (ap_ref st) (ap_chk st)
          (pool_ref st) (pool_chk st) (close_ready st) (ss_streaming st) (stream_done st) (pend st) d b.

(* a site at which a snapshot image of the user state machine is taken together with its label
   (SSMeta.Index / OnDiskIndex, read under the same hold of S): PrepareSnapshot, and the plain
   state machine's SaveSnapshot *)
Definition label_site (s : site) : bool :=
  meth_eqb (s_meth s) MPrepare
  || (meth_eqb (s_meth s) MSave && match s_smu s with LNone => false | _ => true end).

(* ghost bookkeeping of a phase step of thread i (decided on the state BEFORE the step):
   entering Update makes the state machine dirty; the post step of an Update site (still inside
   the critical section) cleans it iff the source does the index bookkeeping there (GENERATED
   fact); entering a label site while dirty is recorded *)
Definition ghost_step (c : cfg) (st : state) (i : nat) (st1 : state) : state :=
  match t_job (getT st i), t_ph (getT st i) with
  | s :: _, P3 => set_ghost st1 (dirty st || meth_eqb (s_meth s) MUpdate)
                            (snap_bad st || (label_site s && dirty st))
  | s :: _, P5 => set_ghost st1 (dirty st && negb (meth_eqb (s_meth s) MUpdate && c_book_atomic c)) (snap_bad st)
  | _, _ => st1
  end.

Definition ref_eqb (a b : ref) : bool :=
  match a, b with
  | NotLoaded, NotLoaded | Seen, Seen | Loaded, Loaded | Gone, Gone => true
  | _, _ => false
  end.

Definition step (c : cfg) (st : state) (a : action) : option state :=
  match a with
  | AStop =>
    if stopped st then None
    else Some (offload (mkState (thr st) (destroyed st) (closed st) (nclose st) true (cnt st) (ap_ref st) (ap_chk st)
                                (pool_ref st) (pool_chk st) (close_ready st) (ss_streaming st) (stream_done st) (pend st) (dirty st) (snap_bad st)))
  | AApLoad =>
    if negb (stopped st) && ref_eqb (ap_ref st) NotLoaded
    then Some (if c_load_atomic_engine c then load (set_ap st Loaded false) else set_ap st Seen false)
    else None
  | AApIncr =>
    if ref_eqb (ap_ref st) Seen then Some (load (set_ap st Loaded false)) else None
  | AApCheck =>
    if ref_eqb (ap_ref st) Loaded && is_idle (getT st 0)
    then Some (set_ap st Loaded (if c_apply_checks_stopped c then negb (stopped st) else true))
    else None
  | AApBook =>
    (* only when the bookkeeping is NOT done in the critical section of Update: it happens
       later, after the mutex was released and taken again *)
    if negb (c_book_atomic c) && dirty st && is_idle (getT st 0)
    then Some (set_ghost st false (snap_bad st))
    else None
  | AApStart n =>
    if ap_chk st && is_idle (getT st 0) && (c_book_atomic c || negb (dirty st))
    then match nth_error (apply_sites c) n with
         | Some s => Some (set_thr st (upd 0 (mkThr [s] P0 None) (thr st)))
         | None => None
         end
    else None
  | AApOffload =>
    if stopped st && ref_eqb (ap_ref st) Loaded && is_idle (getT st 0)
    then Some (offload (set_ap st Gone false))
    else None
  | AApClearStream =>
    if ss_streaming st && stream_done st
    then Some (mkState (thr st) (destroyed st) (closed st) (nclose st) (stopped st) (cnt st) (ap_ref st) (ap_chk st)
                       (pool_ref st) (pool_chk st) (close_ready st) false false (pend st) (dirty st) (snap_bad st))
    else None
  | APoolLoad =>
    if negb (stopped st) && ref_eqb (pool_ref st) NotLoaded
    then Some (if c_load_atomic_pool c then load (set_pool st Loaded) else set_pool st Seen)
    else None
  | APoolIncr =>
    if ref_eqb (pool_ref st) Seen then Some (load (set_pool st Loaded)) else None
  | APoolCheck =>
    (* workerPoolMain: p.loadNodes() directly before p.schedule() re-reads NodeHost's shard map *)
    if ref_eqb (pool_ref st) Loaded
    then Some (mkState (thr st) (destroyed st) (closed st) (nclose st) (stopped st) (cnt st) (ap_ref st) (ap_chk st)
                       Loaded (if c_pool_rechecks c then negb (stopped st) else true)
                       (close_ready st) (ss_streaming st) (stream_done st) (pend st) (dirty st) (snap_bad st))
    else None
  | APoolOffload =>
    if stopped st && ref_eqb (pool_ref st) Loaded then Some (offload (set_pool st Gone)) else None
  | APoolShutdown =>
    (* NodeHost.Close -> engine.close -> workerPool.close: the pool goroutine leaves its loop.
       In the order [workerStopper.Stop(); unloadNodes()] it first waits until every snapshot
       worker has returned from its job, then drops the pool's reference and all busy
       references; in the other order the references are dropped while jobs may still run *)
    if negb (ref_eqb (pool_ref st) Seen)
       && (negb (c_pool_stop_before_unload c)
           || forallb (fun t => negb (is_busy_t t) || is_idle t) (thr st))
    then
      let dec := (if ref_eqb (pool_ref st) Loaded then 1 else 0) + count_busy (thr st) in
      let cnt' := cnt st - dec in
      Some (mkState (map clear_busy (thr st)) (destroyed st) (closed st) (nclose st) (stopped st) cnt'
                    (ap_ref st) (ap_chk st) Gone false
                    (close_ready st || ((0 <? dec) && (cnt' =? 0))) (ss_streaming st) (stream_done st) (pend st) (dirty st) (snap_bad st))
    else None
  | ADispatch j =>
    (* the apply worker, inside an iteration that saw the node not stopped, takes a snapshot task
       from the queue (node.handleSnapshotTask): the request is handed to the pool; a stream task is
       refused while node.ss.streaming() (canStream; GENERATED fact) and otherwise sets that flag *)
    if ap_chk st && is_idle (getT st 0) && job_allowed c j
       && (match j with JStream => negb (c_stream_checks_flag c && ss_streaming st) | _ => true end)
    then Some (mkState (thr st) (destroyed st) (closed st) (nclose st) (stopped st) (cnt st) (ap_ref st) (ap_chk st)
                       (pool_ref st) (pool_chk st) (close_ready st)
                       (match j with JStream => true | _ => ss_streaming st end) (stream_done st)
                       (fun k => jk_eqb k j || pend st k) (dirty st) (snap_bad st))
    else None
  | ADiscard j =>
    (* workerPool.scheduleWorker: a pending job whose shard is no longer in the pool's node map is dropped *)
    if pend st j && c_sched_checks_loaded c && negb (ref_eqb (pool_ref st) Loaded)
    then Some (mkState (thr st) (destroyed st) (closed st) (nclose st) (stopped st) (cnt st) (ap_ref st) (ap_chk st)
                       (pool_ref st) (pool_chk st) (close_ready st) (ss_streaming st) (stream_done st)
                       (fun k => negb (jk_eqb k j) && pend st k) (dirty st) (snap_bad st))
    else None
  | ASchedule w j =>
    (* a pending job gets a free worker. With the check of scheduleWorker (GENERATED fact) only when
       the pool's freshly reloaded map still has the node ([pool_chk]); without it, always *)
    let t := getT st w in
    match role_of c w with
    | RSnap =>
      if pend st j && (pool_chk st || negb (c_sched_checks_loaded c))
         && (w <? List.length (thr st)) && is_idle t
         && (match t_busy t with None => true | _ => false end)
         && pool_admits c j (thr st)
      then
        let st1 := load (set_thr st (upd w (mkThr (job_sites c j) P0 (Some j)) (thr st))) in
        Some (mkState (thr st1) (destroyed st1) (closed st1) (nclose st1) (stopped st1) (cnt st1)
                      (ap_ref st1) (ap_chk st1) (pool_ref st1) (pool_chk st1) (close_ready st1)
                      (ss_streaming st1) (stream_done st1) (fun k => negb (jk_eqb k j) && pend st k) (dirty st) (snap_bad st))
      else None
    | _ => None
    end
  | ACompleted w =>
    let t := getT st w in
    match role_of c w, t_busy t with
    | RSnap, Some _ =>
      if is_idle t then Some (offload (set_thr st (upd w idle_thread (thr st)))) else None
    | _, _ => None
    end
  | AReaderStart r n =>
    match role_of c r with
    | RReader =>
      if is_idle (getT st r) && (r <? List.length (thr st))
      then match nth_error (reader_sites c) n with
           | Some s => Some (set_thr st (upd r (mkThr [s] P0 None) (thr st)))
           | None => None
           end
      else None
    | _ => None
    end
  | ACloseStart =>
    if close_ready st && is_idle (getT st 1)
    then
      let st1 := mkState (thr st) (destroyed st) (closed st) (nclose st) (stopped st) (cnt st) (ap_ref st) (ap_chk st)
                         (pool_ref st) (pool_chk st) false (ss_streaming st) (stream_done st) (pend st) (dirty st) (snap_bad st) in
      if c_close_checks_destroyed c && destroyed st then Some st1
      else Some (set_thr st1 (upd 1 (mkThr (close_sites c) P0 None) (thr st1)))
    else None
  | AThr i => match thr_step c st i with Some st1 => Some (ghost_step c st i st1) | None => None end
  end.

(* a disabled action leaves the state unchanged: every action list is a schedule *)
Definition step' (c : cfg) (st : state) (a : action) : state :=
  match step c st a with Some st' => st' | None => st end.
Definition run (c : cfg) (st : state) (l : list action) : state := fold_left (step' c) l st.

(* ---- the property's predicates on a state ---- *)
Definition core (m : meth) : bool :=
  match m with MUpdate | MSync | MPrepare | MRecover | MClose => true | _ => false end.
Definition plain_rw (m : meth) : bool :=   (* Lookup / SaveSnapshot of the plain state machine *)
  match m with MLookup | MNALookup | MSave => true | _ => false end.
Definition plain_excl (m : meth) : bool :=
  match m with MUpdate | MRecover | MClose => true | _ => false end.

Fixpoint calls_from (i : nat) (l : list thread) : list (nat * meth) :=
  match l with
  | [] => []
  | t :: r => (match in_call t with Some m => [(i, m)] | None => [] end) ++ calls_from (S i) r
  end.
Definition calls (st : state) : list (nat * meth) := calls_from 0 (thr st).

(* executable monitors used by the refutation witnesses *)
Definition overlap (p q : meth -> bool) (st : state) : bool :=
  existsb (fun a => existsb (fun b => negb (fst a =? fst b) && p (snd a) && q (snd b)) (calls st)) (calls st).

(* ---- the configuration generated from the source ---- *)
Definition gen_sites : list site := sites_of_table lock_table.
Definition gen_cfg (k : kind) (nsnap : nat) : cfg :=
  mkCfg gen_sites k nsnap engine_load_inside_foreach pool_load_inside_foreach apply_checks_stopped
        pool_rechecks_before_schedule pool_stops_workers_before_unload
        sched_checks_node_loaded can_stream_checks_streaming
        close_worker_checks_destroyed apply_bookkeeping_in_update_section pool_blocks.

(* ---- table conditions the positive theorems need (booleans, decided by computation) ---- *)
Definition site_ok_core (s : site) : bool :=
  match s_meth s with
  | MUpdate | MSync | MRecover | MOpen => match s_smu s with LWrite => true | _ => false end
  | MPrepare => match s_smu s with LNone => false | _ => true end
  | _ => true
  end.
Definition table_core_ok (c : cfg) : bool := forallb site_ok_core (c_sites c).

(* the Close root: user Close and the write of destroyed happen inside one
   critical section of D held exclusively *)
Definition close_locked (c : cfg) : bool :=
  forallb (fun s => match s_meth s with
                    | MClose => s_post s && match s_dmu s with LWrite => true | _ => false end
                    | MSetDestroyed => false
                    | _ => true
                    end) (close_sites c)
  && forallb (fun s => match s_meth s with MSetDestroyed => String.eqb (s_root s) "Close"%string | _ => true end) (c_sites c)
  && forallb (fun s => negb (s_post s) || String.eqb (s_root s) "Close"%string) (c_sites c).

(* plain state machine: Lookup/NALookup hold S and D at least shared and test destroyed;
   SaveSnapshot holds S at least shared *)
Definition plain_reader_ok (c : cfg) : bool :=
  forallb (fun s => s_chk_de s && negb (compat LWrite (s_smu s)) && negb (compat LWrite (s_dmu s))) (reader_sites c)
  && forallb (fun s => match s_meth s with
                       | MSave => negb (compat LWrite (s_smu s))
                       | MLookup | MNALookup => false
                       | _ => true end)
       (job_sites c JSave ++ job_sites c JRecover ++ job_sites c JRecoverInit ++ apply_sites c).
