(* C09 — the SPEC of a log store: the logical log, hard state and newest snapshot
   record of every replica (shard, replica) sharing the store.

   INTERFACE (used by Model/LogDBPlain.v, Model/LogDBBatched.v, the C09 driver, and
   meant to be reused by C10):
     entry, hstate, snapshot, update            the persisted records (payload = tag+len)
     nid := (shard, replica)                    replica identifier
     op, query, answer                          operations / observations of raftio.ILogDB
     sstate := nid -> rnode                     spec state
     spec_wf_op / spec_step                     contract of an operation / its effect
     spec_wf_query / spec_answer                contract of a query / the correct answer
     wf_ops s ops, spec_run s ops               contract of a sequence / its effect

   The contract (the spec_wf functions) is what the raft core guarantees (C19) and what
   LogReader asks for:
   - saved entries are contiguous, start above the marker and at most at last+1,
     terms never decrease along the log (snapshot terms included); entries that overwrite
     a suffix carry a term at least as new as every entry they truncate (the property's
     "overwrites of a suffix with entries of a newer term"; Raft's Log Matching);
   - a snapshot carried by an update (received from the leader, the log restarts
     there) is not behind the log: index >= last; it moves the marker;
   - RemoveEntriesTo idx: 1 <= idx <= last, moves the marker to idx;
   - entries are only asked for above the marker, ReadRaftState is asked with
     marker <= arg <= last.
   No proofs in this file. *)
From Coq Require Import List NArith Bool.
From DB Require Import Base.Bytes Gen.GenC09.
Import ListNotations.
Open Scope N_scope.

Record entry := mkEnt { e_index : N; e_term : N; e_tag : N; e_len : N }.
Record hstate := mkSt { st_term : N; st_vote : N; st_commit : N }.
Record snapshot := mkSs { ss_index : N; ss_term : N; ss_tag : N }.

Definition nid := (N * N)%type.
Definition nid_eqb (a b : nid) : bool := (fst a =? fst b) && (snd a =? snd b).

Record update := mkUp { u_node : nid; u_st : hstate; u_ss : snapshot; u_ents : list entry }.

Definition st_emptyb (s : hstate) : bool := (st_term s =? 0) && (st_vote s =? 0) && (st_commit s =? 0).
Definition st_eqb (a b : hstate) : bool :=
  (st_term a =? st_term b) && (st_vote a =? st_vote b) && (st_commit a =? st_commit b).
Definition ss_eqb (a b : snapshot) : bool :=
  (ss_index a =? ss_index b) && (ss_term a =? ss_term b) && (ss_tag a =? ss_tag b).
Definition ss_emptyb (s : snapshot) : bool := ss_index s =? 0.

(* Entry.SizeUpperLimit() *)
Definition esize (e : entry) : N := c09_entry_non_cmd_fields_size + e_len e.

Inductive op :=
| OSave (us : list update)            (* one SaveRaftState call *)
| OSnap (n : nid) (ss : snapshot)     (* SaveSnapshots, one update *)
| ORemTo (n : nid) (idx : N)          (* RemoveEntriesTo (+ CompactEntriesTo) *)
| ORemNode (n : nid)                  (* RemoveNodeData *)
| OImport (n : nid) (ss : snapshot)   (* close/reopen ; ImportSnapshot ; close/reopen *)
| OReopen.                            (* close/reopen *)

Inductive query :=
| QIter (n : nid) (low high maxsz : N)   (* IterateEntries *)
| QState (n : nid) (arg : N)             (* ReadRaftState(arg) *)
| QSnap (n : nid).                       (* GetSnapshot *)

(* canonical answers. AState: None = ErrNoSavedLog; (first,count) normalised the way
   LogReader.SetRange consumes it: entries at or below arg cut off, first := 0 when count = 0 *)
Inductive answer :=
| AIter (es : list entry) (size : N)
| AState (st : option hstate) (first count : N)
| ASnap (ss : option snapshot)
| APanic.

Record rnode := mkNode {
  n_marker : N;                 (* everything <= marker is compacted / covered by a snapshot *)
  n_mterm : N;                  (* term at the marker *)
  n_ents : list entry;          (* indexes marker+1 .. marker+length *)
  n_st : option hstate;
  n_ss : option snapshot }.

Definition empty_node : rnode := mkNode 0 0 [] None None.
Definition sstate := nid -> rnode.
Definition spec_init : sstate := fun _ => empty_node.
Definition supd (s : sstate) (n : nid) (v : rnode) : sstate :=
  fun m => if nid_eqb m n then v else s m.

Definition n_last (n : rnode) : N := n_marker n + nlen (n_ents n).
Definition n_ssidx (n : rnode) : N := match n_ss n with Some ss => ss_index ss | None => 0 end.
Fixpoint last_term (d : N) (es : list entry) : N :=
  match es with [] => d | e :: t => last_term (e_term e) t end.
Definition n_last_term (n : rnode) : N := last_term (n_mterm n) (n_ents n).

Definition max_index : N := 2 ^ 62.
Definition max_len : N := 2 ^ 20.

(* entries es are contiguous from index i, lengths in range, terms non-decreasing from prev *)
Fixpoint ents_okb (i prev : N) (es : list entry) : bool :=
  match es with
  | [] => true
  | e :: t => (e_index e =? i) && (prev <=? e_term e) && (8 <=? e_len e) && (e_len e <=? max_len)
              && ents_okb (i + 1) (e_term e) t
  end.

Definition head_index (es : list entry) : N := match es with e :: _ => e_index e | [] => 0 end.

(* term of the retained entry with index i (0 if none) *)
Definition term_at (es : list entry) (i : N) : N :=
  match find (fun e => e_index e =? i) es with Some e => e_term e | None => 0 end.

Definition below (i : N) (es : list entry) : list entry := filter (fun e => e_index e <? i) es.
Definition above (i : N) (es : list entry) : list entry := filter (fun e => i <? e_index e) es.

(* the snapshot part of an update *)
Definition upd_ss_wf (n : rnode) (ss : snapshot) : bool :=
  ss_emptyb ss ||
  ((ss_index ss <? max_index) && (n_last_term n <=? ss_term ss) &&
   (((n_ssidx n <? ss_index ss) && (n_last n <=? ss_index ss)) ||
    (match n_ss n with Some cur => ss_eqb cur ss | None => false end && (ss_index ss =? n_last n)))).

Definition upd_ss_step (n : rnode) (ss : snapshot) : rnode :=
  if ss_emptyb ss then n
  else mkNode (ss_index ss) (ss_term ss) []
         (n_st n) (if n_ssidx n <? ss_index ss then Some ss else n_ss n).

Definition upd_st_step (n : rnode) (st : hstate) : rnode :=
  if st_emptyb st then n else mkNode (n_marker n) (n_mterm n) (n_ents n) (Some st) (n_ss n).

Definition upd_ents_wf (n : rnode) (es : list entry) : bool :=
  match es with
  | [] => true
  | e :: _ =>
    let i0 := e_index e in
    (n_marker n <? i0) && (i0 <=? n_last n + 1) && (i0 + nlen es <? max_index) &&
    ents_okb i0 (N.max (N.max 1 (if i0 =? n_marker n + 1 then n_mterm n else term_at (n_ents n) (i0 - 1)))
                       (* an overwrite carries a newer term than everything it truncates *)
                       (if i0 <=? n_last n then n_last_term n else 0)) es
  end.

Definition upd_ents_step (n : rnode) (es : list entry) : rnode :=
  match es with
  | [] => n
  | e :: _ => mkNode (n_marker n) (n_mterm n) (below (e_index e) (n_ents n) ++ es) (n_st n) (n_ss n)
  end.

Definition update_wf (n : rnode) (u : update) : bool :=
  upd_ss_wf n (u_ss u) && upd_ents_wf (upd_ss_step n (u_ss u)) (u_ents u).
Definition update_step (n : rnode) (u : update) : rnode :=
  upd_ents_step (upd_st_step (upd_ss_step n (u_ss u)) (u_st u)) (u_ents u).

Fixpoint nodes_distinct (l : list nid) : bool :=
  match l with [] => true | a :: t => negb (existsb (nid_eqb a) t) && nodes_distinct t end.

Definition save_step (s : sstate) (us : list update) : sstate :=
  fold_left (fun s u => supd s (u_node u) (update_step (s (u_node u)) u)) us s.

Definition spec_wf_op (s : sstate) (o : op) : bool :=
  match o with
  | OSave us => nodes_distinct (map u_node us) && forallb (fun u => update_wf (s (u_node u)) u) us
  | OSnap n ss =>
    let nd := s n in
    negb (ss_emptyb ss) && (ss_index ss <=? n_last nd) &&
    (negb (ss_index ss =? n_ssidx nd) || match n_ss nd with Some cur => ss_eqb cur ss | None => false end)
  | ORemTo n idx => (1 <=? idx) && (idx <=? n_last (s n))
  | ORemNode _ => true
  | OImport n ss => negb (ss_emptyb ss) && (ss_index ss <? max_index) && (n_last_term (s n) <=? ss_term ss)
  | OReopen => true
  end.

Definition spec_step (s : sstate) (o : op) : sstate :=
  match o with
  | OSave us => save_step s us
  | OSnap n ss =>
    let nd := s n in
    if n_ssidx nd <? ss_index ss
    then supd s n (mkNode (n_marker nd) (n_mterm nd) (n_ents nd) (n_st nd) (Some ss)) else s
  | ORemTo n idx =>
    let nd := s n in
    if n_marker nd <? idx
    then supd s n (mkNode idx (term_at (n_ents nd) idx) (above idx (n_ents nd)) (n_st nd) (n_ss nd))
    else s
  | ORemNode n => supd s n empty_node
  | OImport n ss =>
    supd s n (mkNode (ss_index ss) (ss_term ss) [] (Some (mkSt (ss_term ss) 0 (ss_index ss))) (Some ss))
  | OReopen => s
  end.

Fixpoint wf_ops (s : sstate) (ops : list op) : bool :=
  match ops with
  | [] => true
  | o :: t => spec_wf_op s o && wf_ops (spec_step s o) t
  end.
Definition spec_run (s : sstate) (ops : list op) : sstate := fold_left spec_step ops s.

(* ---- observations ---- *)

(* entries until the accumulated size exceeds the limit (the exceeding entry included) *)
Fixpoint take_size (maxsz size : N) (es : list entry) : list entry * N :=
  match es with
  | [] => ([], size)
  | e :: t =>
    let size' := size + esize e in
    if maxsz <? size' then ([e], size')
    else let (r, sz) := take_size maxsz size' t in (e :: r, sz)
  end.

Definition in_range (low high : N) (e : entry) : bool := (low <=? e_index e) && (e_index e <? high).

Definition spec_wf_query (s : sstate) (q : query) : bool :=
  match q with
  | QIter n low high maxsz => (n_marker (s n) <? low) && (low <=? high) && (high <=? max_index) && (1 <=? maxsz)
  | QState n arg => (n_marker (s n) <=? arg) && (arg <=? n_last (s n))
  | QSnap _ => true
  end.

Definition spec_answer (s : sstate) (q : query) : answer :=
  match q with
  | QIter n low high maxsz =>
    let (es, sz) := take_size maxsz 0 (filter (in_range low high) (n_ents (s n))) in AIter es sz
  | QState n arg =>
    let nd := s n in
    match n_st nd with
    | None => AState None 0 0
    | Some st => if arg <? n_last nd then AState (Some st) (arg + 1) (n_last nd - arg)
                 else AState (Some st) 0 0
    end
  | QSnap n => ASnap (n_ss (s n))
  end.

(* ocaml/common/util.ml needs the extracted type of Z *)
Definition c09_z_succ (z : Z) : Z := Z.succ z.
