
type nat =
| O
| S of nat

(** val fst : ('a1 * 'a2) -> 'a1 **)

let fst = function
| (x, _) -> x

(** val snd : ('a1 * 'a2) -> 'a2 **)

let snd = function
| (_, y) -> y

(** val length : 'a1 list -> nat **)

let rec length = function
| [] -> O
| _ :: l' -> S (length l')

(** val app : 'a1 list -> 'a1 list -> 'a1 list **)

let rec app l m =
  match l with
  | [] -> m
  | a :: l1 -> a :: (app l1 m)

type comparison =
| Eq
| Lt
| Gt

(** val compOpp : comparison -> comparison **)

let compOpp = function
| Eq -> Eq
| Lt -> Gt
| Gt -> Lt

module Coq__1 = struct
 (** val add : nat -> nat -> nat **)
 let rec add n0 m =
   match n0 with
   | O -> m
   | S p -> S (add p m)
end
include Coq__1

module Nat =
 struct
  (** val leb : nat -> nat -> bool **)

  let rec leb n0 m =
    match n0 with
    | O -> true
    | S n' -> (match m with
               | O -> false
               | S m' -> leb n' m')
 end

(** val hd : 'a1 -> 'a1 list -> 'a1 **)

let hd default = function
| [] -> default
| x :: _ -> x

(** val tl : 'a1 list -> 'a1 list **)

let tl = function
| [] -> []
| _ :: m -> m

(** val forallb : ('a1 -> bool) -> 'a1 list -> bool **)

let rec forallb f = function
| [] -> true
| a :: l0 -> (&&) (f a) (forallb f l0)

(** val firstn : nat -> 'a1 list -> 'a1 list **)

let rec firstn n0 l =
  match n0 with
  | O -> []
  | S n1 -> (match l with
             | [] -> []
             | a :: l0 -> a :: (firstn n1 l0))

(** val skipn : nat -> 'a1 list -> 'a1 list **)

let rec skipn n0 l =
  match n0 with
  | O -> l
  | S n1 -> (match l with
             | [] -> []
             | _ :: l0 -> skipn n1 l0)

type positive =
| XI of positive
| XO of positive
| XH

type n =
| N0
| Npos of positive

type z =
| Z0
| Zpos of positive
| Zneg of positive

module Pos =
 struct
  type mask =
  | IsNul
  | IsPos of positive
  | IsNeg
 end

module Coq_Pos =
 struct
  (** val succ : positive -> positive **)

  let rec succ = function
  | XI p -> XO (succ p)
  | XO p -> XI p
  | XH -> XO XH

  (** val add : positive -> positive -> positive **)

  let rec add x y =
    match x with
    | XI p ->
      (match y with
       | XI q -> XO (add_carry p q)
       | XO q -> XI (add p q)
       | XH -> XO (succ p))
    | XO p ->
      (match y with
       | XI q -> XI (add p q)
       | XO q -> XO (add p q)
       | XH -> XI p)
    | XH -> (match y with
             | XI q -> XO (succ q)
             | XO q -> XI q
             | XH -> XO XH)

  (** val add_carry : positive -> positive -> positive **)

  and add_carry x y =
    match x with
    | XI p ->
      (match y with
       | XI q -> XI (add_carry p q)
       | XO q -> XO (add_carry p q)
       | XH -> XI (succ p))
    | XO p ->
      (match y with
       | XI q -> XO (add_carry p q)
       | XO q -> XI (add p q)
       | XH -> XO (succ p))
    | XH ->
      (match y with
       | XI q -> XI (succ q)
       | XO q -> XO (succ q)
       | XH -> XI XH)

  (** val pred_double : positive -> positive **)

  let rec pred_double = function
  | XI p -> XI (XO p)
  | XO p -> XI (pred_double p)
  | XH -> XH

  type mask = Pos.mask =
  | IsNul
  | IsPos of positive
  | IsNeg

  (** val succ_double_mask : mask -> mask **)

  let succ_double_mask = function
  | IsNul -> IsPos XH
  | IsPos p -> IsPos (XI p)
  | IsNeg -> IsNeg

  (** val double_mask : mask -> mask **)

  let double_mask = function
  | IsPos p -> IsPos (XO p)
  | x0 -> x0

  (** val double_pred_mask : positive -> mask **)

  let double_pred_mask = function
  | XI p -> IsPos (XO (XO p))
  | XO p -> IsPos (XO (pred_double p))
  | XH -> IsNul

  (** val sub_mask : positive -> positive -> mask **)

  let rec sub_mask x y =
    match x with
    | XI p ->
      (match y with
       | XI q -> double_mask (sub_mask p q)
       | XO q -> succ_double_mask (sub_mask p q)
       | XH -> IsPos (XO p))
    | XO p ->
      (match y with
       | XI q -> succ_double_mask (sub_mask_carry p q)
       | XO q -> double_mask (sub_mask p q)
       | XH -> IsPos (pred_double p))
    | XH -> (match y with
             | XH -> IsNul
             | _ -> IsNeg)

  (** val sub_mask_carry : positive -> positive -> mask **)

  and sub_mask_carry x y =
    match x with
    | XI p ->
      (match y with
       | XI q -> succ_double_mask (sub_mask_carry p q)
       | XO q -> double_mask (sub_mask p q)
       | XH -> IsPos (pred_double p))
    | XO p ->
      (match y with
       | XI q -> double_mask (sub_mask_carry p q)
       | XO q -> succ_double_mask (sub_mask_carry p q)
       | XH -> double_pred_mask p)
    | XH -> IsNeg

  (** val mul : positive -> positive -> positive **)

  let rec mul x y =
    match x with
    | XI p -> add y (XO (mul p y))
    | XO p -> XO (mul p y)
    | XH -> y

  (** val iter : ('a1 -> 'a1) -> 'a1 -> positive -> 'a1 **)

  let rec iter f x = function
  | XI n' -> f (iter f (iter f x n') n')
  | XO n' -> iter f (iter f x n') n'
  | XH -> f x

  (** val pow : positive -> positive -> positive **)

  let pow x =
    iter (mul x) XH

  (** val compare_cont : comparison -> positive -> positive -> comparison **)

  let rec compare_cont r x y =
    match x with
    | XI p ->
      (match y with
       | XI q -> compare_cont r p q
       | XO q -> compare_cont Gt p q
       | XH -> Gt)
    | XO p ->
      (match y with
       | XI q -> compare_cont Lt p q
       | XO q -> compare_cont r p q
       | XH -> Gt)
    | XH -> (match y with
             | XH -> r
             | _ -> Lt)

  (** val compare : positive -> positive -> comparison **)

  let compare =
    compare_cont Eq

  (** val eqb : positive -> positive -> bool **)

  let rec eqb p q =
    match p with
    | XI p0 -> (match q with
                | XI q0 -> eqb p0 q0
                | _ -> false)
    | XO p0 -> (match q with
                | XO q0 -> eqb p0 q0
                | _ -> false)
    | XH -> (match q with
             | XH -> true
             | _ -> false)

  (** val iter_op : ('a1 -> 'a1 -> 'a1) -> positive -> 'a1 -> 'a1 **)

  let rec iter_op op p a =
    match p with
    | XI p0 -> op a (iter_op op p0 (op a a))
    | XO p0 -> iter_op op p0 (op a a)
    | XH -> a

  (** val to_nat : positive -> nat **)

  let to_nat x =
    iter_op Coq__1.add x (S O)

  (** val of_succ_nat : nat -> positive **)

  let rec of_succ_nat = function
  | O -> XH
  | S x -> succ (of_succ_nat x)
 end

module N =
 struct
  (** val succ_double : n -> n **)

  let succ_double = function
  | N0 -> Npos XH
  | Npos p -> Npos (XI p)

  (** val double : n -> n **)

  let double = function
  | N0 -> N0
  | Npos p -> Npos (XO p)

  (** val add : n -> n -> n **)

  let add n0 m =
    match n0 with
    | N0 -> m
    | Npos p -> (match m with
                 | N0 -> n0
                 | Npos q -> Npos (Coq_Pos.add p q))

  (** val sub : n -> n -> n **)

  let sub n0 m =
    match n0 with
    | N0 -> N0
    | Npos n' ->
      (match m with
       | N0 -> n0
       | Npos m' ->
         (match Coq_Pos.sub_mask n' m' with
          | Coq_Pos.IsPos p -> Npos p
          | _ -> N0))

  (** val mul : n -> n -> n **)

  let mul n0 m =
    match n0 with
    | N0 -> N0
    | Npos p -> (match m with
                 | N0 -> N0
                 | Npos q -> Npos (Coq_Pos.mul p q))

  (** val compare : n -> n -> comparison **)

  let compare n0 m =
    match n0 with
    | N0 -> (match m with
             | N0 -> Eq
             | Npos _ -> Lt)
    | Npos n' -> (match m with
                  | N0 -> Gt
                  | Npos m' -> Coq_Pos.compare n' m')

  (** val eqb : n -> n -> bool **)

  let eqb n0 m =
    match n0 with
    | N0 -> (match m with
             | N0 -> true
             | Npos _ -> false)
    | Npos p -> (match m with
                 | N0 -> false
                 | Npos q -> Coq_Pos.eqb p q)

  (** val leb : n -> n -> bool **)

  let leb x y =
    match compare x y with
    | Gt -> false
    | _ -> true

  (** val ltb : n -> n -> bool **)

  let ltb x y =
    match compare x y with
    | Lt -> true
    | _ -> false

  (** val pow : n -> n -> n **)

  let pow n0 = function
  | N0 -> Npos XH
  | Npos p0 -> (match n0 with
                | N0 -> N0
                | Npos q -> Npos (Coq_Pos.pow q p0))

  (** val pos_div_eucl : positive -> n -> n * n **)

  let rec pos_div_eucl a b =
    match a with
    | XI a' ->
      let (q, r) = pos_div_eucl a' b in
      let r' = succ_double r in
      if leb b r' then ((succ_double q), (sub r' b)) else ((double q), r')
    | XO a' ->
      let (q, r) = pos_div_eucl a' b in
      let r' = double r in
      if leb b r' then ((succ_double q), (sub r' b)) else ((double q), r')
    | XH ->
      (match b with
       | N0 -> (N0, (Npos XH))
       | Npos p -> (match p with
                    | XH -> ((Npos XH), N0)
                    | _ -> (N0, (Npos XH))))

  (** val div_eucl : n -> n -> n * n **)

  let div_eucl a b =
    match a with
    | N0 -> (N0, N0)
    | Npos na -> (match b with
                  | N0 -> (N0, a)
                  | Npos _ -> pos_div_eucl na b)

  (** val div : n -> n -> n **)

  let div a b =
    fst (div_eucl a b)

  (** val modulo : n -> n -> n **)

  let modulo a b =
    snd (div_eucl a b)

  (** val to_nat : n -> nat **)

  let to_nat = function
  | N0 -> O
  | Npos p -> Coq_Pos.to_nat p

  (** val of_nat : nat -> n **)

  let of_nat = function
  | O -> N0
  | S n' -> Npos (Coq_Pos.of_succ_nat n')
 end

module Z =
 struct
  (** val double : z -> z **)

  let double = function
  | Z0 -> Z0
  | Zpos p -> Zpos (XO p)
  | Zneg p -> Zneg (XO p)

  (** val succ_double : z -> z **)

  let succ_double = function
  | Z0 -> Zpos XH
  | Zpos p -> Zpos (XI p)
  | Zneg p -> Zneg (Coq_Pos.pred_double p)

  (** val pred_double : z -> z **)

  let pred_double = function
  | Z0 -> Zneg XH
  | Zpos p -> Zpos (Coq_Pos.pred_double p)
  | Zneg p -> Zneg (XI p)

  (** val pos_sub : positive -> positive -> z **)

  let rec pos_sub x y =
    match x with
    | XI p ->
      (match y with
       | XI q -> double (pos_sub p q)
       | XO q -> succ_double (pos_sub p q)
       | XH -> Zpos (XO p))
    | XO p ->
      (match y with
       | XI q -> pred_double (pos_sub p q)
       | XO q -> double (pos_sub p q)
       | XH -> Zpos (Coq_Pos.pred_double p))
    | XH ->
      (match y with
       | XI q -> Zneg (XO q)
       | XO q -> Zneg (Coq_Pos.pred_double q)
       | XH -> Z0)

  (** val add : z -> z -> z **)

  let add x y =
    match x with
    | Z0 -> y
    | Zpos x' ->
      (match y with
       | Z0 -> x
       | Zpos y' -> Zpos (Coq_Pos.add x' y')
       | Zneg y' -> pos_sub x' y')
    | Zneg x' ->
      (match y with
       | Z0 -> x
       | Zpos y' -> pos_sub y' x'
       | Zneg y' -> Zneg (Coq_Pos.add x' y'))

  (** val opp : z -> z **)

  let opp = function
  | Z0 -> Z0
  | Zpos x0 -> Zneg x0
  | Zneg x0 -> Zpos x0

  (** val sub : z -> z -> z **)

  let sub m n0 =
    add m (opp n0)

  (** val mul : z -> z -> z **)

  let mul x y =
    match x with
    | Z0 -> Z0
    | Zpos x' ->
      (match y with
       | Z0 -> Z0
       | Zpos y' -> Zpos (Coq_Pos.mul x' y')
       | Zneg y' -> Zneg (Coq_Pos.mul x' y'))
    | Zneg x' ->
      (match y with
       | Z0 -> Z0
       | Zpos y' -> Zneg (Coq_Pos.mul x' y')
       | Zneg y' -> Zpos (Coq_Pos.mul x' y'))

  (** val pow_pos : z -> positive -> z **)

  let pow_pos z0 =
    Coq_Pos.iter (mul z0) (Zpos XH)

  (** val pow : z -> z -> z **)

  let pow x = function
  | Z0 -> Zpos XH
  | Zpos p -> pow_pos x p
  | Zneg _ -> Z0

  (** val compare : z -> z -> comparison **)

  let compare x y =
    match x with
    | Z0 -> (match y with
             | Z0 -> Eq
             | Zpos _ -> Lt
             | Zneg _ -> Gt)
    | Zpos x' -> (match y with
                  | Zpos y' -> Coq_Pos.compare x' y'
                  | _ -> Gt)
    | Zneg x' ->
      (match y with
       | Zneg y' -> compOpp (Coq_Pos.compare x' y')
       | _ -> Lt)

  (** val leb : z -> z -> bool **)

  let leb x y =
    match compare x y with
    | Gt -> false
    | _ -> true

  (** val ltb : z -> z -> bool **)

  let ltb x y =
    match compare x y with
    | Lt -> true
    | _ -> false

  (** val eqb : z -> z -> bool **)

  let eqb x y =
    match x with
    | Z0 -> (match y with
             | Z0 -> true
             | _ -> false)
    | Zpos p -> (match y with
                 | Zpos q -> Coq_Pos.eqb p q
                 | _ -> false)
    | Zneg p -> (match y with
                 | Zneg q -> Coq_Pos.eqb p q
                 | _ -> false)

  (** val abs : z -> z **)

  let abs = function
  | Zneg p -> Zpos p
  | x -> x

  (** val to_N : z -> n **)

  let to_N = function
  | Zpos p -> Npos p
  | _ -> N0

  (** val of_N : n -> z **)

  let of_N = function
  | N0 -> Z0
  | Npos p -> Zpos p
 end

type bytes = n list

(** val is_byte : n -> bool **)

let is_byte b =
  N.ltb b (Npos (XO (XO (XO (XO (XO (XO (XO (XO XH)))))))))

(** val wf_bytesb : bytes -> bool **)

let wf_bytesb l =
  forallb is_byte l

(** val u64b : n -> bool **)

let u64b x =
  N.ltb x (N.pow (Npos (XO XH)) (Npos (XO (XO (XO (XO (XO (XO XH))))))))

(** val be : nat -> n -> bytes **)

let rec be k x =
  match k with
  | O -> []
  | S k' ->
    app (be k' (N.div x (Npos (XO (XO (XO (XO (XO (XO (XO (XO XH)))))))))))
      ((N.modulo x (Npos (XO (XO (XO (XO (XO (XO (XO (XO XH)))))))))) :: [])

(** val be_dec_acc : n -> bytes -> n **)

let rec be_dec_acc acc = function
| [] -> acc
| b :: r ->
  be_dec_acc
    (N.add (N.mul acc (Npos (XO (XO (XO (XO (XO (XO (XO (XO XH)))))))))) b) r

(** val be_dec : bytes -> n **)

let be_dec l =
  be_dec_acc N0 l

(** val uvarint_fuel : nat -> n -> bytes **)

let rec uvarint_fuel fuel x =
  match fuel with
  | O -> (N.modulo x (Npos (XO (XO (XO (XO (XO (XO (XO (XO XH)))))))))) :: []
  | S f ->
    if N.ltb x (Npos (XO (XO (XO (XO (XO (XO (XO XH))))))))
    then x :: []
    else (N.add (N.modulo x (Npos (XO (XO (XO (XO (XO (XO (XO XH)))))))))
           (Npos (XO (XO (XO (XO (XO (XO (XO XH))))))))) :: (uvarint_fuel f
                                                              (N.div x (Npos
                                                                (XO (XO (XO
                                                                (XO (XO (XO
                                                                (XO
                                                                XH))))))))))

(** val uvarint : n -> bytes **)

let uvarint x =
  uvarint_fuel (S (S (S (S (S (S (S (S (S O))))))))) x

(** val nlen : 'a1 list -> n **)

let nlen l =
  N.of_nat (length l)

(** val util_add : n -> n -> n **)

let util_add =
  N.add

(** val util_mul : n -> n -> n **)

let util_mul =
  N.mul

(** val util_divmod : n -> n -> n * n **)

let util_divmod =
  N.div_eucl

(** val colfer_fixed_threshold_marshal : n **)

let colfer_fixed_threshold_marshal =
  Npos (XO (XO (XO (XO (XO (XO (XO (XO (XO (XO (XO (XO (XO (XO (XO (XO (XO
    (XO (XO (XO (XO (XO (XO (XO (XO (XO (XO (XO (XO (XO (XO (XO (XO (XO (XO
    (XO (XO (XO (XO (XO (XO (XO (XO (XO (XO (XO (XO (XO (XO
    XH)))))))))))))))))))))))))))))))))))))))))))))))))

(** val colfer_fixed_threshold_size : n **)

let colfer_fixed_threshold_size =
  Npos (XO (XO (XO (XO (XO (XO (XO (XO (XO (XO (XO (XO (XO (XO (XO (XO (XO
    (XO (XO (XO (XO (XO (XO (XO (XO (XO (XO (XO (XO (XO (XO (XO (XO (XO (XO
    (XO (XO (XO (XO (XO (XO (XO (XO (XO (XO (XO (XO (XO (XO
    XH)))))))))))))))))))))))))))))))))))))))))))))))))

(** val colfer_size_max : n **)

let colfer_size_max =
  Npos (XO (XO (XO (XO (XO (XO (XO (XO (XO (XO (XO (XO (XO (XO (XO (XO (XO
    (XO (XO (XO (XO (XO (XO (XO (XO (XO (XO (XO (XO (XO (XO (XO (XO (XO (XO
    (XO (XO (XO (XO (XO (XO (XO (XO
    XH)))))))))))))))))))))))))))))))))))))))))))

(** val entry_non_cmd_fields_size : n **)

let entry_non_cmd_fields_size =
  Npos (XO (XO (XO (XO (XO (XO (XO XH)))))))

type entry = { e_term : n; e_index : n; e_type : z; e_key : n; e_client : 
               n; e_series : n; e_responded : n; e_cmd : bytes }

(** val int32b : z -> bool **)

let int32b z0 =
  (&&)
    (Z.leb (Z.opp (Z.pow (Zpos (XO XH)) (Zpos (XI (XI (XI (XI XH))))))) z0)
    (Z.ltb z0 (Z.pow (Zpos (XO XH)) (Zpos (XI (XI (XI (XI XH)))))))

(** val wf_entryb : entry -> bool **)

let wf_entryb e =
  (&&)
    ((&&)
      ((&&)
        ((&&)
          ((&&)
            ((&&)
              ((&&) ((&&) (u64b e.e_term) (u64b e.e_index)) (int32b e.e_type))
              (u64b e.e_key)) (u64b e.e_client)) (u64b e.e_series))
        (u64b e.e_responded)) (wf_bytesb e.e_cmd))
    (N.leb (nlen e.e_cmd) colfer_size_max)

(** val field64 : n -> n -> bytes **)

let field64 tag x =
  if N.leb colfer_fixed_threshold_marshal x
  then (N.add tag (Npos (XO (XO (XO (XO (XO (XO (XO XH))))))))) :: (be (S (S
                                                                    (S (S (S
                                                                    (S (S (S
                                                                    O))))))))
                                                                    x)
  else if N.eqb x N0 then [] else tag :: (uvarint x)

(** val field_type : z -> bytes **)

let field_type v =
  if Z.eqb v Z0
  then []
  else if Z.leb Z0 v
       then (Npos (XO XH)) :: (uvarint (Z.to_N v))
       else (N.add (Npos (XO XH)) (Npos (XO (XO (XO (XO (XO (XO (XO
              XH))))))))) :: (uvarint (Z.to_N (Z.opp v)))

(** val field_cmd : bytes -> bytes **)

let field_cmd c = match c with
| [] -> []
| _ :: _ -> (Npos (XI (XI XH))) :: (app (uvarint (nlen c)) c)

(** val encode : entry -> bytes **)

let encode e =
  app (field64 N0 e.e_term)
    (app (field64 (Npos XH) e.e_index)
      (app (field_type e.e_type)
        (app (field64 (Npos (XI XH)) e.e_key)
          (app (field64 (Npos (XO (XO XH))) e.e_client)
            (app (field64 (Npos (XI (XO XH))) e.e_series)
              (app (field64 (Npos (XO (XI XH))) e.e_responded)
                (app (field_cmd e.e_cmd) ((Npos (XI (XI (XI (XI (XI (XI
                  XH))))))) :: []))))))))

(** val varint_extra : nat -> n -> n **)

let rec varint_extra fuel x =
  match fuel with
  | O -> N0
  | S f ->
    if N.ltb x (Npos (XO (XO (XO (XO (XO (XO (XO XH))))))))
    then N0
    else N.add (Npos XH)
           (varint_extra f
             (N.div x (Npos (XO (XO (XO (XO (XO (XO (XO XH))))))))))

(** val size64 : n -> n **)

let size64 x =
  if N.leb colfer_fixed_threshold_size x
  then Npos (XI (XO (XO XH)))
  else if N.eqb x N0
       then N0
       else N.add (Npos (XO XH))
              (varint_extra (S (S (S (S (S (S (S (S (S O))))))))) x)

(** val size_type : z -> n **)

let size_type v =
  if Z.eqb v Z0
  then N0
  else N.add (Npos (XO XH))
         (varint_extra (S (S (S (S (S (S (S (S (S O)))))))))
           (Z.to_N (Z.abs v)))

(** val size_cmd : bytes -> n **)

let size_cmd c = match c with
| [] -> N0
| _ :: _ ->
  N.add (N.add (nlen c) (Npos (XO XH)))
    (varint_extra (S (S (S (S (S (S (S (S (S O))))))))) (nlen c))

(** val size : entry -> n **)

let size e =
  N.add
    (N.add
      (N.add
        (N.add
          (N.add
            (N.add
              (N.add (N.add (Npos XH) (size64 e.e_term)) (size64 e.e_index))
              (size_type e.e_type)) (size64 e.e_key)) (size64 e.e_client))
        (size64 e.e_series)) (size64 e.e_responded)) (size_cmd e.e_cmd)

(** val size_upper_limit : entry -> n **)

let size_upper_limit e =
  N.add entry_non_cmd_fields_size (nlen e.e_cmd)

type dec_result =
| DecOk of entry * n
| DecEOF
| DecBadHeader of n
| DecMax

(** val next1 : bytes -> (n * bytes) option **)

let next1 = function
| [] -> None
| b :: rest -> (match rest with
                | [] -> None
                | _ :: _ -> Some (b, rest))

(** val dec64 : nat -> n -> n -> bytes -> (n * bytes) option **)

let rec dec64 fuel shift acc d =
  match fuel with
  | O -> None
  | S f ->
    (match next1 d with
     | Some p ->
       let (b, rest) = p in
       if (||) (N.ltb b (Npos (XO (XO (XO (XO (XO (XO (XO XH)))))))))
            (N.eqb shift (Npos (XO (XO (XO (XI (XI XH)))))))
       then Some ((N.add acc (N.mul b (N.pow (Npos (XO XH)) shift))), rest)
       else dec64 f (N.add shift (Npos (XI (XI XH))))
              (N.add acc
                (N.mul
                  (N.modulo b (Npos (XO (XO (XO (XO (XO (XO (XO XH)))))))))
                  (N.pow (Npos (XO XH)) shift))) rest
     | None -> None)

(** val dec32 : nat -> n -> n -> bytes -> (n * bytes) option **)

let rec dec32 fuel shift acc d =
  match fuel with
  | O -> None
  | S f ->
    (match next1 d with
     | Some p ->
       let (b, rest) = p in
       if N.ltb b (Npos (XO (XO (XO (XO (XO (XO (XO XH))))))))
       then Some
              ((N.add acc
                 (N.modulo (N.mul b (N.pow (Npos (XO XH)) shift))
                   (N.pow (Npos (XO XH)) (Npos (XO (XO (XO (XO (XO XH))))))))),
              rest)
       else dec32 f (N.add shift (Npos (XI (XI XH))))
              (N.add acc
                (N.modulo
                  (N.mul
                    (N.modulo b (Npos (XO (XO (XO (XO (XO (XO (XO XH)))))))))
                    (N.pow (Npos (XO XH)) shift))
                  (N.pow (Npos (XO XH)) (Npos (XO (XO (XO (XO (XO XH)))))))))
              rest
     | None -> None)

(** val declen : nat -> n -> n -> bytes -> (n * bytes) option **)

let rec declen fuel shift acc d =
  match fuel with
  | O -> None
  | S f ->
    (match d with
     | [] -> None
     | b :: rest ->
       if N.ltb b (Npos (XO (XO (XO (XO (XO (XO (XO XH))))))))
       then Some
              ((N.add acc
                 (N.modulo (N.mul b (N.pow (Npos (XO XH)) shift))
                   (N.pow (Npos (XO XH)) (Npos (XO (XO (XO (XO (XO (XO
                     XH)))))))))), rest)
       else declen f (N.add shift (Npos (XI (XI XH))))
              (N.add acc
                (N.modulo
                  (N.mul
                    (N.modulo b (Npos (XO (XO (XO (XO (XO (XO (XO XH)))))))))
                    (N.pow (Npos (XO XH)) shift))
                  (N.pow (Npos (XO XH)) (Npos (XO (XO (XO (XO (XO (XO
                    XH)))))))))) rest)

type pst = n * bytes

(** val hd0 : bytes -> n **)

let hd0 d =
  hd N0 d

(** val dec_field64 : n -> pst -> (n option * pst) option **)

let dec_field64 tag st = match st with
| (h, d) ->
  if N.eqb h tag
  then (match dec64 (S (S (S (S (S (S (S (S (S (S O)))))))))) N0 N0 d with
        | Some p ->
          let (x, rest) = p in Some ((Some x), ((hd0 rest), (tl rest)))
        | None -> None)
  else if N.eqb h (N.add tag (Npos (XO (XO (XO (XO (XO (XO (XO XH)))))))))
       then if Nat.leb (length d) (S (S (S (S (S (S (S (S O))))))))
            then None
            else let rest = skipn (S (S (S (S (S (S (S (S O)))))))) d in
                 Some ((Some
                 (be_dec (firstn (S (S (S (S (S (S (S (S O)))))))) d))),
                 ((hd0 rest), (tl rest)))
       else Some (None, st)

(** val to_int32 : n -> z **)

let to_int32 x =
  let z0 =
    Z.of_N
      (N.modulo x (N.pow (Npos (XO XH)) (Npos (XO (XO (XO (XO (XO XH))))))))
  in
  if Z.ltb z0 (Z.pow (Zpos (XO XH)) (Zpos (XI (XI (XI (XI XH))))))
  then z0
  else Z.sub z0 (Z.pow (Zpos (XO XH)) (Zpos (XO (XO (XO (XO (XO XH)))))))

(** val dec_field_type : pst -> (z option * pst) option **)

let dec_field_type st = match st with
| (h, d) ->
  if N.eqb h (Npos (XO XH))
  then (match dec32
                (add (S (S (S (S (S (S (S (S (S (S O)))))))))) (length d)) N0
                N0 d with
        | Some p ->
          let (x, rest) = p in
          Some ((Some (to_int32 x)), ((hd0 rest), (tl rest)))
        | None -> None)
  else if N.eqb h
            (N.add (Npos (XO XH)) (Npos (XO (XO (XO (XO (XO (XO (XO
              XH)))))))))
       then (match dec32
                     (add (S (S (S (S (S (S (S (S (S (S O))))))))))
                       (length d)) N0 N0 d with
             | Some p ->
               let (x, rest) = p in
               Some ((Some
               (to_int32
                 (N.sub
                   (N.pow (Npos (XO XH)) (Npos (XO (XO (XO (XO (XO XH)))))))
                   (N.modulo x
                     (N.pow (Npos (XO XH)) (Npos (XO (XO (XO (XO (XO XH))))))))))),
               ((hd0 rest), (tl rest)))
             | None -> None)
       else Some (None, st)

type cmd_result =
| CmdNone
| CmdEOF
| CmdMax
| CmdOk of bytes * pst

(** val dec_field_cmd : pst -> cmd_result **)

let dec_field_cmd = function
| (h, d) ->
  if N.eqb h (Npos (XI (XI XH)))
  then (match declen
                (add (S (S (S (S (S (S (S (S (S (S O)))))))))) (length d)) N0
                N0 d with
        | Some p ->
          let (x, rest) = p in
          if N.ltb colfer_size_max x
          then CmdMax
          else if N.leb (nlen rest) x
               then CmdEOF
               else let n0 = N.to_nat x in
                    let rest' = skipn n0 rest in
                    CmdOk ((firstn n0 rest), ((hd0 rest'), (tl rest')))
        | None -> CmdEOF)
  else CmdNone

(** val opt_or : 'a1 option -> 'a1 -> 'a1 **)

let opt_or o d =
  match o with
  | Some x -> x
  | None -> d

(** val decode_from : n -> pst -> dec_result **)

let decode_from total st0 =
  match dec_field64 N0 st0 with
  | Some p ->
    let (term, st) = p in
    (match dec_field64 (Npos XH) st with
     | Some p0 ->
       let (index, st1) = p0 in
       (match dec_field_type st1 with
        | Some p1 ->
          let (ty, st2) = p1 in
          (match dec_field64 (Npos (XI XH)) st2 with
           | Some p2 ->
             let (key, st3) = p2 in
             (match dec_field64 (Npos (XO (XO XH))) st3 with
              | Some p3 ->
                let (client, st4) = p3 in
                (match dec_field64 (Npos (XI (XO XH))) st4 with
                 | Some p4 ->
                   let (series, st5) = p4 in
                   (match dec_field64 (Npos (XO (XI XH))) st5 with
                    | Some p5 ->
                      let (resp, st6) = p5 in
                      let fin = fun cmd st7 ->
                        let (h, rest) = st7 in
                        let consumed = N.sub total (nlen rest) in
                        if N.eqb h (Npos (XI (XI (XI (XI (XI (XI XH)))))))
                        then DecOk ({ e_term = (opt_or term N0); e_index =
                               (opt_or index N0); e_type = (opt_or ty Z0);
                               e_key = (opt_or key N0); e_client =
                               (opt_or client N0); e_series =
                               (opt_or series N0); e_responded =
                               (opt_or resp N0); e_cmd = cmd }, consumed)
                        else DecBadHeader (N.sub consumed (Npos XH))
                      in
                      (match dec_field_cmd st6 with
                       | CmdNone -> fin [] st6
                       | CmdEOF -> DecEOF
                       | CmdMax -> DecMax
                       | CmdOk (c, st') -> fin c st')
                    | None -> DecEOF)
                 | None -> DecEOF)
              | None -> DecEOF)
           | None -> DecEOF)
        | None -> DecEOF)
     | None -> DecEOF)
  | None -> DecEOF

(** val decode : bytes -> dec_result **)

let decode data = match data with
| [] -> DecEOF
| h :: d -> decode_from (nlen data) (h, d)
