From DB Require Import Base.Bytes Model.Chunks.
Require Extraction.
Require Import ExtrOcamlBasic.
Extraction Language OCaml.
Extraction "../ocaml/c15/model.ml" util_add util_mul util_divmod util_z
  get_chunks send_snapshot send_message witness_chunk stream_chunks stream_snapshot block_ranges path_base bad_name to_message
  init add tick close mark_removed step run
  snapshot_chunk_size snapshot_gc_tick snapshot_chunk_timeout_tick max_concurrent_slot
  transport_bin_version last_chunk_count snapshot_flag_filename snapshot_header_size block_file_magic witness_snapshot_filename
  drop_stream_on_invalid_chunk first_chunk_validated_before_discard record_checks_present.
