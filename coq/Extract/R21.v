From DB Require Import Base.Bytes Gen.GenR21 Model.RoleApi Model.LeaderReport.
Require Extraction.
Require Import ExtrOcamlBasic.
Extraction Language OCaml.
Extraction "../ocaml/r21/model.ml" util_add util_mul util_divmod role_unused_z role_unused_nat
  src_guards api_verdict api_enqueues api_calls_lookup args_ok src_start_replica auto_snapshot_possible
  witness_store payload_entries all_reports one_leader_named get_leader_id replica_state.
