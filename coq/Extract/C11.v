From DB Require Import Base.Bytes Gen.GenC11 Model.SMThreads Model.ApplyOrder.
Require Extraction.
Require Import ExtrOcamlBasic.
Extraction Language OCaml.
Definition c11_unused_z : Z := 0%Z.
Extraction "../ocaml/c11/model.ml" util_add util_mul util_divmod c11_unused_z
  calls_ok handle_tasks a_start calls_of streams_of a_err a_index.
