From DB Require Import Base.Bytes Base.CRC32 Gen.GenC14 Model.SnapshotHeader Model.BlockFile.
Require Extraction.
Require Import ExtrOcamlBasic.
Extraction Language OCaml.
Extraction "../ocaml/c14/model.ml" util_add util_mul util_divmod Z.of_N block_size
  crc32 crc_bytes header_marshal header_unmarshal header_block open_header validate_header
  flip_bit bw_init bw_write bw_close bw_payload_checksum out_bytes br_read
  sr_open sr_read sr_close read_session write_file_v2 write_file_v1
  v2_payload_size crc_offsets file_payload_checksum
  is_shrunk shrink empty_lru_session
  sv_add sv_validate validate_stream file_body payload_checksum snapshot_validate.
