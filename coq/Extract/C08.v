From DB Require Import Base.Bytes Model.Session Model.Membership Model.RsmApply.
Require Extraction.
Require Import ExtrOcamlBasic.
Extraction Language OCaml.
Extraction "../ocaml/c08/model.ml" util_add util_mul util_divmod rsmapply_unused_z N.ltb N.leb
  rsm_init rsm_apply_task rsm_run_entries rsm_entries_to_apply rsm_set_last_applied rsm_ready_to_stream rsm_prepare rsm_finish_save rsm_snapshot rsm_recover
  rsm_open_ondisk rsm_shrink rsm_mark_imported rsm_observe_mem
  get_compaction_index get_compaction_index_wrapping ninit nstep default_req.
