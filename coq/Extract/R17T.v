From DB Require Import Base.Bytes Gen.GenR17T Model.SendQueue.
Require Extraction.
Require Import ExtrOcamlBasic.
Extraction Language OCaml.
Extraction "../ocaml/r17t/model.ml" util_add util_mul util_divmod sq_unused_z sq_unused_nat send_worker_always_unregisters sq_init sq_step orphaned.
