From DB Require Import Base.Bytes Model.MsgQueue.
Require Extraction.
Require Import ExtrOcamlBasic.
Extraction Language OCaml.
Extraction "../ocaml/r17/model.ml" util_add util_mul util_divmod mq_unused_z mq_init mq_step mq_run.
