From DB Require Import Base.Bytes Model.LogStoreSpec Model.KV Model.LogDBPlain Model.LogDBBatched Model.TanIndex Model.LogBootSpec.
Require Extraction.
Require Import ExtrOcamlBasic.
Extraction Language OCaml.
Extraction "../ocaml/c09/model.ml" util_add util_mul util_divmod
  spec_init spec_wf_op spec_step spec_wf_query spec_answer c09_z_succ
  pdb_init plain_step plain_query canon
  index_update index_query
  batched_step batched_query
  bs_get bs_set bs_has boot_step.
