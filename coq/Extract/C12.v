From DB Require Import Base.Bytes Model.Requests.
Require Extraction.
Require Import ExtrOcamlBasic.
Extraction Language OCaml.
Extraction "../ocaml/c12/model.ml" util_add util_mul util_divmod requests_unused_z
  step init run drain_view sizes req_status req_released nreqs errcode
  clock_of shards_of add64 proposeB_outcome read_outcome lq_outcome cc_outcome ss_outcome.
