From DB Require Import Base.Bytes Model.NodeGlue.
Require Extraction.
Require Import ExtrOcamlBasic.
Extraction Language OCaml.
Extraction "../ocaml/r22/model.ml" util_add util_mul util_divmod ng_unused_z k_voter k_nonvoting k_witness shard_init shard_step shard_end.
