From DB Require Import Base.Bytes Model.Membership.
Require Extraction.
Require Import ExtrOcamlBasic.
Extraction Language OCaml.
Extraction "../ocaml/c07/model.ml" util_add util_mul util_divmod
  empty_membership m_get m_set m_is_empty handle_ascii address_equal_ascii
  run_ascii sm_run_ascii sm_recover cc_reqs observe kind_of cc_type_codes.
