From DB Require Import Base.Bytes Model.FS Model.SnapshotDir.
Require Extraction.
Require Import ExtrOcamlBasic.
Extraction Language OCaml.
Extraction "../ocaml/c16/model.ml" util_add util_mul util_divmod c16_unused_z
  init step run exec do_cmd do_cmds process_orphans vtree valid_snap is_shrunk flag_index cleanb dname_eqb fname_eqb
  dstep drun cmd_recover cmd_install init_recover restart_okb recorded_file
  cmd_entries cmd_save_ondisk ext_fullb is_dummy is_partial full_snap init_recover_reg startup_cleans.
