From DB Require Import Base.Bytes Model.Session Model.ClientSession.
Require Extraction.
Require Import ExtrOcamlBasic.
Extraction Language OCaml.
Extraction "../ocaml/c05/model.ml" util_add util_mul util_divmod session_unused_z N.ltb
  acc_step acc_snapshot acc_restore acc_install acc_init acc_save_table default_cap classify
  c_new c_prepare_for_propose c_prepare_for_register c_prepare_for_unregister c_proposal_completed.
