From DB Require Import Base.Bytes Model.RateQuiesce.
Require Extraction.
Require Import ExtrOcamlBasic.
Extraction Language OCaml.
Extraction "../ocaml/r17l/model.ml" util_add util_mul util_divmod rq_unused_z rq_unused_nat rl_new rl_step q_new q_step.
