From DB Require Import Base.Bytes Base.CRC32 Model.ImportTool.
Require Extraction.
Require Import ExtrOcamlBasic.
Extraction Language OCaml.
Extraction "../ocaml/c20/model.ml" util_add util_mul util_divmod
  check_import_settings check_member check_members get_processed observe_membership
  locate_snapshot_file has_all_external_files payload_checksum is_complete_image crc_offsets
  import_run import_prog mutating
  logdb_import tan_import apply_lsop empty_logstore ls_get_snapshot ls_visible_entries
  path_base mnorm z_of_n do_recover restart_recover is_shrunk_snapshot
  apply_tsop tan_import_t ts_visible_entries empty_tstore tool_store_dirs nodehost_store_dirs same_dirs.
