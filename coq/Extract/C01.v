From DB Require Import Base.Bytes Gen.GenC01 Model.Linearizability.
Require Extraction.
Require Import ExtrOcamlBasic.
Extraction Language OCaml.
Extraction "../ocaml/c01/model.ml" util_add util_mul util_divmod lin_unused_z
  outcome_of_code check_witness check_log weave assoc_nat log_state kv_get wf_histb.
