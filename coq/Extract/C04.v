From DB Require Import Base.Bytes Model.Engine.
Require Extraction.
Require Import ExtrOcamlBasic.
Extraction Language OCaml.
Extraction "../ocaml/c04/model.ml" util_add util_mul util_divmod N.ltb N.eqb
  process_step step_skeleton set_fast_apply validate_update wf_update ranges_overlap
  persist_update image0 last_durable covers_code covers update_covers
  trace_step trace_run trace_ok tstate0 trace_image project_all crash durable
  is_free_order_message engine_unused_z odsm_run odsm_ok.
