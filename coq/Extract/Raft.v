From DB Require Import Model.RaftCore Model.RaftNode.
From Coq Require Import ZArith.
Require Extraction.
Require Import ExtrOcamlBasic.
Extraction Language OCaml.
Definition util_add := N.add.
Definition util_mul := N.mul.
Definition util_divmod := N.div_eucl.
Definition util_z_of_n := Z.of_N.
Extraction "../ocaml/raft/model.ml" util_add util_mul util_divmod util_z_of_n
  launch node_update node_snapshot node_restart on_raft
  peer_tick peer_quiesced_tick peer_handle peer_propose peer_propose_cc peer_apply_cc peer_reject_cc
  peer_read_index peer_query_raft_log peer_leader_transfer peer_restore_remotes peer_unreachable peer_snapshot_status
  role_num log_first log_last log_term.
