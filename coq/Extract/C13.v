From DB Require Import Base.Bytes Model.CodecEntry Model.Frame Model.CodecProto Model.CodecUpdate Model.CodecPayload.
Require Extraction.
Require Import ExtrOcamlBasic.
Extraction Language OCaml.
Extraction "../ocaml/c13/model.ml" util_add util_mul util_divmod
  encode decode size size_upper_limit wf_entryb size_checked size_checked_len encode_head
  decode_outcome_len size_len size_upper_limit_len
  encode_header decode_header write_message write_header read_frame crc32 transport_encrypted serve_conn
  state_encode state_size state_decode state_size_upper
  session_encode session_size session_decode
  cc_encode cc_size cc_decode sf_encode sf_size sf_decode sh_encode sh_size sh_decode
  rds_encode rds_size rds_decode eb_encode eb_size eb_decode eb_size_upper
  mb_encode mb_size mb_decode bs_encode bs_size bs_decode sn_encode sn_size sn_decode
  msg_encode msg_size msg_decode msg_size_upper bt_encode bt_size bt_decode bt_size_upper
  ck_encode ck_size_of ck_decode
  update_encode update_decode update_size_upper get_encoded get_decoded.
