From DB Require Import Base.Bytes Model.CodecEntry Model.Frame.
Require Extraction.
Require Import ExtrOcamlBasic.
Extraction Language OCaml.
Extraction "../ocaml/c13/model.ml" util_add util_mul util_divmod
  encode decode size size_upper_limit wf_entryb
  encode_header decode_header write_message write_header read_frame crc32.
