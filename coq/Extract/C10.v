From DB Require Import Base.Bytes Model.LogStoreSpec Model.KV Model.LogDBPlain Model.LogDBBatched
  Model.LogDBFaulty Model.TanRecord.
Require Extraction.
Require Import ExtrOcamlBasic.
Extraction Language OCaml.
Extraction "../ocaml/c10/model.ml" util_add util_mul util_divmod
  c09_z_succ spec_init spec_wf_op spec_step
  fdb_init f_step_cur cur_flags recovered new_calls
  plain_query batched_query
  frame replay recoverable.
