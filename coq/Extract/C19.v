From DB Require Import Base.Bytes Model.LogSpec Model.LogView.
Require Extraction.
Require Import ExtrOcamlBasic.
Extraction Language OCaml.
Extraction "../ocaml/c19/model.ml" util_add util_mul util_divmod
  w_init w_init_rl w_init_opt st_remove_to lr_set_range isize step el_first el_last el_term el_get_entries el_to_save el_to_apply el_has_to_apply last_update
  c19_z_anchor sp_init sp_step wf_op sp_first sp_last sp_term sp_entries sp_to_save sp_to_apply sp_has_to_apply.
