(* Bit-serial reflected CRC-32 (IEEE 802.3, polynomial 0xEDB88320), the function
   Go's hash/crc32.ChecksumIEEE computes. Model only; lemmas in Proofs/CRC32.v. *)
From DB Require Export Base.Bytes.
Open Scope N_scope.

Definition crc_poly : N := 3988292384.      (* 0xEDB88320 *)
Definition crc_mask : N := 4294967295.      (* 0xFFFFFFFF *)

Definition crc_step (s : N) : N :=
  if N.testbit s 0 then N.lxor (N.shiftr s 1) crc_poly else N.shiftr s 1.

Fixpoint iter {A} (n : nat) (f : A -> A) (x : A) : A :=
  match n with O => x | S n' => iter n' f (f x) end.

Definition crc_byte (s b : N) : N := iter 8 crc_step (N.lxor s b).

(* raw register update over a byte string (crc32.Update on the inverted state) *)
Definition crc_update (s : N) (l : bytes) : N := fold_left crc_byte l s.

Definition crc32 (l : bytes) : N := N.lxor (crc_update crc_mask l) crc_mask.
