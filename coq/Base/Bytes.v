(* Shared byte-level helpers. Bytes are [N] values below 256. No proofs here. *)
From Coq Require Export List NArith ZArith Bool Lia.
Export ListNotations.
Open Scope N_scope.

Definition bytes := list N.

Definition is_byte (b : N) : bool := b <? 256.
Definition wf_bytes (l : bytes) : Prop := Forall (fun b => b < 256) l.
Definition wf_bytesb (l : bytes) : bool := forallb is_byte l.

Definition u64 (x : N) : Prop := x < 2 ^ 64.
Definition u64b (x : N) : bool := x <? 2 ^ 64.
Definition u32 (x : N) : Prop := x < 2 ^ 32.

(* big endian, fixed width: [be k x] = k bytes *)
Fixpoint be (k : nat) (x : N) : bytes :=
  match k with
  | O => []
  | S k' => be k' (x / 256) ++ [x mod 256]
  end.

Fixpoint be_dec_acc (acc : N) (l : bytes) : N :=
  match l with
  | [] => acc
  | b :: r => be_dec_acc (acc * 256 + b) r
  end.
Definition be_dec (l : bytes) : N := be_dec_acc 0 l.

(* little endian, fixed width *)
Fixpoint le (k : nat) (x : N) : bytes :=
  match k with
  | O => []
  | S k' => (x mod 256) :: le k' (x / 256)
  end.

Fixpoint le_dec (l : bytes) : N :=
  match l with
  | [] => 0
  | b :: r => b + 256 * le_dec r
  end.

(* base-128 little-endian varint used by both colfer and protobuf encoders.
   Go: for x >= 0x80 { buf[i] = byte(x|0x80); x >>= 7; i++ }; buf[i] = byte(x) *)
Fixpoint uvarint_fuel (fuel : nat) (x : N) : bytes :=
  match fuel with
  | O => [x mod 256]
  | S f => if x <? 128 then [x] else (x mod 128 + 128) :: uvarint_fuel f (x / 128)
  end.
Definition uvarint (x : N) : bytes := uvarint_fuel 9 x.

Definition nlen {A} (l : list A) : N := N.of_nat (length l).

(* utilities re-exported to the OCaml drivers *)
Definition util_add := N.add.
Definition util_mul := N.mul.
Definition util_divmod := N.div_eucl.
