(* R17T - transport sub-check of C17: a message handed to Transport.Send and accepted is
   either delivered, or dropped together with a failed connection that is reported as
   Unreachable; it never sits in a registered queue that no worker drains. Statements only;
   proofs in Proofs/SendQueue.v. [sq_run unreg ops] ranges over ALL interleavings of sends,
   worker deliveries, connection failures and idle time-outs for one target. *)
From Coq Require Import NArith List Bool Permutation.
From DB Require Import Gen.GenR17T Model.SendQueue Proofs.SendQueue.
Import ListNotations.
Open Scope N_scope.

(* tie G: the worker closure of Transport.send unregisters the queue on every exit *)
Theorem send_worker_unregisters_on_every_exit : send_worker_always_unregisters = true.
Proof. reflexivity. Qed.
Print Assumptions send_worker_unregisters_on_every_exit.

Theorem never_orphaned : forall ops, orphaned (sq_run send_worker_always_unregisters ops) = false.
Proof. rewrite send_worker_unregisters_on_every_exit. exact never_orphaned_proved. Qed.
Print Assumptions never_orphaned.

Theorem queued_has_consumer : forall ops,
  sq_queue (sq_run send_worker_always_unregisters ops) <> [] -> sq_worker (sq_run send_worker_always_unregisters ops) = true.
Proof. rewrite send_worker_unregisters_on_every_exit. exact queued_has_consumer_proved. Qed.
Print Assumptions queued_has_consumer.

Theorem accepted_accounted : forall ops,
  Permutation (sq_delivered (sq_run send_worker_always_unregisters ops) ++ sq_lost (sq_run send_worker_always_unregisters ops) ++
               sq_queue (sq_run send_worker_always_unregisters ops)) (sent ops).
Proof. rewrite send_worker_unregisters_on_every_exit. exact accepted_accounted_proved. Qed.
Print Assumptions accepted_accounted.

(* what goes wrong when only failed connections unregister the queue *)
Theorem idle_exit_orphans_refuted :
  exists ops, orphaned (sq_run false ops) = true /\
    forall more, let s := fold_left (sq_step false) (map SSend more ++ [SDeliver; SDeliver]) (sq_run false ops) in
      sq_delivered s = sq_delivered (sq_run false ops) /\ sq_unreachable s = 0.
Proof. exact idle_exit_orphans_refuted. Qed.
Print Assumptions idle_exit_orphans_refuted.
