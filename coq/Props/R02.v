(* R02 (sub-check of C02 / C03): the behaviours of the L1 model -- which is compared state
   by state with internal/raft on every run of the raft checks and of this one -- are
   behaviours of the abstract protocol L2 of the global safety theorems (Props/L2.v).

   The check is a run-time refinement mapping: ocaml/r02/driver.ml maps every L1 cluster
   state to an L2 state and asks, for every L1 operation, for L2 labels that lead from the
   L2 state before to the L2 state after.  The only trusted part of that search is the
   extracted [step_fn4_sim]; the theorems below say what its acceptance means:

     step_fn4_sound / run4_sound   an accepted label sequence is a sequence of steps of the
                                   relation [step4] the safety theorems are about,
     run4_reachable                so the state it ends in is a reachable state,
     cfg_sim_contract              the membership function the checker instantiates the
                                   model with (a mirror of the simulator's membership state
                                   machine, rejected requests included) meets the contract of
                                   the membership theorems,
     accepted_run_*                hence every safety theorem of the combined stage holds for
                                   every state of an accepted run.

   Statements only. *)
From DB Require Import Model.RaftNet Model.RaftNetSnap Model.RaftNetCfg Model.RaftNetCfgSnap
  Model.RaftNetCfgSnapExec Proofs.RaftNetCfgSafety Proofs.RaftNetCfgSnapExec.

Theorem step_fn4_sound : forall cfg_of is_cc s l s',
  step_fn4 cfg_of is_cc s l = Some s' -> step4 cfg_of is_cc s l s'.
Proof. exact RaftNetCfgSnapExec.step_fn4_sound. Qed.
Print Assumptions step_fn4_sound.

Theorem run4_sound : forall cfg_of is_cc ls s s',
  run4 cfg_of is_cc s ls = Some s' -> steps4 cfg_of is_cc s ls s'.
Proof. exact RaftNetCfgSnapExec.run4_sound. Qed.
Print Assumptions run4_sound.

Theorem run4_reachable : forall cfg_of is_cc ls s,
  run4 cfg_of is_cc init4 ls = Some s -> reachable4 cfg_of is_cc s.
Proof. exact RaftNetCfgSnapExec.run4_reachable. Qed.
Print Assumptions run4_reachable.

(* running a label list in two pieces is running it in one: the checker feeds the labels
   of one L1 operation after the other into the step function *)
Theorem run4_app : forall cfg_of is_cc ls1 ls2 s,
  run4 cfg_of is_cc s (ls1 ++ ls2) =
  match run4 cfg_of is_cc s ls1 with Some s1 => run4 cfg_of is_cc s1 ls2 | None => None end.
Proof. exact RaftNetCfgSnapExec.run4_app. Qed.
Print Assumptions run4_app.

Theorem cfg_sim_contract : forall C0, NoDup C0 -> cfg_contract (cfg_sim C0) is_cc_sim.
Proof. exact RaftNetCfgSnapExec.cfg_sim_contract. Qed.
Print Assumptions cfg_sim_contract.

(* ---- every state of an accepted run satisfies the safety theorems ---- *)

Theorem accepted_run_reachable : forall C0 ls s,
  run4_sim C0 init4 ls = Some s -> reachable4 (cfg_sim C0) is_cc_sim s.
Proof. exact RaftNetCfgSnapExec.accepted_reachable. Qed.
Print Assumptions accepted_run_reachable.

Theorem accepted_run_election_safety : forall C0, NoDup C0 -> forall ls s i j,
  run4_sim C0 init4 ls = Some s ->
  role (nodes (base3 (base4 s)) i) = Leader -> role (nodes (base3 (base4 s)) j) = Leader ->
  term (nodes (base3 (base4 s)) i) = term (nodes (base3 (base4 s)) j) -> i = j.
Proof. exact RaftNetCfgSnapExec.accepted_election_safety. Qed.
Print Assumptions accepted_run_election_safety.

Theorem accepted_run_log_matching : forall C0, NoDup C0 -> forall ls s i j k,
  run4_sim C0 init4 ls = Some s -> 1 <= k ->
  k <= length (log (nodes (base3 (base4 s)) i)) -> k <= length (log (nodes (base3 (base4 s)) j)) ->
  term_at (log (nodes (base3 (base4 s)) i)) k = term_at (log (nodes (base3 (base4 s)) j)) k ->
  firstn k (log (nodes (base3 (base4 s)) i)) = firstn k (log (nodes (base3 (base4 s)) j)).
Proof. exact RaftNetCfgSnapExec.accepted_log_matching. Qed.
Print Assumptions accepted_run_log_matching.

Theorem accepted_run_state_machine_safety : forall C0, NoDup C0 -> forall ls s a b k,
  run4_sim C0 init4 ls = Some s ->
  k <= commit (nodes (base3 (base4 s)) a) -> k <= commit (nodes (base3 (base4 s)) b) ->
  firstn k (log (nodes (base3 (base4 s)) a)) = firstn k (log (nodes (base3 (base4 s)) b)).
Proof. exact RaftNetCfgSnapExec.accepted_state_machine_safety. Qed.
Print Assumptions accepted_run_state_machine_safety.

Theorem accepted_run_committed_never_replaced : forall C0, NoDup C0 -> forall ls s ls' s' i k,
  run4_sim C0 init4 ls = Some s -> run4_sim C0 s ls' = Some s' ->
  k <= commit (nodes (base3 (base4 s)) i) ->
  firstn k (log (nodes (base3 (base4 s')) i)) = firstn k (log (nodes (base3 (base4 s)) i)).
Proof. exact RaftNetCfgSnapExec.accepted_committed_never_replaced. Qed.
Print Assumptions accepted_run_committed_never_replaced.

Theorem accepted_run_leader_completeness : forall C0, NoDup C0 -> forall ls s i k s1 ls' s2 j,
  run4_sim C0 init4 ls = Some s ->
  step_fn4_sim C0 s (L4Base (L3Base (LAdvanceCommit i k))) = Some s1 ->
  run4_sim C0 s1 ls' = Some s2 ->
  role (nodes (base3 (base4 s2)) j) = Leader ->
  term (nodes (base3 (base4 s)) i) < term (nodes (base3 (base4 s2)) j) ->
  firstn k (log (nodes (base3 (base4 s2)) j)) = firstn k (log (nodes (base3 (base4 s)) i)).
Proof. exact RaftNetCfgSnapExec.accepted_leader_completeness. Qed.
Print Assumptions accepted_run_leader_completeness.

Theorem accepted_run_applied_le_committed : forall C0, NoDup C0 -> forall ls s i,
  run4_sim C0 init4 ls = Some s -> applied (base4 s) i <= commit (nodes (base3 (base4 s)) i).
Proof. exact RaftNetCfgSnapExec.accepted_applied_le_committed. Qed.
Print Assumptions accepted_run_applied_le_committed.

Theorem accepted_run_snapshot_is_committed : forall C0 ls s i,
  run4_sim C0 init4 ls = Some s -> first4 s i <= commit (nodes (base3 (base4 s)) i).
Proof. exact RaftNetCfgSnapExec.accepted_snapshot_is_committed. Qed.
Print Assumptions accepted_run_snapshot_is_committed.

(* ---- non-vacuity ---- *)

(* bootstrap voters 1, 2, 3.  Node 1 is elected in term 1 with the vote of node 2, proposes
   "add voter 4" (payload 104), replicates to node 2, commits and applies it (its
   configuration becomes 4,1,2,3), compacts its log up to index 2 and sends its snapshot;
   node 4, new and empty, restores it. *)
Definition bs (l : label) : label4 := L4Base (L3Base l).
Definition cc104 : entry := mkE 1 104.

Definition run_e : list label4 :=
  [ bs (LTimeout 1); bs (LHigherTerm 2 1); bs (LHandleRV 2 1 1 0 0); bs (LBecomeLeader 1);
    bs (LPropose 1 104);
    bs (LSendAE 1 0 2 0); bs (LHandleAE 2 1 1 0 0 [noop 1; cc104] 0); bs (LSelfAck 1);
    bs (LAdvanceCommit 1 2);
    L4Base (L3Apply 1); L4Base (L3Apply 1);
    L4Compact 1 2; L4SendIS 1 2;
    bs (LHigherTerm 4 1); L4HandleIS 4 1 1 2 1 ].

Definition obs4 (o : option net4) (i : id) :=
  match o with
  | Some s => let x := l2_obs s i in
              Some (o_term x, o_role x, o_log x, o_commit x, o_applied x, o_first x,
                    l2_cfg [1; 2; 3] s i)
  | None => None
  end.

Example run_e_accepted :
  obs4 (run4_sim [1; 2; 3] init4 run_e) 1 = Some (1, 2, [noop 1; cc104], 2, 2, 2, [4; 1; 2; 3]) /\
  obs4 (run4_sim [1; 2; 3] init4 run_e) 2 = Some (1, 0, [noop 1; cc104], 0, 0, 0, [1; 2; 3]) /\
  obs4 (run4_sim [1; 2; 3] init4 run_e) 4 = Some (1, 0, [noop 1; cc104], 2, 0, 2, [1; 2; 3]).
Proof. vm_compute. repeat split. Qed.

(* the step function refuses what the relation does not allow: a second vote in a term, a
   commit without a quorum (after the change: 3 of 4), a Replicate below the snapshot, a
   second membership change while one is pending, a campaign with unapplied entries *)
Example run_e_refused :
  run4_sim [1; 2; 3] init4 (run_e ++ [bs (LTimeout 3); bs (LHandleRV 2 1 3 0 0)]) = None /\
  run4_sim [1; 2; 3] init4 (run_e ++ [bs (LPropose 1 7); bs (LSendAE 1 2 1 2);
                                      bs (LHandleAE 2 1 1 2 1 [mkE 1 7] 2); bs (LSelfAck 1);
                                      bs (LAdvanceCommit 1 3)]) = None /\
  run4_sim [1; 2; 3] init4 (run_e ++ [bs (LSendAE 1 1 1 0)]) = None /\
  run4_sim [1; 2; 3] init4 (firstn 5 run_e ++ [bs (LPropose 1 203)]) = None /\
  run4_sim [1; 2; 3] init4 (run_e ++ [bs (LTimeout 4)]) = None.
Proof. vm_compute. repeat split. Qed.

(* rejected requests leave the membership as it is: removing the last voter, bringing a
   removed replica back, a second role for a member *)
Example cfg_sim_rejections :
  cfg_sim [1] [mkE 1 201] = [1] /\
  cfg_sim [1; 2] [mkE 1 202; mkE 1 102] = [1] /\
  cfg_sim [1; 2] [mkE 1 303; mkE 1 403; mkE 1 103] = [3; 1; 2] /\
  cfg_sim [1; 2] [mkE 1 404; mkE 1 104; mkE 1 204] = [1; 2].
Proof. vm_compute. repeat split. Qed.
