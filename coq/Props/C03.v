(* C03 — at most one leader per term; leaders hold all committed entries; one vote per
   term, also across restarts.
   This file: the LOCAL half, proved on the faithful executable model of raft.go
   (Model/RaftCore.v, exact differential correspondence with internal/raft on every run):
   the per-replica facts from which the global argument starts. The GLOBAL half
   (election_safety, leader_completeness on the message-soup network built from replicas
   obeying exactly these local rules) is in Props/L2.v and is listed in DESIGN.md section 5.
   Statements only; proofs are in Proofs/. *)
From DB Require Import Model.RaftCore Model.RaftNode Proofs.RaftTable Proofs.RaftStep Proofs.RaftNodeLemmas.
Open Scope N_scope.

(* raft.Handle, for every message, state and recursion depth: the term never decreases *)
Theorem handle_term_monotone : forall f r m, r_term r <= r_term (handle f r m).
Proof. exact handle_term_monotone_proved. Qed.
Print Assumptions handle_term_monotone.

(* ... and while the term stays the same a vote once cast is never changed:
   a replica votes for at most one candidate per term *)
Theorem one_vote_per_term_local :
  forall f r m, r_term (handle f r m) = r_term r -> r_vote r <> 0 -> r_vote (handle f r m) = r_vote r.
Proof. exact handle_vote_stable_proved. Qed.
Print Assumptions one_vote_per_term_local.

(* the persistence step of every Update makes the hard state durable that the replica had
   when the update (and every message released with it) was produced *)
Theorem update_persists_hard_state :
  forall nd more la, prev_is_durable nd ->
    dstate_or_zero (fst (node_update nd more la)) = raft_state (nd_raft nd).
Proof. exact update_persists_hard_state_proved. Qed.
Print Assumptions update_persists_hard_state.

Theorem update_keeps_prev_durable :
  forall nd more la, prev_is_durable nd -> u_invalid (snd (node_update nd more la)) = false ->
    prev_is_durable (fst (node_update nd more la)).
Proof. exact update_keeps_prev_durable_proved. Qed.
Print Assumptions update_keeps_prev_durable.

(* crash + restart: term and vote come back exactly as persisted (so the vote of the
   current term survives the restart) *)
Theorem restart_reloads_term_and_vote :
  forall nd o t v c, nd_dstate nd = Some (t, v, c) ->
    ss_index (nd_dsnap nd) <= c ->
    c <= ss_index (nd_dsnap nd) + nlen (skipn (N.to_nat (ss_index (nd_dsnap nd) - nd_dmarker nd)) (nd_dents nd)) ->
    r_term (nd_raft (node_restart nd o)) = t /\ r_vote (nd_raft (node_restart nd o)) = v.
Proof. exact restart_reloads_term_and_vote_proved. Qed.
Print Assumptions restart_reloads_term_and_vote.

(* from the GENERATED handler table: vote responses are counted by candidates only, and
   the RequestVote handler is registered for RequestVote messages only *)
Theorem vote_responses_counted_by_candidates_only :
  forallb (fun s => match handler_of s mt_RequestVoteResp with H_none => true | _ => s =? st_candidate end)
          [st_follower; st_candidate; st_preVoteCandidate; st_leader; st_nonVoting; st_witness] = true.
Proof. exact vote_resp_only_candidate. Qed.
Print Assumptions vote_responses_counted_by_candidates_only.

Theorem request_vote_handler_only_for_request_vote :
  forall s t, handler_of s t = H_handleNodeRequestVote -> t = mt_RequestVote.
Proof. exact request_vote_handler_type. Qed.
Print Assumptions request_vote_handler_only_for_request_vote.

(* non-vacuity: a three-voter replica (bootstrap entries applied) that campaigns moves to term 2 and votes for itself;
   a second RequestVote of the same term from another candidate is refused *)
Example campaign_then_refuse :
  let nd := launch 1 Follower 3 1 false false [1; 2; 3] [[]; []; []] 3 in
  let r1 := raft_handle ((nd_raft nd) <| r_applied := 3 |>) ((msg0 mt_Election) <| m_from := 1 |>) in
  let r2 := raft_handle r1 ((msg0 mt_RequestVote) <| m_from := 2 |> <| m_to := 1 |> <| m_term := 2 |>
                              <| m_logindex := 3 |> <| m_logterm := 1 |>) in
  (r_term r1, r_vote r1, r_term r2, r_vote r2, map m_reject (r_msgs r2)) = (2, 1, 2, 1, [false; false; true]).
Proof. vm_compute. reflexivity. Qed.
